"""supervisor.events: every EventTypes member with its ancestor-or-self chain among the members (this is the
subscription semantics of notify(): isinstance), its abstract flag (class docstring/comment convention is not
machine readable, so: has registered proper descendants), and the registry order.

Independent of the code: the *documented* type hierarchy.  docs/events.rst has one "``X`` Event Type" section per
event type with a line "*Subtype Of*: ``Y``" (or N/A).  That table is emitted as `documented`; Props/C09 proves that
the registered types and their ancestor chains are exactly the documented ones, so a class that silently gains or
loses a base class (and with it subscribers) breaks a proof, and the monitors decide "subscribed" from this table
(`documented_hierarchy`), never from issubclass."""
import os, re
LEAN_MODULE = 'Events'
IMPORTS = []
OPENS = []

_HEAD = re.compile(r'^``([A-Z][A-Z_0-9]*)`` Event Type\s*$')
_SUB = re.compile(r'^\*Subtype Of\*:\s*(?:``([A-Z][A-Z_0-9]*)``|N/A)\s*$')


def documented_hierarchy(repo=None):
    """[(type name, documented parent name or None)] in document order, read from docs/events.rst of the tree under
    verification.  Raises ValueError when a type section has no (or more than one) *Subtype Of* line."""
    if repo is None:
        repo = os.environ.get('VERIF_REPO', '/repo')
    lines = open(os.path.join(repo, 'docs', 'events.rst'), encoding='utf-8').read().split('\n')
    res, cur = [], None
    for i, l in enumerate(lines):
        m = _HEAD.match(l)
        if m and i + 1 < len(lines) and set(lines[i + 1].strip()) == {'~'}:
            if cur is not None and len(cur[1]) != 1:
                raise ValueError('docs/events.rst: section %s has %d "Subtype Of" lines' % (cur[0], len(cur[1])))
            cur = (m.group(1), [])
            res.append(cur)
            continue
        m = _SUB.match(l.strip())
        if m and cur is not None:
            cur[1].append(m.group(1))
    if cur is not None and len(cur[1]) != 1:
        raise ValueError('docs/events.rst: section %s has %d "Subtype Of" lines' % (cur[0], len(cur[1])))
    if not res:
        raise ValueError('docs/events.rst: no event type sections found')
    return [(n, ps[0]) for n, ps in res]


def documented_chain(table, name):
    """name and its documented supertypes, nearest first (None when the name is not documented)"""
    d = dict(table)
    if name not in d:
        return None
    out = []
    while name is not None and name not in out:
        out.append(name)
        name = d.get(name)
    return out


# ---------------------------------------------------------------------------------------------------------------
# the callback registry: `callbacks`, subscribe(), unsubscribe(), notify() of supervisor/events.py as *shapes* that
# Model/Events.lean interprets (`subscribe`, `unsubscribe`, `delivers`).  Props/C09 proves over them that unsubscribing
# (type, callback) removes exactly that pair and leaves every other subscription alone.

def _registry_funcs():
    import ast
    from extract import REPO, find_func
    tree = ast.parse(open(os.path.join(REPO, 'supervisor', 'events.py')).read())
    return ast, tree, find_func


def _strip_doc(ast, body):
    return [st for st in body if not (isinstance(st, ast.Expr) and isinstance(st.value, ast.Constant))]


def _keep_condition(ast, e, tvar, cvar, tparam, cparam):
    """the keep-condition of a filtering comprehension over (t, c) pairs as a Lean Bool term over
    `sameType` (t is the unsubscribed type) and `sameCallback` (c equals the unsubscribed callback)"""
    from extract import Untranslatable
    src = ast.unparse
    if isinstance(e, ast.BoolOp):
        op = ' && ' if isinstance(e.op, ast.And) else ' || '
        return '(' + op.join(_keep_condition(ast, v, tvar, cvar, tparam, cparam) for v in e.values) + ')'
    if isinstance(e, ast.UnaryOp) and isinstance(e.op, ast.Not):
        return '(!' + _keep_condition(ast, e.operand, tvar, cvar, tparam, cparam) + ')'
    if isinstance(e, ast.Compare) and len(e.ops) == 1:
        l, r, op = src(e.left), src(e.comparators[0]), e.ops[0]
        pair = {l, r}
        pos = isinstance(op, (ast.Eq, ast.Is))
        if not isinstance(op, (ast.Eq, ast.NotEq, ast.Is, ast.IsNot)):
            raise Untranslatable('unsubscribe: comparison ' + src(e))
        if pair == {tvar, tparam}:
            return 'sameType' if pos else '(!sameType)'          # classes: `is` and `==` agree
        if pair == {cvar, cparam}:
            if isinstance(op, (ast.Is, ast.IsNot)):
                # a bound method is a fresh object on every attribute access: `c is callback` is never true
                return 'false' if pos else 'true'
            return 'sameCallback' if pos else '(!sameCallback)'
        if pair == {'(%s, %s)' % (tvar, cvar), '(%s, %s)' % (tparam, cparam)} and isinstance(op, (ast.Eq, ast.NotEq)):
            return '(sameType && sameCallback)' if pos else '(!(sameType && sameCallback))'
    raise Untranslatable('unsubscribe: keep-condition not covered: ' + src(e))


def registry_tables():
    from extract import Untranslatable
    ast, tree, find_func = _registry_funcs()
    src = ast.unparse
    out = ['', '-- supervisor/events.py: the callback registry `callbacks` (a list of (type, callback) pairs)',
           'inductive SubscribeShape where', '  | append      -- callbacks.append((type, callback))',
           '  | prepend     -- callbacks.insert(0, (type, callback))', 'deriving DecidableEq, Repr',
           'inductive UnsubscribeShape where', '  | removeFirst -- callbacks.remove((type, callback)): the first equal pair',
           '  | filter      -- callbacks[:] = [(t, c) for (t, c) in callbacks if <keep>]', 'deriving DecidableEq, Repr',
           'inductive NotifyTest where', '  | isinstance  -- if isinstance(event, type): callback(event)',
           '  | exactType   -- if type(event) is type / event.__class__ is type', 'deriving DecidableEq, Repr']
    # ---- subscribe
    f = find_func(tree, 'subscribe')
    params = [a.arg for a in f.args.args]
    body = _strip_doc(ast, f.body)
    shape = None
    if len(params) == 2 and len(body) == 1 and isinstance(body[0], ast.Expr) and isinstance(body[0].value, ast.Call):
        c = body[0].value
        pair = '(%s, %s)' % tuple(params)
        if src(c.func) == 'callbacks.append' and [src(a) for a in c.args] == [pair]:
            shape = 'append'
        elif src(c.func) == 'callbacks.insert' and [src(a) for a in c.args] == ['0', pair]:
            shape = 'prepend'
    out.append('-- subscribe:%d  %s' % (f.lineno, '; '.join(src(st) for st in body).replace('\n', ' ')))
    if shape:
        out.append('def subscribeShape : SubscribeShape := .%s' % shape)
    else:
        out.append('-- subscribeShape  UNTRANSLATED (expected callbacks.append((type, callback)))')
    # ---- unsubscribe
    f = find_func(tree, 'unsubscribe')
    params = [a.arg for a in f.args.args]
    body = _strip_doc(ast, f.body)
    out.append('-- unsubscribe:%d  %s' % (f.lineno, '; '.join(src(st) for st in body).replace('\n', ' ')))
    ushape, keep = None, 'true'
    try:
        if len(params) == 2 and len(body) == 1:
            st = body[0]
            pair = '(%s, %s)' % tuple(params)
            if isinstance(st, ast.Expr) and isinstance(st.value, ast.Call) and src(st.value.func) == 'callbacks.remove' \
                    and [src(a) for a in st.value.args] == [pair]:
                ushape = 'removeFirst'
            elif isinstance(st, ast.Assign) and len(st.targets) == 1 and src(st.targets[0]) == 'callbacks[:]' \
                    and isinstance(st.value, ast.ListComp) and len(st.value.generators) == 1:
                g = st.value.generators[0]
                if isinstance(g.target, ast.Tuple) and len(g.target.elts) == 2 and all(isinstance(x, ast.Name) for x in g.target.elts) \
                        and src(g.iter) in ('callbacks', 'list(callbacks)', 'callbacks[:]') \
                        and src(st.value.elt) == src(g.target) and not g.is_async:
                    tv, cv = g.target.elts[0].id, g.target.elts[1].id
                    conds = [_keep_condition(ast, c, tv, cv, params[0], params[1]) for c in g.ifs]
                    keep = ' && '.join(conds) if conds else 'true'
                    ushape = 'filter'
    except Untranslatable as ex:
        out.append('-- unsubscribeShape  UNTRANSLATED (%s)' % ex)
        ushape = 'error'
    if ushape in ('removeFirst', 'filter'):
        out.append('def unsubscribeShape : UnsubscribeShape := .%s' % ushape)
        out.append('-- the keep-condition of the filter (unused by removeFirst)')
        out.append('def unsubKeep (sameType sameCallback : Bool) : Bool := %s' % keep)
    elif ushape is None:
        out.append('-- unsubscribeShape  UNTRANSLATED (expected callbacks.remove((type, callback)) or a filtering comprehension)')
    # ---- notify
    f = find_func(tree, 'notify')
    params = [a.arg for a in f.args.args]
    body = _strip_doc(ast, f.body)
    out.append('-- notify:%d  %s' % (f.lineno, '; '.join(src(st) for st in body).replace('\n', ' ')))
    test = None
    if len(params) == 1 and len(body) == 1 and isinstance(body[0], ast.For) and not body[0].orelse:
        lp = body[0]
        if isinstance(lp.target, ast.Tuple) and len(lp.target.elts) == 2 and src(lp.iter) in ('callbacks', 'list(callbacks)', 'callbacks[:]') \
                and len(lp.body) == 1 and isinstance(lp.body[0], ast.If) and not lp.body[0].orelse:
            tv, cv = src(lp.target.elts[0]), src(lp.target.elts[1])
            iff = lp.body[0]
            calls = [src(s) for s in iff.body]
            if calls == ['%s(%s)' % (cv, params[0])]:
                t = src(iff.test)
                if t == 'isinstance(%s, %s)' % (params[0], tv):
                    test = 'isinstance'
                elif t in ('type(%s) is %s' % (params[0], tv), '%s.__class__ is %s' % (params[0], tv),
                           'type(%s) == %s' % (params[0], tv), '%s.__class__ == %s' % (params[0], tv)):
                    test = 'exactType'
    if test:
        out.append('def notifyTest : NotifyTest := .%s' % test)
    else:
        out.append('-- notifyTest  UNTRANSLATED (expected: for type, callback in callbacks: if isinstance(event, type): callback(event))')
    return out


def TABLES():
    from supervisor import events
    ET = events.EventTypes
    members = [(k, v) for k, v in vars(ET).items() if not k.startswith('_') and isinstance(v, type)]
    out = ['-- supervisor/events.py EventTypes (registry order)']
    out.append('inductive Cls where')
    for k, v in members:
        out.append('  | %s' % k)
    out.append('deriving DecidableEq, Repr, Inhabited')
    out.append('def Cls.all : List Cls := [%s]' % ', '.join('.' + k for k, v in members))
    out.append('def Cls.name : Cls → String')
    for k, v in members:
        out.append('  | .%s => "%s"' % (k, k))
    out.append('-- issubclass(member, other member): ancestor-or-self, nearest first')
    out.append('def Cls.ancestors : Cls → List Cls')
    for k, v in members:
        anc = [k2 for c in v.__mro__ for k2, v2 in members if v2 is c]
        out.append('  | .%s => [%s]' % (k, ', '.join('.' + a for a in anc)))
    out.append('-- has a registered proper subclass (the "abstract" types of docs/events.rst)')
    out.append('def Cls.abstract : Cls → Bool')
    for k, v in members:
        ab = any(v2 is not v and issubclass(v2, v) for k2, v2 in members)
        out.append('  | .%s => %s' % (k, 'true' if ab else 'false'))
    out.append('-- EventRejectedEvent is deliberately not an Event: isinstance(EventRejectedEvent(...), Event)')
    out.append('def rejectedIsEvent : Bool := %s' % ('true' if issubclass(events.EventRejectedEvent, events.Event) else 'false'))
    doc = documented_hierarchy()
    out.append('-- docs/events.rst: every "``X`` Event Type" section with its "*Subtype Of*" line (document order)')
    out.append('def documented : List (String × Option String) := [%s]' % ', '.join(
        '("%s", %s)' % (n, 'some "%s"' % p if p else 'none') for n, p in doc))
    out.extend(registry_tables())
    return out
