import SupervisorModel.Model.Pool
/-
  Serial counters (`new_serial`, `GlobalSerial`, `EventListenerPool.serial`): what the k-th draw of a counter
  returns, and the bookkeeping invariant `Chain` relating a list of optional serials (in event order) to the
  counter that handed them out.  Used by Lemmas/PoolLedger.lean for Props.C09.serial_unique /
  poolserial_increasing.
-/
set_option linter.unusedSimpArgs false
set_option linter.unusedVariables false
namespace Sv.Pool
open Sv.Gen.Pool

/-- the serial returned by the `k`-th call (k = 0, 1, …) of `new_serial` on a fresh counter: the counter counts
    from 0 and, because `new_serial` resets it to -1 when it has reached `maxint`, starts again at 0 after
    `maxint + 1` calls -/
def serAt (k : Nat) : Int := (k : Int) % (maxint + 1)

/-- the value of a counter after `k` calls of `new_serial` -/
def ctrAfter (k : Nat) : Int := if k = 0 then initialSerial else serAt (k - 1)

theorem newSerial_ctrAfter (k : Nat) : newSerial (ctrAfter k) = serAt k := by
  unfold newSerial ctrAfter serAt newSerial_g0 newSerial_a0 newSerial_a1 newSerial_a2 initialSerial maxint
  by_cases hk : k = 0
  · subst hk; simp
  · simp only [hk, if_false, beq_iff_eq]
    have : ((k - 1 : Nat) : Int) = (k : Int) - 1 := by omega
    rw [this]
    split <;> omega

theorem ctrAfter_succ (k : Nat) : ctrAfter (k + 1) = serAt k := by simp [ctrAfter]

theorem serAt_range (k : Nat) : 0 ≤ serAt k ∧ serAt k ≤ maxint := by
  unfold serAt maxint; omega

theorem serAt_small (k : Nat) (h : (k : Int) ≤ maxint) : serAt k = k := by
  unfold serAt maxint at *; omega

/-- two draws fewer than `maxint + 1` calls apart return different serials -/
theorem serAt_ne (j k : Nat) (h1 : j < k) (h2 : ((k - j : Nat) : Int) ≤ maxint) : serAt j ≠ serAt k := by
  unfold serAt maxint at *; omega

/-- without a wrap in between, later draws return larger serials -/
theorem serAt_lt (j k : Nat) (h1 : j < k) (h2 : (k : Int) ≤ maxint) : serAt j < serAt k := by
  unfold serAt maxint at *; omega

/-- how many of the first `e` entries carry a serial -/
def cnt (l : List (Option Int)) : Nat → Nat
  | 0 => 0
  | e + 1 => cnt l e + (if ((l[e]?).bind id).isSome then 1 else 0)

theorem cnt_congr (l l' : List (Option Int)) : ∀ (e : Nat), (∀ k, k < e → l'[k]? = l[k]?) → cnt l' e = cnt l e
  | 0, _ => rfl
  | e + 1, h => by
    simp only [cnt]
    rw [cnt_congr l l' e (fun k hk => h k (by omega)), h e (by omega)]

theorem cnt_mono (l : List (Option Int)) (a : Nat) : ∀ (b : Nat), a ≤ b → cnt l a ≤ cnt l b ∧ cnt l b - cnt l a ≤ b - a
  | 0, h => by have : a = 0 := by omega
               subst this; simp
  | b + 1, h => by
    by_cases hab : a = b + 1
    · subst hab; simp
    · have ih := cnt_mono l a b (by omega)
      simp only [cnt]
      split <;> omega

theorem cnt_lt (l : List (Option Int)) (a b : Nat) (x : Int) (hab : a < b) (ha : l[a]? = some (some x)) :
    cnt l a < cnt l b := by
  have h1 : cnt l (a + 1) = cnt l a + 1 := by simp [cnt, ha]
  have h2 := (cnt_mono l (a + 1) b (by omega)).1
  omega

theorem cnt_le_self (l : List (Option Int)) (a : Nat) : cnt l a ≤ a := by
  have := (cnt_mono l 0 a (by omega)).2
  simp [cnt] at this; omega

/-- `l` lists, in event order, the serial each event got from one counter (or `none`); `g` is that counter now:
    the event that got the `k`-th serial carries `serAt k`, and the counter has been drawn exactly as many times as
    there are serials in the list -/
def Chain (l : List (Option Int)) (g : Int) : Prop :=
  (∀ e a, l[e]? = some (some a) → a = serAt (cnt l e)) ∧ g = ctrAfter (cnt l l.length)

theorem chain_nil : Chain [] initialSerial := ⟨by intro e a h; simp at h, by simp [cnt, ctrAfter]⟩

/-- a new event (no serial yet) is appended -/
theorem chain_snoc (l : List (Option Int)) (g : Int) (h : Chain l g) : Chain (l ++ [none]) g := by
  have hc : ∀ e, e ≤ l.length → cnt (l ++ [none]) e = cnt l e := by
    intro e he
    exact cnt_congr l _ e (fun k hk => by rw [List.getElem?_append_left (by omega)])
  refine ⟨?_, ?_⟩
  · intro e a hea
    by_cases he : e < l.length
    · rw [List.getElem?_append_left he] at hea
      rw [hc e (by omega)]; exact h.1 e a hea
    · by_cases he2 : e = l.length
      · subst he2; simp at hea
      · rw [List.getElem?_eq_none (by simp; omega)] at hea; cases hea
  · have : cnt (l ++ [none]) (l ++ [none]).length = cnt l l.length := by
      simp only [List.length_append, List.length_singleton, cnt]
      rw [hc _ (Nat.le_refl _)]
      simp
    rw [this]; exact h.2

/-- the newest event draws from the counter -/
theorem chain_draw (l l' : List (Option Int)) (g : Int) (e : Nat) (h : Chain l g) (hlen : l'.length = l.length)
    (hlast : e + 1 = l.length) (hnone : l[e]? = some none) (hnew : l'[e]? = some (some (newSerial g)))
    (hsame : ∀ k, k ≠ e → l'[k]? = l[k]?) : Chain l' (newSerial g) := by
  have hc : ∀ k, k ≤ e → cnt l' k = cnt l k := by
    intro k hk
    exact cnt_congr l l' k (fun j hj => hsame j (by omega))
  have hle : cnt l l.length = cnt l e := by
    rw [← hlast]; simp [cnt, hnone]
  have hg : newSerial g = serAt (cnt l e) := by rw [h.2, hle]; exact newSerial_ctrAfter _
  refine ⟨?_, ?_⟩
  · intro k a hka
    by_cases hke : k = e
    · subst hke
      rw [hnew] at hka
      simp only [Option.some.injEq] at hka
      rw [← hka, hc k (Nat.le_refl _)]; exact hg
    · have hk : k < e := by
        have : k < l'.length := by
          rcases Nat.lt_or_ge k l'.length with h | h
          · exact h
          · rw [List.getElem?_eq_none h] at hka; cases hka
        omega
      rw [hsame k hke] at hka
      rw [hc k (by omega)]; exact h.1 k a hka
  · rw [hlen, ← hlast]
    simp only [cnt, hnew, Option.bind_some, id, Option.isSome_some, if_true]
    rw [hc e (Nat.le_refl _), ctrAfter_succ]; exact hg

theorem chain_eq (l l' : List (Option Int)) (g g' : Int) (h : Chain l g) (hl : l' = l) (hg : g' = g) : Chain l' g' := by
  subst hl; subst hg; exact h

/-- serials handed out by one counter fewer than `maxint + 1` events apart differ -/
theorem chain_unique (l : List (Option Int)) (g : Int) (h : Chain l g) (e1 e2 : Nat) (a1 a2 : Int) (hlt : e1 < e2)
    (h1 : l[e1]? = some (some a1)) (h2 : l[e2]? = some (some a2)) (hw : ((e2 - e1 : Nat) : Int) ≤ maxint) : a1 ≠ a2 := by
  rw [h.1 e1 a1 h1, h.1 e2 a2 h2]
  have hc := cnt_lt l e1 e2 a1 hlt h1
  have hd := (cnt_mono l e1 e2 (by omega)).2
  exact serAt_ne _ _ hc (by omega)

/-- as long as the counter has not wrapped, serials increase with the event order -/
theorem chain_increasing (l : List (Option Int)) (g : Int) (h : Chain l g) (e1 e2 : Nat) (a1 a2 : Int) (hlt : e1 < e2)
    (h1 : l[e1]? = some (some a1)) (h2 : l[e2]? = some (some a2)) (hw : (e2 : Int) ≤ maxint) : a1 < a2 := by
  rw [h.1 e1 a1 h1, h.1 e2 a2 h2]
  have hc := cnt_lt l e1 e2 a1 hlt h1
  have := cnt_le_self l e2
  exact serAt_lt _ _ hc (by omega)

end Sv.Pool
