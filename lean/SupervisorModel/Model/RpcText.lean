import SupervisorModel.Basic.Bytes
/-
  Text of an XML-RPC response body: a Python `str` is a list of code points; `as_bytes` /
  `str.encode('utf-8')` is `utf8Of`.  Used by the generated definitions of the response builders
  (Generated/Rpc.lean) and by Model/Rpc.lean.
-/
namespace Sv.Rpc

/-- UTF-8 encoding of one code point -/
def utf8Char (c : Char) : Bytes :=
  let n := c.toNat
  if n < 0x80 then [UInt8.ofNat n]
  else if n < 0x800 then [UInt8.ofNat (0xC0 + n / 64), UInt8.ofNat (0x80 + n % 64)]
  else if n < 0x10000 then
    [UInt8.ofNat (0xE0 + n / 4096), UInt8.ofNat (0x80 + n / 64 % 64), UInt8.ofNat (0x80 + n % 64)]
  else
    [UInt8.ofNat (0xF0 + n / 262144), UInt8.ofNat (0x80 + n / 4096 % 64), UInt8.ofNat (0x80 + n / 64 % 64),
     UInt8.ofNat (0x80 + n % 64)]

/-- `as_bytes(text)` -/
def utf8Of (s : List Char) : Bytes := s.flatMap utf8Char

end Sv.Rpc

/-!
  ## The other direction: `bytes.decode('utf-8')` (strict) and the str/bytes helpers of supervisor.compat

  The request body of an XML-RPC call reaches the server as the byte chunks the socket happens to
  deliver.  `supervisor.medusa.xmlrpc_handler.collector` keeps them and hands `continue_request`
  one text.  The generated definitions `collKept` (what is kept per chunk) and `collFound_c0_0`
  (what is handed over) are expressions over the helpers below; `Except.error` = the exception raised.
-/
namespace Sv.Rpc

/-- state of the strict UTF-8 decoder between two bytes: characters decoded so far (in order),
    continuation bytes still owed, the code point bits gathered, and the admissible range of the next
    continuation byte (narrower than 80..BF after E0, ED, F0, F4: no overlong forms, no surrogates,
    nothing above U+10FFFF — Unicode table 3-7, which is what CPython's decoder accepts) -/
structure Dec where
  out : List Char
  need : Nat
  acc : Nat
  lo : Nat
  hi : Nat
deriving DecidableEq, Repr

def Dec.init : Dec := { out := [], need := 0, acc := 0, lo := 0x80, hi := 0xBF }

/-- one byte; `none` = UnicodeDecodeError (invalid start byte / invalid continuation byte) -/
def Dec.step (d : Dec) (b : UInt8) : Option Dec :=
  let n := b.toNat
  match d.need with
  | 0 =>
    if n < 0x80 then some { d with out := d.out ++ [Char.ofNat n] }
    else if n < 0xC2 then none
    else if n < 0xE0 then some { d with need := 1, acc := n - 0xC0, lo := 0x80, hi := 0xBF }
    else if n < 0xF0 then
      some { d with need := 2, acc := n - 0xE0, lo := (if n = 0xE0 then 0xA0 else 0x80), hi := (if n = 0xED then 0x9F else 0xBF) }
    else if n < 0xF5 then
      some { d with need := 3, acc := n - 0xF0, lo := (if n = 0xF0 then 0x90 else 0x80), hi := (if n = 0xF4 then 0x8F else 0xBF) }
    else none
  | k+1 =>
    if d.lo ≤ n ∧ n ≤ d.hi then
      let acc := d.acc * 64 + (n - 0x80)
      match k with
      | 0 => some { out := d.out ++ [Char.ofNat acc], need := 0, acc := 0, lo := 0x80, hi := 0xBF }
      | k'+1 => some { d with need := k'+1, acc := acc, lo := 0x80, hi := 0xBF }
    else none

def Dec.run : Option Dec → Bytes → Option Dec
  | d, [] => d
  | none, _ => none
  | some d, b :: bs => Dec.run (d.step b) bs

/-- end of input: an unfinished character is "unexpected end of data" -/
def Dec.finish : Option Dec → Option (List Char)
  | some d => if d.need = 0 then some d.out else none
  | none => none

/-- `b.decode('utf-8')` (errors='strict'): the text, or `none` = UnicodeDecodeError -/
def decodeUtf8 (b : Bytes) : Option (List Char) := Dec.finish (Dec.run (some Dec.init) b)

/-- a Python 3 value that is `bytes` or `str` -/
inductive PyStr
  | bytes (b : Bytes)
  | text (t : List Char)
deriving DecidableEq, Repr

/-- `supervisor.compat.as_string(s)`: a str is returned as it is, bytes are decoded (strictly) -/
def asString : PyStr → Except String PyStr
  | .text t => .ok (.text t)
  | .bytes b =>
    match decodeUtf8 b with
    | some t => .ok (.text t)
    | none => .error "UnicodeDecodeError"

/-- `supervisor.compat.as_bytes(s)` -/
def asBytes : PyStr → Except String PyStr
  | .bytes b => .ok (.bytes b)
  | .text t => .ok (.bytes (utf8Of t))

/-- `x.decode('utf-8')`: only bytes have it -/
def pyDecode : PyStr → Except String PyStr
  | .bytes b => asString (.bytes b)
  | .text _ => .error "AttributeError"

/-- `b''.join(xs)`: every item must be bytes -/
def joinBytes : List PyStr → Except String PyStr
  | [] => .ok (.bytes [])
  | .bytes b :: r =>
    match joinBytes r with
    | .ok (.bytes b') => .ok (.bytes (b ++ b'))
    | .ok (.text _) => .error "TypeError"
    | .error e => .error e
  | .text _ :: _ => .error "TypeError"

/-- `''.join(xs)`: every item must be str -/
def joinText : List PyStr → Except String PyStr
  | [] => .ok (.text [])
  | .text t :: r =>
    match joinText r with
    | .ok (.text t') => .ok (.text (t ++ t'))
    | .ok (.bytes _) => .error "TypeError"
    | .error e => .error e
  | .bytes _ :: _ => .error "TypeError"

/-- `a + b` on str/bytes -/
def pyConcat : PyStr → PyStr → Except String PyStr
  | .bytes a, .bytes b => .ok (.bytes (a ++ b))
  | .text a, .text b => .ok (.text (a ++ b))
  | _, _ => .error "TypeError"

end Sv.Rpc
