"""supervisor.events as a plain table for C11: every Event class of the module with a numeric id, the EventTypes
registry (name -> class id, in dict order, exactly what getEventNameByType iterates over), which classes are
concrete (no subclass in the module: the ones supervisor instantiates), TICK_EVENTS with their periods."""
LEAN_MODULE = 'EventNames'
IMPORTS = []
OPENS = []


def TABLES():
    from supervisor import events
    from extract import lean_str
    classes = [v for k, v in vars(events).items() if isinstance(v, type) and issubclass(v, events.Event)]
    reg = [(k, v) for k, v in vars(events.EventTypes).items() if not k.startswith('_')]
    for k, v in reg:
        if v not in classes:
            classes.append(v)
    cid = {c: i for i, c in enumerate(classes)}
    out = ['-- every Event class defined in supervisor/events.py: (id, python class name)']
    out.append('def classes : List (Nat × String) := [%s]' % ', '.join('(%d, %s)' % (cid[c], lean_str(c.__name__)) for c in classes))
    out.append('-- EventTypes.__dict__ in iteration order: (registered name, class id)')
    out.append('def registry : List (String × Nat) := [%s]' % ', '.join('(%s, %d)' % (lean_str(k), cid[v]) for k, v in reg))
    conc = [c for c in classes if not any(d is not c and issubclass(d, c) for d in classes)]
    out.append('-- classes without a subclass in the module (the ones that are instantiated)')
    out.append('def concrete : List Nat := [%s]' % ', '.join(str(cid[c]) for c in conc))
    out.append('-- events.TICK_EVENTS: (class id, period in seconds)')
    out.append('def tickEvents : List (Nat × Int) := [%s]' % ', '.join('(%d, %d)' % (cid[c], c.period) for c in events.TICK_EVENTS))
    return out
