import SupervisorModel.Basic.Bytes
import SupervisorModel.Basic.St
/-
  Types of the Subprocess model (supervisor/process.py).  Time is `Int` in ticks of 1/1024 s;
  configured durations are held in ticks.
-/
namespace Sv.Proc

inductive PS | stopped | starting | running | backoff | stopping | exited | fatal | unknown
deriving DecidableEq, Repr

inductive AutoRestart | never | unexpected | always
deriving DecidableEq, Repr

structure Cfg where
  startsecs : Int
  startretries : Int
  autostart : Bool
  autorestart : AutoRestart
  exitcodes : List Int
  stopsignal : Int
  stopwaitsecs : Int
  stopasgroup : Bool
  killasgroup : Bool
deriving Repr

structure Proc where
  state : PS := .stopped
  pid : Int := 0
  killing : Bool := false
  backoff : Int := 0
  delay : Int := 0
  laststart : Int := 0
  laststop : Int := 0
  laststopreport : Int := 0
  adminStop : Bool := false
  systemStop : Bool := false
  exitstatus : Option Int := none
  spawnerr : Bool := false
deriving Repr, DecidableEq

/-- values of local variables / arguments at an extraction site (harness/sites/proc.py) -/
structure Env where
  now : Int := 0
  mood : Int := 1
  st0 : PS := .stopped
  new : PS := .stopped
  asgroup : Bool := false
  tooQuickly : Bool := false
  exitExpected : Bool := false
  es : Int := 0
  pid : Int := 0
  sig : Int := 0

end Sv.Proc
