#!/venv/bin/python
"""
Evaluate one seeded change: (1) confirm the author's claims in the scratch worktree (suite passes with the change, demo fails
with it and passes without), (2) apply it to /repo, run the named checks (quick, then thorough if quick is silent), undo it,
(3) store patch/demo/meta under /verif/seeded/<name>/.
usage: seed_eval.py <seed dir in worktree> <name> <property> <check ids...>
"""
import json, os, shutil, subprocess, sys, time

def sh(cmd, cwd=None, timeout=3000):
    p = subprocess.run(cmd, shell=True, cwd=cwd, capture_output=True, text=True, timeout=timeout)
    return p.returncode, (p.stdout + p.stderr)

def main():
    sdir, name, prop = sys.argv[1:4]
    checks = sys.argv[4:] or [prop]
    wt = os.path.dirname(os.path.abspath(sdir))
    patch = os.path.join(sdir, 'patch.diff')
    meta = {'name': name, 'property': prop, 'checks_run': checks, 'when': time.strftime('%Y-%m-%d %H:%M')}
    # ---- (1) the author's claims
    sh('git checkout -- .', wt)
    rc0, out0 = sh('/venv/bin/python %s/demo.py' % os.path.basename(sdir), wt, 600)
    rca, outa = sh('git apply %s' % patch, wt)
    if rca != 0:
        meta['confirmed'] = False; meta['why'] = 'patch does not apply: ' + outa[-300:]
    else:
        rc1, out1 = sh('/venv/bin/python %s/demo.py' % os.path.basename(sdir), wt, 600)
        rct, outt = sh('/venv/bin/python -m pytest -q -p no:cacheprovider -x 2>&1 | tail -2', wt, 900)
        sh('git checkout -- .', wt)
        meta['demo_without_change'] = rc0; meta['demo_with_change'] = rc1; meta['suite_with_change'] = outt.strip().split('\n')[-1]
        meta['demo_output_with_change'] = out1[-600:]
        meta['confirmed'] = (rc0 == 0 and rc1 != 0 and ' passed' in outt and 'failed' not in outt)
    # ---- (2) our checks against it
    results = {}
    if meta.get('confirmed'):
        rc, out = sh('git -C /repo apply %s' % patch)
        if rc != 0:
            # /repo has moved on (fix: commits) since the seed was written: retry with fuzz
            rc, out = sh('patch -p1 -F3 --no-backup-if-mismatch < %s' % patch, '/repo')
            meta['applied_with_fuzz'] = (rc == 0)
        if rc != 0:
            sh('git -C /repo checkout -- .')
            sh('git -C /repo clean -fdq -- supervisor')
            meta['apply_to_repo'] = out[-300:]
        else:
            saved = {c: open('/verif/evidence/%s.json' % c).read() for c in checks if os.path.exists('/verif/evidence/%s.json' % c)}
            try:
                for c in checks:
                    for tier in ('quick', 'thorough'):
                        t0 = time.time()
                        rc, out = sh('./check %s --tier %s' % (c, tier), '/verif', 3000)
                        lines = [l for l in out.split('\n') if l.startswith(('VIOLATION', 'OK', 'KNOWN', 'INFRA', 'TIMEOUT'))]
                        kinds = []
                        for l in lines:
                            if l.startswith('VIOLATION') and 'replay=' in l:
                                try:
                                    d = json.load(open(l.split('replay=')[1].split()[0]))
                                    kinds.append({'kind': d.get('violation_kind') or d.get('kind'), 'what': str(d.get('what'))[:300],
                                                  'found_failing_input': d.get('found_failing_input'),
                                                  'broken': [str(b)[:160] for b in (d.get('broken') or [])][:4]})
                                except Exception as e:
                                    kinds.append({'error': str(e)})
                        results['%s/%s' % (c, tier)] = {'exit': rc, 'lines': lines[:6], 'violations': kinds[:4], 'wall_s': round(time.time() - t0, 1)}
                        if rc == 1:
                            break
            finally:
                sh('git -C /repo checkout -- .')
                sh('git -C /repo clean -fdq -- supervisor')          # .rej/.orig left by a fuzzy apply
                sh('/venv/bin/python harness/extract.py', '/verif')     # Generated/* back to the real tree
                for c, txt in saved.items():                           # evidence files describe the real tree only
                    open('/verif/evidence/%s.json' % c, 'w').write(txt)
    if os.environ.get('SEED_MERGE') and os.path.exists(os.path.join('/verif/seeded', name, 'meta.json')):
        # further checks against an already evaluated change: keep the earlier results
        old = json.load(open(os.path.join('/verif/seeded', name, 'meta.json')))
        merged = {k: v for k, v in old.get('results', {}).items() if k.split('/')[0] not in checks}; merged.update(results); results = merged
        meta['checks_run'] = sorted(set(old.get('checks_run', [])) | set(checks))
    meta['results'] = results
    caught = [k for k, v in results.items() if v['exit'] == 1]
    with_input = [k for k, v in results.items() if any(x.get('found_failing_input') for x in v['violations'])]
    meta['caught'] = bool(caught); meta['caught_with_failing_input'] = bool(with_input)
    # ---- (3) store
    dst = os.path.join('/verif/seeded', name)
    os.makedirs(dst, exist_ok=True)
    for f in ('patch.diff', 'demo.py', 'README.md'):
        if os.path.exists(os.path.join(sdir, f)):
            shutil.copy(os.path.join(sdir, f), os.path.join(dst, f))
    json.dump(meta, open(os.path.join(dst, 'meta.json'), 'w'), indent=1)
    print(json.dumps({k: meta[k] for k in ('name', 'confirmed', 'caught', 'caught_with_failing_input')}))
    for k, v in results.items():
        print(' ', k, v['exit'], [x.get('kind') for x in v['violations']], v.get('wall_s'), 's')

main()
