#!/venv/bin/python
"""
Regenerates lean/SupervisorModel/Generated/*.lean from /repo's *current working tree*.

Two kinds of output (DESIGN.md 3.1, 3.2):

* tables   -- constants and literal tables of the implementation (state codes, state sets,
              fault codes, event registry, protocol tokens, result-wording chains ...) dumped
              as Lean definitions.  Property theorems over them are closed by `decide`.
* guards   -- for every registered *site* (a function or method), the test expression of
              every `if`/`elif`/`while` (named <site>_g<k>, k in source order) and the
              right-hand side of every simple assignment / augmented assignment / return
              (named <site>_a<k>) translated into a Lean definition over the site's fixed
              parameter list.  The hand-written control flow in Model/*.lean *calls* these
              definitions, so an edited comparison or arithmetic expression in /repo changes
              the definition the theorems are about.

A site's expression that cannot be translated is emitted as a comment; a model that uses it
then fails to build, which the check treats as a broken tie (never silently skipped).

Files are rewritten only when their content changes (keeps `lake build` a no-op).
Each module in harness/sites/*.py contributes `TABLES(ctx)` and/or `SITES`.
"""
import ast, hashlib, importlib, json, os, sys, textwrap

REPO = os.environ.get('VERIF_REPO', '/repo')
HERE = os.path.dirname(os.path.abspath(__file__))
GEN = os.path.join(HERE, '..', 'lean', 'SupervisorModel', 'Generated')

sys.path.insert(0, REPO)
sys.path.insert(0, HERE)


class Untranslatable(Exception):
    pass


TICKS = 1024   # model time unit: 1/1024 s; durations configured in seconds are scaled

CMP = {ast.Gt: '>', ast.GtE: '≥', ast.Lt: '<', ast.LtE: '≤', ast.Eq: '=', ast.NotEq: '≠'}
ARITH = {ast.Add: '+', ast.Sub: '-', ast.Mult: '*'}


class Site:
    """
    file:    path relative to REPO
    qual:    'Class.method' or 'function'
    name:    Lean identifier prefix
    params:  Lean binder string, e.g. '(p : Proc) (cfg : Cfg) (now : Int)'
    vars:    { python source text : (lean term, type) }  type in int|bool|bytes|opt|list|state|other
    consts:  { python source text : lean term } for names used in comparisons (enum members)
    opens:   Lean `open` line needed by the generated definitions
    """
    def __init__(self, file, qual, name, params, vars, consts=None, imports=(), opens='',
                 locals_inline=True, want=None, str_as_bytes=False, calls=(), list_calls=None, const_types=None):
        self.str_as_bytes = str_as_bytes
        self.calls = set(calls)            # callee source texts whose argument expressions are extracted (<site>_c<k>_<i>)
        self.list_calls = list_calls or {}
        self.const_types = const_types or {}   # first dotted component of a consts key -> type  # callee text -> Lean element type: all arguments as one list (<site>_c<k>)
        self.file, self.qual, self.name, self.params = file, qual, name, params
        self.vars, self.consts = vars, consts or {}
        self.imports, self.opens = imports, opens
        self.locals_inline = locals_inline
        self.want = want  # optional set of identifiers to emit (others commented)


def find_func(tree, qual):
    parts = qual.split('.')
    body = tree.body
    node = None
    for p in parts:
        node = None
        for n in body:
            if isinstance(n, (ast.ClassDef, ast.FunctionDef)) and n.name == p:
                node = n
                break
        if node is None:
            raise Untranslatable('no such function %s' % qual)
        body = node.body
    return node


class Tr:
    def __init__(self, site, func):
        self.site = site
        self.locals = {}
        if site.locals_inline:
            # single-assignment locals are resolved through their defining expression
            counts = {}
            for n in ast.walk(func):
                if isinstance(n, ast.Assign) and len(n.targets) == 1 and isinstance(n.targets[0], ast.Name):
                    counts.setdefault(n.targets[0].id, []).append(n.value)
                elif isinstance(n, (ast.AugAssign, ast.For)) :
                    t = n.target
                    if isinstance(t, ast.Name):
                        counts.setdefault(t.id, []).extend([None, None])
            for k, v in counts.items():
                if len(v) == 1 and v[0] is not None and k not in site.vars:
                    self.locals[k] = v[0]

    def typ(self, e):
        s = ast.unparse(e)
        if s in self.site.vars:
            return self.site.vars[s][1]
        if s in self.site.consts:
            return self.site.const_types.get(s.split('.')[0], 'other')
        if isinstance(e, ast.Name) and e.id in self.locals:
            return self.typ(self.locals[e.id])
        if isinstance(e, ast.Constant):
            if isinstance(e.value, bool): return 'bool'
            if isinstance(e.value, int): return 'int'
            if isinstance(e.value, (bytes, str)): return 'bytes'
        if isinstance(e, (ast.Compare, ast.BoolOp)): return 'bool'
        if isinstance(e, ast.UnaryOp) and isinstance(e.op, ast.Not): return 'bool'
        if isinstance(e, ast.BinOp):
            l, r = self.typ(e.left), self.typ(e.right)
            return 'time' if 'time' in (l, r) else l
        if isinstance(e, ast.UnaryOp) and isinstance(e.op, ast.USub): return 'int'
        if isinstance(e, ast.Call) and isinstance(e.func, ast.Name) and e.func.id in ('len', 'abs', 'int', 'min', 'max'):
            return 'int'
        if isinstance(e, ast.Subscript): return self.typ(e.value)
        if isinstance(e, ast.Call) and isinstance(e.func, ast.Attribute) and e.func.attr == 'startswith':
            return 'bool'
        return 'other'

    def coerce(self, e, want_time):
        """seconds -> ticks: an int-typed operand combined with a time-typed one is scaled"""
        x = self.expr(e)
        if want_time and self.typ(e) == 'int':
            return '(%d * %s)' % (TICKS, x)
        return x

    def truth(self, e):
        """Python truthiness of e as a Lean Bool"""
        t = self.typ(e)
        if t.startswith('truthy:'):
            return t[len('truthy:'):]
        if isinstance(e, ast.BoolOp):
            op = ' && ' if isinstance(e.op, ast.And) else ' || '
            return '(' + op.join(self.truth(v) for v in e.values) + ')'
        if isinstance(e, ast.UnaryOp) and isinstance(e.op, ast.Not):
            return '(!' + self.truth(e.operand) + ')'
        if isinstance(e, ast.Compare):
            return self.expr(e)
        x = self.expr(e)
        if t == 'bool': return x
        if t in ('int', 'time'): return '(%s != 0)' % x
        if t in ('bytes', 'list'): return '(!(%s).isEmpty)' % x
        if t == 'opt': return '(%s).isSome' % x
        if t == 'optbytes': return '((%s).any (fun s => !s.isEmpty))' % x   # None and b'' are both falsy
        raise Untranslatable('truthiness of %s (%s)' % (ast.unparse(e), t))

    def expr(self, e):
        s = ast.unparse(e)
        if s in self.site.vars:
            return self.site.vars[s][0]
        if s in self.site.consts:
            return self.site.consts[s]
        if isinstance(e, ast.Name):
            if e.id in self.locals:
                return '(' + self.expr(self.locals[e.id]) + ')'
            raise Untranslatable('name ' + e.id)
        if isinstance(e, ast.Attribute):
            raise Untranslatable('attribute ' + s)
        if isinstance(e, ast.Constant):
            v = e.value
            if isinstance(v, bool): return 'true' if v else 'false'
            if isinstance(v, int): return '(%d : Int)' % v
            if isinstance(v, str) and not self.site.str_as_bytes:
                raise Untranslatable('text constant')
            if isinstance(v, (bytes, str)):
                b = v if isinstance(v, bytes) else v.encode()
                return '([' + ', '.join(str(x) for x in b) + '] : List UInt8)'
            raise Untranslatable('constant ' + s)
        if isinstance(e, ast.BinOp):
            if type(e.op) in ARITH:
                if self.typ(e.left) in ('bytes', 'list') and isinstance(e.op, ast.Add):
                    return '(%s ++ %s)' % (self.expr(e.left), self.expr(e.right))
                tm = 'time' in (self.typ(e.left), self.typ(e.right)) and not isinstance(e.op, ast.Mult)
                return '(%s %s %s)' % (self.coerce(e.left, tm), ARITH[type(e.op)], self.coerce(e.right, tm))
            if isinstance(e.op, ast.Mod):
                if self.typ(e.left) != 'int' or self.typ(e.right) != 'int':
                    raise Untranslatable('% on non-integers')
                return '(Int.emod %s %s)' % (self.expr(e.left), self.expr(e.right))
            if isinstance(e.op, ast.FloorDiv):
                return '(Int.ediv %s %s)' % (self.expr(e.left), self.expr(e.right))
            raise Untranslatable('binop ' + s)
        if isinstance(e, ast.UnaryOp):
            if isinstance(e.op, ast.Not): return self.truth(e)
            if isinstance(e.op, ast.USub): return '(- %s)' % self.expr(e.operand)
            raise Untranslatable('unop ' + s)
        if isinstance(e, ast.BoolOp):
            return self.truth(e)
        if isinstance(e, ast.Compare):
            parts = []
            left = e.left
            for op, right in zip(e.ops, e.comparators):
                parts.append(self.cmp(left, op, right))
                left = right
            return parts[0] if len(parts) == 1 else '(' + ' && '.join(parts) + ')'
        if isinstance(e, ast.Call) and isinstance(e.func, ast.Name):
            f = e.func.id
            if f == 'len' and len(e.args) == 1:
                return '((%s).length : Int)' % self.expr(e.args[0])
            if f == 'abs' and len(e.args) == 1:
                return '((%s).natAbs : Int)' % self.expr(e.args[0])
            if f == 'int' and len(e.args) == 1 and self.typ(e.args[0]) == 'int':
                return self.expr(e.args[0])
            if f in ('min', 'max') and len(e.args) == 2:
                return '(%s %s %s)' % (f, self.expr(e.args[0]), self.expr(e.args[1]))
        if (isinstance(e, ast.Call) and isinstance(e.func, ast.Attribute) and e.func.attr == 'startswith'
                and len(e.args) == 1 and self.typ(e.func.value) == 'bytes'):
            # bytes.startswith(prefix)
            return '(List.isPrefixOf %s %s)' % (self.expr(e.args[0]), self.expr(e.func.value))
        if isinstance(e, ast.Subscript) and isinstance(e.slice, ast.Slice) and e.slice.step is None:
            v = self.expr(e.value)
            lo, hi = e.slice.lower, e.slice.upper
            if lo is not None and hi is None:
                return '(Sv.pySliceFrom %s %s)' % (v, self.expr(lo))
            if lo is None and hi is not None:
                return '(Sv.pySliceTo %s %s)' % (v, self.expr(hi))
            if lo is not None and hi is not None:
                return '(Sv.pySlice %s %s %s)' % (v, self.expr(lo), self.expr(hi))
        raise Untranslatable(type(e).__name__ + ' ' + s)

    def cmp(self, l, op, r):
        if type(op) in CMP:
            tm = 'time' in (self.typ(l), self.typ(r))
            a, b = self.coerce(l, tm), self.coerce(r, tm)
            # Bool-valued comparisons without a proposition-indexed Decidable instance, so that
            # unfolding a generated definition inside an argument never leaves an ill-typed term
            if isinstance(op, ast.Lt): return '(Sv.ilt %s %s)' % (a, b)
            if isinstance(op, ast.LtE): return '(Sv.ile %s %s)' % (a, b)
            if isinstance(op, ast.Gt): return '(Sv.ilt %s %s)' % (b, a)
            if isinstance(op, ast.GtE): return '(Sv.ile %s %s)' % (b, a)
            if isinstance(op, ast.Eq): return '(%s == %s)' % (a, b)
            return '(%s != %s)' % (a, b)
        if isinstance(op, (ast.Is, ast.IsNot)):
            neg = isinstance(op, ast.IsNot)
            if isinstance(r, ast.Constant) and r.value is None:
                x = self.expr(l)
                t = self.typ(l)
                if t in ('opt', 'optbytes'):
                    return '(%s).isSome' % x if neg else '(%s).isNone' % x
                if t == 'int':     # model encodes None as 0 for this variable (declared in the site)
                    return '(%s %s 0)' % (x, '!=' if neg else '==')
                raise Untranslatable('is None on ' + t)
            return '(%s %s %s)' % (self.expr(l), '!=' if neg else '==', self.expr(r))
        if isinstance(op, (ast.In, ast.NotIn)):
            neg = isinstance(op, ast.NotIn)
            if isinstance(r, (ast.Tuple, ast.List)):
                rr = '[' + ', '.join(self.expr(x) for x in r.elts) + ']'
            else:
                rr = self.expr(r)
            c = '(List.elem %s %s)' % (self.expr(l), rr)
            return '(!%s)' % c if neg else c
        raise Untranslatable('cmp ' + type(op).__name__)


def site_defs(site):
    src = open(os.path.join(REPO, site.file)).read()
    tree = ast.parse(src)
    func = find_func(tree, site.qual)
    tr = getattr(site, 'tr_class', Tr)(site, func)   # a site may bring a Tr subclass (extra expression forms)
    out = []
    skel = []
    entries = []   # (kind 'g'|'a', expr node, lineno, truth?) in source order
    def calls_in(st):
        v = getattr(st, 'value', None)
        if v is None or not (site.calls or site.list_calls):
            return
        for n in ast.walk(v):
            if isinstance(n, ast.Call):
                f = ast.unparse(n.func)
                if f in site.calls or f in site.list_calls:
                    entries.append(('c', n, st.lineno))

    # Three behaviour-preserving rewrites of an `if` are undone before naming, when (and only when) the committed baseline
    # knows the guard in its other form, so that the model's hand-written control flow keeps referring to the same guards:
    #   (A) `if a and b:` (no else)            <->  baseline has the separate guards `a`, `b` of `if a: if b:`
    #   (B) `if a: if b:` (no else, no sibling) <->  baseline has the single guard `a and b`
    #   (C) `if not X: B else: A`              <->  baseline has the guard `X` of `if X: A else: B`
    base_guards = set(t[2:] for _, t in (BASELINE.get(site.name) or []) if t.startswith('g:'))

    def txt(e):
        return ast.unparse(e).replace('\n', ' ')

    def guard(st, depth):
        test, body, orelse = st.test, st.body, st.orelse
        if isinstance(st, ast.If) and base_guards and txt(test) not in base_guards:
            if not orelse and isinstance(test, ast.BoolOp) and isinstance(test.op, ast.And) and all(txt(v) in base_guards for v in test.values):
                for v in test.values:                                                       # (A)
                    entries.append(('g', v, st.lineno))
                    skel.append('%sIf' % ('  ' * depth)); depth += 1
                visit(body, depth)
                return
            if (not orelse and len(body) == 1 and isinstance(body[0], ast.If) and not body[0].orelse
                    and txt(ast.BoolOp(op=ast.And(), values=[test, body[0].test])) in base_guards):
                entries.append(('g', ast.BoolOp(op=ast.And(), values=[test, body[0].test]), st.lineno))   # (B)
                skel.append('%sIf' % ('  ' * depth))
                visit(body[0].body, depth + 1)
                return
            if orelse and isinstance(test, ast.UnaryOp) and isinstance(test.op, ast.Not) and txt(test.operand) in base_guards:
                test, body, orelse = test.operand, orelse, body                             # (C)
        entries.append(('g', test, st.lineno))
        skel.append('%s%s' % ('  ' * depth, type(st).__name__))
        visit(body, depth + 1)
        if orelse:
            skel.append('%selse' % ('  ' * depth))
            visit(orelse, depth + 1)

    # source order walk
    def visit(stmts, depth):
        for st in stmts:
            if isinstance(st, (ast.Expr, ast.Return, ast.Assign)):
                calls_in(st)
            if isinstance(st, (ast.If, ast.While)):
                guard(st, depth)
            elif isinstance(st, (ast.Assign, ast.AugAssign, ast.Return)):
                val = st.value
                if val is None:
                    skel.append('%sreturn' % ('  ' * depth)); continue
                if isinstance(st, ast.AugAssign):
                    val = ast.BinOp(left=st.target, op=st.op, right=st.value)
                entries.append(('a', val, st.lineno))
                skel.append('%s%s' % ('  ' * depth, type(st).__name__))
            elif isinstance(st, ast.Try):
                skel.append('%stry' % ('  ' * depth))
                visit(st.body, depth + 1)
                for h in st.handlers:
                    skel.append('%sexcept %s' % ('  ' * depth, ast.unparse(h.type) if h.type else ''))
                    visit(h.body, depth + 1)
                if st.orelse: visit(st.orelse, depth + 1)
                if st.finalbody:
                    skel.append('%sfinally' % ('  ' * depth)); visit(st.finalbody, depth + 1)
            elif isinstance(st, (ast.For, ast.With)):
                skel.append('%s%s' % ('  ' * depth, type(st).__name__))
                visit(st.body, depth + 1)
            elif isinstance(st, ast.Expr) and isinstance(st.value, ast.Call):
                skel.append('%scall %s' % ('  ' * depth, ast.unparse(st.value.func)))
            elif isinstance(st, ast.Raise):
                skel.append('%sraise' % ('  ' * depth))
            elif isinstance(st, ast.Assert):
                entries.append(('g', st.test, st.lineno))
                skel.append('%sassert' % ('  ' * depth))

    def emit(ident, e, ty, lineno, truth=False):
        srctext = ast.unparse(e).replace('\n', ' ')
        if site.want is not None and ident not in site.want:
            out.append('-- %s  %s:%d  (not used by the model)  %s' % (ident, site.qual, lineno, srctext))
            return
        try:
            if truth:
                body, t = tr.truth(e), 'Bool'
            else:
                body = tr.expr(e)
                t = {'int': 'Int', 'time': 'Int', 'bool': 'Bool', 'bytes': 'List UInt8'}.get(tr.typ(e))
                if t is None and tr.typ(e).startswith('lean:'):
                    t = tr.typ(e)[5:]
                if t is None:
                    raise Untranslatable('result type of ' + srctext)
            out.append('-- %s:%d  %s\ndef %s %s : %s := %s' % (site.qual, lineno, srctext, ident, site.params, t, body))
        except Untranslatable as ex:
            out.append('-- %s  %s:%d  UNTRANSLATED (%s)  %s' % (ident, site.qual, lineno, ex, srctext))

    visit(func.body, 0)
    # identifiers: ordinals in source order, re-synchronised against the committed baseline so
    # that an inserted or deleted statement does not shift the names the model refers to, and
    # an edited expression keeps its name (the theorems are then re-checked against its new body)
    texts = [k + ':' + ast.unparse(e).replace('\n', ' ') for k, e, _ in entries]
    idents = [None] * len(entries)
    base = BASELINE.get(site.name)
    if base is None or REBASELINE:
        cnt = {'g': 0, 'a': 0, 'c': 0}
        for i, (k, e, _) in enumerate(entries):
            idents[i] = '%s_%s%d' % (site.name, k, cnt[k]); cnt[k] += 1
    else:
        import difflib
        bt = [t for _, t in base]
        sm = difflib.SequenceMatcher(a=bt, b=texts, autojunk=False)
        fresh = 0
        for tag, i1, i2, j1, j2 in sm.get_opcodes():
            if tag in ('equal', 'replace'):
                for d in range(min(i2 - i1, j2 - j1)):
                    if base[i1 + d][1][0] == texts[j1 + d][0]:
                        idents[j1 + d] = base[i1 + d][0]
        for i in range(len(entries)):
            if idents[i] is None:
                idents[i] = '%s_new%d' % (site.name, fresh); fresh += 1
    NEWBASE[site.name] = [[idents[i], texts[i]] for i in range(len(entries))]
    for i, (k, e, ln) in enumerate(entries):
        if k == 'c':
            f = ast.unparse(e.func)
            srctext = ast.unparse(e).replace('\n', ' ')
            try:
                if f in site.list_calls:
                    out.append('-- %s:%d  %s\ndef %s %s : List %s := [%s]' % (
                        site.qual, ln, srctext, idents[i], site.params, site.list_calls[f],
                        ', '.join(tr.expr(a) for a in e.args)))
                else:
                    for j, a in enumerate(list(e.args) + [k.value for k in e.keywords]):
                        emit('%s_%d' % (idents[i], j), a, None, ln)
            except Untranslatable as ex:
                out.append('-- %s  %s:%d  UNTRANSLATED (%s)  %s' % (idents[i], site.qual, ln, ex, srctext))
            continue
        emit(idents[i], e, 'Bool' if k == 'g' else None, ln, truth=(k == 'g'))
    fp = hashlib.sha1('\n'.join(skel).encode()).hexdigest()[:16]
    return out, fp


BASELINE = {}
NEWBASE = {}
REBASELINE = False
BASEDIR = os.path.join(HERE, 'baselines')   # one file per generated module


def lean_str(s):
    return '"' + s.replace('\\', '\\\\').replace('"', '\\"').replace('\n', '\\n').replace('\r', '\\r').replace('\t', '\\t') + '"'


def lean_bytes(b):
    return '[' + ', '.join(str(x) for x in b) + ']'


def write_if_changed(path, text):
    try:
        if open(path).read() == text:
            return False
    except OSError:
        pass
    os.makedirs(os.path.dirname(path), exist_ok=True)
    with open(path, 'w') as f:
        f.write(text)
    return True


def load_site_modules():
    mods = []
    d = os.path.join(HERE, 'sites')
    for fn in sorted(os.listdir(d)):
        if fn.endswith('.py') and not fn.startswith('_'):
            mods.append(importlib.import_module('sites.' + fn[:-3]))
    return mods


def main(only=None):
    """returns {'changed': [...files], 'fingerprints': {site: fp}, 'errors': [...]}"""
    res = {'changed': [], 'fingerprints': {}, 'errors': [], 'untranslated': []}
    global BASELINE
    for mod in load_site_modules():
        modname = mod.__name__.split('.')[-1]
        lean_name = getattr(mod, 'LEAN_MODULE', modname.capitalize())
        if only and lean_name not in only:
            continue
        basefile = os.path.join(BASEDIR, lean_name + '.json')
        try:
            BASELINE = json.load(open(basefile))
        except OSError:
            BASELINE = {}
        NEWBASE.clear()
        lines = ['-- GENERATED by harness/extract.py from /repo -- do not edit; regenerated on every check run']
        for imp in getattr(mod, 'IMPORTS', []):
            lines.append('import ' + imp)
        if 'SupervisorModel.Basic.Bytes' not in getattr(mod, 'IMPORTS', []):
            lines.append('import SupervisorModel.Basic.Bytes')
        lines.append('set_option linter.unusedVariables false')
        lines.append('namespace Sv.Gen.' + lean_name)
        for o in getattr(mod, 'OPENS', []):
            lines.append('open ' + o)
        lines.append('')
        try:
            if hasattr(mod, 'TABLES'):
                lines.extend(mod.TABLES())
                lines.append('')
            for site in getattr(mod, 'SITES', []):
                defs, fp = site_defs(site)
                res['fingerprints'][site.name] = fp
                lines.append('-- site %s (%s:%s) skeleton fingerprint %s' % (site.name, site.file, site.qual, fp))
                lines.extend(defs)
                lines.append('')
                for d in defs:
                    if 'UNTRANSLATED' in d:
                        res['untranslated'].append(d)
        except Exception as ex:   # extraction itself broke: report, emit what we have
            res['errors'].append('%s: %s: %s' % (modname, type(ex).__name__, ex))
            lines.append('-- EXTRACTION ERROR %s: %s' % (type(ex).__name__, str(ex).replace('\n', ' ')))
        lines.append('end Sv.Gen.' + lean_name)
        if REBASELINE and NEWBASE:
            os.makedirs(BASEDIR, exist_ok=True)
            with open(basefile, 'w') as f:
                json.dump(NEWBASE, f, indent=0, sort_keys=True)
        path = os.path.normpath(os.path.join(GEN, lean_name + '.lean'))
        if write_if_changed(path, '\n'.join(lines) + '\n'):
            res['changed'].append(path)
    return res


if __name__ == '__main__':
    if '--rebaseline' in sys.argv:
        # records the current statement list of every (selected) site as the reference for identifier
        # alignment; run by the author after (re)writing a model against the current /repo
        REBASELINE = True
        sys.argv.remove('--rebaseline')
    r = main(set(sys.argv[1:]) or None)
    json.dump(r, sys.stdout, indent=1)
    print()
