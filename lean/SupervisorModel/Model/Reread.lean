import SupervisorModel.Model.ConfigIO
import SupervisorModel.Generated.Reread
/-
  Model of reread / update (supervisor/options.py config equality, supervisord.py diff_to_active /
  add_process_group / remove_process_group, rpcinterface.py reloadConfig / addProcessGroup /
  removeProcessGroup / stopProcessGroup ["stops complete"], supervisorctl.py do_update).

  Which attributes each `__eq__` compares, the isinstance base classes and the class hierarchy come from the
  GENERATED tables `Sv.Gen.Reread.*`.
-/
namespace Sv.Reread
open Sv.Config Sv.Gen.Reread

/-! ## equality as coded -/

/-- Python dict equality of two environments (same keys, same values; order irrelevant) -/
def dictEq (a b : KV) : Bool :=
  (a.map Prod.fst ++ b.map Prod.fst).all fun k => a.lookup k == b.lookup k

/-- `Automatic in [x, y]` or `x == y` for a log file attribute -/
def lfEq (a b : LogFile) : Bool :=
  (pconfigEqAutomaticWildcard && (a == .auto || b == .auto)) || a == b

/-- one round of the loop of ProcessConfig.__eq__ for the attribute called `n` -/
def attrEq (n : String) (a b : PConfig) : Bool :=
  if n == "name" then a.name == b.name
  else if n == "uid" then a.uid == b.uid
  else if n == "command" then a.command == b.command
  else if n == "directory" then a.directory == b.directory
  else if n == "umask" then a.umask == b.umask
  else if n == "priority" then a.priority == b.priority
  else if n == "autostart" then a.autostart == b.autostart
  else if n == "autorestart" then a.autorestart == b.autorestart
  else if n == "startsecs" then a.startsecs == b.startsecs
  else if n == "startretries" then a.startretries == b.startretries
  else if n == "stdout_logfile" then lfEq a.stdout_logfile b.stdout_logfile
  else if n == "stdout_capture_maxbytes" then a.stdout_capture_maxbytes == b.stdout_capture_maxbytes
  else if n == "stdout_events_enabled" then a.stdout_events_enabled == b.stdout_events_enabled
  else if n == "stdout_syslog" then a.stdout_syslog == b.stdout_syslog
  else if n == "stdout_logfile_backups" then a.stdout_logfile_backups == b.stdout_logfile_backups
  else if n == "stdout_logfile_maxbytes" then a.stdout_logfile_maxbytes == b.stdout_logfile_maxbytes
  else if n == "stderr_logfile" then lfEq a.stderr_logfile b.stderr_logfile
  else if n == "stderr_capture_maxbytes" then a.stderr_capture_maxbytes == b.stderr_capture_maxbytes
  else if n == "stderr_logfile_backups" then a.stderr_logfile_backups == b.stderr_logfile_backups
  else if n == "stderr_logfile_maxbytes" then a.stderr_logfile_maxbytes == b.stderr_logfile_maxbytes
  else if n == "stderr_events_enabled" then a.stderr_events_enabled == b.stderr_events_enabled
  else if n == "stderr_syslog" then a.stderr_syslog == b.stderr_syslog
  else if n == "stopsignal" then a.stopsignal == b.stopsignal
  else if n == "stopwaitsecs" then a.stopwaitsecs == b.stopwaitsecs
  else if n == "stopasgroup" then a.stopasgroup == b.stopasgroup
  else if n == "killasgroup" then a.killasgroup == b.killasgroup
  else if n == "exitcodes" then a.exitcodes == b.exitcodes
  else if n == "redirect_stderr" then a.redirect_stderr == b.redirect_stderr
  else if n == "environment" then dictEq a.environment b.environment
  else if n == "serverurl" then a.serverurl == b.serverurl
  else false

/-- ProcessConfig.__eq__ (every process kind is a ProcessConfig, so the isinstance guard always passes) -/
def pconfigEq (a b : PConfig) : Bool := pconfigEqAttrs.all fun n => attrEq n a b

/-- list `==` on process_configs: same length, element-wise `__eq__` -/
def plistEq : List PConfig → List PConfig → Bool
  | [], [] => true
  | a :: as, b :: bs => pconfigEq a b && plistEq as bs
  | _, _ => false

def gkindClass : GKind → String
  | .group => "ProcessGroupConfig" | .pool => "EventListenerPoolConfig" | .fcgi => "FastCGIGroupConfig"

/-- `isinstance(x, cls)` through the generated class hierarchy (depth ≤ 2 suffices for options.py) -/
def isInstance (k : GKind) (cls : String) : Bool :=
  let c := gkindClass k
  c == cls || ((classBases.lookup c).getD []).contains cls

/-- one comparison of SocketConfig.__eq__ (the attribute names are the generated `socketEqAttrs`) -/
def sAttrEq (n : String) (a b : GConfig) : Bool :=
  if n == "url" then a.socket == b.socket
  else if n == "backlog" then a.socket_backlog == b.socket_backlog
  else if n == "mode" then a.socket_mode == b.socket_mode
  else if n == "owner" then a.socket_owner == b.socket_owner
  else false

/-- SocketConfig.__eq__ (both operands are SocketConfig instances: every fcgi group has one) -/
def socketEq (a b : GConfig) : Bool := socketEqAttrs.all fun n => sAttrEq n a b

def gAttrEq (n : String) (a b : GConfig) : Bool :=
  if n == "name" then a.name == b.name
  else if n == "priority" then a.priority == b.priority
  else if n == "process_configs" then plistEq a.procs b.procs
  else if n == "buffer_size" then a.buffer_size == b.buffer_size
  else if n == "pool_events" then a.pool_events == b.pool_events
  else if n == "result_handler" then a.result_handler == b.result_handler
  else if n == "socket_config" then socketEq a b
  else false

def groupEq (a b : GConfig) : Bool :=
  isInstance b.kind ((eqBaseClass.lookup "ProcessGroupConfig").getD "") && groupEqAttrs.all fun n => gAttrEq n a b

/-- `self.__eq__(other)` dispatched on the class of `self` -/
def gconfigEq (a b : GConfig) : Bool :=
  match a.kind with
  | .group => groupEq a b
  | .pool => isInstance b.kind ((eqBaseClass.lookup "EventListenerPoolConfig").getD "") && poolEqAttrs.all fun n => gAttrEq n a b
  | .fcgi => isInstance b.kind ((eqBaseClass.lookup "FastCGIGroupConfig").getD "") && (fcgiEqAttrs.all fun n => gAttrEq n a b)
             && (if fcgiEqDelegatesToGroup then groupEq a b else true)

/-- `a == b` as an operator: CPython gives the right operand's `__eq__` priority when its class is a proper
    subclass of the left operand's class (FastCGIGroupConfig < ProcessGroupConfig) -/
def gconfigEqOp (a b : GConfig) : Bool :=
  if b.kind != a.kind && isInstance b.kind (gkindClass a.kind) then gconfigEq b a else gconfigEq a b

/-- `cand != curr`: Config.__ne__ = not self.__eq__(other), with the same operand priority -/
def gconfigNe (a b : GConfig) : Bool := !gconfigEqOp a b

/-- `new == old` on two lists of group configs -/
def glistEq : List GConfig → List GConfig → Bool
  | [], [] => true
  | a :: as, b :: bs => gconfigEqOp a b && glistEq as bs
  | _, _ => false

/-! ## diff_to_active -/

/-- `dict(zip(names, cfgs)).get(name)`: the last config of that name -/
def lastNamed (l : List GConfig) (n : String) : Option GConfig := (l.reverse.find? fun g => g.name == n)

structure Diff where
  added : List GConfig
  changed : List GConfig
  removed : List GConfig
deriving DecidableEq, Repr

def diffToActive (new cur : List GConfig) : Diff :=
  { added := new.filter fun c => (lastNamed cur c.name).isNone,
    removed := cur.filter fun c => (lastNamed new c.name).isNone,
    changed := new.filter fun c => gconfigNe c ((lastNamed cur c.name).getD c) }

/-! ## the daemon's group table and the RPC methods -/

structure Proc where
  name : String
  pid : Nat          -- 0 = no child
  stopped : Bool     -- state in STOPPED_STATES
deriving DecidableEq, Repr

structure Active where
  cfg : GConfig
  procs : List Proc
deriving DecidableEq, Repr

structure State where
  file : List GConfig        -- options.process_group_configs (as last read)
  active : List Active       -- supervisord.process_groups, insertion order
deriving DecidableEq, Repr

inductive Fault | cantReread | badName | alreadyAdded | stillRunning
deriving DecidableEq, Repr

def State.find (s : State) (n : String) : Option Active := s.active.find? fun a => a.cfg.name == n

/-- ServerOptions.process_config after a successful read: which list is `options.process_group_configs` afterwards.
    The code assigns the parsed list; whether it does so unconditionally is a GENERATED fact
    (`processConfigInstalls`, `processConfigInstallGuards`).  A guard `new != self.process_group_configs` (config
    equality lets AUTO match any log file name!) is followed faithfully; any other guard is not understood and modelled
    as "never installs", which the correspondence then exposes. -/
def installParsed (old new : List GConfig) : List GConfig :=
  if !processConfigInstalls then old
  else if processConfigInstallGuards.isEmpty then new
  else if processConfigInstallGuards == ["new != self.process_group_configs"] then (if glistEq new old then old else new)
  else old

/-- reloadConfig: `parsed` is the outcome of process_config(do_usage=False) on the current file -/
def reloadConfig (s : State) (parsed : Except String (List GConfig)) : Except Fault (List String × List String × List String) × State :=
  match parsed with
  | .error _ => (.error .cantReread, s)
  | .ok new =>
    let s' : State := { s with file := installParsed s.file new }
    let d := diffToActive s'.file (s.active.map (·.cfg))
    (.ok (d.added.map (·.name), d.changed.map (·.name), d.removed.map (·.name)), s')

/-- config.after_setuid() → create_autochildlogs(): activating a group replaces every AUTO log file of its
    (shared, mutable) config object by a generated name, which no longer matches an explicit name but still matches
    the AUTO of a later parse -/
def resolveLf : LogFile → LogFile
  | .auto => .resolved
  | l => l
def resolveP (p : PConfig) : PConfig :=
  { p with stdout_logfile := resolveLf p.stdout_logfile, stderr_logfile := resolveLf p.stderr_logfile }
def resolveCfg (g : GConfig) : GConfig := { g with procs := g.procs.map resolveP }

def freshProcs (g : GConfig) : List Proc := g.procs.map fun p => { name := p.name, pid := 0, stopped := true }

def addProcessGroup (s : State) (n : String) : Except Fault Unit × State :=
  match s.file.find? (fun g => g.name == n) with
  | none => (.error .badName, s)
  | some g =>
    if (s.find n).isSome then (.error .alreadyAdded, s)
    else (.ok (), { s with active := s.active ++ [{ cfg := resolveCfg g, procs := freshProcs g }] })

def removeProcessGroup (s : State) (n : String) : Except Fault Unit × State :=
  match s.find n with
  | none => (.error .badName, s)
  | some a =>
    if a.procs.any (fun p => !p.stopped) then (.error .stillRunning, s)
    else (.ok (), { s with active := s.active.filter fun x => x.cfg.name != n })

/-- stopProcessGroup under "stops complete": every process of the group ends STOPPED without a child -/
def stopProcessGroup (s : State) (n : String) : Except Fault Unit × State :=
  match s.find n with
  | none => (.error .badName, s)
  | some _ =>
    (.ok (), { s with active := s.active.map fun a =>
      if a.cfg.name == n then { a with procs := a.procs.map fun p => { p with pid := 0, stopped := true } } else a })

/-! ## supervisorctl do_update -/

inductive Call
  | stop (g : String)
  | remove (g : String)
  | add (g : String)
deriving DecidableEq, Repr

/-- `valid_gnames and gname not in valid_gnames` → skip -/
def selected (valid : List String) (g : String) : Bool := valid.isEmpty || valid.contains g

/-- the RPC call sequence of do_update after reloadConfig answered (added, changed, removed);
    `valid` = the named groups ([] for none or "all"); `fails` = the groups whose stopProcessGroup answer contains
    a status other than SUCCESS / NOT_RUNNING: such a group is neither removed nor re-added -/
def updateCalls (valid fails : List String) (added changed removed : List String) : List Call :=
  ((removed.filter (selected valid)).flatMap fun g =>
      if fails.contains g then [Call.stop g] else [Call.stop g, Call.remove g]) ++
  ((changed.filter (selected valid)).flatMap fun g =>
      if fails.contains g then [Call.stop g] else [Call.stop g, Call.remove g, Call.add g]) ++
  ((added.filter (selected valid)).map Call.add)

def validNames (args : List String) : List String := if args.contains "all" then [] else args

def runCall (s : State) : Call → State
  | .stop g => (stopProcessGroup s g).2
  | .remove g => (removeProcessGroup s g).2
  | .add g => (addProcessGroup s g).2

def runCalls (s : State) (cs : List Call) : State := cs.foldl runCall s

/-- the whole `supervisorctl update <args>` against a daemon in state `s` whose file parses to `new`, every stop
    completing (no stop failure) -/
def doUpdate (s : State) (new : List GConfig) (args : List String) : State :=
  match reloadConfig s (.ok new) with
  | (.ok (a, c, r), s') => runCalls s' (updateCalls (validNames args) [] a c r)
  | (.error _, s') => s'


/-! ## a file that cannot be parsed: which exception leaves process_config, and what reloadConfig makes of it

  Every check of options.py / datatypes.py raises ValueError itself.  The one place where the class is decided by
  CPython is `s % expansions` in `expand()`: an unknown name is a KeyError, a malformed conversion a ValueError, a
  numeric conversion without a mapping key or of a string (`+%d`, `%(program_name)d`) a TypeError.  What leaves
  `expand()` is decided by its except clauses, what reloadConfig answers by its own — both GENERATED
  (`expandHandlers`, `reloadCatches`). -/

/-- the fragment of CPython's exception hierarchy that matters here: class ↦ its proper base classes -/
def pyBases : List (String × List String) :=
  [("KeyError", ["LookupError", "Exception", "BaseException"]), ("IndexError", ["LookupError", "Exception", "BaseException"]),
   ("LookupError", ["Exception", "BaseException"]), ("ValueError", ["Exception", "BaseException"]),
   ("TypeError", ["Exception", "BaseException"]), ("UnicodeDecodeError", ["UnicodeError", "ValueError", "Exception", "BaseException"]),
   ("UnicodeError", ["ValueError", "Exception", "BaseException"]), ("OverflowError", ["ArithmeticError", "Exception", "BaseException"]),
   ("ArithmeticError", ["Exception", "BaseException"]), ("Exception", ["BaseException"]), ("BaseException", [])]

/-- `issubclass(c, d)` -/
def isSubclass (c d : String) : Bool := c == d || ((pyBases.lookup c).getD []).contains d

/-- the classes `str % dict` raises in CPython: unknown mapping key; incomplete or unsupported conversion; a conversion
    applied to a value it does not accept (no mapping key at all: the dict itself is the value) -/
def formatRaises : List String := ["KeyError", "ValueError", "TypeError"]

/-- an exception of class `c` raised inside `try:` with the except clauses `hs` (class caught, class raised; "<same>" =
    re-raised): the first matching clause decides what leaves; no clause matches: `c` itself -/
def throughHandlers (hs : List (String × String)) (c : String) : String :=
  match hs.find? (fun h => isSubclass c h.1) with
  | some h => if h.2 == "<same>" then c else h.2
  | none => c

/-- the class that leaves `expand()` when `s % expansions` raised `c` -/
def expandRaises (c : String) : String := throughHandlers expandHandlers c

inductive Outcome
  | fault (f : Fault)           -- an RPCError with that fault code
  | escapes (cls : String)      -- any other exception leaves reloadConfig (the client sees an internal error)
deriving DecidableEq, Repr

/-- reloadConfig when options.process_config(do_usage=False) raised an exception of class `cls`: nothing has been
    assigned yet, the state is as it was; the answer is decided by reloadConfig's except clauses -/
def rereadFailure (s : State) (cls : String) : Outcome × State :=
  match reloadCatches.find? (fun h => isSubclass cls h.1) with
  | some h => (if h.2 == "CANT_REREAD" then .fault .cantReread else .escapes ("RPCError " ++ h.2), s)
  | none => (.escapes cls, s)

/-- the class `%` raised, read off the model's error text (Model/Config.lean `expandGo` / `fmtSpec`); an unkeyed
    conversion is counted as the TypeError of `%d` (`%Y`, a ValueError, has the same text in the model) -/
def formatClass (e : String) : Option String :=
  if e == "expand:name cannot be expanded" then some "KeyError"
  else if e == "expand:%d of a string" || e == "expand:unkeyed or unsupported format" then some "TypeError"
  else if strStartsWith "expand:" e then some "ValueError"
  else none

/-- the class of the exception that leaves process_config for a parse that ended with the model's error `e` -/
def parseFailureClass (e : String) : String :=
  match formatClass e with
  | some c => expandRaises c
  | none => "ValueError"

/-- reloadConfig when the parse ended with the model's error `e` -/
def rereadUnparsable (s : State) (e : String) : Outcome × State := rereadFailure s (parseFailureClass e)

/-! ## the working directory

  supervisord reads its file for the first time where it was launched and, after daemonize(), in [supervisord]
  directory=.  The model's parse (`readConfig`) has no working directory parameter: the parsed value of every option is a
  function of the file text, the environment and %(here)s.  Whether the code agrees is a GENERATED fact: the functions
  applied to a child log file name (`childLogfileChain`) and the calls of working-directory dependent functions in the
  functions that build configurations (`cwdCalls`).  `parseAt` is the parse with whatever of that is coded applied. -/

def cwdSensitive (f : String) : Bool := ["normalize_path", "abspath", "realpath", "relpath", "absolute", "resolve"].contains f

/-- a relative name made absolute in directory `cwd` (normalisation of `.` / `..` components is not followed) -/
def absIn (cwd p : String) : String := if strStartsWith "/" p then p else cwd ++ "/" ++ p

def lfAt (cwd : String) : LogFile → LogFile
  | .path p => if childLogfileChain.any cwdSensitive then .path (absIn cwd p) else .path p
  | l => l

def pconfigAt (cwd : String) (p : PConfig) : PConfig :=
  { p with stdout_logfile := lfAt cwd p.stdout_logfile, stderr_logfile := lfAt cwd p.stderr_logfile }

def gconfigAt (cwd : String) (g : GConfig) : GConfig := { g with procs := g.procs.map (pconfigAt cwd) }

/-- process_config(do_usage=False) in working directory `cwd` -/
def parseAt (cwd : String) (ini : Ini) : Except String (List GConfig) :=
  (readConfig ini).map fun r => r.groups.map (gconfigAt cwd)

end Sv.Reread
