import SupervisorModel.Model.Listener
import SupervisorModel.Model.Events
import SupervisorModel.Generated.Pool
/-
  Model of `EventListenerPool` (supervisor/process.py): `_acceptEvent`, `dispatch`,
  `_dispatchEvent`, `handle_rejected`, `transition`, `new_serial`/`GlobalSerial`, together with
  `events.notify` over the generated class table and the listeners of Model/Listener.lean.
  Events are numbered in the order they are first passed to `notify`.
-/
namespace Sv.Pool
open Sv.Gen.Pool Sv.Gen.Events Sv.Events Sv.Listener

/-- the attributes `_acceptEvent` hangs on an event object -/
structure Ev where
  cls : Cls
  payload : Bytes
  serial : Option Int := none
  poolSerials : List (String × Int) := []
deriving Repr

structure PoolSt where
  name : String
  bufSize : Int
  subs : List Cls               -- `config.pool_events`, in order
  serial : Int := initialSerial
  buffer : List Nat := []       -- `event_buffer`: event ids, oldest first
  procs : List Lst := []
  ids : List Nat := []          -- the identity of each listener's Subprocess object (unique in the world)
  names : List String := []     -- each listener's `config.name` (the same name may occur in several pools)
  dir : List (Nat × String) := []   -- every process object of the world with its name (what `event.process.config.name` reads)
  active : Bool := true         -- the pool is in `supervisord.process_groups` (its `EventListenerPool` object exists and is in use)
  used : Bool := true           -- the pool object has been created (`false`: a configured pool that has not been added yet)
deriving Repr

/-- the type a callback is subscribed for: an `EventTypes` member, or `EventRejectedEvent` -/
inductive RTy
  | cls (c : Cls)
  | rejected
deriving DecidableEq, Repr

/-- the callbacks pools subscribe: the bound methods `pool._acceptEvent` / `pool.handle_rejected` of pool `i` -/
inductive Cb
  | accept (i : Nat)
  | handleRejected (i : Nat)
deriving DecidableEq, Repr

/-- one entry of `events.callbacks` -/
abbrev Entry := RTy × Cb

inductive POut
  | lis (pool lis : Nat) (o : Listener.Out)
  | discard (pool : Nat) (e : Nat) (serial : Int)   -- overflow: event `e` dropped, error log line with its serial
deriving Repr

structure W where
  pools : List PoolSt
  events : List Ev := []
  gserial : Int := initialSerial
  outs : List POut := []
  err : Option Listener.Err := none
  identifier : String := "supervisor"
  reg : List Entry := []        -- `events.callbacks`, in subscription order

/-- `new_serial(inst)` -/
def newSerial (serial : Int) : Int :=
  let s := if newSerial_g0 serial then newSerial_a0 serial else serial
  newSerial_a2 (newSerial_a1 s)

def setPool (w : W) (i : Nat) (f : PoolSt → PoolSt) : W :=
  { w with pools := w.pools.modify i f }
def setEv (w : W) (e : Nat) (f : Ev → Ev) : W :=
  { w with events := w.events.modify e f }

/-- `len(self.event_buffer) >= self.config.buffer_size` and `self.event_buffer` (non-empty): the oldest goes -/
def overflowed (p : PoolSt) : Bool :=
  accept_g4 true true true false p.buffer.length p.bufSize (!p.buffer.isEmpty) &&
  accept_g5 true true true false p.buffer.length p.bufSize (!p.buffer.isEmpty)

/-- the buffer part of `_acceptEvent`: `pop(0)` on overflow, then `insert(0, event)` / `append(event)` -/
def insBuf (e : Nat) (head : Bool) (p : PoolSt) : PoolSt :=
  let b := if overflowed p then p.buffer.drop 1 else p.buffer
  if accept_g6 true true true head p.buffer.length p.bufSize (!p.buffer.isEmpty) then { p with buffer := e :: b }
  else { p with buffer := b ++ [e] }

/-- the overflow rule (with its error log entry) and the insertion -/
def insertEv (i e : Nat) (head : Bool) (w : W) : W :=
  match w.pools[i]? with
  | none => w
  | some pool =>
    let w1 :=
      if overflowed pool then
        match pool.buffer with
        | d :: _ => { w with outs := w.outs ++ [.discard i d (((w.events[d]?).bind (·.serial)).getD (-1))] }
        | [] => w
      else w
    setPool w1 i (insBuf e head)

/-- `new_serial(GlobalSerial)` as `_acceptEvent` calls it: which counter is drawn from is read off the source -/
def evSerial (w : W) (pool : PoolSt) : Int := newSerial (acceptSer_c0_0 w.gserial pool.serial)
/-- `new_serial(self)` as `_acceptEvent` calls it -/
def poolSerial (w : W) (pool : PoolSt) : Int := newSerial (acceptSer_c1_0 w.gserial pool.serial)

/-- `EventListenerPool._acceptEvent(event, head)` for pool `i` and event id `e` -/
def acceptEvent (i e : Nat) (head : Bool) (w : W) : W :=
  match w.pools[i]?, w.events[e]? with
  | some pool, some ev =>
    -- serial: `event.serial = new_serial(GlobalSerial)` -- the counter handed to `new_serial` is the generated
    -- `acceptSer_c0_0` (the value of whatever object the source passes)
    let w1 := if ev.serial.isNone then
        { setEv w e (fun x => { x with serial := some (evSerial w pool) }) with gserial := evSerial w pool }
      else w
    let inPS := (ev.poolSerials.lookup pool.name).isSome
    let len : Int := pool.buffer.length
    if accept_g2 true true inPS head len pool.bufSize (!pool.buffer.isEmpty) then
      -- `event.pool_serials[self.config.name] = new_serial(self)` (generated `acceptSer_c1_0`)
      let w2 := setEv w1 e (fun x => { x with poolSerials := x.poolSerials ++ [(pool.name, poolSerial w1 pool)] })
      let w3 := setPool w2 i (fun p => { p with serial := poolSerial w1 p })
      insertEv i e head w3
    else if accept_g3 true true inPS head len pool.bufSize (!pool.buffer.isEmpty) then w1   -- already accepted
    else insertEv i e head w1
  | _, _ => w

/-! ### the subscription registry -/

/-- the bound method of pool `i` a `_subscribe` / `_unsubscribe` line names -/
def cbOf (method : String) (i : Nat) : Option Cb :=
  if method == "_acceptEvent" then some (.accept i)
  else if method == "handle_rejected" then some (.handleRejected i)
  else none

/-- the (type, callback) pairs the lines of `_subscribe` / `_unsubscribe` (regenerated `poolSubscribe` /
    `poolUnsubscribe`) stand for, in order, for pool `i` with configuration `p` -/
def regEntries (i : Nat) (p : PoolSt) : List SubEntry → List Entry
  | [] => []
  | .eachPoolEvent m :: r =>
    (match cbOf m i with
     | some c => p.subs.map fun t => (RTy.cls t, c)
     | none => []) ++ regEntries i p r
  | .rejectedEvent m :: r =>
    (match cbOf m i with
     | some c => [(RTy.rejected, c)]
     | none => []) ++ regEntries i p r

/-- `EventListenerPool._subscribe()` of pool `i` -/
def subscribePool (i : Nat) (p : PoolSt) (r : List Entry) : List Entry :=
  (regEntries i p poolSubscribe).foldl (fun r e => Events.subscribe e.1 e.2 r) r

/-- `EventListenerPool._unsubscribe()` of pool `i` -/
def unsubscribePool (i : Nat) (p : PoolSt) (r : List Entry) : List Entry :=
  (regEntries i p poolUnsubscribe).foldl (fun r e => Events.unsubscribe e.1 e.2 r) r

/-- `notify(event)` for an event of class `c`: the pools whose `_acceptEvent` runs, in registry order, one entry per
    matching subscription -/
def acceptors (r : List Entry) (c : Cls) : List Nat :=
  r.filterMap fun e => match e with
    | (.cls t, .accept i) => if delivers c t then some i else none
    | _ => none

/-- `notify(EventRejectedEvent(...))`: the pools whose `handle_rejected` runs, in registry order -/
def rejecters (r : List Entry) : List Nat :=
  r.filterMap fun e => match e with
    | (.rejected, .handleRejected i) => some i
    | _ => none

/-- the registry after the pools present at start-up were created, in configuration order (`__init__` subscribes) -/
def bootReg : Nat → List PoolSt → List Entry → List Entry
  | _, [], r => r
  | i, p :: ps, r => bootReg (i + 1) ps (if p.active && initSubscribes then subscribePool i p r else r)

/-- a daemon that has just created its configured pools -/
def boot (ps : List PoolSt) : W := { pools := ps, reg := bootReg 0 ps [] }

/-- `events.notify(event)` for a (new) event of class `c` -/
def notify (c : Cls) (payload : Bytes) (w : W) : W :=
  if w.err.isSome then w else
  let e := w.events.length
  let w1 := { w with events := w.events ++ [{ cls := c, payload := payload }] }
  (acceptors w.reg c).foldl (fun acc i => acceptEvent i e false acc) w1

/-- the owner test of `handle_rejected`, as the source writes it (generated `rejectedOwnerTest`):
    * `any(process is p for p in procs)`: the rejecting process is one of this pool's process *objects*;
    * `process in procs`: `Subprocess.__eq__` compares priorities -- with listeners of equal priority (the harness'
      configuration) every pool that has a process at all "owns" it;
    * `process.config.name in self.processes`: some process of this pool has the rejecting process' *name*. -/
def ownerTest (t : OwnerTest) (p : PoolSt) (x : Nat) : Bool :=
  match t with
  | .identity => p.ids.contains x
  | .equality => !p.ids.isEmpty
  | .name => match p.dir.lookup x with
    | some n => p.names.contains n
    | none => false

/-- "this is one of our processes".  On the unchanged tree this is `any(process is p for p in procs)`: the listeners'
    names play no part (two pools may have listeners of the same name). -/
def owns (p : PoolSt) (who : Option Nat) : Bool :=
  match who with
  | some x => ownerTest rejectedOwnerTest p x
  | none => false

/-- the identity of listener `li` of pool `pi` -/
def whoOf (w : W) (pi li : Nat) : Option Nat := (w.pools[pi]?).bind (·.ids[li]?)

/-- `notify(EventRejectedEvent(process, event))`: the `handle_rejected` of every pool subscribed to it runs; only a pool
    that owns the rejecting process object re-buffers the event -/
def rejected (who : Option Nat) (e : Nat) (w : W) : W :=
  (rejecters w.reg).foldl (fun acc i =>
    match acc.pools[i]? with
    | some p => if owns p who then acceptEvent i e true acc else acc
    | none => acc) w

def natBytes (n : Int) : Bytes := bytesOfString (toString n)

/-- `_eventEnvelope` (ASCII payloads: `len` is the byte length) -/
def envelope (w : W) (pool : PoolSt) (ev : Ev) : Bytes :=
  let ser := ev.serial.getD (-1)
  let ps := (ev.poolSerials.lookup pool.name).getD (-1)
  bytesOfString s!"ver:3.0 server:{w.identifier} serial:{ser} pool:{pool.name} poolserial:{ps} eventname:{ev.cls.name} len:{ev.payload.length}\n"
    ++ ev.payload

/-- fold the outputs of a listener operation into the world, acting on rejections as they come -/
def absorb (pi li : Nat) (os : List Listener.Out) (w : W) : W :=
  os.foldl (fun acc o =>
    let acc1 := { acc with outs := acc.outs ++ [.lis pi li o] }
    match o with
    | .rejected (some e) => rejected (whoOf acc pi li) e acc1
    | _ => acc1) w

/-- run a listener-level operation on listener `li` of pool `pi` (a pool that is not in `process_groups` has no
    live processes: nothing happens) -/
def onListener (pi li : Nat) (f : Listener.S → Listener.S) (w : W) : W :=
  if w.err.isSome then w else
  match w.pools[pi]? with
  | none => w
  | some pool =>
    if !pool.active then w else
    match pool.procs[li]? with
    | none => w
    | some l =>
      let r := f { p := l }
      let w1 := setPool w pi (fun p => { p with procs := p.procs.set li r.p })
      let w2 := absorb pi li r.outs w1
      { w2 with err := r.err }

/-- `_dispatchEvent(event)`: first listener that takes it -/
def dispatchEvent (pi e : Nat) (w : W) : W × Bool :=
  match w.pools[pi]?, w.events[e]? with
  | some pool, some ev =>
    let env := envelope w pool ev
    go pi e env pool.procs.length 0 w
  | _, _ => (w, false)
where
  go (pi e : Nat) (env : Bytes) : Nat → Nat → W → W × Bool
    | 0, _, w => (w, false)
    | fuel + 1, li, w =>
      match (w.pools[pi]?).bind (·.procs[li]?) with
      | none => (w, false)
      | some l =>
        let r := trySend e env { p := l }
        let w1 := setPool w pi (fun p => { p with procs := p.procs.set li r.1.p })
        let w2 := absorb pi li r.1.outs w1
        if r.1.err.isSome then ({ w2 with err := r.1.err }, false)
        else match r.2 with
          | .sent => (w2, true)
          | _ => go pi e env fuel (li + 1) w2

/-- `dispatch()` -/
def dispatch (pi : Nat) : Nat → W → W
  | 0, w => w
  | fuel + 1, w =>
    match w.pools[pi]? with
    | none => w
    | some pool =>
      match pool.buffer with
      | [] => w
      | e :: _ =>
        let w1 := setPool w pi (fun p => { p with buffer := p.buffer.drop 1 })   -- pop(0)
        let r := dispatchEvent pi e w1
        if r.1.err.isSome then r.1
        else if r.2 then dispatch pi fuel r.1
        else acceptEvent pi e true r.1

/-- `transition()` (the listeners' own `transition()` is outside this model) -/
def transition (pi : Nat) (w : W) : W :=
  if w.err.isSome then w else
  match w.pools[pi]? with
  | none => w
  | some pool =>
    let capable := pool.procs.any fun l => ptrans_g0 l.running (l.ls == .READY) false 0 0 0 && ptrans_g1 l.running (l.ls == .READY) false 0 0 0
    if ptrans_g2 false false capable 0 0 0 then dispatch pi (pool.buffer.length + 1) w else w

/-- `Subprocess.finish()` of a listener: the PROCESS_STATE event its state change emits, then the listener part -/
def dieOp (h : Bytes → HRes) (pi li : Nat) (data payload : Bytes) (w : W) : W :=
  if w.err.isSome then w else
  match (w.pools[pi]?).bind (·.procs[li]?) with
  | none => w
  | some l =>
    -- drain() first, then the state change event, then the rejection of a held event
    let w1 := onListener pi li (fun s => s |> setP (fun p => { p with pipeBroken := true }) |> readEvent h data |> writeEvent) w
    if w1.err.isSome then w1 else
    let cls : Cls := if l.killing then .PROCESS_STATE_STOPPED else .PROCESS_STATE_EXITED
    let w2 := notify cls payload w1
    onListener pi li (die h []) w2

/-- `Subprocess.spawn()` of a listener: the PROCESS_STATE_STARTING event, then new dispatchers -/
def spawnOp (pi li : Nat) (pid : Int) (payload : Bytes) (w : W) : W :=
  if w.err.isSome then w else
  match (w.pools[pi]?).bind (·.procs[li]?) with
  | none => w
  | some l =>
    if l.pid != 0 then w
    else onListener pi li (spawn pid) (notify .PROCESS_STATE_STARTING payload w)

/-! ### pools added and removed at run time

  `Supervisor.remove_process_group(name)` / `add_process_group(config)` for a listener pool: the statement sequences
  regenerated from supervisord.py (`groupRemoveSteps`, `groupAddWhenAbsent`, `groupAddWhenPresent`) are executed step
  by step.  `before_remove()` is `_unsubscribe()`, `make_group()` is `EventListenerPool(config)` whose `__init__`
  subscribes (regenerated `beforeRemoveUnsubscribes`, `initSubscribes`); the other opaque calls (`after_setuid`, logging)
  have no effect on pools or registry. -/

/-- `get_unstopped_processes()` is non-empty: some listener of the pool has a live child -/
def unstopped (p : PoolSt) : Bool := p.procs.any fun l => l.pid != 0

/-- the registered type of the group events -/
def clsOfGroupEvent (cls : String) : Option Cls :=
  if cls == "ProcessGroupAddedEvent" then some .PROCESS_GROUP_ADDED
  else if cls == "ProcessGroupRemovedEvent" then some .PROCESS_GROUP_REMOVED
  else none

/-- `ProcessGroupEvent.payload()` -/
def groupPayload (name : String) : Bytes := bytesOfString s!"groupname:{name}\n"

/-- one statement of `add_process_group` / `remove_process_group` for the pool in slot `pi`; the second component is
    the value returned so far (`none`: still executing) -/
def gstep (pi : Nat) (s : W × Option Bool) (st : GStep) : W × Option Bool :=
  if s.2.isSome then s else
  match st with
  | .ret b => (s.1, some b)
  | .call f =>
    match s.1.pools[pi]? with
    | some p =>
      if f == "before_remove" && beforeRemoveUnsubscribes then ({ s.1 with reg := unsubscribePool pi p s.1.reg }, none)
      else s
    | none => s
  | .insertMade _ =>
    match s.1.pools[pi]? with
    | some p =>
      ({ setPool s.1 pi (fun q => { q with active := true, used := true }) with
           reg := if initSubscribes then subscribePool pi p s.1.reg else s.1.reg }, none)
    | none => s
  | .delete => (setPool s.1 pi (fun q => { q with active := false }), none)
  | .notify cls =>
    match s.1.pools[pi]?, clsOfGroupEvent cls with
    | some p, some c => (notify c (groupPayload p.name) s.1, none)
    | _, _ => s
  | .retIfUnstopped b =>
    match s.1.pools[pi]? with
    | some p => if unstopped p then (s.1, some b) else s
    | none => s

def runGroup (pi : Nat) (steps : List GStep) (w : W) : W × Option Bool := steps.foldl (gstep pi) (w, none)

/-- `supervisord.remove_process_group(name)` for the pool in slot `pi` (which is in `process_groups`) -/
def removeRun (pi : Nat) (w : W) : W × Option Bool :=
  match w.pools[pi]? with
  | none => (w, none)
  | some _ => runGroup pi groupRemoveSteps w
def removeOp (pi : Nat) (w : W) : W := if w.err.isSome then w else (removeRun pi w).1

/-- `supervisord.add_process_group(config)` for the pool configured in slot `pi` -/
def addRun (pi : Nat) (w : W) : W × Option Bool :=
  match w.pools[pi]? with
  | none => (w, none)
  | some p => runGroup pi (if p.active then groupAddWhenPresent else groupAddWhenAbsent) w
def addOp (pi : Nat) (w : W) : W := if w.err.isSome then w else (addRun pi w).1

/-! ### line protocol -/

def showPOut : POut → String
  | .lis p l (.lstate o n) => s!"ls:{p}.{l}:{o.name}>{n.name}"
  | .lis p l (.handler e r) => s!"h:{p}.{l}:{showOpt e}:{hexOfBytes r}"
  | .lis p l (.rejected e) => s!"rej:{p}.{l}:{showOpt e}"
  | .lis p l (.wrote b) => s!"w:{p}.{l}:{hexOfBytes b}"
  | .lis _ _ _ => ""
  | .discard p _ s => s!"discard:{p}:{s}"

def showW (w : W) (pre : Nat) (extra : List String := []) : String :=
  let v := ((w.outs.drop pre).map showPOut).filter (· ≠ "") ++ extra
  s!"{if v.isEmpty then "-" else ";".intercalate v} | {showErr w.err}"

def showRes : Option Bool → String
  | some true => "res:true"
  | some false => "res:false"
  | none => "res:none"

/-- the operations of a history: what the environment (children, kernel, main loop) can make happen -/
inductive Op
  | notify (c : Cls) (payload : Bytes)
  | transition (pi : Nat)
  | read (pi li : Nat) (d : Bytes)
  | wev (pi li : Nat)
  | pstate (pi li : Nat) (ps : PState)
  | cap (pi li : Nat) (c : Option Nat)
  | breakpipe (pi li : Nat)
  | die (pi li : Nat) (d payload : Bytes)
  | spawn (pi li : Nat) (pid : Int) (payload : Bytes)
  | remove (pi : Nat)     -- `remove_process_group` of the pool in slot `pi`
  | add (pi : Nat)        -- `add_process_group` of the pool configured in slot `pi`

def applyOp (h : Bytes → HRes) (w : W) : Op → W
  | .notify c b => notify c b w
  | .transition pi => transition pi w
  | .read pi li d => onListener pi li (readEvent h d) w
  | .wev pi li => onListener pi li writeEvent w
  | .pstate pi li ps => onListener pi li (setPState ps) w
  | .cap pi li c => onListener pi li (setP fun p => { p with pipeCap := c }) w
  | .breakpipe pi li => onListener pi li (setP fun p => { p with pipeBroken := true }) w
  | .die pi li d p => dieOp h pi li d p w
  | .spawn pi li pid p => spawnOp pi li pid p w
  | .remove pi => removeOp pi w
  | .add pi => addOp pi w

def isActive (w : W) (pi : Nat) : Bool := ((w.pools[pi]?).map (·.active)).getD false

/-- operations that cannot happen: anything on a pool that is not in `process_groups` (it has no processes, is not
    transitioned, cannot be removed again), and the addition of a pool whose slot has been used already (a pool that is
    added again is a new object: a new slot) -/
def blocked (w : W) : Op → Bool
  | .notify _ _ => false
  | .transition pi => !isActive w pi
  | .read pi _ _ => !isActive w pi
  | .wev pi _ => !isActive w pi
  | .pstate pi _ _ => !isActive w pi
  | .cap pi _ _ => !isActive w pi
  | .breakpipe pi _ => !isActive w pi
  | .die pi _ _ _ => !isActive w pi
  | .spawn pi _ _ _ => !isActive w pi
  | .remove pi => !isActive w pi
  | .add pi => !isActive w pi && ((w.pools[pi]?).map (·.used)).getD true

/-- one operation of a history; an exception that escaped the previous operation was observed and is gone -/
def step (h : Bytes → HRes) (w : W) (op : Op) : W :=
  if blocked w op then { w with err := none } else applyOp h { w with err := none } op

/-- a whole history -/
def exec (h : Bytes → HRes) (w : W) (ops : List Op) : W := ops.foldl (step h) w

def parseOp (l : String) : Option Op :=
  match words l with
  | ["notify", c, hx] =>
    match parseCls c, bytesOfHex hx with
    | some c, some b => some (.notify c b)
    | _, _ => none
  | ["transition", pi] => pi.toNat?.map .transition
  | ["read", pi, li, hx] =>
    match pi.toNat?, li.toNat?, bytesOfHex hx with
    | some pi, some li, some d => some (.read pi li d)
    | _, _, _ => none
  | ["wev", pi, li] =>
    match pi.toNat?, li.toNat? with
    | some pi, some li => some (.wev pi li)
    | _, _ => none
  | ["pstate", pi, li, t] =>
    match pi.toNat?, li.toNat?, parsePState t with
    | some pi, some li, some ps => some (.pstate pi li ps)
    | _, _, _ => none
  | ["cap", pi, li, t] =>
    match pi.toNat?, li.toNat?, parseCap t with
    | some pi, some li, some c => some (.cap pi li c)
    | _, _, _ => none
  | ["breakpipe", pi, li] =>
    match pi.toNat?, li.toNat? with
    | some pi, some li => some (.breakpipe pi li)
    | _, _ => none
  | ["die", pi, li, hx, pay] =>
    match pi.toNat?, li.toNat?, bytesOfHex hx, bytesOfHex pay with
    | some pi, some li, some d, some p => some (.die pi li d p)
    | _, _, _, _ => none
  | ["spawn", pi, li, pid, pay] =>
    match pi.toNat?, li.toNat?, pid.toInt?, bytesOfHex pay with
    | some pi, some li, some n, some p => some (.spawn pi li n p)
    | _, _, _, _ => none
  | ["remove", pi] => pi.toNat?.map .remove
  | ["add", pi] => pi.toNat?.map .add
  | _ => none

/-- what the call answered, for the operations that are calls with a result -/
def opResult (w : W) : Op → List String
  | .remove pi => [showRes (removeRun pi { w with err := none }).2]
  | .add pi => [showRes (addRun pi { w with err := none }).2]
  | _ => []

def runOps (h : Bytes → HRes) : W → List String → List String
  | _, [] => []
  | w, l :: ls =>
    match parseOp l with
    | none => "bad-op" :: runOps h w ls
    | some op =>
      if blocked w op then "bad-op" :: runOps h w ls
      else let w' := step h w op; showW w' w.outs.length (opResult w op) :: runOps h w' ls

def mkPool (name bs nl types : String) (shared present : Bool) : Option PoolSt :=
  match bs.toInt?, nl.toNat?, ((types.splitOn "+").filter (· ≠ "")).mapM parseCls with
  | some b, some n, some ts =>
    some { name := name, bufSize := b, subs := ts, procs := List.replicate n Listener.initial,
           names := (List.range n).map fun j => if shared then s!"l{j}" else s!"{name}_l{j}",
           active := present, used := present }
  | _, _, _ => none

/-- pools=name:bufsize:nlisteners:TYPE+TYPE[:absent],…  (`absent`: configured, added to the daemon later by an `add` operation) -/
def parsePools (spec : String) (shared : Bool) : Option (List PoolSt) :=
  (spec.splitOn ",").mapM fun ps =>
    match ps.splitOn ":" with
    | [name, bs, nl, types] => mkPool name bs nl types shared true
    | [name, bs, nl, types, "absent"] => mkPool name bs nl types shared false
    | _ => none

/-- object identities: numbered through all pools, so no two listeners share one -/
def assignIds : Nat → List PoolSt → List PoolSt
  | _, [] => []
  | k, p :: ps => { p with ids := (List.range p.procs.length).map (· + k) } :: assignIds (k + p.procs.length) ps

/-- the world's directory of process objects (identity, name), known to every pool -/
def withDir (ps : List PoolSt) : List PoolSt :=
  let d := ps.flatMap fun p => p.ids.zip p.names
  ps.map fun p => { p with dir := d }

def runCase (cfg : List String) (ops : List String) : List String :=
  let shared := match kvGet cfg "names" with
    | some "shared" => some true
    | some "unique" => some false
    | _ => none
  match kvGet cfg "handler", shared.bind (fun sh => (kvGet cfg "pools").bind (parsePools · sh)) with
  | some "default", some ps => runOps defaultHandler (boot (withDir (assignIds 0 ps))) ops
  | some "strict", some ps => runOps strictHandler (boot (withDir (assignIds 0 ps))) ops
  | _, _ => ops.map fun _ => "bad-config"

end Sv.Pool
