import SupervisorModel.Lemmas.Listener
/-
  Conservation at one listener (used by Lemmas/PoolLedger.lean for Props.C09.conservation):
  whatever a listener-level operation does, the event the listener holds is accounted for by its
  outputs -- it is still held, or the result handler accepted an answer for it (once), or it was
  rejected (once); nothing else is ever handled or rejected.
-/
set_option linter.unusedSimpArgs false
set_option linter.unusedVariables false
namespace Sv.Listener
open Sv.Gen.Listener

/-- 1 if the listener holds event `e` (`Subprocess.event is e`) -/
def heldL (p : Lst) (e : Nat) : Nat := if p.event = some e then 1 else 0

/-- the result handler was called for event `e` with a result it accepts (the listener answered OK) -/
def isOkOut (h : Bytes → HRes) (e : Nat) : Out → Bool
  | .handler (some e') r => e' == e && h r == .ok
  | _ => false

/-- `notify(EventRejectedEvent(process, e))` -/
def isRejOut (e : Nat) : Out → Bool
  | .rejected (some e') => e' == e
  | _ => false

def okL (h : Bytes → HRes) (e : Nat) (os : List Out) : Nat := os.countP (isOkOut h e)
def rejL (e : Nat) (os : List Out) : Nat := os.countP (isRejOut e)

theorem okL_append (h : Bytes → HRes) (e : Nat) (a b : List Out) : okL h e (a ++ b) = okL h e a + okL h e b := by
  simp [okL, List.countP_append]
theorem rejL_append (e : Nat) (a b : List Out) : rejL e (a ++ b) = rejL e a + rejL e b := by
  simp [rejL, List.countP_append]

/-- the per-listener part of the pool invariant -/
def LOK (p : Lst) : Prop := Wf p ∧ (p.event.isSome = true → p.ls = .BUSY ∧ p.pid ≠ 0)

theorem lok_initial : LOK initial := ⟨by simp [Wf, initial], by intro he; simp [initial] at he⟩

theorem inv_of_lok (p : Lst) (e : Option Err) (h : LOK p) : Inv { p := p, outs := [], err := e } :=
  ⟨h.1, h.2, by intro hp; simp [pendFrom] at hp, rfl⟩
theorem lok_of_inv (s : S) (h : Inv s) : LOK s.p := ⟨h.wf, h.busy⟩

/-- `s'` comes from `s` by steps that hand nothing over and account for the held event -/
def LT (h : Bytes → HRes) (s s' : S) : Prop :=
  ∃ l, s'.outs = s.outs ++ l ∧ NoSent l ∧ ∀ e, heldL s'.p e + okL h e l + rejL e l = heldL s.p e

theorem LT.refl (h : Bytes → HRes) (s : S) : LT h s s :=
  ⟨[], by simp, by intro o ho; simp at ho, by intro e; simp [okL, rejL]⟩

theorem LT.trans {h : Bytes → HRes} {a b c : S} (h1 : LT h a b) (h2 : LT h b c) : LT h a c := by
  obtain ⟨l1, o1, n1, c1⟩ := h1
  obtain ⟨l2, o2, n2, c2⟩ := h2
  refine ⟨l1 ++ l2, by rw [o2, o1, List.append_assoc], ?_, ?_⟩
  · intro o ho
    rcases List.mem_append.mp ho with ho | ho
    · exact n1 o ho
    · exact n2 o ho
  · intro e
    have := c1 e; have := c2 e
    rw [okL_append, rejL_append]; omega

theorem count_neutral (h : Bytes → HRes) (e : Nat) (l : List Out) (hn : Neutral l) : okL h e l = 0 ∧ rejL e l = 0 := by
  constructor
  · simp only [okL, List.countP_eq_zero]
    intro o ho
    have := (hn o ho).2
    cases o <;> simp_all [clears, isOkOut]
  · simp only [rejL, List.countP_eq_zero]
    intro o ho
    have := (hn o ho).2
    cases o <;> simp_all [clears, isRejOut]

theorem lt_of_ns (h : Bytes → HRes) {s s' : S} (hns : NS s s') : LT h s s' := by
  obtain ⟨⟨a1, _, _, _, _⟩, l, ho, hn⟩ := hns
  refine ⟨l, ho, fun o hm => (hn o hm).1, fun e => ?_⟩
  obtain ⟨h1, h2⟩ := count_neutral h e l hn
  simp [h1, h2, heldL, a1]

/-- what one call body of the parser does to the held event, exactly -/
def StepCons (h : Bytes → HRes) (p : Lst) (r : StepR) : Prop :=
  NoSent r.outs ∧ ∀ e, heldL r.p e + okL h e r.outs + rejL e r.outs = heldL p e

theorem stepCons_keep (h : Bytes → HRes) (p q : Lst) (hq : q.event = p.event) (e : Option Err) (a : Bool) :
    StepCons h p { p := q, outs := [], err := e, again := a } :=
  ⟨by intro o ho; simp at ho, by intro x; simp [heldL, okL, rejL, hq]⟩

theorem handled_cons (h : Bytes → HRes) (p q : Lst) (hq : q.event = p.event) (a : Bool) :
    StepCons h p { handled h q with again := a } := by
  unfold handled
  cases hh : h q.result
  · refine ⟨by intro o ho; simp at ho; rcases ho with rfl | rfl <;> rfl, fun e => ?_⟩
    simp only [afterResult, heldL, okL, rejL, hq]
    cases hev : p.event with
    | none => simp [isOkOut, isRejOut]
    | some x =>
      by_cases hx : x = e
      · simp [isOkOut, isRejOut, hx, hh]
      · simp [isOkOut, isRejOut, hx, hh]
  · refine ⟨by intro o ho; simp at ho; rcases ho with rfl | rfl | rfl <;> rfl, fun e => ?_⟩
    simp only [afterResult, heldL, okL, rejL, hq]
    cases hev : p.event with
    | none => simp [isOkOut, isRejOut]
    | some x =>
      by_cases hx : x = e
      · simp [isOkOut, isRejOut, hx, hh]
      · simp [isOkOut, isRejOut, hx, hh]
  · refine ⟨by intro o ho; simp at ho; rcases ho with rfl | rfl | rfl <;> rfl, fun e => ?_⟩
    simp only [afterResult, heldL, okL, rejL, hq]
    cases hev : p.event with
    | none => simp [isOkOut, isRejOut]
    | some x =>
      by_cases hx : x = e
      · simp [isOkOut, isRejOut, hx, hh]
      · simp [isOkOut, isRejOut, hx, hh]

theorem bodyC_cons (h : Bytes → HRes) (p q : Lst) (n : Int) (hq : q.event = p.event) : StepCons h p (bodyC h q n) := by
  unfold bodyC
  split
  · exact stepCons_keep h p q hq _ _
  · split
    · exact handled_cons h p (takeBody q n) hq _
    · exact stepCons_keep h p (takeBody q n) hq _ _

theorem stepC_cons (h : Bytes → HRes) (p : Lst) (hI : p.event.isSome = true → p.ls = .BUSY) :
    StepCons h p (stepC h p) := by
  have evnone : p.ls ≠ .BUSY → p.event = none := by
    intro hne
    cases he : p.event with
    | none => rfl
    | some e => exact absurd (hI (by simp [he])) hne
  have unk : p.event = none → ∀ (o : List Out) (a : Bool), (∀ x ∈ o, isSent x = false ∧ clears x = false) →
      StepCons h p { p := toUnknown p, outs := o, again := a } := by
    intro hen o a ho
    refine ⟨fun x hx => (ho x hx).1, fun e => ?_⟩
    obtain ⟨h1, h2⟩ := count_neutral h e o ho
    simp [h1, h2, heldL, toUnknown, hen]
  by_cases hb : p.buf = []
  · rw [stepC_nil h p hb]; exact stepCons_keep h p p rfl _ _
  · cases hl : p.ls
    · rw [stepC_ready h p hb hl]
      exact unk (evnone (by simp [hl])) _ _ (by intro x hx; simp at hx; subst hx; exact ⟨rfl, rfl⟩)
    · rcases Option.eq_none_or_eq_some p.resultlen with hr | ⟨n, hr⟩
      · rw [stepC_header h p hb hl hr]
        unfold headerC
        rcases Option.eq_none_or_eq_some (findNL p.buf) with hf | ⟨pos, hf⟩
        · simp only [hf]; exact stepCons_keep h p p rfl _ _
        · rcases Option.eq_none_or_eq_some (headerLenC (p.buf.take pos)) with hh | ⟨m, hh⟩
          · simp only [hf, hh]
            refine ⟨by intro o ho; simp at ho; rcases ho with rfl | rfl <;> rfl, fun e => ?_⟩
            simp only [heldL, okL, rejL, toUnknown]
            cases hev : p.event with
            | none => simp [isOkOut, isRejOut]
            | some x =>
              by_cases hx : x = e
              · simp [isOkOut, isRejOut, hx]
              · simp [isOkOut, isRejOut, hx]
          · simp only [hf, hh]
            exact bodyC_cons h p (afterHeader p pos m) m rfl
      · rw [stepC_body h p n hb hl hr]
        exact bodyC_cons h p p n rfl
    · rw [stepC_ack h p hb hl]
      unfold ackC
      have hen := evnone (by simp [hl])
      split
      · exact stepCons_keep h p p rfl _ _
      · split
        · refine ⟨by intro o ho; simp at ho; subst ho; rfl, fun e => ?_⟩
          simp [heldL, okL, rejL, hen, isOkOut, isRejOut]
        · exact unk hen _ _ (by intro x hx; simp at hx; subst hx; exact ⟨rfl, rfl⟩)
    · rw [stepC_unknown h p hb hl]
      exact stepCons_keep h p { p with buf := [] } rfl none false

theorem lt_of_stepCons (h : Bytes → HRes) (s : S) (r : StepR) (hs : StepCons h s.p r) (e : Option Err) :
    LT h s { p := r.p, outs := s.outs ++ r.outs, err := e } :=
  ⟨r.outs, rfl, hs.1, hs.2⟩

theorem runHL_lt (h : Bytes → HRes) : ∀ (k : Nat) (s : S), LOK s.p → LT h s (runHL h k s) ∧ LOK (runHL h k s).p
  | 0, s, hi => by
    unfold runHL raise guard
    split
    · exact ⟨LT.refl h s, hi⟩
    · exact ⟨⟨[], by simp, by intro o ho; simp at ho, by intro e; simp [okL, rejL]⟩, hi⟩
  | k + 1, s, hi => by
    by_cases he : s.err = none
    · rw [runHL_succ h k s he]
      have hw := stepC_wf h s.p hi.1
      have hc := stepC_cons h s.p (fun hs => (hi.2 hs).1)
      have hok := stepC_stepOK h s.p hi.1 (fun hs => (hi.2 hs).1)
      have hlt := lt_of_stepCons h s (stepC h s.p) hc (stepC h s.p).err
      have hi' : LOK (stepC h s.p).p := by
        refine ⟨hw.2, fun hev => ?_⟩
        obtain ⟨hpid, _, hcase⟩ := hok
        rcases hcase with ⟨h1, h2, _⟩ | ⟨h1, _⟩
        · rw [h1] at hev; rw [h2, hpid]; exact hi.2 hev
        · rw [h1] at hev; cases hev
      split
      · obtain ⟨a, b⟩ := runHL_lt h k
          { p := (stepC h s.p).p, outs := s.outs ++ (stepC h s.p).outs, err := (stepC h s.p).err } hi'
        exact ⟨LT.trans hlt a, b⟩
      · exact ⟨hlt, hi'⟩
    · have : s.err.isSome = true := by cases hs : s.err <;> simp_all
      simp only [runHL, this, if_true]
      exact ⟨LT.refl h s, hi⟩

theorem lt_hlsc (h : Bytes → HRes) (s : S) (hi : LOK s.p) : LT h s (hlsc h s) ∧ LOK (hlsc h s).p :=
  runHL_lt h _ s hi

theorem lok_ns {s s' : S} (hi : LOK s.p) (hns : NS s s') : LOK s'.p := by
  obtain ⟨⟨a1, a2, a3, a4, a5⟩, _⟩ := hns
  refine ⟨?_, fun he => ?_⟩
  · have := hi.1; unfold Wf at *; rw [a4, a5]; exact this
  · rw [a1] at he; rw [a2, a3]; exact hi.2 he

theorem lt_readEvent (h : Bytes → HRes) (d : Bytes) (s : S) (hi : LOK s.p) :
    LT h s (readEvent h d s) ∧ LOK (readEvent h d s).p := by
  unfold readEvent guard
  split
  · exact ⟨LT.refl h s, hi⟩
  · simp only []
    split
    · exact ⟨LT.refl h s, hi⟩
    · split
      · have hns : NS s (emit .outClosed (setP (fun p => { p with outClosed := true }) s)) :=
          NS.trans (ns_setP _ s ⟨rfl, rfl, rfl, rfl, rfl⟩) (ns_emit _ _ ⟨rfl, rfl⟩)
        obtain ⟨a, b⟩ := lt_hlsc h _ (lok_ns hi hns)
        exact ⟨LT.trans (lt_of_ns h hns) a, b⟩
      · unfold feed
        have hns : NS s (setP (fun p => { p with buf := p.buf ++ d }) s) := ns_setP _ s ⟨rfl, rfl, rfl, rfl, rfl⟩
        obtain ⟨a, b⟩ := lt_hlsc h _ (lok_ns hi hns)
        exact ⟨LT.trans (lt_of_ns h hns) a, b⟩

theorem lt_ns (h : Bytes → HRes) {s s' : S} (hi : LOK s.p) (hns : NS s s') : LT h s s' ∧ LOK s'.p :=
  ⟨lt_of_ns h hns, lok_ns hi hns⟩

theorem lt_die (h : Bytes → HRes) (d : Bytes) (s : S) (hi : LOK s.p) : LT h s (die h d s) ∧ LOK (die h d s).p := by
  unfold die guard
  split
  · exact ⟨LT.refl h s, hi⟩
  · simp only []
    have h0 := lt_ns h hi (ns_setP (fun p => { p with pipeBroken := true }) s ⟨rfl, rfl, rfl, rfl, rfl⟩)
    have h1 := lt_readEvent h d _ h0.2
    have h2 := lt_ns h h1.2 (ns_writeEvent _)
    have h3 : LT h s (writeEvent (readEvent h d (setP (fun p => { p with pipeBroken := true }) s))) :=
      LT.trans h0.1 (LT.trans h1.1 h2.1)
    have h4 := h2.2
    generalize writeEvent (readEvent h d (setP (fun p => { p with pipeBroken := true }) s)) = t at h3 h4
    split
    · exact ⟨h3, h4⟩
    · rename_i het
      have het' : t.err = none := by simpa using het
      cases hev : t.p.event with
      | none =>
        simp only [setP, guard, het', Option.isSome_none, Bool.false_eq_true, if_false]
        refine ⟨LT.trans h3 ⟨[], by simp, by intro o ho; simp at ho, fun e => ?_⟩, ?_, ?_⟩
        · simp [heldL, okL, rejL, hev]
        · have := h4.1; unfold Wf at *; exact this
        · intro he; simp only [] at he; rw [hev] at he; cases he
      | some x =>
        simp only [setP, emit, guard, het', Option.isSome_none, Bool.false_eq_true, if_false]
        refine ⟨LT.trans h3 ⟨[.rejected (some x)], rfl, by intro o ho; simp at ho; subst ho; rfl, fun e => ?_⟩, ?_, ?_⟩
        · by_cases hx : x = e
          · simp [heldL, okL, rejL, hev, isOkOut, isRejOut, hx]
          · simp [heldL, okL, rejL, hev, isOkOut, isRejOut, hx]
        · have := h4.1; unfold Wf at *; exact this
        · intro he; cases he

theorem lt_spawn (h : Bytes → HRes) (pid : Int) (s : S) (hi : LOK s.p) : LT h s (spawn pid s) ∧ LOK (spawn pid s).p := by
  unfold spawn guard
  split
  · exact ⟨LT.refl h s, hi⟩
  · simp only []
    split
    · exact ⟨LT.refl h s, hi⟩
    · rename_i hes hp
      have hp0 : s.p.pid = 0 := by simpa using hp
      have hes' : s.err = none := by simpa using hes
      have hev : s.p.event = none := by
        cases hev : s.p.event with
        | none => rfl
        | some e => exact absurd hp0 (hi.2 (by simp [hev])).2
      simp only [setP, guard, hes', Option.isSome_none, Bool.false_eq_true, if_false]
      refine ⟨⟨[], by simp, by intro o ho; simp at ho, fun e => ?_⟩, by simp [Wf, fresh, initialResult], ?_⟩
      · simp [heldL, okL, rejL, hev, fresh]
      · intro he; simp [fresh] at he

theorem ns_setPState (ps : PState) (s : S) : NS s (setPState ps s) := by
  unfold setPState
  refine ns_setP _ s ?_
  split
  · exact ⟨rfl, rfl, rfl, rfl, rfl⟩
  · cases ps <;> exact ⟨rfl, rfl, rfl, rfl, rfl⟩

/-- a hand-over attempt on a listener with nothing pending in its trace: either the listener now holds `ev`
    (it held nothing before) or it holds what it held -/
theorem trySend_held (ev : Nat) (env : Bytes) (l : Lst) (hi : LOK l) :
    LOK (trySend ev env { p := l }).1.p ∧
    (((trySend ev env { p := l }).2 = .sent ∧ l.event = none ∧ (trySend ev env { p := l }).1.p.event = some ev) ∨
     ((trySend ev env { p := l }).2 ≠ .sent ∧ (trySend ev env { p := l }).1.p.event = l.event)) := by
  refine ⟨lok_of_inv _ (inv_trySend ev env _ (inv_of_lok l none hi)), ?_⟩
  unfold trySend
  simp only [Option.isSome_none, Bool.false_eq_true, if_false]
  split
  · exact Or.inr ⟨by simp, rfl⟩
  · split
    · rename_i hready
      have hl : l.ls = .READY := by simpa using hready
      have hev : l.event = none := by
        cases hev : l.event with
        | none => rfl
        | some e => have := (hi.2 (by simp [hev])).1; rw [hl] at this; cases this
      have hns := ns_pwrite env ({ p := l } : S)
      have herr := pwrite_err env ({ p := l } : S) rfl
      rcases hw : pwrite env ({ p := l } : S) with ⟨s1, r⟩
      rw [hw] at hns herr
      simp only [] at herr
      obtain ⟨⟨c1, _, _, _, _⟩, _⟩ := hns
      cases r with
      | epipe => exact Or.inr ⟨by simp, c1⟩
      | ok =>
        simp only [herr, Option.isSome_none, Bool.false_eq_true, if_false]
        refine Or.inl ⟨?_, hev, ?_⟩ <;> simp [emit, setP, guard, herr]
    · exact Or.inr ⟨by simp, rfl⟩

end Sv.Listener
