import SupervisorModel.Basic.Bytes
import SupervisorModel.Generated.Auth
/-
  Model of HTTP authentication in supervisord:

  * `medusa/auth_handler.py`  `auth_handler.handle_request` — `get_header` with the AUTHORIZATION
    regexp, scheme test, base64 + UTF-8 decoding, split on the first ':', authorizer call, the
    400 / 401 answers;
  * `http.py`  `encrypted_dictionary_authorizer.authorize` — plain and `{SHA}` stored passwords;
  * `http.py`  `make_http_servers` — which handlers are wrapped when a username is configured, and
    in which order the server consults them (tables regenerated from the source);
  * `http.py`  `deferring_http_channel.found_terminator` — first matching handler, exception → 500,
    no handler → 404.

  Text is represented by its UTF-8 bytes (`Sv.Bytes`).  Parameters of the model (trusted, see the
  harness' TRUSTED list): base64 decoding, UTF-8 validation, SHA-1.
-/
namespace Sv.Auth
open Sv.Gen.Auth

/-- the runtime functions the decision depends on -/
structure Params where
  /-- `decodestring(as_bytes(cookie))`; `none` = it raises (binascii.Error) -/
  b64 : Bytes → Option Bytes
  /-- `as_string(…)` succeeds (the bytes are valid UTF-8) -/
  utf8ok : Bytes → Bool
  /-- `sha1(as_bytes(password)).hexdigest()` -/
  sha1hex : Bytes → Bytes

/-! ### the AUTHORIZATION regexp `Authorization: ([^ ]+) (.*)` with `re.IGNORECASE`, as a function -/

def lowerByte (b : UInt8) : UInt8 := if 65 ≤ b ∧ b ≤ 90 then b + 32 else b

/-- `str.lower()` as far as a comparison with an ASCII lower-case word is concerned -/
def lowerAscii (s : Bytes) : Bytes := s.map lowerByte

/-- match a literal prefix ignoring case.  Python's `re.IGNORECASE` on `str` folds ASCII letters
    and additionally treats U+0130/U+0131 as `i`, U+017F as `s`, U+212A as `k`. -/
def matchLitCI : Bytes → Bytes → Option Bytes
  | [], s => some s
  | p :: ps, s =>
    let lp := lowerByte p
    match s with
    | [] => none
    | c :: r =>
      if lowerByte c = lp then matchLitCI ps r
      else if lp = 105 ∧ c = 0xC4 then
        match r with
        | d :: r' => if d = 0xB0 ∨ d = 0xB1 then matchLitCI ps r' else none
        | [] => none
      else if lp = 115 ∧ c = 0xC5 then
        match r with
        | d :: r' => if d = 0xBF then matchLitCI ps r' else none
        | [] => none
      else if lp = 107 ∧ c = 0xE2 then
        match r with
        | d :: e :: r' => if d = 0x84 ∧ e = 0xAA then matchLitCI ps r' else none
        | _ => none
      else none

/-- one header line against the regexp, the match having to cover the whole line:
    `(scheme, cookie)` = groups 1 and 2 -/
def parseAuthLine (line : Bytes) : Option (Bytes × Bytes) :=
  match matchLitCI auth_lit line with
  | none => none
  | some rest =>
    let scheme := rest.takeWhile (· ≠ 32)
    match rest.dropWhile (· ≠ 32) with
    | [] => none
    | _ :: cookie => if scheme.isEmpty || cookie.contains 10 then none else some (scheme, cookie)

/-- `get_header(AUTHORIZATION, request.header, group)` for both groups at once: the first line
    that hits -/
def authLine (header : List Bytes) : Option (Bytes × Bytes) := header.findSome? parseAuthLine

/-- `decoded.split(':', 1)` -/
def splitFirst (sep : UInt8) : Bytes → Option (Bytes × Bytes)
  | [] => none
  | c :: r =>
    if c = sep then some ([], r)
    else match splitFirst sep r with
      | some (a, b) => some (c :: a, b)
      | none => none

def sepByte : UInt8 := split_sep.headD 0

/-! ### `encrypted_dictionary_authorizer.authorize` -/

/-- `none` = the unpacking `username, password = auth_info` raises ValueError (no ':' at all) -/
def authorize (P : Params) (dict : List (Bytes × Bytes)) (authInfo : Option (Bytes × Bytes)) : Option Bool :=
  match authInfo with
  | none => none
  | some (username, password) =>
    let keys := dict.map (·.1)
    if authz_g0 username password [] [] keys then
      match dict.lookup username with
      | none => some false          -- unreachable: `username in self.dict` just held
      | some stored =>
        if authz_g1 username password stored [] keys then
          some (authz_a3 username password stored (P.sha1hex password) keys)
        else some (authz_a4 username password stored [] keys)
    else some (authz_a5 username password [] [] keys)

/-! ### `auth_handler.handle_request` -/

inductive Resp
  /-- authorised: `request.auth_info` is set and the wrapped handler's `handle_request` runs -/
  | inner (user pass : Bytes)
  /-- `request.error(400)` after a decoding error -/
  | malformed
  /-- `handle_unauthorized`: Connection: close, WWW-Authenticate: Basic realm=…, `request.error(401)` -/
  | unauthorized
  /-- an exception leaves `handle_request` (the channel answers 500) -/
  | raised
deriving DecidableEq, Repr

def handleRequest (P : Params) (dict : List (Bytes × Bytes)) (header : List Bytes) : Resp :=
  let scheme := match authLine header with | some (s, _) => s | none => []
  if handleReq_g0 scheme then
    if handleReq_g1 (lowerAscii scheme) then
      let cookie := match authLine header with | some (_, c) => c | none => []
      match P.b64 cookie with
      | none => .malformed
      | some decoded =>
        if P.utf8ok decoded then
          let authInfo := splitFirst sepByte decoded
          match authorize P dict authInfo with
          | none => .raised
          | some true => match authInfo with
            | some (u, p) => .inner u p
            | none => .raised
          | some false => .unauthorized
        else .malformed
    else .unauthorized
  else .unauthorized

/-! ### the server: handler chain and first-match dispatch -/

structure Answer where
  /-- status decided by the authentication / dispatch layer; `none` = the handler's own answer -/
  status : Option Nat
  /-- the WWW-Authenticate challenge accompanies the status -/
  challenge : Bool
  /-- the handler whose `handle_request` ran, with the credentials it was given -/
  invoked : Option (String × Option (Bytes × Bytes))
deriving DecidableEq, Repr

/-- `if username:` in make_http_servers -/
def authEnabled (username : Option Bytes) : Bool := mkServers_g2 username

/-- is this installed handler behind `supervisor_auth_handler`? -/
def isWrapped (username : Option Bytes) (name : String) : Bool :=
  authEnabled username && wrapped_when_auth.contains name

/-- one request through `found_terminator`'s dispatch loop.  `hits name` = the handler's
    `match(request)` (path prefix tests etc., not modelled). -/
def serve (P : Params) (username password : Option Bytes) (hits : String → Bool) (header : List Bytes) : Answer :=
  match dispatch_order.find? hits with
  | none => ⟨some code_no_handler, false, none⟩
  | some name =>
    if isWrapped username name then
      match handleRequest P [(username.getD [], password.getD [])] header with
      | .inner u p => ⟨none, false, some (name, some (u, p))⟩
      | .malformed => ⟨some code_malformed, false, none⟩
      | .unauthorized => ⟨some code_unauthorized, true, none⟩
      | .raised => ⟨some code_exception, false, none⟩
    else ⟨none, false, some (name, none)⟩

/-! ### several server sections: which dictionary each server's wrappers consult -/

/-- one `[inet_http_server]` / `[unix_http_server]` section as it reaches `make_http_servers` -/
structure Section where
  username : Option Bytes
  password : Option Bytes
deriving DecidableEq, Repr

def entryOf (s : Section) : Bytes × Bytes := (s.username.getD [], s.password.getD [])

/-- the dictionary handed to the wrappers of the `i`-th server.  `users_per_server` is regenerated
    from the source: `users = {username: password}` is executed inside the loop over the server
    configurations, under `if username:`, from that configuration's own values.  Were the dictionary
    created once and filled in the loop, every server would consult the entries of all of them
    (later entries replacing earlier ones with the same key) — the `else` branch. -/
def usersFor (secs : List Section) (i : Nat) : List (Bytes × Bytes) :=
  if users_per_server then
    match secs[i]? with
    | some s => [entryOf s]
    | none => []
  else ((secs.filter fun s => authEnabled s.username).reverse.map entryOf)

/-- `serve` with the wrappers' dictionary as a parameter -/
def serveWith (P : Params) (username : Option Bytes) (users : List (Bytes × Bytes)) (hits : String → Bool)
    (header : List Bytes) : Answer :=
  match dispatch_order.find? hits with
  | none => ⟨some code_no_handler, false, none⟩
  | some name =>
    if isWrapped username name then
      match handleRequest P users header with
      | .inner u p => ⟨none, false, some (name, some (u, p))⟩
      | .malformed => ⟨some code_malformed, false, none⟩
      | .unauthorized => ⟨some code_unauthorized, true, none⟩
      | .raised => ⟨some code_exception, false, none⟩
    else ⟨none, false, some (name, none)⟩

/-- one request to the `i`-th of the configured servers (`none`: there is no such server) -/
def serveAt (P : Params) (secs : List Section) (i : Nat) (hits : String → Bool) (header : List Bytes) : Option Answer :=
  match secs[i]? with
  | none => none
  | some s => some (serveWith P s.username (usersFor secs i) hits header)

/-! ### several requests on one connection (keep-alive, pipelining) -/

/-- Nothing on the decision path — `auth_handler.handle_request`, `handle_unauthorized`, `match`,
    `encrypted_dictionary_authorizer.authorize` — writes to an object that outlives the request (the
    channel, the handler/authorizer objects, module globals), reads anything through
    `request.channel` / `.server`, or reaches state dynamically (`getattr`, `__dict__`, `globals()` …).
    The one channel access is `request.channel.set_terminator(None)` in the refusal path, modelled
    below as `deaf`.  All lists are regenerated from the source on every run. -/
def perRequestDecision : Bool :=
  hr_persistent_writes.isEmpty && hr_channel_refs.isEmpty && hr_dynamic.isEmpty &&
  hu_persistent_writes.isEmpty && hu_dynamic.isEmpty && hu_channel_refs.all (· == "request.channel.set_terminator") &&
  mt_persistent_writes.isEmpty && mt_channel_refs.isEmpty && mt_dynamic.isEmpty &&
  az_persistent_writes.isEmpty && az_channel_refs.isEmpty && az_dynamic.isEmpty &&
  auth_subclass_defines.all (· == "__init__") && auth_base_special_methods.isEmpty

/-- what one connection (channel + the server's handler objects) carries from request to request -/
structure Conn where
  /-- credentials an earlier request on this connection was authorised with — consulted only if the
      source does carry state across requests (`perRequestDecision = false`) -/
  remembered : Option (Bytes × Bytes) := none
  /-- `handle_unauthorized` set the channel's terminator to `None`: whatever arrives afterwards is
      collected and never dispatched -/
  deaf : Bool := false
deriving DecidableEq, Repr

/-- `handle_request` of a wrapper on a connection.  If the regenerated facts say that the decision
    path keeps state across requests, the model assumes the worst such state: a success is
    remembered and replaces the check (the `else` branch; dead on a tree where the facts hold). -/
def handleRequestOn (P : Params) (dict : List (Bytes × Bytes)) (c : Conn) (header : List Bytes) : Resp × Conn :=
  if perRequestDecision then (handleRequest P dict header, c)
  else match c.remembered with
    | some (u, p) => (.inner u p, c)
    | none =>
      match handleRequest P dict header with
      | .inner u p => (.inner u p, { c with remembered := some (u, p) })
      | r => (r, c)

/-- the answer of the dispatch loop when the wrapper of handler `name` answered `r` -/
def answerOf (name : String) : Resp → Answer
  | .inner u p => ⟨none, false, some (name, some (u, p))⟩
  | .malformed => ⟨some code_malformed, false, none⟩
  | .unauthorized => ⟨some code_unauthorized, true, none⟩
  | .raised => ⟨some code_exception, false, none⟩

/-- the channel after the wrapper answered `r`: the refusal path stops it reading -/
def afterResp (r : Resp) (c : Conn) : Conn :=
  if r = .unauthorized then { c with deaf := unauthorized_stops_reading } else c

/-- one request on a connection through the dispatch loop; `none` = the channel does not dispatch it
    (no response, no handler) -/
def serveOn (P : Params) (username password : Option Bytes) (c : Conn) (hits : String → Bool)
    (header : List Bytes) : Option Answer × Conn :=
  if c.deaf then (none, c) else
  match dispatch_order.find? hits with
  | none => (some ⟨some code_no_handler, false, none⟩, c)
  | some name =>
    if isWrapped username name then
      let rc := handleRequestOn P [(username.getD [], password.getD [])] c header
      (some (answerOf name rc.1), afterResp rc.1 rc.2)
    else (some ⟨none, false, some (name, none)⟩, c)

/-- a request as the dispatch loop sees it -/
structure Req where
  hits : String → Bool
  header : List Bytes

/-- the requests of one connection, in order -/
def serveConn (P : Params) (username password : Option Bytes) : Conn → List Req → List (Option Answer)
  | _, [] => []
  | c, r :: rest =>
    (serveOn P username password c r.hits r.header).1 ::
      serveConn P username password (serveOn P username password c r.hits r.header).2 rest

/-! ### from the configuration file to the credentials a server is built with

  `ServerOptions.__init__` snapshots `os.environ` into `self.environ_expansions` (`ENV_<name>`);
  `read_config` binds `parser.expansions` to that dictionary, reads `[supervisord] environment=`
  (expanded with a copy taken before), merges it into `self.environ_expansions`, and only then calls
  `server_configs_from_parser(parser)`, whose `_parse_username_and_password` expands `username=` and
  `password=` with `parser.expansions`.  The order and the aliasing are regenerated from the source. -/

/-- a piece of an option value as written in the file -/
inductive Piece
  /-- literal text -/
  | lit (b : Bytes)
  /-- `%(ENV_<name>)s` -/
  | env (name : Bytes)
deriving DecidableEq, Repr

abbrev Written := List Piece

/-- a dictionary `name ↦ value`: the first binding of a name is the current one -/
abbrev Env := List (Bytes × Bytes)

/-- `d[k] = v` -/
def dictSet (d : Env) (k v : Bytes) : Env := (k, v) :: d

/-- `text % expansions`; `none` = a name is missing (KeyError → ValueError: the file is rejected) -/
def expandWith (look : Bytes → Option Bytes) : Written → Option Bytes
  | [] => some []
  | .lit b :: r => (expandWith look r).map (b ++ ·)
  | .env n :: r =>
    match look n, expandWith look r with
    | some v, some t => some (v ++ t)
    | _, _ => none

def expandW (d : Env) (w : Written) : Option Bytes := expandWith (fun n => d.lookup n) w

/-- an `[inet_http_server]` / `[unix_http_server]` section as written (`none` = option absent) -/
structure FileSection where
  username : Option Written
  password : Option Written
deriving DecidableEq, Repr

structure ConfigFile where
  /-- the process environment when `ServerOptions()` is constructed -/
  osenv : Env
  /-- `[supervisord] environment=` as written, in file order (a later entry for the same name replaces an earlier one) -/
  supenv : List (Bytes × Written)
  servers : List FileSection
deriving Repr

def allSome {α : Type} : List (Option α) → Option (List α)
  | [] => some []
  | none :: _ => none
  | some a :: rest => (allSome rest).map (a :: ·)

/-- `section.environment`: every value expanded with the copy of the expansions taken before the merge
    (the process environment only) -/
def supervisordEnv (f : ConfigFile) : Option Env :=
  allSome (f.supenv.map fun kw => (expandW f.osenv kw.2).map fun v => (kw.1, v))

/-- `for k, v in section.environment.items(): self.environ_expansions['ENV_%s' % k] = v` -/
def mergedExpansions (osenv se : Env) : Env := se.foldl (fun d kv => dictSet d kv.1 kv.2) osenv

/-- Do the server sections see the `[supervisord]` environment?  Regenerated from `read_config`: the call
    `server_configs_from_parser(parser)` comes after the merge loop, `parser.expansions` is the very dictionary
    the loop fills (an alias, bound once, not a copy), and nothing else rebinds or empties it. -/
def serverSectionsSeeSupervisordEnv : Bool :=
  rc_servers_parsed_after_env_merge && rc_parser_shares_expansions && rc_other_expansion_writes.isEmpty

/-- `parser.expansions` at the moment the server sections are parsed.  Were they parsed before the merge (or
    from a copy), they would see the inherited process environment only — the `else` branch. -/
def serverExpansions (osenv se : Env) : Env :=
  if serverSectionsSeeSupervisordEnv then mergedExpansions osenv se else osenv

/-- `_parse_username_and_password`: both or neither; `none` = ValueError -/
def parseCreds (d : Env) (s : FileSection) : Option Section :=
  match s.username, s.password with
  | none, none => some ⟨none, none⟩
  | some u, some p =>
    match expandW d u, expandW d p with
    | some u', some p' => some ⟨some u', some p'⟩
    | _, _ => none
  | _, _ => none

/-- `read_config` as far as the server sections are concerned: `options.server_configs`; `none` = the file is
    rejected (supervisord does not start) -/
def readConfig (f : ConfigFile) : Option (List Section) :=
  match supervisordEnv f with
  | none => none
  | some se => allSome (f.servers.map (parseCreds (serverExpansions f.osenv se)))

/-- one request to the `i`-th server built from the file (`none`: file rejected, or no such server) -/
def serveFile (P : Params) (f : ConfigFile) (i : Nat) (hits : String → Bool) (header : List Bytes) : Option Answer :=
  match readConfig f with
  | none => none
  | some secs => serveAt P secs i hits header

/-! ### line protocol -/

def optBytes (s : String) : Option (Option Bytes) :=
  if s = "N" then some none
  else if s.startsWith "s" then (bytesOfHex (if s.length = 1 then "-" else (s.drop 1).toString)).map some
  else none

def reqBytes (s : String) : Option Bytes := (optBytes s).bind id

def splitNE (s sep : String) : List String := (s.splitOn sep).filter (· ≠ "")

/-- table rows `cookie:decoded|E:utf8ok(0/1)` and `password:sha1hex` supplied by the harness (the
    values Python's own base64 / utf-8 / sha1 give); a key that is missing is a harness error -/
structure Tables where
  b64 : List (Bytes × Option Bytes)
  utf8 : List (Bytes × Bool)
  sha : List (Bytes × Bytes)

def tablesOf (items : List String) : Option Tables :=
  let step (acc : Option Tables) (it : String) : Option Tables :=
    match acc with
    | none => none
    | some t =>
      match it.splitOn ":" with
      | ["b", k, v] =>
        match reqBytes k, (if v = "E" then some none else (reqBytes v).map some) with
        | some k, some v => some { t with b64 := t.b64 ++ [(k, v)] }
        | _, _ => none
      | ["u", k, v] =>
        match reqBytes k with
        | some k => if v = "1" then some { t with utf8 := t.utf8 ++ [(k, true)] }
                    else if v = "0" then some { t with utf8 := t.utf8 ++ [(k, false)] } else none
        | none => none
      | ["h", k, v] =>
        match reqBytes k, reqBytes v with
        | some k, some v => some { t with sha := t.sha ++ [(k, v)] }
        | _, _ => none
      | _ => none
  items.foldl step (some ⟨[], [], []⟩)

/-- parameters from tables; `missing` is raised through a sentinel the caller checks -/
def paramsOf (t : Tables) : Params :=
  { b64 := fun c => (t.b64.lookup c).bind id,
    utf8ok := fun d => (t.utf8.lookup d).getD false,
    sha1hex := fun p => (t.sha.lookup p).getD [] }

/-- every table key the evaluation needs is present (otherwise the answer would rest on a default) -/
def tablesCover (t : Tables) (header : List Bytes) (wrappedHit : Bool) (stored : Bytes) : Bool :=
  if !wrappedHit then true else
  match authLine header with
  | none => true
  | some (scheme, cookie) =>
    if lowerAscii scheme != [98, 97, 115, 105, 99] then true else
    match t.b64.lookup cookie with
    | none => false
    | some none => true
    | some (some d) =>
      match t.utf8.lookup d with
      | none => false
      | some false => true
      | some true =>
        match splitFirst sepByte d with
        | none => true
        | some (_, p) => !(sha_prefix.isPrefixOf stored) || (t.sha.lookup p).isSome

/-- `L<hex>` literal text / `V<hex>` = `%(ENV_<name>)s`, joined by `+`; `E` = empty text -/
def pieceOf (s : String) : Option Piece :=
  match s.toList with
  | 'L' :: r => (bytesOfHexAux r).map Piece.lit
  | 'V' :: r => (bytesOfHexAux r).map Piece.env
  | _ => none

def writtenOf (s : String) : Option Written :=
  if s = "E" then some [] else allSome ((s.splitOn "+").map pieceOf)

def optWrittenOf (s : String) : Option (Option Written) :=
  if s = "N" then some none else (writtenOf s).map some

/-- `name:value,…` (both `s<hex>`); `-` = empty -/
def envOf (s : String) : Option Env :=
  if s = "-" then some [] else
  allSome ((s.splitOn ",").map fun it =>
    match it.splitOn ":" with
    | [k, v] => match reqBytes k, reqBytes v with
      | some k, some v => some (k, v)
      | _, _ => none
    | _ => none)

/-- `name:written,…`; `-` = no `environment=` -/
def supOf (s : String) : Option (List (Bytes × Written)) :=
  if s = "-" then some [] else
  allSome ((s.splitOn ",").map fun it =>
    match it.splitOn ":" with
    | [k, v] => match reqBytes k, writtenOf v with
      | some k, some v => some (k, v)
      | _, _ => none
    | _ => none)

/-- `username/password;…` each `N` or a written text -/
def fsecsOf (s : String) : Option (List FileSection) :=
  allSome ((splitNE s ";").map fun it =>
    match it.splitOn "/" with
    | [u, p] => match optWrittenOf u, optWrittenOf p with
      | some u, some p => some (⟨u, p⟩ : FileSection)
      | _, _ => none
    | _ => none)

def showAnswer (a : Answer) : String :=
  (match a.status with | some n => s!"status={n}" | none => "status=-") ++
  (if a.challenge then " challenge" else "") ++
  (match a.invoked with
   | none => " invoked=-"
   | some (n, none) => s!" invoked={n} auth=-"
   | some (n, some (u, p)) => s!" invoked={n} auth=s" ++ (if u.isEmpty then "" else hexOfBytes u) ++ ":s" ++ (if p.isEmpty then "" else hexOfBytes p))

def showResp : Resp → String
  | .inner u p => "inner s" ++ (if u.isEmpty then "" else hexOfBytes u) ++ ":s" ++ (if p.isEmpty then "" else hexOfBytes p)
  | .malformed => s!"error {code_malformed}"
  | .unauthorized => s!"unauthorized {code_unauthorized}"
  | .raised => "raised"

/-- `case auth user=<s…|N> pass=<s…|N>`;
    ops: `handle h=<line,line,…|-> t=<table items ;-separated|->`           (the auth handler alone)
         `serve m=<handler names matching, comma separated|-> h=… t=…`       (through the dispatch loop)
         `serveat i=… secs=… m=… h=… t=…`                                     (the i-th of several servers)
         `servefile i=… os=… sup=… secs=… m=… h=… t=…`                        (the i-th server built from a configuration file) -/
def runCase (cfg : List String) (ops : List String) : List String :=
  match (kvGet cfg "user").bind optBytes, (kvGet cfg "pass").bind optBytes with
  | some user, some pass => ops.map fun l =>
    let ws := words l
    let hdr : Option (List Bytes) := match kvGet ws "h" with
      | some "-" => some []
      | some h => allSome ((splitNE h ",").map reqBytes)
      | none => none
    let tbl : Option Tables := match kvGet ws "t" with
      | some "-" => some ⟨[], [], []⟩
      | some t => tablesOf (splitNE t ";")
      | none => none
    match ws.head?, hdr, tbl with
    | some "handle", some hdr, some t =>
      if tablesCover t hdr true (pass.getD []) then
        showResp (handleRequest (paramsOf t) [(user.getD [], pass.getD [])] hdr)
      else "bad-op"
    | some "serve", some hdr, some t =>
      match kvGet ws "m" with
      | none => "bad-op"
      | some m =>
        let ms := if m = "-" then [] else splitNE m ","
        let hits := fun n => ms.contains n
        let hit := match dispatch_order.find? hits with | some n => isWrapped user n | none => false
        if tablesCover t hdr hit (pass.getD []) then showAnswer (serve (paramsOf t) user pass hits hdr)
        else "bad-op"
    | some "serveat", some hdr, some t =>
      -- `serveat i=<index> secs=<user/pass;user/pass;…> m=… h=… t=…`
      let secs : Option (List Section) := (kvGet ws "secs").bind fun v =>
        allSome ((splitNE v ";").map fun it =>
          match it.splitOn "/" with
          | [u, p] => match optBytes u, optBytes p with
            | some u, some p => some (⟨u, p⟩ : Section)
            | _, _ => none
          | _ => none)
      match kvGet ws "m", kvNat ws "i", secs with
      | some m, some i, some secs =>
        let ms := if m = "-" then [] else splitNE m ","
        let hits := fun n => ms.contains n
        match secs[i]? with
        | none => "bad-op"
        | some sec =>
          let hit := match dispatch_order.find? hits with | some n => isWrapped sec.username n | none => false
          let stored := (((usersFor secs i).map (·.2)).find? (fun st => sha_prefix.isPrefixOf st)).getD []
          if tablesCover t hdr hit stored then
            match serveAt (paramsOf t) secs i hits hdr with
            | some a => showAnswer a
            | none => "bad-op"
          else "bad-op"
      | _, _, _ => "bad-op"
    | some "servefile", some hdr, some t =>
      -- `servefile i=<index> os=<name:value,…|-> sup=<name:written,…|-> secs=<U/P;U/P;…> m=… h=… t=…`: a server built from a
      -- configuration file; `rejected` = the file is refused
      match kvGet ws "m", kvNat ws "i", (kvGet ws "os").bind envOf, (kvGet ws "sup").bind supOf, (kvGet ws "secs").bind fsecsOf with
      | some m, some i, some os, some sup, some fsecs =>
        let f : ConfigFile := ⟨os, sup, fsecs⟩
        let ms := if m = "-" then [] else splitNE m ","
        let hits := fun n => ms.contains n
        match readConfig f with
        | none => "rejected"
        | some secs =>
          match secs[i]? with
          | none => "bad-op"
          | some sec =>
            let hit := match dispatch_order.find? hits with | some n => isWrapped sec.username n | none => false
            let stored := (((usersFor secs i).map (·.2)).find? (fun st => sha_prefix.isPrefixOf st)).getD []
            if tablesCover t hdr hit stored then
              match serveFile (paramsOf t) f i hits hdr with
              | some a => showAnswer a
              | none => "bad-op"
            else "bad-op"
      | _, _, _, _, _ => "bad-op"
    | _, _, _ => "bad-op"
  | _, _ => ops.map fun _ => "bad-config"

/-- `case authconn user=<s…|N> pass=<s…|N>`: the ops are the requests of ONE connection, in order.
    ops: `handle h=… t=…`   the same wrapper object's `handle_request`, requests sharing one channel object
         `serve m=… h=… t=…` through the channel's dispatch loop (`noanswer` = not dispatched, nothing sent)
         `new`               a fresh connection -/
def runConn (cfg : List String) (ops : List String) : List String :=
  match (kvGet cfg "user").bind optBytes, (kvGet cfg "pass").bind optBytes with
  | some user, some pass =>
    let step (acc : List String × Conn) (l : String) : List String × Conn :=
      let c := acc.2
      let ws := words l
      let hdr : Option (List Bytes) := match kvGet ws "h" with
        | some "-" => some []
        | some h => allSome ((splitNE h ",").map reqBytes)
        | none => none
      let tbl : Option Tables := match kvGet ws "t" with
        | some "-" => some ⟨[], [], []⟩
        | some t => tablesOf (splitNE t ";")
        | none => none
      match ws.head?, hdr, tbl with
      | some "new", _, _ => (acc.1 ++ ["new"], {})
      | some "handle", some hdr, some t =>
        if tablesCover t hdr true (pass.getD []) then
          let rc := handleRequestOn (paramsOf t) [(user.getD [], pass.getD [])] c hdr
          (acc.1 ++ [showResp rc.1], rc.2)
        else (acc.1 ++ ["bad-op"], c)
      | some "serve", some hdr, some t =>
        match kvGet ws "m" with
        | none => (acc.1 ++ ["bad-op"], c)
        | some m =>
          let ms := if m = "-" then [] else splitNE m ","
          let hits := fun n => ms.contains n
          let hit := match dispatch_order.find? hits with | some n => isWrapped user n | none => false
          if tablesCover t hdr hit (pass.getD []) then
            let ac := serveOn (paramsOf t) user pass c hits hdr
            (acc.1 ++ [match ac.1 with | some a => showAnswer a | none => "noanswer"], ac.2)
          else (acc.1 ++ ["bad-op"], c)
      | _, _, _ => (acc.1 ++ ["bad-op"], c)
    (ops.foldl step ([], {})).1
  | _, _ => ops.map fun _ => "bad-config"

end Sv.Auth
