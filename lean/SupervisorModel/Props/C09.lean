import SupervisorModel.Model.Pool
/-
  C09 — events reach exactly the subscribed pools, in order, and are not lost.
  Property theorems only.
-/
set_option linter.unusedSimpArgs false
set_option linter.unusedVariables false
namespace Sv.Props.C09
open Sv Sv.Pool Sv.Events Sv.Gen.Events Sv.Gen.Pool

/-- the generated list of registered event types is complete -/
theorem all_complete (c : Cls) : c ∈ Cls.all := by cases c <;> decide

/-- `isinstance` over the generated class table is reflexive: a pool subscribed to an event's own type is offered it -/
theorem isInstance_refl (c : Cls) : isInstance c c = true := by cases c <;> decide

/-- every registered type is an `EVENT` (the root abstract type) -/
theorem every_type_is_event (c : Cls) : isInstance c .EVENT = true := by cases c <;> decide

/-- the table is closed under taking supertypes (checked over the whole generated table) -/
theorem ancestors_closed :
    (Cls.all.all fun a => Cls.all.all fun b => !isInstance a b || b.ancestors.all (fun c => isInstance a c)) = true := by
  decide

/-- **offered_to_subscribers**: `notify` runs pool `i`'s `_acceptEvent` for an event of class `c` exactly when
    one of the types the pool is subscribed to is `c` itself or one of its supertypes -- and for no other pool. -/
theorem offered_to_subscribers (pools : List PoolSt) (c : Cls) (i : Nat) :
    i ∈ notified (callbacks pools) c ↔ ∃ p, pools[i]? = some p ∧ ∃ t ∈ p.subs, isInstance c t = true := by
  simp only [notified, callbacks, List.mem_map, List.mem_filter, List.mem_flatten]
  constructor
  · rintro ⟨s, ⟨⟨l, hl, hs⟩, hi⟩, rfl⟩
    rcases hl with ⟨⟨p, j⟩, hpj, rfl⟩
    simp only [List.mem_map] at hs
    rcases hs with ⟨t, ht, rfl⟩
    have := List.mem_zipIdx hpj
    simp at this
    rcases this with ⟨hj, hp⟩
    exact ⟨p, by rw [hp]; exact List.getElem?_eq_getElem hj, t, ht, hi⟩
  · rintro ⟨p, hp, t, ht, hi⟩
    refine ⟨{ type := t, who := i }, ⟨⟨p.subs.map fun t => ({ type := t, who := i } : Sub), ?_, ?_⟩, hi⟩, rfl⟩
    · refine ⟨(p, i), ?_, rfl⟩
      rw [List.mem_zipIdx_iff_getElem?]; simpa using hp
    · exact List.mem_map.mpr ⟨t, ht, rfl⟩

example : (0 : Nat) ∈ notified (callbacks [{ name := "a", bufSize := 3, subs := [.TICK] }]) .TICK_5 := by decide
example : (0 : Nat) ∉ notified (callbacks [{ name := "a", bufSize := 3, subs := [.TICK_60] }]) .TICK_5 := by decide

/-! ### serials -/

/-- `new_serial` away from the wrap at `maxint`: the counter goes up by exactly one, so serials handed out
    by one counter are strictly increasing, hence unique.  Full statement (`serial_unique`,
    `poolserial_increasing` for every history) additionally needs "fewer than `maxint` events"; the
    wrap itself is `newSerial_wraps` below. -/
theorem newSerial_increasing_partial (serial : Int) (h : serial ≠ maxint) : newSerial serial = serial + 1 := by
  simp [newSerial, newSerial_g0, newSerial_a0, newSerial_a1, newSerial_a2, h]

example : (5 : Int) ≠ maxint := by decide

/-- at `maxint` the counter restarts at 0: serials are unique only within `maxint + 1` events -/
theorem newSerial_wraps : newSerial maxint = 0 := by decide

/-! ### concrete regression instances (finite evaluations of the model, not the universal claims) -/

def tickPool : PoolSt := { name := "a", bufSize := 3, subs := [.TICK, .TICK_5], procs := [Listener.initial] }

/-- F16 (fixed): a pool subscribed to `TICK` and `TICK_5` is called twice by `notify` but buffers the event once -/
theorem offered_once_instance :
    (notified (callbacks [tickPool]) .TICK_5) = [0, 0] ∧
    ((notify .TICK_5 [] { pools := [tickPool] }).pools.map (·.buffer)) = [[0]] := by decide

/-- F1 (fixed): a rejection by a listener of pool 0 re-buffers the event in pool 0 only -/
theorem reject_isolated_instance :
    let w0 : W := { pools := [{ tickPool with subs := [.TICK_5] }, { tickPool with name := "b", subs := [.TICK_60] }] }
    let w1 := notify .TICK_5 [] w0
    let w2 := setPool w1 0 (fun p => { p with buffer := [] })      -- the event is out with a listener
    ((rejected 0 0 w2).pools.map (·.buffer)) = [[0], []] := by decide

/-- overflow: a full buffer (size 1) drops its oldest event, with a log entry, and keeps the new one -/
theorem overflow_drops_oldest_instance :
    let w0 : W := { pools := [{ tickPool with bufSize := 1 }] }
    let w2 := notify .TICK_5 [] (notify .TICK_5 [] w0)
    (w2.pools.map (·.buffer)) = [[1]] ∧ w2.outs.length = 1 := by decide

end Sv.Props.C09
