-- stub: replaced by the property author
namespace Sv.Props.C14
end Sv.Props.C14
