import SupervisorModel.Model.Strip
/-
  `stripRef`: the reference meaning of "minus ANSI escape sequences" (a two-state scan over the
  byte list, no indices), and the proof that the modelled `stripEscapes` loop (indices, `find`,
  slices — all regenerated from the source) computes it.
-/
set_option linter.unusedSimpArgs false
namespace Sv.Strip
open Sv Sv.Gen.OutDisp

/-- `s[i:i+1] in ANSI_TERMINATORS` for the byte `c = s[i]` -/
def isTerm (c : UInt8) : Bool := List.elem [c] ANSI_TERMINATORS

/-- reference: copy bytes while showing; at `ESC [` stop showing (dropping the ESC); while hidden
    drop bytes up to and including the first terminator letter, then show again -/
def stripRef : Bool → Bytes → Bytes
  | _, [] => []
  | true, c :: cs => if ANSI_ESCAPE_BEGIN.isPrefixOf (c :: cs) then stripRef false cs else c :: stripRef true cs
  | false, c :: cs => if isTerm c then stripRef true cs else stripRef false cs

/-- `findGo` against the reference: either the escape introducer is absent and everything is
    shown, or it is found `k` bytes ahead and the first `k` bytes are shown -/
theorem findGo_ref (t : Bytes) (pos : Int) (hpos : 0 ≤ pos) :
    (Py.findGo ANSI_ESCAPE_BEGIN t pos = -1 ∧ stripRef true t = t) ∨
    (∃ k : Nat, Py.findGo ANSI_ESCAPE_BEGIN t pos = pos + k ∧ k < t.length ∧
      stripRef true t = t.take k ++ stripRef false (t.drop (k + 1))) := by
  induction t generalizing pos with
  | nil => left; exact ⟨by simp [Py.findGo, ANSI_ESCAPE_BEGIN], rfl⟩
  | cons c cs ih =>
    by_cases hp : ANSI_ESCAPE_BEGIN.isPrefixOf (c :: cs) = true
    · right
      refine ⟨0, by simp [Py.findGo, hp], by simp, ?_⟩
      simp [stripRef, hp]
    · have hp' : ANSI_ESCAPE_BEGIN.isPrefixOf (c :: cs) = false := by
        cases h : ANSI_ESCAPE_BEGIN.isPrefixOf (c :: cs)
        · rfl
        · exact absurd h hp
      rcases ih (pos + 1) (by omega) with ⟨h1, h2⟩ | ⟨k, h1, h2, h3⟩
      · left
        refine ⟨by rw [Py.findGo, if_neg hp]; exact h1, ?_⟩
        rw [stripRef, if_neg hp, h2]
      · right
        refine ⟨k + 1, ?_, by simp; omega, ?_⟩
        · rw [Py.findGo, if_neg hp, h1]; push_cast; omega
        · rw [stripRef, if_neg hp, h3]; simp

/-- the loop invariant: from position `i` with accumulated `result` the loop returns
    `result ++ stripRef (show ≠ 0) s[i:]` -/
theorem stripGo_ref (s : Bytes) : ∀ (fuel i : Nat) (result : Bytes) (sh : Int),
    i ≤ s.length → s.length - i < fuel →
    stripGo s fuel result sh (i : Int) = result ++ stripRef (sh != 0) (s.drop i) := by
  intro fuel
  induction fuel with
  | zero => intro i result sh _ h; omega
  | succ n ih =>
    intro i result sh hi hf
    unfold stripGo
    by_cases hlt : i < s.length
    · have hg0 : strip_g0 s result sh (i : Int) = true := by simp [strip_g0]; omega
      simp only [hg0, if_true]
      obtain ⟨c, rest, hcr⟩ : ∃ c rest, s.drop i = c :: rest := by
        cases h : s.drop i with
        | nil => simp at h; omega
        | cons c rest => exact ⟨c, rest, rfl⟩
      have hrest : s.drop (i + 1) = rest := by
        have := congrArg (List.drop 1) hcr
        simpa [List.drop_drop, Nat.add_comm] using this
      have hsl : Py.slice s (i : Int) ((i : Int) + 1) = [c] := by
        unfold Py.slice Py.normIdx
        have e1 : ¬ ((i : Int) + 1 < 0) := by omega
        have e2 : ¬ ((i : Int) < 0) := by omega
        simp only [e1, e2, if_false]
        have e3 : min ((i : Int) + 1).toNat s.length = i + 1 := by omega
        have e4 : min (i : Int).toNat s.length = i := by omega
        rw [e3, e4, List.drop_take, hcr]
        simp
      by_cases hsh : sh = 0
      · -- hidden: look for a terminator letter
        subst hsh
        have hb : ((0 : Int) != 0) = false := by decide
        rw [hb, hcr]
        by_cases ht : isTerm c = true
        · have hg1 : strip_g1 s result 0 (i : Int) = true := by
            simp only [strip_g1, hsl]; simpa [isTerm] using ht
          simp only [hg1, if_true, strip_a4, strip_a10]
          have := ih (i + 1) result 1 (by omega) (by omega)
          push_cast at this
          rw [this, hrest]
          simp [stripRef, ht]
        · have hg1 : strip_g1 s result 0 (i : Int) = false := by
            simp only [strip_g1, hsl]
            cases h : isTerm c
            · simpa [isTerm] using h
            · exact absurd h ht
          have hg2 : strip_g2 s result 0 (i : Int) = false := by simp [strip_g2]
          simp only [hg1, hg2, Bool.false_eq_true, if_false, strip_a10]
          have := ih (i + 1) result 0 (by omega) (by omega)
          push_cast at this
          rw [this, hrest]
          have ht' : isTerm c = false := by
            cases h : isTerm c
            · rfl
            · exact absurd h ht
          simp [stripRef, ht']
      · -- showing: jump to the next escape introducer
        have hb : (sh != 0) = true := by simpa using hsh
        have hg1 : strip_g1 s result sh (i : Int) = false := by simp [strip_g1, hsh]
        have hg2 : strip_g2 s result sh (i : Int) = true := by simp [strip_g2, hsh]
        simp only [hg1, hg2, Bool.false_eq_true, if_false, if_true]
        rw [hb]
        have hfind : Py.find s ANSI_ESCAPE_BEGIN (i : Int) = Py.findGo ANSI_ESCAPE_BEGIN (s.drop i) (i : Int) := by
          unfold Py.find Py.normIdx
          have e1 : ¬ ((i : Int) > (s.length : Int)) := by omega
          have e2 : ¬ ((i : Int) < 0) := by omega
          have e4 : min (i : Int).toNat s.length = i := by omega
          simp only [e1, e2, if_false, e4]
        rcases findGo_ref (s.drop i) (i : Int) (by omega) with ⟨h1, h2⟩ | ⟨k, h1, h2, h3⟩
        · have hg3 : strip_g3 s result sh (i : Int) = true := by simp [strip_g3, hfind, h1]
          simp only [hg3, if_true, strip_a6]
          rw [h2]
          congr 1
          unfold Py.sliceFrom Py.normIdx
          have e2 : ¬ ((i : Int) < 0) := by omega
          have e4 : min (i : Int).toNat s.length = i := by omega
          simp only [e2, if_false, e4]
        · have hk : i + k < s.length := by simp at h2; omega
          have hg3 : strip_g3 s result sh (i : Int) = false := by
            simp only [strip_g3, hfind, h1]; simp; omega
          simp only [hg3, Bool.false_eq_true, if_false, strip_a7, strip_a8, strip_a9, strip_a10, hfind, h1]
          have e7 : Py.slice s (i : Int) ((i : Int) + (k : Int)) = (s.drop i).take k := by
            unfold Py.slice Py.normIdx
            have e1 : ¬ ((i : Int) + (k : Int) < 0) := by omega
            have e2 : ¬ ((i : Int) < 0) := by omega
            have e3 : min ((i : Int) + (k : Int)).toNat s.length = i + k := by omega
            have e4 : min (i : Int).toNat s.length = i := by omega
            simp only [e1, e2, if_false, e3, e4]
            rw [List.drop_take]; congr 1; omega
          rw [e7]
          have := ih (i + k + 1) (result ++ (s.drop i).take k) 0 (by omega) (by omega)
          push_cast at this
          rw [this, h3, List.drop_drop]
          rw [List.append_assoc, Nat.add_assoc]
    · have hg0 : strip_g0 s result sh (i : Int) = false := by simp [strip_g0]; omega
      simp only [hg0, Bool.false_eq_true, if_false, strip_a11]
      have : s.drop i = [] := by apply List.drop_of_length_le; omega
      rw [this]; cases (sh != 0) <;> simp [stripRef]

/-- `stripEscapes` computes the reference -/
theorem stripEscapes_eq_ref (s : Bytes) : stripEscapes s = stripRef true s := by
  unfold stripEscapes
  have := stripGo_ref s (s.length + 1) 0 [] 1 (by omega) (by omega)
  simpa [strip_a0, strip_a1, strip_a2] using this

/-- the stripper's state (showing?) after scanning a read -/
def stripState : Bool → Bytes → Bool
  | st, [] => st
  | true, c :: cs => if ANSI_ESCAPE_BEGIN.isPrefixOf (c :: cs) then stripState false cs else stripState true cs
  | false, c :: cs => if isTerm c then stripState true cs else stripState false cs

/-- the boundary between `a` and `b` does not separate ESC from `[` -/
def NoStraddle (a b : Bytes) : Prop := ¬ (a.getLast? = some 27 ∧ b.head? = some 91)

theorem esc_prefix_append (c : UInt8) (cs b : Bytes) (h : NoStraddle (c :: cs) b) :
    ANSI_ESCAPE_BEGIN.isPrefixOf (c :: cs ++ b) = ANSI_ESCAPE_BEGIN.isPrefixOf (c :: cs) := by
  have he : ANSI_ESCAPE_BEGIN = [27, 91] := by decide
  rw [he]
  cases cs with
  | cons d ds => simp [List.isPrefixOf]
  | nil =>
    cases b with
    | nil => simp [List.isPrefixOf]
    | cons e es =>
      simp only [NoStraddle, List.getLast?_singleton, List.head?_cons, Option.some.injEq] at h
      simp only [List.cons_append, List.nil_append, List.isPrefixOf, Bool.and_true, Bool.and_false]
      cases h1 : (27 : UInt8) == c <;> cases h2 : (91 : UInt8) == e <;> simp_all

theorem stripRef_append (b : Bytes) : ∀ (a : Bytes) (st : Bool), NoStraddle a b →
    stripRef st (a ++ b) = stripRef st a ++ stripRef (stripState st a) b := by
  intro a
  induction a with
  | nil => intro st _; cases st <;> simp [stripRef, stripState]
  | cons c cs ih =>
    intro st h
    have htail : NoStraddle cs b := by
      intro ⟨h1, h2⟩
      apply h
      refine ⟨?_, h2⟩
      cases cs with
      | nil => simp at h1
      | cons d ds => simpa [List.getLast?_cons_cons] using h1
    cases st
    · simp only [List.cons_append, stripRef, stripState]
      split <;> exact ih _ htail
    · have hp := esc_prefix_append c cs b h
      rw [List.cons_append] at hp
      simp only [List.cons_append, stripRef, stripState, hp]
      split
      · exact ih _ htail
      · simp [ih _ htail]

end Sv.Strip
