"""
C13 -- start/stop/signal RPC answers agree with what happened to the process.
L2: real SupervisorNamespaceRPCInterface calls executed inside the real main loop (at the place of the XML-RPC channel), deferred
answers polled by the loop, all eight states at request time, both wait modes, group/all forms (monitors) and single forms (model).
L1 (make_allfunc): the real closure returned by supervisor.rpcinterface.make_allfunc driven with scripted predicate / func /
callbacks over dummy (group, process) pairs, invocation by invocation against the Lean model Model/AllFunc.lean, plus monitors.
L1 (command file): the real check_execv_args / get_execv_args / startProcess / spawn over a virtual file system (props/c13_execv.py)
against Model/Execv.lean, plus monitors for "NO_FILE or NOT_EXECUTABLE when it cannot exist or be executed".
"""
import itertools, re
from props import l2common, c13_execv, c13_twin
import l2

ID = 'C13'
LEAN_PROPS = 'SupervisorModel.Props.C13'
DRIVER = 'drv_c13'
GENERATED = ['Proc', 'Sup', 'AllFunc', 'Execv']
TRUSTED = l2common.TRUSTED + [
    "Model/AllFunc.lean: the environment of make_allfunc's closure is an input (for each list position: the predicate's answer when "
    "tested, what func does when called -- raises RPCError / returns a function / returns a value --, what the k-th poll of its callback "
    "does); exceptions other than RPCError escaping func or a callback, and func handing back NOT_DONE_YET itself, are outside the model",
    "identity of a pending (group, process, callback) tuple = list position of its process: func hands back a new function object at every "
    "call (startProcess/stopProcess define `onwait` in their body), so `callbacks.remove(struct)` removes that very tuple",
    "the caller follows the deferred-response protocol (DeferredXMLRPCResponse.more / multicall): the closure is invoked again only "
    "while it answered NOT_DONE_YET (AllFunc.run); that every single-process call inside a group call behaves as the single-call "
    "theorems say is the composition of the two models, exercised by the L2 monitor mon_c13_groups, not a theorem",
    "Model/Execv.lean: the answers of stat() (st_mode or failure) and of os.access(file, X_OK) for every candidate file of the command "
    "lookup are inputs; stat.S_ISDIR / stat.S_IMODE / `&` mean what Python's stat module and integers say (constants dumped from the "
    "stat module); shlex.split's verdict on the command (unparsable / no words / program with or without '/') is an input; spawn()'s "
    "second get_execv_args() of one startProcess call gets the same answers as the pre-flight one; a special file (fifo, device, "
    "socket) with an execute bit counts as executable, as it does for check_execv_args",
    "props/c13_execv.py: access(X_OK) of the virtual file system follows the kernel's owner / group / other classes (root: any execute "
    "bit), with a noexec-mount and an ACL override; fork / pipes / kill stay scripted (proc_l1.ScriptedOptions)",
]
ASSUMPTIONS = ["deferred callbacks are polled once per pass by the channel (as medusa does when the channel is writable)"]
RULE = ("L2: scenarios as for C02 with an RPC in about half of the passes (start/stop/signal on name, group:name, group:*, unknown names, "
        "start/stopAllProcesses; wait true/false), children dying before/after startsecs and during the deferred wait, spawn failures, missing "
        "command files; non-trivial = at least one RPC answered; distinct = distinct trace.  "
        "make_allfunc: a regression corpus, every list of up to 3 processes over {eligible, not} x {value, fault, callback done at poll 1/2/3 "
        "with value or fault}, and random lists of 0-6 (group, process) pairs (duplicate pairs and group == name included) with random "
        "predicate answers (False or None for 'no'), immediate outcomes, poll scripts of 1-5 polls ending in a value or a fault, and keyword "
        "arguments; the real closure is invoked until it answers; non-trivial = at least one eligible process; distinct = distinct case line.  "
        "Command file: check_execv_args on every st_mode of {regular, directory} x all 512 permission words (thorough: all 4096 incl. "
        "setuid/setgid/sticky) and special files, x access true/false; per (user in root / owner / group member / stranger, owner, kind, "
        "mode, noexec / ACL override) one fresh process started by startProcess(wait false / true) or by spawn() alone (autostart); "
        "missing files and stat failures (EACCES, ENOTDIR, ELOOP, ENAMETOOLONG) for explicit, ./relative and $PATH commands; random "
        "histories of 3-16 operations on one Subprocess (all eight states at request time) with the candidate files changing between "
        "operations (chmod, chown, removed, replaced by a directory), commands with arguments / quotes / no words / unbalanced quotes, "
        "$PATH from the program's environment or supervisord's with 1-3 directories; non-trivial = at least one lookup; distinct = "
        "distinct case + operation lines")


# ---------------------------------------------------------------------------------------------- make_allfunc (L1)

FAULT_CODES = [6, 10, 11, 20, 21, 30, 40, 50, 60, 70, 2]
MAX_EXTRA_INVOCATIONS = 3


def _tok(s):
    return re.sub(r'[^A-Za-z0-9_]', '_', str(s))


def allfunc_case_line(procs):
    """procs: [dict(group, name, elig, imm=('V',)|('D',)|('R', code, extra), polls=[('N',)|('V',)|('R', code, extra)])]"""
    from supervisor.xmlrpc import RPCError
    def oc(o):
        return o[0] if o[0] != 'R' else 'R%d:%s' % (o[1], _tok(RPCError(o[1], o[2]).text))
    return 'case allfunc ' + ' '.join('%s/%s/%d/%s/%s' % (p['group'], p['name'], 1 if p['elig'] else 0, oc(p['imm']), ';'.join(oc(o) for o in p['polls']))
                                      for p in procs)


def run_allfunc(procs, kwargs, falsy=False):
    """drive the real closure; returns (lines, facts) -- one canonical line per invocation and what the monitors need"""
    import types
    from supervisor.rpcinterface import make_allfunc
    from supervisor.xmlrpc import RPCError
    from supervisor.http import NOT_DONE_YET

    class Cfg(object):
        def __init__(self, name, priority):
            self.name = name; self.priority = priority

    class Obj(object):
        """stands for a ProcessGroup / Subprocess: carries config.name only; compares by priority as the real classes do"""
        def __init__(self, name, priority, idx=None):
            self.config = Cfg(name, priority); self.idx = idx
        def __eq__(self, other):
            return self.config.priority == other.config.priority
        def __lt__(self, other):
            return self.config.priority < other.config.priority
        __hash__ = object.__hash__

    log, cur, polled = [], [None], {}
    facts = dict(calls=[], polls=[], kw_bad=0, overrun=[], inv_of_call=[])
    inv = [0]

    def predicate(process):
        log.append('t%d' % process.idx)
        cur[0] = process.idx
        return True if procs[process.idx]['elig'] else (None if falsy else False)

    def make_cb(i):
        def cb():
            k = polled.get(i, 0)
            polled[i] = k + 1
            log.append('p%d' % i)
            facts['polls'].append((inv[0], i, k))
            script = procs[i]['polls']
            if k >= len(script):
                facts['overrun'].append(i)
                log[-1] += '!again'
                o = script[-1]
            else:
                o = script[k]
            if o[0] == 'N':
                return NOT_DONE_YET
            if o[0] == 'R':
                raise RPCError(o[1], o[2])
            return True
        assert isinstance(cb, types.FunctionType)
        return cb

    def func(name, **kw):
        i, cur[0] = cur[0], None
        if i is None:        # the predicate was not asked about this process: identify it by its namespec
            from supervisor.options import make_namespec
            i = next((j for j, p in enumerate(procs) if j not in facts['calls'] and make_namespec(p['group'], p['name']) == name), len(procs))
            if i == len(procs):
                facts['calls'].append(i); facts['inv_of_call'].append(inv[0]); log.append('c?=%s' % name)
                return True
        log.append('c%d=%s' % (i, name))
        facts['calls'].append(i)
        facts['inv_of_call'].append(inv[0])
        if kw != kwargs:
            facts['kw_bad'] += 1
        o = procs[i]['imm']
        if o[0] == 'R':
            raise RPCError(o[1], o[2])
        if o[0] == 'D':
            return make_cb(i)
        return True

    groups = {}
    pairs = []
    for i, p in enumerate(procs):
        g = groups.setdefault(p['group'], Obj(p['group'], p.get('gprio', 999)))
        pairs.append((g, Obj(p['name'], p.get('prio', 999), i)))
    allfunc = make_allfunc(pairs, predicate, func, **kwargs)
    lines, value = [], NOT_DONE_YET
    limit = 1 + max([len(p['polls']) for p in procs] + [0]) + MAX_EXTRA_INVOCATIONS
    while value is NOT_DONE_YET and inv[0] < limit:
        inv[0] += 1
        del log[:]
        try:
            value = allfunc()
        except Exception as ex:      # nothing but RPCError is scripted, and the closure catches those
            value = 'exception %s' % type(ex).__name__
        if value is NOT_DONE_YET:
            ans = 'NOT_DONE_YET'
        elif isinstance(value, list):
            ans = ' '.join(['results'] + ['%s:%s:%s:%s' % (_tok(e.get('name')), _tok(e.get('group')), e.get('status'), _tok(e.get('description')))
                                          if isinstance(e, dict) else 'not-a-struct' for e in value])
        else:
            ans = str(value)
        lines.append(ans + ' | ' + ' '.join(log))
    facts['answer'] = value if isinstance(value, list) else None
    facts['answered'] = value is not NOT_DONE_YET
    facts['invocations'] = inv[0]
    return lines, facts


def expected_entry(p):
    """what the single call for this process reported in the end: (status, description)"""
    from supervisor.xmlrpc import RPCError, Faults
    o = p['imm']
    if o[0] == 'D':
        o = next(x for x in p['polls'] if x[0] != 'N')
    if o[0] == 'R':
        return o[1], RPCError(o[1], o[2]).text
    return Faults.SUCCESS, 'OK'


def mon_allfunc(ctx, procs, kwargs, facts, inp):
    """the last sentence of C13 over the observables of the real closure (independent of the model)"""
    def bad(kind, what):
        ctx.violation('allfunc-' + kind, what, inp)
    elig = [i for i, p in enumerate(procs) if p['elig']]
    if not facts['answered']:
        bad('never-answers', 'still NOT_DONE_YET after %d invocations although every callback had completed by poll %d'
            % (facts['invocations'], max([len(p['polls']) for p in procs] + [0])))
    if facts['answer'] is not None:
        got = sorted((e.get('group'), e.get('name')) for e in facts['answer'] if isinstance(e, dict))
        want = sorted((procs[i]['group'], procs[i]['name']) for i in elig)
        if got != want or len(got) != len(facts['answer']):
            bad('entries-not-one-per-eligible', 'entries for %r, eligible processes %r' % (got, want))
        else:
            gote = sorted((e['group'], e['name'], e.get('status'), e.get('description')) for e in facts['answer'])
            wante = sorted((procs[i]['group'], procs[i]['name']) + expected_entry(procs[i]) for i in elig)
            if gote != wante:
                bad('status-differs-from-single-call', 'entries %r, the single calls reported %r' % (gote, wante))
        # the answer must not come before every deferred single call has said something other than NOT_DONE_YET
        for i in elig:
            if procs[i]['imm'][0] == 'D':
                done_at = next(k for k, x in enumerate(procs[i]['polls']) if x[0] != 'N')
                if not any(pi == i and k == done_at for _, pi, k in facts['polls']):
                    bad('answered-while-pending', 'answered although the callback of process %d had only said NOT_DONE_YET' % i)
                    break
    calls = facts['calls']
    if len(set(calls)) != len(calls):
        bad('func-called-twice', 'func called for positions %r' % calls)
    elif any(i not in elig for i in calls):
        bad('func-called-for-ineligible', 'func called for positions %r, eligible %r' % (calls, elig))
    elif calls != elig and facts['answered']:
        bad('func-not-called-for-eligible', 'func called for %r, eligible %r' % (calls, elig))
    if any(n != 1 for n in facts['inv_of_call']):
        bad('func-called-late', 'func called in invocations %r' % facts['inv_of_call'])
    if facts['kw_bad']:
        bad('kwargs-lost', 'func did not receive the keyword arguments %r' % kwargs)
    if facts['overrun']:
        bad('callback-polled-after-completion', 'callbacks of %r polled again after they had completed' % facts['overrun'])
    per_inv = {}
    for n, i, k in facts['polls']:
        per_inv.setdefault((n, i), []).append(k)
    if any(len(v) > 1 for v in per_inv.values()):
        bad('callback-polled-twice-in-one-invocation', 'polls %r' % facts['polls'])


ALLFUNC_CORPUS = [
    # completion out of list order; a fault while polling; an immediate fault; an ineligible process in between
    ([dict(group='g', name='a', elig=True, imm=('D',), polls=[('N',), ('N',), ('V',)]),
      dict(group='g', name='b', elig=True, imm=('D',), polls=[('N',), ('V',)]),
      dict(group='g', name='x', elig=False, imm=('V',), polls=[]),
      dict(group='h', name='c', elig=True, imm=('D',), polls=[('R', 40, None)]),
      dict(group='h', name='h', elig=True, imm=('R', 60, 'h'), polls=[])], dict(wait=True)),
    # everything immediate
    ([dict(group='g', name='a', elig=True, imm=('V',), polls=[]), dict(group='g', name='b', elig=True, imm=('R', 70, 'g:b'), polls=[])], dict(signal='HUP')),
    # nothing eligible; empty list
    ([dict(group='g', name='a', elig=False, imm=('D',), polls=[('V',)]), dict(group='g', name='b', elig=False, imm=('V',), polls=[])], {}),
    ([], dict(wait=False)),
    # the last of three completes first, the first last (seeded change C13-4: pop(0) for remove(struct))
    ([dict(group='g', name='a', elig=True, imm=('D',), polls=[('N',), ('N',), ('N',), ('V',)]),
      dict(group='g', name='b', elig=True, imm=('D',), polls=[('N',), ('N',), ('R', 50, 'g:b')]),
      dict(group='g', name='c', elig=True, imm=('D',), polls=[('V',)])], dict(wait=True)),
    # two adjacent callbacks complete in the same invocation (iteration over the live list would skip the second)
    ([dict(group='g', name='a', elig=True, imm=('D',), polls=[('V',)]), dict(group='g', name='b', elig=True, imm=('D',), polls=[('V',)]),
      dict(group='g', name='c', elig=True, imm=('D',), polls=[('N',), ('V',)])], dict(wait=True)),
    # the same (group, process) pair twice in the list, equal priorities
    ([dict(group='g', name='a', elig=True, imm=('D',), polls=[('N',), ('V',)]), dict(group='g', name='a', elig=True, imm=('D',), polls=[('V',)]),
      dict(group='g', name='a', elig=True, imm=('V',), polls=[])], {}),
]

SMALL_OUTCOMES = [(('V',), []), (('R', 70, 'x'), []), (('D',), [('V',)]), (('D',), [('N',), ('V',)]), (('D',), [('R', 30, 'y')]),
                  (('D',), [('N',), ('N',), ('R', 40, None)])]
SMALL_NAMES = [('g', 'a'), ('g', 'b'), ('h', 'h')]


def small_scope():
    opts = [(e, o) for e in (True, False) for o in SMALL_OUTCOMES]
    for n in range(0, 4):
        for combo in itertools.product(opts, repeat=n):
            yield [dict(group=SMALL_NAMES[i][0], name=SMALL_NAMES[i][1], elig=e, imm=imm, polls=list(polls)) for i, (e, (imm, polls)) in enumerate(combo)], dict(wait=True)


def gen_allfunc(rng):
    n = rng.choice([0, 1, 2, 2, 3, 3, 4, 4, 5, 6])
    mode = rng.random()
    procs = []
    for i in range(n):
        g = rng.choice(['g', 'g', 'h', 'w'])
        nm = rng.choice(['a', 'b', 'c', 'd', 'e', g])
        elig = True if mode < 0.15 else (False if mode < 0.2 else rng.random() < 0.7)
        r = rng.random()
        if mode > 0.9:
            r = rng.random() * 0.4          # everything immediate
        def fault():
            return ('R', rng.choice(FAULT_CODES), rng.choice([None, nm, '%s:%s' % (g, nm)]))
        if r < 0.2:
            imm, polls = ('V',), []
        elif r < 0.4:
            imm, polls = fault(), []
        else:
            imm = ('D',)
            polls = [('N',)] * rng.choice([0, 0, 1, 1, 2, 3, 4]) + [fault() if rng.random() < 0.3 else ('V',)]
        procs.append(dict(group=g, name=nm, elig=elig, imm=imm, polls=polls, prio=rng.choice([1, 999]), gprio=999))
    kwargs = rng.choice([dict(wait=True), dict(wait=False), dict(signal='HUP'), {}])
    return procs, kwargs


def allfunc_population(ctx):
    for procs, kw in ALLFUNC_CORPUS:
        yield 'corpus', procs, kw
    if not ctx.searching:
        for procs, kw in small_scope():
            yield 'small', procs, kw
    for _ in range(ctx.n(4000, 80000)):
        procs, kw = gen_allfunc(ctx.rng)
        yield 'random', procs, kw


def run_allfunc_cases(ctx, population):
    cases, impls = [], []
    for origin, procs, kw in population:
        falsy = (len(procs) % 2 == 1)
        lines, facts = run_allfunc(procs, kw, falsy)
        inp = dict(allfunc=dict(procs=procs, kwargs=kw, falsy=falsy))
        mon_allfunc(ctx, procs, kw, facts, inp)
        case = allfunc_case_line(procs)
        cases.append((case, ['invoke'] * len(lines))); impls.append(lines)
        nelig = sum(1 for p in procs if p['elig'])
        ndef = sum(1 for p in procs if p['elig'] and p['imm'][0] == 'D')
        ctx.count('allfunc:origin:' + origin)
        ctx.count('allfunc:n=%d' % len(procs)); ctx.count('allfunc:eligible=%d' % nelig); ctx.count('allfunc:invocations=%d' % facts['invocations'])
        ctx.count('allfunc:deferred=%d' % ndef)
        for p in procs:
            if p['elig']:
                ctx.count('allfunc:outcome:' + (p['imm'][0] if p['imm'][0] != 'D' else 'D-' + p['polls'][-1][0]))
        if facts['answer'] is not None and ndef >= 2:
            order = [i for _, i, k in facts['polls'] if procs[i]['polls'][min(k, len(procs[i]['polls']) - 1)][0] != 'N']
            ctx.count('allfunc:completion-' + ('in-list-order' if order == sorted(order) else 'out-of-list-order'))
        if len(set((p['group'], p['name']) for p in procs)) < len(procs):
            ctx.count('allfunc:duplicate-pairs')
        ctx.case_done(case, nontrivial=nelig > 0)
        if origin == 'corpus' and len(ctx.samples) < 4:
            ctx.sample({'allfunc_case': case, 'impl_lines': lines})
    if cases:
        ctx.correspond('allfunc', cases, impls)


def dense_rpc(ctx, group_forms):
    rng = ctx.rng
    for _ in range(ctx.n(500, 10000)):
        progs = l2.gen_programs(rng, 4)
        n = rng.choice([15, 30])
        script = l2.gen_script(rng, progs, n, shutdown=None, faults=rng.random() < 0.2, rpcs=True, group_forms=group_forms)
        # densify: a second generator pass adds more RPCs
        extra = l2.gen_script(rng, progs, n, rpcs=True, group_forms=group_forms)
        script = [(dt, acts + [a if a[0] != 'rpc' else ('rpc', a[1] + 1000, a[2], a[3]) for a in e_acts if a[0] == 'rpc'])
                  for (dt, acts), (_, e_acts) in zip(script, extra)]
        if group_forms and rng.random() < 0.5 and len(script) > 8:
            # motif: a group/all call that arrives while one member is in a state the predicates of the three kinds of call
            # treat differently (STOPPING: signallable but not 'running'; BACKOFF: 'running' but not signallable)
            tgt = rng.choice(progs)
            ns = '%s:%s' % (tgt['group'], tgt['name'])
            k = rng.randrange(2, len(script) - 4)
            kind = rng.choice(['signalAllProcesses', 'signalProcessGroup', 'signalProcess*', 'stopAllProcesses', 'startAllProcesses',
                               'stopProcessGroup', 'startProcessGroup'])
            call = {'signalAllProcesses': ('supervisor.signalAllProcesses', ('USR1',)),
                    'signalProcessGroup': ('supervisor.signalProcessGroup', (tgt['group'], 'USR1')),
                    'signalProcess*': ('supervisor.signalProcess', (tgt['group'] + ':*', 'HUP')),
                    'stopAllProcesses': ('supervisor.stopAllProcesses', (rng.random() < 0.5,)),
                    'startAllProcesses': ('supervisor.startAllProcesses', (rng.random() < 0.5,)),
                    'stopProcessGroup': ('supervisor.stopProcessGroup', (tgt['group'], rng.random() < 0.5)),
                    'startProcessGroup': ('supervisor.startProcessGroup', (tgt['group'], rng.random() < 0.5))}[kind]
            pre = rng.choice(['stop', 'stop', 'exit-early', 'none'])
            script = list(script)
            if pre == 'stop':
                script[k] = (script[k][0], script[k][1] + [('rpc', 3000, 'supervisor.stopProcess', (ns, False))])
            elif pre == 'exit-early':
                script[k] = (script[k][0], script[k][1] + [('exit', tgt['name'], 1)])
            script[k + 2] = (256, script[k + 2][1] + [('rpc', 3001, call[0], call[1])])
        yield progs, script


def run(ctx):
    mons = [l2.mon_c13, l2.mon_c13_groups, l2.mon_c02, l2.mon_c06]
    l2common.run_all(ctx, dense_rpc(ctx, False), mons, correspond=True)
    l2common.run_all(ctx, dense_rpc(ctx, True), mons, correspond=False)
    # after the L2 populations, so that they draw the same scenarios from ctx.rng as before the make_allfunc cases were added
    run_allfunc_cases(ctx, allfunc_population(ctx))
    # the command-file clause (NO_FILE / NOT_EXECUTABLE): real check_execv_args / get_execv_args / startProcess / spawn over a virtual
    # file system, against Model/Execv.lean
    c13_execv.run(ctx)
    # the group-wide forms against the single-process calls with the same arguments (twin worlds): statuses, moment of the answer, acts
    c13_twin.run(ctx)


def replay(ctx, data):
    af = data['input'].get('allfunc') if isinstance(data.get('input'), dict) else None
    if af is not None:
        def tup(o):
            return tuple(o)
        procs = [dict(p, imm=tup(p['imm']), polls=[tup(o) for o in p['polls']]) for p in af['procs']]
        lines, facts = run_allfunc(procs, af['kwargs'], af.get('falsy', False))
        mon_allfunc(ctx, procs, af['kwargs'], facts, dict(allfunc=af))
        ctx.correspond('allfunc', [(allfunc_case_line(procs), ['invoke'] * len(lines))], [lines])
        return
    if isinstance(data.get('input'), dict) and 'group_twin' in data['input']:
        c13_twin.replay(ctx, data)
        return
    if isinstance(data.get('input'), dict) and ('execv' in data['input'] or 'execv_check' in data['input']):
        c13_execv.replay(ctx, data)
        return
    l2common.replay(ctx, data, [l2.mon_c13, l2.mon_c13_groups, l2.mon_c02, l2.mon_c06])


TECHNIQUE = ("Lean 4 theorems on the RPC layer of the process/daemon model (answers vs forks/signals/states, for all states and environment "
             "answers) and on an executable model of make_allfunc's closure (invariant over every process list, predicate, single-call outcome "
             "and schedule of callback completions) + correspondence with the real rpcinterface executed inside the unmodified main loop and "
             "with the real make_allfunc closure driven invocation by invocation; the command-file clause: theorems on a model of "
             "check_execv_args / get_execv_args / the pre-flight test of startProcess / the try at the head of spawn() whose tests, raised "
             "classes, except clauses and statement order are regenerated from /repo, + correspondence with the real functions over a "
             "virtual file system (stat / access answers), + monitors restating the clause")
LEVEL_TEXT = ("start_forks_only_if_eligible, start_true_sound, stop_not_running_exact, stop_true_sound, signal_exact and the deferred-answer soundness "
              "lemmas are proved for every process state, mood and environment answer.  Group/all forms: group_conservation (at every moment each "
              "eligible process is pending or has exactly one entry, equal to what its single call reported), group_entries_exact / "
              "group_one_entry_per_eligible (the final answer, as a permutation statement), group_answer_iff_pending, group_results_grow, "
              "group_func_called_once, group_polls_once_per_invocation, group_pending_polled_n_times, group_answers_eventually are proved for every "
              "environment and every number of invocations; "
              "the tests, returned values and entry fields of the closure, the loop-over-a-copy / remove(struct) structure, the three predicates "
              "and the predicate/method pairing of the six public methods are regenerated from /repo on every run.  Command file: "
              "check_accepts_iff_executable (ok exactly when the file is there, is no directory, has an execute bit AND access(X_OK) holds), "
              "check_rejections, lookup_accepts_iff_executable, lookup_file ($PATH: first candidate whose stat succeeds), start_file_fault_exact "
              "(NO_FILE / NOT_EXECUTABLE and nothing else happens), start_forks_only_if_executable, spawn_forks_only_if_executable are proved "
              "for every stat / access answer, command shape, candidate list, process state and fork answer")
LEVEL_NOTE = ("the group theorems are about make_allfunc's closure with the behaviour of the single calls as an arbitrary input; that the "
              "single calls made inside a group call behave as the single-call theorems say (composition with Model/Sup.lean, where each call "
              "also reaps and thereby changes the state the next predicate test sees) is checked by the L2 monitor mon_c13_groups, not proved; "
              "group_answers_eventually (the call answers after at most K+1 invocations when every callback completes within K polls) is proved "
              "for the closure, while that a real onwait callback does complete is the single-call side (deferred_start_sound / deferred_stop_sound)")
DESIGN_REF = "DESIGN.md section 6, C13"
