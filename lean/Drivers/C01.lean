import SupervisorModel.Basic.DriverKit
import SupervisorModel.Model.ProcOps
def main : IO Unit := Sv.driverMain [("proc", Sv.Proc.runCase)]
