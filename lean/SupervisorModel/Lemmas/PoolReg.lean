import SupervisorModel.Lemmas.Pool
/-
  The subscription registry (`events.callbacks`) of the pool model:

  * `subscribe` / `unsubscribe` (Model/Events.lean, interpreters of the shapes regenerated from supervisor/events.py)
    add / take out exactly one (type, callback) pair and leave every other pair alone -- stated with multiplicities
    (`count`), so that a pool listing a type twice is covered;
  * `RegOK`: the registry holds, for every pool that is in `process_groups`, one entry per subscribed type for its
    `_acceptEvent` and one `EventRejectedEvent` entry for its `handle_rejected` -- and nothing else;
  * `removeOp` / `addOp` in closed form, and that they keep `RegOK`.
-/
set_option linter.unusedSimpArgs false
set_option linter.unusedVariables false
namespace Sv.Pool
open Sv.Gen.Pool Sv.Gen.Events Sv.Events Sv.Listener

/-! ### one pair in, one pair out -/

section registry
variable {τ κ : Type} [DecidableEq τ] [DecidableEq κ]

/-- the keep-condition of a filtering `unsubscribe` (regenerated `unsubKeep`) drops a pair exactly when both its type and
    its callback are the ones being unsubscribed (nothing to show while the source uses `callbacks.remove`) -/
theorem unsubKeep_spec : unsubscribeShape = .filter → ∀ a b : Bool, unsubKeep a b = !(a && b) := by decide

theorem count_subscribe (t : τ) (c : κ) (x : τ × κ) (r : List (τ × κ)) :
    (subscribe t c r).count x = r.count x + (if x = (t, c) then 1 else 0) := by
  unfold subscribe
  generalize subscribeShape = sh
  have hb : ((t, c) == x) = decide (x = (t, c)) := by
    by_cases hx : x = (t, c)
    · subst hx; simp
    · have : ¬ (t, c) = x := fun hh => hx hh.symm
      simp [hx, this]
  cases sh <;> simp only [List.count_append, List.count_cons, List.count_nil, hb] <;>
    by_cases hx : x = (t, c) <;> simp [hx]

theorem filter_ne_count_self (a : τ × κ) (r : List (τ × κ)) : (r.filter fun e => !(decide (e.1 = a.1) && decide (e.2 = a.2))).count a = 0 := by
  rw [List.count_eq_zero]
  intro hm
  have := (List.mem_filter.mp hm).2
  simp at this

/-- every other pair is left alone: as many copies as before -/
theorem count_unsubscribe_other (t : τ) (c : κ) (x : τ × κ) (r : List (τ × κ)) (hx : x ≠ (t, c)) :
    (unsubscribe t c r).count x = r.count x := by
  unfold unsubscribe
  generalize hsh : unsubscribeShape = sh
  cases sh
  · exact List.count_erase_of_ne hx
  · simp only [unsubKeep_spec hsh]
    apply List.count_filter
    obtain ⟨x1, x2⟩ := x
    have : ¬ (x1 = t ∧ x2 = c) := fun hh => hx (by rw [hh.1, hh.2])
    simp only [Bool.not_eq_true', Bool.and_eq_false_iff, decide_eq_false_iff_not]
    by_cases h1 : x1 = t
    · right; exact fun h2 => this ⟨h1, h2⟩
    · left; exact h1

/-- the pair itself loses (at least) one copy -/
theorem count_unsubscribe_self_le (t : τ) (c : κ) (r : List (τ × κ)) :
    (unsubscribe t c r).count (t, c) ≤ r.count (t, c) - 1 := by
  unfold unsubscribe
  generalize hsh : unsubscribeShape = sh
  cases sh
  · rw [List.count_erase_self]; exact Nat.le_refl _
  · simp only [unsubKeep_spec hsh]
    rw [filter_ne_count_self (t, c) r]; exact Nat.zero_le _

/-- nothing is added and the order of the remaining pairs is kept -/
theorem unsubscribe_sublist (t : τ) (c : κ) (r : List (τ × κ)) : (unsubscribe t c r).Sublist r := by
  unfold unsubscribe
  generalize unsubscribeShape = sh
  cases sh
  · exact List.erase_sublist
  · exact List.filter_sublist

theorem mem_unsubscribe_other (t : τ) (c : κ) (x : τ × κ) (r : List (τ × κ)) (hx : x ≠ (t, c)) :
    x ∈ unsubscribe t c r ↔ x ∈ r := by
  rw [← List.count_pos_iff, ← List.count_pos_iff, count_unsubscribe_other t c x r hx]

/-- a pair subscribed once is gone after `unsubscribe` -/
theorem not_mem_unsubscribe_self (t : τ) (c : κ) (r : List (τ × κ)) (h : r.count (t, c) ≤ 1) :
    (t, c) ∉ unsubscribe t c r := by
  rw [← List.count_eq_zero]
  have := count_unsubscribe_self_le t c r
  omega

theorem count_foldl_subscribe (x : τ × κ) : ∀ (es : List (τ × κ)) (r : List (τ × κ)),
    (es.foldl (fun r e => subscribe e.1 e.2 r) r).count x = r.count x + es.count x
  | [], r => by simp
  | e :: es, r => by
    simp only [List.foldl_cons]
    rw [count_foldl_subscribe x es, count_subscribe, List.count_cons]
    have : (e == x) = decide (x = (e.1, e.2)) := by
      by_cases hx : x = e
      · subst hx; simp
      · have : ¬ e = x := fun hh => hx hh.symm
        simp [hx, this]
    rw [this]
    by_cases hx : x = (e.1, e.2) <;> simp [hx] <;> omega

theorem count_foldl_unsubscribe_other (x : τ × κ) : ∀ (es : List (τ × κ)) (r : List (τ × κ)), x ∉ es →
    (es.foldl (fun r e => unsubscribe e.1 e.2 r) r).count x = r.count x
  | [], r, _ => rfl
  | e :: es, r, h => by
    simp only [List.foldl_cons]
    rw [count_foldl_unsubscribe_other x es _ (fun hm => h (by simp [hm]))]
    exact count_unsubscribe_other e.1 e.2 x r (fun hh => h (by simp [hh]))

theorem count_foldl_unsubscribe_le (x : τ × κ) : ∀ (es : List (τ × κ)) (r : List (τ × κ)),
    (es.foldl (fun r e => unsubscribe e.1 e.2 r) r).count x ≤ r.count x - es.count x
  | [], r => by simp
  | e :: es, r => by
    simp only [List.foldl_cons]
    have ih := count_foldl_unsubscribe_le x es (unsubscribe e.1 e.2 r)
    rw [List.count_cons]
    by_cases hx : x = e
    · subst hx
      have := count_unsubscribe_self_le x.1 x.2 r
      simp only [beq_self_eq_true, if_true]
      have e1 : (x.1, x.2) = x := rfl
      rw [e1] at this
      omega
    · have hne : ¬ e = x := fun hh => hx hh.symm
      have := count_unsubscribe_other e.1 e.2 x r (fun hh => hx hh)
      simp only [beq_iff_eq, hne, if_false]
      omega

end registry

/-! ### who is called -/

theorem count_rejecters (r : List Entry) (i : Nat) : (rejecters r).count i = r.count (RTy.rejected, Cb.handleRejected i) := by
  unfold rejecters
  rw [List.count_filterMap, List.count_eq_countP]
  apply List.countP_congr
  intro e _
  obtain ⟨t, c⟩ := e
  cases t <;> cases c <;> simp

theorem mem_acceptors (r : List Entry) (c : Cls) (i : Nat) :
    i ∈ acceptors r c ↔ ∃ t, (RTy.cls t, Cb.accept i) ∈ r ∧ delivers c t = true := by
  unfold acceptors
  rw [List.mem_filterMap]
  constructor
  · rintro ⟨⟨t, cb⟩, hm, he⟩
    cases t with
    | rejected => simp at he
    | cls t =>
      cases cb with
      | handleRejected j => simp at he
      | accept j =>
        simp only [] at he
        split at he
        · rename_i hd
          cases he
          exact ⟨t, hm, hd⟩
        · cases he
  · rintro ⟨t, hm, hd⟩
    exact ⟨(RTy.cls t, Cb.accept i), hm, by simp [hd]⟩

/-! ### the registry invariant -/

/-- what the registry should hold, given which pools are in `process_groups`: one entry per subscribed type (with the
    multiplicity of the `events=` line) for `_acceptEvent`, one `EventRejectedEvent` entry for `handle_rejected`, per
    active pool; nothing else -/
def want (w : W) : Entry → Nat
  | (.cls t, .accept i) =>
    match w.pools[i]? with
    | some p => if p.active then p.subs.count t else 0
    | none => 0
  | (.rejected, .handleRejected i) =>
    match w.pools[i]? with
    | some p => if p.active then 1 else 0
    | none => 0
  | _ => 0

def RegOK (w : W) : Prop := ∀ x : Entry, w.reg.count x = want w x

/-- what `RegOK` looks at -/
def cview (p : PoolSt) : Bool × List Cls := (p.active, p.subs)
def rview (w : W) : List Entry × List (Bool × List Cls) := (w.reg, w.pools.map cview)

theorem want_congr {w w' : W} (h : w'.pools.map cview = w.pools.map cview) (x : Entry) : want w' x = want w x := by
  have hi : ∀ i : Nat, (w'.pools[i]?).map cview = (w.pools[i]?).map cview := by
    intro i
    have := congrArg (·[i]?) h
    simpa using this
  obtain ⟨t, c⟩ := x
  cases t <;> cases c <;> simp only [want]
  all_goals
    rename_i i
    have := hi i
    cases h1 : w'.pools[i]? <;> cases h2 : w.pools[i]? <;> simp [h1, h2, cview] at this ⊢
    simp [this.1, this.2]

theorem RegOK.congr {w w' : W} (h : rview w' = rview w) (hr : RegOK w) : RegOK w' := by
  simp only [rview, Prod.mk.injEq] at h
  intro x
  rw [h.1, want_congr h.2]
  exact hr x

theorem rview_setPool (w : W) (i : Nat) (f : PoolSt → PoolSt) (hf : ∀ p, cview (f p) = cview p) :
    rview (setPool w i f) = rview w := by
  simp only [rview, Prod.mk.injEq]
  refine ⟨rfl, ?_⟩
  apply List.ext_getElem?
  intro j
  simp only [List.getElem?_map, getElem?_setPool]
  split
  · cases w.pools[j]? <;> simp [hf]
  · rfl

theorem insBuf_cview (e : Nat) (head : Bool) (p : PoolSt) : cview (insBuf e head p) = cview p := by
  unfold insBuf cview
  simp only [accept_g6]
  cases head <;> simp

theorem rview_insertEv (i e : Nat) (head : Bool) (w : W) : rview (insertEv i e head w) = rview w := by
  unfold insertEv
  split
  · rfl
  · rw [rview_setPool _ i _ (insBuf_cview e head)]
    split
    · split <;> rfl
    · rfl

theorem rview_setSerial (w : W) (i : Nat) (g : PoolSt → Int) :
    rview (setPool w i (fun p => { p with serial := g p })) = rview w :=
  rview_setPool w i _ (fun p => rfl)

theorem rview_acceptEvent (i e : Nat) (head : Bool) (w : W) : rview (acceptEvent i e head w) = rview w := by
  unfold acceptEvent
  split
  · simp only []
    split
    · refine (rview_insertEv i e head _).trans ((rview_setSerial _ i _).trans ?_)
      split <;> rfl
    · split
      · split <;> rfl
      · refine (rview_insertEv i e head _).trans ?_
        split <;> rfl
  · rfl

theorem rview_foldl {α : Type} (f : W → α → W) (hf : ∀ w a, rview (f w a) = rview w) :
    ∀ (l : List α) (w : W), rview (l.foldl f w) = rview w
  | [], w => rfl
  | a :: l, w => (rview_foldl f hf l (f w a)).trans (hf w a)

theorem rview_notify (c : Cls) (payload : Bytes) (w : W) : rview (notify c payload w) = rview w := by
  unfold notify
  split
  · rfl
  · exact (rview_foldl _ (fun w i => rview_acceptEvent i _ false w) _ _).trans rfl

theorem rview_rejected (who : Option Nat) (e : Nat) (w : W) : rview (rejected who e w) = rview w := by
  unfold rejected
  apply rview_foldl
  intro w i
  split
  · split
    · exact rview_acceptEvent i e true w
    · rfl
  · rfl

theorem reg_of_rview {w w' : W} (h : rview w' = rview w) : w'.reg = w.reg := by
  simp only [rview, Prod.mk.injEq] at h; exact h.1

theorem active_of_rview {w w' : W} (h : rview w' = rview w) (i : Nat) :
    (w'.pools[i]?).map (·.active) = (w.pools[i]?).map (·.active) := by
  simp only [rview, Prod.mk.injEq] at h
  have := congrArg (·[i]?) h.2
  simp only [List.getElem?_map] at this
  cases h1 : w'.pools[i]? <;> cases h2 : w.pools[i]? <;> simp [h1, h2, cview] at this ⊢
  exact this.1

/-- `handle_rejected` of every pool in `process_groups` -- and of no other -- is subscribed, once -/
theorem RegOK.rejecters_nodup {w : W} (hr : RegOK w) : (rejecters w.reg).Nodup := by
  rw [List.nodup_iff_count]
  intro i
  rw [count_rejecters, hr]
  simp only [want]
  split
  · split <;> omega
  · omega

theorem RegOK.mem_rejecters {w : W} (hr : RegOK w) (i : Nat) :
    i ∈ rejecters w.reg ↔ ∃ p, w.pools[i]? = some p ∧ p.active = true := by
  rw [← List.count_pos_iff, count_rejecters, hr]
  simp only [want]
  cases hp : w.pools[i]? with
  | none => simp
  | some p => cases ha : p.active <;> simp [ha]

theorem RegOK.mem_subscription {w : W} (hr : RegOK w) (t : Cls) (i : Nat) :
    (RTy.cls t, Cb.accept i) ∈ w.reg ↔ ∃ p, w.pools[i]? = some p ∧ p.active = true ∧ t ∈ p.subs := by
  rw [← List.count_pos_iff, hr]
  simp only [want]
  cases hp : w.pools[i]? with
  | none => simp
  | some p => cases ha : p.active <;> simp [ha, List.count_pos_iff]

/-! ### `_subscribe` / `_unsubscribe` of one pool -/

/-- the pairs `_subscribe` registers (regenerated `poolSubscribe`): one per configured type for `_acceptEvent`, then
    `EventRejectedEvent` for `handle_rejected` -/
theorem regEntries_subscribe (i : Nat) (p : PoolSt) :
    ∀ x : Entry, (regEntries i p poolSubscribe).count x =
      match x with
      | (.cls t, .accept j) => if j = i then p.subs.count t else 0
      | (.rejected, .handleRejected j) => if j = i then 1 else 0
      | _ => 0 := by
  intro x
  simp only [poolSubscribe, regEntries, cbOf, List.append_nil, List.count_append]
  simp only [show ("_acceptEvent" == "_acceptEvent") = true from by decide,
    show ("handle_rejected" == "_acceptEvent") = false from by decide,
    show ("handle_rejected" == "handle_rejected") = true from by decide, if_true, Bool.false_eq_true, if_false]
  obtain ⟨t, c⟩ := x
  have hmap : ∀ (y : Entry), (p.subs.map fun t => (RTy.cls t, Cb.accept i)).count y =
      match y with
      | (.cls t, .accept j) => if j = i then p.subs.count t else 0
      | _ => 0 := by
    intro y
    induction p.subs with
    | nil => obtain ⟨a, b⟩ := y; cases a <;> cases b <;> simp
    | cons s l ih =>
      simp only [List.map_cons, List.count_cons, ih]
      obtain ⟨a, b⟩ := y
      cases a <;> cases b <;> simp
      rename_i a j
      by_cases hj : j = i
      · subst hj
        by_cases hs : s = a
        · subst hs; simp
        · simp [hs]
      · have : ¬ i = j := fun hh => hj hh.symm
        simp [hj, this]
  rw [hmap]
  cases t <;> cases c <;> simp [List.count_cons]
  rename_i j
  by_cases hj : j = i
  · subst hj; simp
  · have : ¬ i = j := fun hh => hj hh.symm
    simp [hj, this]

/-- `_unsubscribe` names the same pairs as `_subscribe` -/
theorem regEntries_unsubscribe (i : Nat) (p : PoolSt) : regEntries i p poolUnsubscribe = regEntries i p poolSubscribe := by
  simp only [poolUnsubscribe, poolSubscribe]

/-! ### a pool is removed / added at run time -/

/-- `before_remove()` (= `_unsubscribe()`) and `del self.process_groups[name]` -/
def deactivate (pi : Nat) (p : PoolSt) (w : W) : W :=
  setPool { w with reg := unsubscribePool pi p w.reg } pi (fun q => { q with active := false })

/-- `self.process_groups[name] = config.make_group()`: the new `EventListenerPool` subscribes in `__init__` -/
def activate (pi : Nat) (p : PoolSt) (w : W) : W :=
  { setPool w pi (fun q => { q with active := true, used := true }) with reg := subscribePool pi p w.reg }

/-- **`remove_process_group` in closed form** (the regenerated statement list `groupRemoveSteps`, executed): a pool with
    a live listener is refused and *nothing* changes; otherwise the pool unsubscribes, leaves the table, and
    PROCESS_GROUP_REMOVED is announced -/
theorem removeRun_eq (pi : Nat) (w : W) (p : PoolSt) (hp : w.pools[pi]? = some p) :
    removeRun pi w = if unstopped p then (w, some false)
      else (notify .PROCESS_GROUP_REMOVED (groupPayload p.name) (deactivate pi p w), some true) := by
  by_cases hu : unstopped p = true
  · simp [removeRun, runGroup, groupRemoveSteps, gstep, hp, hu]
  · simp [removeRun, runGroup, groupRemoveSteps, gstep, hp, hu, beforeRemoveUnsubscribes, clsOfGroupEvent, getElem?_setPool, deactivate]

/-- **`add_process_group` in closed form**: a pool that is in the table already is refused and nothing changes; otherwise
    the pool object is created (and subscribes), enters the table, and PROCESS_GROUP_ADDED is announced -/
theorem addRun_eq (pi : Nat) (w : W) (p : PoolSt) (hp : w.pools[pi]? = some p) :
    addRun pi w = if p.active then (w, some false)
      else (notify .PROCESS_GROUP_ADDED (groupPayload p.name) (activate pi p w), some true) := by
  by_cases ha : p.active = true
  · simp [addRun, runGroup, groupAddWhenPresent, gstep, hp, ha]
  · simp [addRun, runGroup, groupAddWhenAbsent, gstep, hp, ha, initSubscribes, clsOfGroupEvent, getElem?_setPool, activate]

theorem want_other (w w' : W) (pi : Nat) (h : ∀ j, j ≠ pi → w'.pools[j]? = w.pools[j]?) (x : Entry)
    (hx : match x with
      | (.cls _, .accept j) => j ≠ pi
      | (.rejected, .handleRejected j) => j ≠ pi
      | _ => True) : want w' x = want w x := by
  obtain ⟨t, c⟩ := x
  cases t <;> cases c <;> simp only [want] <;> simp only [] at hx <;> rw [h _ hx]

theorem regOK_deactivate (pi : Nat) (p : PoolSt) (w : W) (hp : w.pools[pi]? = some p) (hr : RegOK w) :
    RegOK (deactivate pi p w) := by
  intro x
  have hreg : (deactivate pi p w).reg = (regEntries pi p poolSubscribe).foldl (fun r e => Events.unsubscribe e.1 e.2 r) w.reg := by
    simp [deactivate, setPool, unsubscribePool, regEntries_unsubscribe]
  have hother : ∀ j, j ≠ pi → (deactivate pi p w).pools[j]? = w.pools[j]? := by
    intro j hj
    simp only [deactivate]
    rw [getElem?_setPool, if_neg (Ne.symm hj)]
  have hself : (deactivate pi p w).pools[pi]? = some { p with active := false } := by
    simp only [deactivate]
    rw [getElem?_setPool]; simp [hp]
  have hes := regEntries_subscribe pi p x
  have hle : (deactivate pi p w).reg.count x ≤ w.reg.count x - (regEntries pi p poolSubscribe).count x := by
    rw [hreg]; exact count_foldl_unsubscribe_le x _ _
  have heq : (regEntries pi p poolSubscribe).count x = 0 → (deactivate pi p w).reg.count x = w.reg.count x := by
    intro h0; rw [hreg]; exact count_foldl_unsubscribe_other x _ _ (List.count_eq_zero.mp h0)
  have hrx := hr x
  obtain ⟨t, c⟩ := x
  cases t <;> cases c
  · -- (cls t, accept j)
    rename_i t j
    by_cases hj : j = pi
    · subst hj
      have hw : want w (RTy.cls t, Cb.accept j) ≤ p.subs.count t := by simp only [want, hp]; split <;> omega
      have hw' : want (deactivate j p w) (RTy.cls t, Cb.accept j) = 0 := by simp [want, hself]
      simp only [if_true] at hes
      rw [hw']
      omega
    · simp only [hj, if_false] at hes
      rw [heq hes, hrx, want_other w _ pi hother _ (by simpa using hj)]
  · rename_i t j
    simp only [] at hes
    rw [heq hes, hrx]
    simp [want]
  · rename_i j
    simp only [] at hes
    rw [heq hes, hrx]
    simp [want]
  · rename_i j
    by_cases hj : j = pi
    · subst hj
      have hw : want w (RTy.rejected, Cb.handleRejected j) ≤ 1 := by simp only [want, hp]; split <;> omega
      have hw' : want (deactivate j p w) (RTy.rejected, Cb.handleRejected j) = 0 := by simp [want, hself]
      simp only [if_true] at hes
      rw [hw']
      omega
    · simp only [hj, if_false] at hes
      rw [heq hes, hrx, want_other w _ pi hother _ (by simpa using hj)]

theorem regOK_activate (pi : Nat) (p : PoolSt) (w : W) (hp : w.pools[pi]? = some p) (hna : p.active = false)
    (hr : RegOK w) : RegOK (activate pi p w) := by
  intro x
  have hreg : (activate pi p w).reg = (regEntries pi p poolSubscribe).foldl (fun r e => Events.subscribe e.1 e.2 r) w.reg := by
    simp [activate, subscribePool]
  have hother : ∀ j, j ≠ pi → (activate pi p w).pools[j]? = w.pools[j]? := by
    intro j hj
    show (setPool w pi _).pools[j]? = _
    rw [getElem?_setPool, if_neg (Ne.symm hj)]
  have hself : (activate pi p w).pools[pi]? = some { p with active := true, used := true } := by
    show (setPool w pi _).pools[pi]? = _
    rw [getElem?_setPool]; simp [hp]
  have hes := regEntries_subscribe pi p x
  have hc : (activate pi p w).reg.count x = w.reg.count x + (regEntries pi p poolSubscribe).count x := by
    rw [hreg]; exact count_foldl_subscribe x _ _
  have hrx := hr x
  rw [hc, hrx, hes]
  obtain ⟨t, c⟩ := x
  cases t <;> cases c
  · rename_i t j
    by_cases hj : j = pi
    · subst hj
      simp [want, hself, hp, hna]
    · simp only [hj, if_false, Nat.add_zero]
      exact (want_other w _ pi hother _ (by simpa using hj)).symm
  · simp [want]
  · simp [want]
  · rename_i j
    by_cases hj : j = pi
    · subst hj
      simp [want, hself, hp, hna]
    · simp only [hj, if_false, Nat.add_zero]
      exact (want_other w _ pi hother _ (by simpa using hj)).symm

/-! ### a freshly configured daemon -/

/-- what the pools `ps` (slots `off`, `off+1`, …) contribute to the registry at start-up -/
def wantL : Nat → List PoolSt → Entry → Nat
  | _, [], _ => 0
  | off, p :: ps, x => (if p.active then (regEntries off p poolSubscribe).count x else 0) + wantL (off + 1) ps x

theorem count_subscribePool (i : Nat) (p : PoolSt) (r : List Entry) (x : Entry) :
    (subscribePool i p r).count x = r.count x + (regEntries i p poolSubscribe).count x := by
  unfold subscribePool
  exact count_foldl_subscribe x _ _

theorem count_bootReg (x : Entry) : ∀ (ps : List PoolSt) (off : Nat) (r : List Entry),
    (bootReg off ps r).count x = r.count x + wantL off ps x
  | [], off, r => by simp [bootReg, wantL]
  | p :: ps, off, r => by
    simp only [bootReg, wantL]
    rw [count_bootReg x ps (off + 1)]
    cases ha : p.active
    · simp
    · simp only [initSubscribes, Bool.and_self, if_true]
      rw [count_subscribePool]
      omega

theorem wantL_eq (x : Entry) : ∀ (ps : List PoolSt) (off : Nat),
    wantL off ps x =
      match x with
      | (.cls t, .accept j) =>
        if j < off then 0 else
          match ps[j - off]? with
          | some p => if p.active then p.subs.count t else 0
          | none => 0
      | (.rejected, .handleRejected j) =>
        if j < off then 0 else
          match ps[j - off]? with
          | some p => if p.active then 1 else 0
          | none => 0
      | _ => 0
  | [], off => by
    obtain ⟨t, c⟩ := x
    cases t <;> cases c <;> simp [wantL]
  | p :: ps, off => by
    have ih := wantL_eq x ps (off + 1)
    have hes := regEntries_subscribe off p x
    simp only [wantL]
    rw [ih, hes]
    obtain ⟨t, c⟩ := x
    cases t <;> cases c <;> simp only []
    · rename_i t j
      by_cases h1 : j < off
      · have : j ≠ off := by omega
        have h2 : j < off + 1 := by omega
        simp [h1, h2, this]
      · by_cases h2 : j = off
        · subst h2
          simp
        · have h3 : ¬ j < off + 1 := by omega
          have h4 : j - off = (j - (off + 1)) + 1 := by omega
          simp only [h1, h2, h3, if_false, h4, List.getElem?_cons_succ]
          simp
    · simp
    · simp
    · rename_i j
      by_cases h1 : j < off
      · have : j ≠ off := by omega
        have h2 : j < off + 1 := by omega
        simp [h1, h2, this]
      · by_cases h2 : j = off
        · subst h2
          simp
        · have h3 : ¬ j < off + 1 := by omega
          have h4 : j - off = (j - (off + 1)) + 1 := by omega
          simp only [h1, h2, h3, if_false, h4, List.getElem?_cons_succ]
          simp

/-- **the registry of a freshly configured daemon**: every configured pool that is created at start-up has
    subscribed, the others have not -/
theorem regOK_boot (ps : List PoolSt) : RegOK (boot ps) := by
  intro x
  show (bootReg 0 ps []).count x = want (boot ps) x
  rw [count_bootReg, wantL_eq]
  obtain ⟨t, c⟩ := x
  cases t <;> cases c <;> simp [want, boot]

end Sv.Pool
