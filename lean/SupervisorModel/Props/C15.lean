import SupervisorModel.Model.Reread
/-
  C15 — reread reports exactly the difference, update converges to the file.
  Property theorems over Model/Reread.lean; the compared attribute lists and class facts (`Sv.Gen.Reread.*`)
  are regenerated from /repo on each run.
-/
set_option linter.unusedSimpArgs false
set_option maxRecDepth 4000
namespace Sv.Props.C15
open Sv Sv.Config Sv.Reread Sv.Gen.Reread

/-- "equal, or either side is AUTO" -/
def sameOrAuto (a b : LogFile) : Prop := a = .auto ∨ b = .auto ∨ a = b

theorem lfEq_iff (a b : LogFile) : lfEq a b = true ↔ sameOrAuto a b := by
  simp only [lfEq, pconfigEqAutomaticWildcard, Bool.true_and, Bool.or_eq_true, beq_iff_eq, sameOrAuto]
  constructor
  · rintro ((h | h) | h)
    · exact Or.inl h
    · exact Or.inr (Or.inl h)
    · exact Or.inr (Or.inr h)
  · rintro (h | h | h)
    · exact Or.inl (Or.inl h)
    · exact Or.inl (Or.inr h)
    · exact Or.inr h

/-- **eq_characterised.**  Two process configurations compare equal exactly when *every* option agrees, a log
    file set to AUTO matching any file name (so a difference in any option is noticed).  The list of compared
    attributes is the generated `pconfigEqAttrs`; dropping one from ProcessConfig breaks this proof. -/
theorem eq_characterised (a b : PConfig) :
    pconfigEq a b = true ↔
      a.name = b.name ∧ a.uid = b.uid ∧ a.command = b.command ∧ a.directory = b.directory ∧ a.umask = b.umask ∧
      a.priority = b.priority ∧ a.autostart = b.autostart ∧ a.autorestart = b.autorestart ∧ a.startsecs = b.startsecs ∧
      a.startretries = b.startretries ∧ sameOrAuto a.stdout_logfile b.stdout_logfile ∧
      a.stdout_capture_maxbytes = b.stdout_capture_maxbytes ∧ a.stdout_events_enabled = b.stdout_events_enabled ∧
      a.stdout_syslog = b.stdout_syslog ∧ a.stdout_logfile_backups = b.stdout_logfile_backups ∧
      a.stdout_logfile_maxbytes = b.stdout_logfile_maxbytes ∧ sameOrAuto a.stderr_logfile b.stderr_logfile ∧
      a.stderr_capture_maxbytes = b.stderr_capture_maxbytes ∧ a.stderr_logfile_backups = b.stderr_logfile_backups ∧
      a.stderr_logfile_maxbytes = b.stderr_logfile_maxbytes ∧ a.stderr_events_enabled = b.stderr_events_enabled ∧
      a.stderr_syslog = b.stderr_syslog ∧ a.stopsignal = b.stopsignal ∧ a.stopwaitsecs = b.stopwaitsecs ∧
      a.stopasgroup = b.stopasgroup ∧ a.killasgroup = b.killasgroup ∧ a.exitcodes = b.exitcodes ∧
      a.redirect_stderr = b.redirect_stderr ∧ dictEq a.environment b.environment = true ∧ a.serverurl = b.serverurl := by
  simp only [pconfigEq, pconfigEqAttrs, List.all_cons, List.all_nil, Bool.and_true, Bool.and_eq_true]
  simp [attrEq, lfEq_iff]

theorem dictEq_refl (e : KV) : dictEq e e = true := by simp [dictEq]

/-- **eq_refl.**  A configuration equals itself: an unchanged file reports nothing. -/
theorem pconfigEq_refl (a : PConfig) : pconfigEq a a = true := by
  rw [eq_characterised]
  simp [sameOrAuto, dictEq_refl]

theorem plistEq_refl (l : List PConfig) : plistEq l l = true := by
  induction l with
  | nil => rfl
  | cons a as ih => simp [plistEq, pconfigEq_refl, ih]

theorem eq_refl (g : GConfig) : gconfigEq g g = true := by
  cases hk : g.kind <;>
    simp [gconfigEq, hk, groupEq, isInstance, gkindClass, eqBaseClass, classBases, groupEqAttrs, poolEqAttrs, fcgiEqAttrs,
      gAttrEq, plistEq_refl, fcgiEqDelegatesToGroup, List.lookup]

theorem ne_self (g : GConfig) : gconfigNe g g = false := by
  simp [gconfigNe, eq_refl]

/-! ### diff_to_active -/

/-- **diff_exact.**  added = the file's groups whose name is not active; removed = the active groups whose name is
    not in the file; changed = the file's groups that are active under the same name with a configuration that
    does not compare equal (`gconfigNe`, i.e. Python's `!=` with its subclass priority); the three are pairwise
    disjoint by name. -/
theorem diff_exact (new cur : List GConfig) :
    (∀ g, g ∈ (diffToActive new cur).added ↔ g ∈ new ∧ lastNamed cur g.name = none) ∧
    (∀ g, g ∈ (diffToActive new cur).removed ↔ g ∈ cur ∧ lastNamed new g.name = none) ∧
    (∀ g, g ∈ (diffToActive new cur).changed ↔ g ∈ new ∧ ∃ c, lastNamed cur g.name = some c ∧ gconfigNe g c = true) ∧
    (∀ g, g ∈ (diffToActive new cur).added → g ∉ (diffToActive new cur).changed) := by
  have hch : ∀ g, g ∈ (diffToActive new cur).changed ↔ g ∈ new ∧ ∃ c, lastNamed cur g.name = some c ∧ gconfigNe g c = true := by
    intro g
    simp only [diffToActive, List.mem_filter]
    constructor
    · rintro ⟨hm, hne⟩
      cases hl : lastNamed cur g.name with
      | none => rw [hl] at hne; simp [ne_self] at hne
      | some c => rw [hl] at hne; exact ⟨hm, c, rfl, by simpa using hne⟩
    · rintro ⟨hm, c, hl, hne⟩
      exact ⟨hm, by rw [hl]; simpa using hne⟩
  refine ⟨?_, ?_, hch, ?_⟩
  · intro g; simp [diffToActive, List.mem_filter]
  · intro g; simp [diffToActive, List.mem_filter]
  · intro g ha hc
    have h1 : lastNamed cur g.name = none := by
      have := ha; simp [diffToActive, List.mem_filter] at this; exact this.2
    obtain ⟨_, c, h2, _⟩ := (hch g).mp hc
    rw [h1] at h2; cases h2

/-- names found by `lastNamed` are names of the list -/
theorem lastNamed_some (l : List GConfig) (n : String) (c : GConfig) (h : lastNamed l n = some c) : c ∈ l ∧ c.name = n := by
  unfold lastNamed at h
  have := List.find?_some h
  have hm := List.mem_of_find?_eq_some h
  exact ⟨List.mem_reverse.mp hm, by simpa using this⟩

theorem lastNamed_none (l : List GConfig) (n : String) (h : lastNamed l n = none) : ∀ c ∈ l, c.name ≠ n := by
  unfold lastNamed at h
  intro c hc
  have := List.find?_eq_none.mp h c (List.mem_reverse.mpr hc)
  simpa using this

/-- removed groups are not in the file, added and changed ones are: "removed" is disjoint from both by name -/
theorem removed_disjoint (new cur : List GConfig) (r : GConfig) (hr : r ∈ (diffToActive new cur).removed) :
    ∀ g ∈ new, g.name ≠ r.name := by
  obtain ⟨_, h⟩ := ((diff_exact new cur).2.1 r).mp hr
  exact lastNamed_none new r.name h

/-! ### reread changes nothing; CANT_REREAD -/

/-- **reread_changes_nothing.**  reloadConfig never touches the active groups, their processes or pids. -/
theorem reread_changes_nothing (s : State) (parsed : Except String (List GConfig)) :
    (reloadConfig s parsed).2.active = s.active := by
  cases parsed <;> simp [reloadConfig]

/-- **cant_reread_leaves_state.**  A file that cannot be parsed is answered CANT_REREAD and leaves every active
    group and the configuration last read as they were. -/
theorem cant_reread_leaves_state (s : State) (e : String) :
    reloadConfig s (.error e) = (.error .cantReread, s) := rfl

/-- an unchanged file (group names unique, as the daemon's group table requires) reports nothing -/
theorem unchanged_reports_nothing (gs : List GConfig) (hu : ∀ g ∈ gs, lastNamed gs g.name = some g) :
    (diffToActive gs gs).changed = [] ∧ (diffToActive gs gs).added = [] ∧ (diffToActive gs gs).removed = [] := by
  refine ⟨?_, ?_, ?_⟩
  · rw [List.eq_nil_iff_forall_not_mem]
    intro g hg
    obtain ⟨hm, c, hl, hne⟩ := ((diff_exact gs gs).2.2.1 g).mp hg
    rw [hu g hm] at hl
    injection hl with hl
    subst hl
    rw [ne_self] at hne
    cases hne
  · rw [List.eq_nil_iff_forall_not_mem]
    intro g hg
    obtain ⟨hm, hl⟩ := ((diff_exact gs gs).1 g).mp hg
    rw [hu g hm] at hl; cases hl
  · rw [List.eq_nil_iff_forall_not_mem]
    intro g hg
    obtain ⟨hm, hl⟩ := ((diff_exact gs gs).2.1 g).mp hg
    rw [hu g hm] at hl; cases hl

/-! ### supervisorctl update -/

def callGroup : Call → String
  | .stop g => g | .remove g => g | .add g => g

/-- **restricted_update.**  `update g1 g2 …` only ever stops, removes or adds the named groups. -/
theorem restricted_update (valid added changed removed : List String) (hv : valid ≠ []) :
    ∀ c ∈ updateCalls valid added changed removed, callGroup c ∈ valid := by
  intro c hc
  have hsel : ∀ g, selected valid g = true → g ∈ valid := by
    intro g hg
    simp only [selected, Bool.or_eq_true, List.isEmpty_iff] at hg
    rcases hg with h | h
    · exact absurd h hv
    · exact List.contains_iff_mem.mp h
  simp only [updateCalls, List.mem_append, List.mem_flatMap, List.mem_filter, List.mem_map] at hc
  rcases hc with (⟨g, ⟨_, hs⟩, hm⟩ | ⟨g, ⟨_, hs⟩, hm⟩) | ⟨g, ⟨_, hs⟩, rfl⟩
  · simp only [List.mem_cons, List.not_mem_nil, or_false] at hm
    rcases hm with rfl | rfl <;> exact hsel g hs
  · simp only [List.mem_cons, List.not_mem_nil, or_false] at hm
    rcases hm with rfl | rfl | rfl <;> exact hsel g hs
  · exact hsel g hs

/-- the call sequence of an unrestricted update: removed groups are stopped then removed, changed groups are
    stopped, removed and added again, added groups are added — in that order, nothing else -/
theorem update_sequence (added changed removed : List String) :
    updateCalls [] added changed removed =
      (removed.flatMap fun g => [Call.stop g, Call.remove g]) ++
      (changed.flatMap fun g => [Call.stop g, Call.remove g, Call.add g]) ++ added.map Call.add := by
  have hf : ∀ l : List String, List.filter (selected []) l = l := by
    intro l; apply List.filter_eq_self.mpr; intro a _; simp [selected]
  simp [updateCalls, hf]

end Sv.Props.C15
