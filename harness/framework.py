"""
Check framework (DESIGN.md 2.4, 4, 8).  One run of `./check <ID> --tier T`:

  1. regenerate lean/SupervisorModel/Generated/* from /repo's working tree   (extract.py)
  2. lake build  the property's driver, its Props module and the Audit command  (kernel re-check)
  3. audit: axioms of every theorem under Sv.Props.<ID>; source grep for sorry/axiom/...
  4. correspondence: the property module runs the real implementation and the compiled Lean
     model on the same operation sequences and diffs canonical lines
  5. monitors: the property re-stated over observables of the *implementation*
  6. if anything of 1-4 is broken: boosted search for a concrete failing input (monitors on a
     much larger population); VIOLATION with the input as replay, or, when none is found,
     VIOLATION ... no-failing-input-found naming what no longer checks
  7. known findings, evidence, exit status (0 ok, 1 violation, 2 infrastructure)

A property module harness/props/<id>.py defines
   ID, LEAN_PROPS (module name), DRIVER (exe name or None), GENERATED (list of Generated module names)
   TRUSTED (list of strings), ASSUMPTIONS (list), RULE (string)
   run(ctx)             -- normal population: correspondence + monitors
   search(ctx)          -- boosted failing-input search (optional; default: run with ctx.boost)
   replay(ctx, data)    -- re-execute a replay file's input (optional)
"""
import fcntl, hashlib, importlib, json, os, random, re, shutil, subprocess, sys, tempfile, time

VERIF = os.path.normpath(os.path.join(os.path.dirname(os.path.abspath(__file__)), '..'))
LEAN = os.path.join(VERIF, 'lean')
OUT = os.path.join(VERIF, 'out')
REPO = os.environ.get('VERIF_REPO', '/repo')
ALLOWED_AXIOMS = {'propext', 'Classical.choice', 'Quot.sound'}
FORBIDDEN = re.compile(r'\bsorry\b|\badmit\b|^\s*axiom\s|native_decide|bv_decide|implemented_by|\bunsafe\s|maxHeartbeats\s+0\b', re.M)

BASE_TRUSTED = [
    "Lean 4.33.0 kernel (theorems re-checked by `lake build` on every run; leanchecker in the thorough tier)",
    "axioms: subset of {propext, Classical.choice, Quot.sound}, audited per theorem on every run; no native_decide/bv_decide/sorry/own axioms",
    "harness/extract.py (regenerates Generated/*.lean from /repo's working tree) and its site registry",
    "the correspondence harness (canonicaliser, differ) and the Lean compiler/runtime for the model driver",
]


class Infra(Exception):
    pass


def sh(cmd, cwd=None, timeout=None, input=None):
    p = subprocess.run(cmd, cwd=cwd, capture_output=True, text=True, timeout=timeout, input=input)
    return p.returncode, p.stdout + p.stderr


def strip_lean_comments(src):
    # block comments (nested) and line comments
    out, i, depth = [], 0, 0
    while i < len(src):
        if src.startswith('/-', i):
            depth += 1; i += 2; continue
        if src.startswith('-/', i) and depth:
            depth -= 1; i += 2; continue
        if depth:
            if src[i] == '\n': out.append('\n')
            i += 1; continue
        if src.startswith('--', i):
            while i < len(src) and src[i] != '\n': i += 1
            continue
        out.append(src[i]); i += 1
    return ''.join(out)


class Ctx:
    def __init__(self, prop, tier, seed):
        self.prop, self.tier, self.seed = prop, tier, seed
        self.rng = random.Random(seed)
        self.boost = 1
        self.broken = []          # [{'kind': proof|extraction|correspondence|audit, 'what': ..., ...}]
        self.violations = []      # [{'kind':..., 'what':..., 'input':...}]
        self.known_hits = {}      # finding id -> first violation
        self.hist = {}
        self.samples = []
        self.evaluations = 0
        self.traces_validated = 0
        self._distinct = set()
        self.driver_path = None
        self.scratch = tempfile.mkdtemp(prefix='verif-%s-' % prop)
        self.t0 = time.time()
        self.extra = {}
        self.searching = False

    # ---- bookkeeping -------------------------------------------------------------------
    def n(self, quick, thorough):
        """population size for this tier (times the boost factor while searching)"""
        return (quick if self.tier == 'quick' else thorough) * self.boost

    def count(self, key, k=1):
        self.hist[key] = self.hist.get(key, 0) + k

    def case_done(self, canonical, nontrivial=True):
        """register one evaluated case; `canonical` is any hashable/str canonical form"""
        self.evaluations += 1
        if nontrivial:
            self._distinct.add(hashlib.sha1(repr(canonical).encode()).digest()[:8])

    def sample(self, s, limit=6):
        if len(self.samples) < limit:
            self.samples.append(s)

    def violation(self, kind, what, input):
        """a monitor found the property failing on the implementation for `input`"""
        self.violations.append({'kind': kind, 'what': what, 'input': input})

    def disagree(self, name, what, input, impl=None, model=None):
        """model and implementation differ on an observable (not by itself a violation)"""
        if sum(1 for b in self.broken if b['kind'] == 'correspondence') < 5:
            self.broken.append({'kind': 'correspondence', 'name': name, 'what': what, 'input': input,
                                'impl_lines': impl, 'model_lines': model})
        self.count('disagreements')

    # ---- model driver ------------------------------------------------------------------
    def drive(self, cases):
        """cases: [(case_line, [op lines])] -> [[out lines]] via the compiled Lean driver"""
        if not self.driver_path:
            raise Infra('model driver not available')
        buf = []
        for c, ops in cases:
            buf.append(c); buf.extend(ops); buf.append('end')
        p = subprocess.run([self.driver_path], input='\n'.join(buf) + '\n', capture_output=True, text=True, timeout=600)
        if p.returncode != 0:
            raise Infra('driver failed: ' + p.stderr[:500])
        lines = p.stdout.split('\n')
        res, i = [], 0
        for c, ops in cases:
            cur = []
            while i < len(lines) and not lines[i].startswith('end '):
                if lines[i] in ('bad-model', 'bad-line'):
                    raise Infra('driver: %s for %r' % (lines[i], c))
                cur.append(lines[i]); i += 1
            i += 1
            res.append(cur)
        return res

    def correspond(self, name, cases, impl_lines):
        """diff implementation lines against the model's for the same cases"""
        if not self.driver_path:
            return 0
        model = self.drive([(c, ops) for c, ops in cases])
        bad = 0
        for (c, ops), il, ml in zip(cases, impl_lines, model):
            self.traces_validated += 1
            if 'bad-op' in ml or 'bad-config' in ml:
                raise Infra('model rejected harness input: %r %r -> %r' % (c, ops, ml))
            if il != ml:
                bad += 1
                k = next((j for j in range(min(len(il), len(ml))) if il[j] != ml[j]), min(len(il), len(ml)))
                self.disagree(name, 'op %d: impl %r / model %r' % (k, il[k] if k < len(il) else None, ml[k] if k < len(ml) else None),
                              {'case': c, 'ops': ops[:k + 1]}, il[:k + 1], ml[:k + 1])
        return bad


def lake_build(targets, timeout=3000):
    return sh(['lake', 'build'] + targets, cwd=LEAN, timeout=timeout)


def prepare(ctx, mod):
    """steps 1-3 under a lock; returns audit list"""
    os.makedirs(OUT, exist_ok=True)
    lock = open(os.path.join(VERIF, '.lock'), 'w')
    fcntl.flock(lock, fcntl.LOCK_EX)
    props_built = False
    try:
        sys.path.insert(0, os.path.join(VERIF, 'harness'))
        import extract
        gen = extract.main(set(getattr(mod, 'GENERATED', [])) or {'__none__'})
        ctx.extra['generated_changed'] = [os.path.basename(p) for p in gen['changed']]
        ctx.extra['fingerprints'] = gen['fingerprints']
        committed = {}
        try:
            committed = json.load(open(os.path.join(VERIF, 'harness', 'fingerprints.json')))
        except OSError:
            pass
        changed_fp = [k for k, v in gen['fingerprints'].items() if k in committed and committed[k] != v]
        ctx.extra['fingerprints_changed'] = changed_fp
        for e in gen['errors']:
            ctx.broken.append({'kind': 'extraction', 'name': 'extract.py', 'what': e})
        # model + driver
        drv = getattr(mod, 'DRIVER', None)
        if drv:
            rc, out = lake_build([drv])
            if rc != 0:
                ctx.broken.append({'kind': 'proof', 'name': 'model build (%s)' % drv,
                                   'what': 'the model no longer builds against the regenerated definitions: ' + tail_err(out)})
            else:
                dst = os.path.join(ctx.scratch, drv)
                shutil.copy(os.path.join(LEAN, '.lake', 'build', 'bin', drv), dst)
                ctx.driver_path = dst
        # theorems
        rc, out = lake_build([mod.LEAN_PROPS, 'SupervisorModel.Audit'])
        props_built = rc == 0
        if rc != 0:
            ctx.broken.append({'kind': 'proof', 'name': failing_decls(out) or mod.LEAN_PROPS,
                               'what': 'lake build %s failed: %s' % (mod.LEAN_PROPS, tail_err(out))})
    finally:
        fcntl.flock(lock, fcntl.LOCK_UN)
        lock.close()
    # ---- audit (read-only; outside the build lock)
    audit = []
    if props_built:
        ns = 'Sv.Props.' + mod.ID
        f = os.path.join(ctx.scratch, 'audit.lean')
        open(f, 'w').write('import %s\nimport SupervisorModel.Audit\n#audit %s\n' % (mod.LEAN_PROPS, ns))
        rc, out = sh(['lake', 'env', 'lean', f], cwd=LEAN, timeout=900)
        for line in out.split('\n'):
            if line.startswith('AUDIT '):
                audit.append(json.loads(line[6:]))
        if rc != 0 or not audit:
            ctx.broken.append({'kind': 'audit', 'name': 'Audit', 'what': 'audit failed: ' + out[-400:]})
        for a in audit:
            bad = set(a['axioms']) - ALLOWED_AXIOMS
            if bad:
                ctx.broken.append({'kind': 'audit', 'name': a['theorem'], 'what': 'forbidden axioms %s' % sorted(bad)})
        # source grep over the import closure of the property's theorems (comments stripped)
        for path in import_closure(mod.LEAN_PROPS):
            if os.path.basename(path) == 'Audit.lean':
                continue
            m = FORBIDDEN.search(strip_lean_comments(open(path).read()))
            if m:
                ctx.broken.append({'kind': 'audit', 'name': os.path.basename(path), 'what': 'forbidden token %r' % m.group(0)})
    return audit


def import_closure(module):
    """files of this library reachable from `module` through `import SupervisorModel...` lines"""
    seen, todo, files = set(), [module], []
    while todo:
        m = todo.pop()
        if m in seen or not m.startswith('SupervisorModel'):
            continue
        seen.add(m)
        path = os.path.join(LEAN, *m.split('.')) + '.lean'
        if not os.path.exists(path):
            continue
        files.append(path)
        for mm in re.finditer(r'^import\s+(\S+)', open(path).read(), re.M):
            todo.append(mm.group(1))
    return files


def tail_err(out):
    errs = [l for l in out.split('\n') if 'error' in l]
    return ' | '.join(errs[:4])[:600] if errs else out[-400:]


def failing_decls(out):
    """names of the Lean files/lines that failed, for the replay file"""
    names = []
    for m in re.finditer(r'error: (\S+\.lean):(\d+):\d+', out):
        path, line = m.group(1), int(m.group(2))
        try:
            src = open(os.path.join(LEAN, path)).read().split('\n')
            for k in range(line - 1, -1, -1):
                mm = re.match(r'\s*(?:theorem|lemma|example|def|instance)\s+(\S+)', src[k])
                if mm:
                    names.append('%s:%s' % (os.path.basename(path), mm.group(1)))
                    break
        except OSError:
            names.append(path)
    return ', '.join(sorted(set(names)))[:300]


def load_known():
    """known_findings.json plus (while properties are being built) known_findings.d/*.json"""
    res = []
    paths = [os.path.join(VERIF, 'known_findings.json')]
    d = os.path.join(VERIF, 'known_findings.d')
    if os.path.isdir(d):
        paths += [os.path.join(d, f) for f in sorted(os.listdir(d)) if f.endswith('.json')]
    for p in paths:
        try:
            res.extend(json.load(open(p))['findings'])
        except OSError:
            pass
    return res


def main(argv):
    import argparse
    ap = argparse.ArgumentParser()
    ap.add_argument('prop')
    ap.add_argument('--tier', default=os.environ.get('VERIF_TIER', 'quick'), choices=['quick', 'thorough'])
    ap.add_argument('--replay')
    a = ap.parse_args(argv)
    seed = int(os.environ.get('VERIF_SEED', '1'))
    prop = a.prop.upper()
    sys.path.insert(0, REPO)
    sys.path.insert(0, os.path.join(VERIF, 'harness'))
    ctx = Ctx(prop, a.tier, seed)
    rc = 2
    try:
        mod = importlib.import_module('props.' + prop.lower())
        rc = run_check(ctx, mod, a)
    except Infra as ex:
        print('INFRASTRUCTURE ERROR: %s' % ex)
        rc = 2
    except subprocess.TimeoutExpired as ex:
        print('TIMEOUT: %s' % ex)
        rc = 2
    finally:
        shutil.rmtree(ctx.scratch, ignore_errors=True)
    return rc


def run_check(ctx, mod, a):
    prop = ctx.prop
    audit = prepare(ctx, mod)
    if a.replay:
        data = json.load(open(a.replay))
        if not hasattr(mod, 'replay'):
            raise Infra('no replay function for ' + prop)
        mod.replay(ctx, data)
    else:
        try:
            mod.run(ctx)
        except Infra:
            raise
        if ctx.broken and not ctx.violations:
            # boosted failing-input search (DESIGN 4)
            ctx.searching = True
            ctx.boost = 8 if ctx.tier == 'quick' else 4
            ctx.rng = random.Random(ctx.seed * 7919 + 13)
            ctx.extra['search'] = 'boosted x%d after: %s' % (ctx.boost, '; '.join(b['kind'] + ':' + str(b.get('name')) for b in ctx.broken)[:300])
            (getattr(mod, 'search', None) or mod.run)(ctx)
    # thorough: independent re-check of the compiled proofs
    if ctx.tier == 'thorough' and not a.replay and not any(b['kind'] == 'proof' for b in ctx.broken):
        rc, out = sh(['lake', 'env', 'leanchecker', mod.LEAN_PROPS], cwd=LEAN, timeout=3000)
        ctx.extra['leanchecker'] = 'ok' if rc == 0 else out[-300:]
        if rc != 0:
            ctx.broken.append({'kind': 'audit', 'name': 'leanchecker', 'what': out[-300:]})

    # ---- classification -----------------------------------------------------------------
    known = [k for k in load_known() if k['property'] == prop and k['status'] == 'open']
    new_violations = []
    for v in ctx.violations:
        hit = next((k for k in known if k.get('kind') == v['kind']), None)
        if hit:
            ctx.known_hits.setdefault(hit['id'], v)
        else:
            new_violations.append(v)
    lines = []
    for k in known:
        if k['id'] in ctx.known_hits:
            lines.append('KNOWN-FINDING: property=%s %s: %s' % (prop, k['id'], k['what']))
        else:
            # a listed finding that no longer reproduces is reported (informational), never an alarm
            lines.append('NOTE: listed finding %s did not reproduce in this run' % k['id'])
    exit_code = 0
    nrep = 0
    seen_kinds = set()
    for v in new_violations:
        if v['kind'] in seen_kinds:
            continue
        seen_kinds.add(v['kind'])
        nrep += 1
        path = os.path.join(OUT, '%s-%d-%d.json' % (prop, ctx.seed, nrep))
        json.dump({'property': prop, 'kind': 'violation', 'violation_kind': v['kind'], 'what': v['what'],
                   'input': v['input'], 'found_failing_input': True,
                   'broken': [b['kind'] + ': ' + str(b.get('name')) for b in ctx.broken] or None,
                   'rerun': './check %s --replay %s' % (prop, os.path.relpath(path, VERIF))},
                  open(path, 'w'), indent=1, default=str)
        lines.append('VIOLATION property=%s replay=%s' % (prop, path))
        exit_code = 1
    if ctx.broken and not new_violations:
        path = os.path.join(OUT, '%s-%d-broken.json' % (prop, ctx.seed))
        json.dump({'property': prop, 'kind': ctx.broken[0]['kind'], 'found_failing_input': False,
                   'what': 'the property is no longer shown to hold: ' + '; '.join('%s %s' % (b['kind'], b.get('name')) for b in ctx.broken)[:500],
                   'broken': ctx.broken,
                   'search': ctx.extra.get('search'),
                   'rerun': './check %s --tier %s' % (prop, ctx.tier)}, open(path, 'w'), indent=1, default=str)
        lines.append('VIOLATION property=%s replay=%s no-failing-input-found' % (prop, path))
        exit_code = 1
    write_evidence(ctx, mod, audit, len(new_violations) + (1 if ctx.broken and not new_violations else 0), lines)
    for l in lines:
        print(l)
    if exit_code == 0:
        print('OK property=%s tier=%s seed=%d theorems=%d evaluations=%d distinct=%d wall=%.1fs' % (
            prop, ctx.tier, ctx.seed, len(audit), ctx.evaluations, len(ctx._distinct), time.time() - ctx.t0))
    return exit_code


def write_evidence(ctx, mod, audit, nviol, lines):
    good = [a for a in audit if set(a['axioms']) <= ALLOWED_AXIOMS]
    proof_broken = any(b['kind'] in ('proof', 'audit', 'extraction') for b in ctx.broken)
    ev = {
        'property_id': ctx.prop, 'tier': ctx.tier, 'seed': ctx.seed, 'level': 'proof',
        'coverage': {
            'obligations': max(len(audit), 1),
            'discharged': 0 if proof_broken else len(good),
            'checker_cmd': 'cd lean && lake build %s && lake env lean <audit of Sv.Props.%s>%s' % (
                mod.LEAN_PROPS, ctx.prop, ' && lake env leanchecker ' + mod.LEAN_PROPS if ctx.tier == 'thorough' else ''),
            'trusted_base': BASE_TRUSTED + list(getattr(mod, 'TRUSTED', [])),
            'theorems': [{'name': a['theorem'], 'axioms': a['axioms']} for a in audit],
            'partial_theorems': [a['theorem'] for a in audit if a['theorem'].endswith('_partial')],
            'evaluations': ctx.evaluations,
            'distinct_nontrivial': len(ctx._distinct),
            'rule': getattr(mod, 'RULE', ''),
            'traces_validated_against_impl': ctx.traces_validated,
            'samples': ctx.samples or ['(no correspondence sample recorded)'],
            'histogram': dict(sorted(ctx.hist.items())),
            'generated_changed': ctx.extra.get('generated_changed'),
            'fingerprints_changed': ctx.extra.get('fingerprints_changed'),
            'broken': [{'kind': b['kind'], 'name': b.get('name'), 'what': str(b.get('what'))[:300]} for b in ctx.broken],
            'known_findings_reproduced': sorted(ctx.known_hits),
            'report': lines,
        },
        'assumptions': list(getattr(mod, 'ASSUMPTIONS', [])),
        'wall_s': round(time.time() - ctx.t0, 2),
        'violations': nviol,
    }
    for k, v in ctx.extra.items():
        if k not in ('generated_changed', 'fingerprints_changed', 'fingerprints'):
            ev['coverage'][k] = v
    os.makedirs(os.path.join(VERIF, 'evidence'), exist_ok=True)
    json.dump(ev, open(os.path.join(VERIF, 'evidence', ctx.prop + '.json'), 'w'), indent=1, default=str)
