import SupervisorModel.Model.ProcTypes
import SupervisorModel.Generated.Proc
/-
  Model of `supervisor.process.Subprocess` (state machine only; pipes/dispatchers are in other
  models).  Control flow is written by hand and mirrors process.py statement by statement;
  every guard, timer/counter update, asserted state list and call argument is the definition
  regenerated from the source (`Sv.Gen.Proc.*`).  Environment answers (result of the spawn
  attempt, result of signal delivery, clock reading, daemon mood, wait status) are arguments.

  One clock reading per top-level operation (the code calls time.time() again in nested
  spawn()/kill()/change_state(); the virtual clock of the harness is constant inside one
  operation) — see the trusted base.
-/
namespace Sv.Proc
open Sv.Gen.Proc

inductive Out
  | ev (to frm : PS) (pid tries : Int) (expected : Bool)   -- PROCESS_STATE_<to> notification
  | fork (pid : Int)                                       -- a child was forked (parent side)
  | kill (target sig : Int)                                -- options.kill(target, sig)
  | closeParent | closeChild                               -- pipe ends closed
  | rejected                                               -- EventRejectedEvent (listener died BUSY)
  | answer (code : Int)                                    -- answer of an RPC (Faults code; SUCCESS for true)
deriving DecidableEq, Repr

inductive Exn | assertion
deriving DecidableEq, Repr

abbrev S := St Proc Out Exn

/-- result of one spawn attempt, decided by the environment -/
inductive SpawnRes
  | ok (pid : Int)     -- fork returned pid (≠ 0: parent side)
  | badCmd             -- get_execv_args raised ProcessException
  | pipeErr            -- make_dispatchers raised OSError/IOError
  | forkErr            -- fork raised OSError
deriving DecidableEq, Repr

inductive KillRes | ok | esrch | fail
deriving DecidableEq, Repr

def assertIn (l : List PS) : S → S := guard fun s =>
  if s.p.state ∈ l then s else { s with err := some .assertion }

/-- `event_class = self.event_map.get(new_state); if event_class is not None` -/
def announces (new : PS) : Bool := (eventMap.lookup new).isSome

/-- `change_state(new_state, expected)` -/
def changeState (cfg : Cfg) (now : Int) (new : PS) (expected : Bool) : S → S := guard fun s =>
  let e : Env := { now := now, new := new }
  if change_state_g0 s.p cfg e then s
  else
    let old := change_state_a0 s.p cfg e
    let p1 : Proc := { s.p with state := change_state_a2 s.p cfg e }
    let p2 : Proc :=
      if change_state_g1 s.p cfg e then
        let b := change_state_a4 s.p cfg e
        { p1 with backoff := b, delay := change_state_a5 { s.p with backoff := b } cfg e }
      else p1
    let s2 : S := { s with p := p2 }
    if announces new then emit (.ev new old p2.pid p2.backoff expected) s2 else s2

/-- the three spawn-error exits of `spawn()`: record_spawnerr, assert STARTING, → BACKOFF -/
def spawnError (cfg : Cfg) (now : Int) (asrt : List PS) (to : PS) : S → S := fun s =>
  s |> setP (fun p => { p with spawnerr := true }) |> assertIn asrt |> changeState cfg now to true

/-- `spawn()` (parent side) -/
def spawn (cfg : Cfg) (now : Int) (res : SpawnRes) : S → S := guard fun s =>
  let e : Env := { now := now }
  if spawn_g0 s.p cfg e then s          -- "already running": nothing happens
  else
    let s1 := s
      |> setP (fun p => { p with killing := spawn_a3 p cfg e, spawnerr := false, exitstatus := none,
                                 systemStop := spawn_a6 p cfg e, adminStop := spawn_a7 p cfg e,
                                 laststart := spawn_a8 p cfg e })
      |> (fun s => assertIn (spawn_c0 s.p cfg e) s)
      |> (fun s => changeState cfg now (spawn_c1_0 s.p cfg e) true s)
    match res with
    | .badCmd  => s1 |> (fun s => spawnError cfg now (spawn_c2 s.p cfg e) (spawn_c3_0 s.p cfg e) s)
    | .pipeErr => s1 |> (fun s => spawnError cfg now (spawn_c4 s.p cfg e) (spawn_c5_0 s.p cfg e) s)
    | .forkErr => s1 |> (fun s => spawnError cfg now (spawn_c6 s.p cfg e) (spawn_c7_0 s.p cfg e) s)
                     |> emit .closeParent |> emit .closeChild
    | .ok pid =>
      let e2 : Env := { now := now, pid := pid }
      if spawn_g3 s1.p cfg e2 then
        -- _spawn_as_parent
        s1 |> setP (fun p => { p with pid := spawn_as_parent_a0 p cfg e2 })
           |> emit .closeChild
           |> setP (fun p => { p with spawnerr := false, delay := spawn_as_parent_a3 p cfg e2 })
           |> emit (.fork pid)
      else s1   -- child side: not part of this model (Model/Child.lean)

/-- `_check_and_adjust_for_system_clock_rollback(test_time)` -/
def rollback (cfg : Cfg) (now : Int) (p : Proc) : Proc :=
  let e : Env := { now := now }
  if rollback_g0 p cfg e then
    let p1 := if rollback_g1 p cfg e then { p with laststart := rollback_a0 p cfg e } else p
    if rollback_g2 p1 cfg e then { p1 with delay := rollback_a1 p1 cfg e } else p1
  else if rollback_g3 p cfg e then
    if rollback_g4 p cfg e then { p with laststart := rollback_a2 p cfg e } else p
  else if rollback_g5 p cfg e then
    let p1 := if rollback_g6 p cfg e then { p with laststopreport := rollback_a3 p cfg e } else p
    if rollback_g7 p1 cfg e then { p1 with delay := rollback_a4 p1 cfg e } else p1
  else if rollback_g8 p cfg e then
    if rollback_g9 p cfg e then { p with delay := rollback_a5 p cfg e } else p
  else p

/-- `give_up()` -/
def giveUp (cfg : Cfg) (now : Int) : S → S := guard fun s =>
  let e : Env := { now := now }
  s |> setP (fun p => { p with delay := give_up_a0 p cfg e, backoff := give_up_a1 p cfg e,
                               systemStop := give_up_a2 p cfg e })
    |> (fun s => assertIn (give_up_c0 s.p cfg e) s)
    |> (fun s => changeState cfg now (give_up_c1_0 s.p cfg e) true s)

/-- `kill(sig)` -/
def kill (cfg : Cfg) (now : Int) (sig : Int) (kr : KillRes) : S → S := guard fun s =>
  let e : Env := { now := now, sig := sig }
  if kill_g0 s.p cfg e then changeState cfg now (kill_c0_0 s.p cfg e) true s
  else if kill_g1 s.p cfg e then s      -- "wasn't running": message, nothing else
  else
    let asgroup := if kill_g2 s.p cfg e then kill_a7 s.p cfg e else kill_a8 s.p cfg e
    let e1 : Env := { e with asgroup := asgroup }
    let s1 := s
      |> setP (fun p => { p with killing := kill_a11 p cfg e1, delay := kill_a12 p cfg e1 })
      |> (fun s => assertIn (kill_c1 s.p cfg e1) s)
      |> (fun s => changeState cfg now (kill_c2_0 s.p cfg e1) true s)
    let pid0 := kill_a13 s1.p cfg e1
    let pid := if kill_g4 s1.p cfg e1 then kill_a14 s1.p cfg e1 else pid0
    let e2 : Env := { e1 with pid := pid }
    let s2 := s1 |> emit (.kill (kill_c3_0 s1.p cfg e2) (kill_c3_1 s1.p cfg e2))
    match kr with
    | .ok => s2
    | .esrch => s2
    | .fail =>
      s2 |> (fun s => changeState cfg now (kill_c4_0 s.p cfg e2) true s)
         |> setP (fun p => { p with killing := kill_a19 p cfg e2, delay := kill_a20 p cfg e2 })

/-- `stop()` -/
def stop (cfg : Cfg) (now : Int) (kr : KillRes) : S → S := guard fun s =>
  let e : Env := { now := now }
  s |> setP (fun p => { p with adminStop := stop_a0 p cfg e, laststopreport := stop_a1 p cfg e })
    |> (fun s => kill cfg now (stop_c0_0 s.p cfg e) kr s)

/-- `signal(sig)` -/
def signal (cfg : Cfg) (now : Int) (sig : Int) (kr : KillRes) : S → S := guard fun s =>
  let e : Env := { now := now, sig := sig }
  if signal_g0 s.p cfg e then s
  else
    let s1 := s |> (fun s => assertIn (signal_c0 s.p cfg e) s)
                |> (fun s => emit (.kill (signal_c1_0 s.p cfg e) (signal_c1_1 s.p cfg e)) s)
    match kr with
    | .ok => s1
    | .esrch => s1
    | .fail => s1 |> (fun s => changeState cfg now (signal_c2_0 s.p cfg e) true s)

/-- the three-way branch of `finish()` once `too_quickly` and `exit_expected` are known -/
def finishCore (cfg : Cfg) (e : Env) (busy : Bool) : S → S := guard fun s0 =>
  let now := e.now
  let s1 :=
    if finish_g1 s0.p cfg e then
      -- UNKNOWN: the exit is only recorded, the state stays UNKNOWN
      s0 |> setP (fun p => { p with killing := finish_a7 p cfg e, delay := finish_a8 p cfg e,
                                    exitstatus := some (finish_a9 p cfg e) })
    else if finish_g2 s0.p cfg e then
      s0 |> setP (fun p => { p with killing := finish_a11 p cfg e, delay := finish_a12 p cfg e,
                                    exitstatus := some (finish_a13 p cfg e) })
         |> (fun s => assertIn (finish_c0 s.p cfg e) s)
         |> (fun s => changeState cfg now (finish_c1_0 s.p cfg e) true s)
    else if finish_g4 s0.p cfg e then
      s0 |> setP (fun p => { p with exitstatus := none, spawnerr := true })
         |> (fun s => assertIn (finish_c2 s.p cfg e) s)
         |> (fun s => changeState cfg now (finish_c3_0 s.p cfg e) true s)
    else
      let s2 := s0 |> setP (fun p => { p with delay := finish_a18 p cfg e, backoff := finish_a19 p cfg e,
                                              exitstatus := some (finish_a20 p cfg e) })
      let s3 := if finish_g5 s2.p cfg e then changeState cfg now (finish_c4_0 s2.p cfg e) true s2 else s2
      let s4 := s3 |> (fun s => assertIn (finish_c5 s.p cfg e) s)
      if finish_g6 s4.p cfg e then
        s4 |> (fun s => changeState cfg now (finish_c6_0 s.p cfg e) (finish_c6_1 s.p cfg e) s)
      else
        s4 |> setP (fun p => { p with spawnerr := true })
           |> (fun s => changeState cfg now (finish_c7_0 s.p cfg e) (finish_c7_1 s.p cfg e) s)
  s1 |> setP (fun p => { p with pid := finish_a24 p cfg e })
     |> emit .closeParent
     |> (fun s => if busy then emit .rejected s else s)

/-- `too_quickly` as `finish()` computes it (after the clock-rollback adjustment) -/
def tooQuickly (cfg : Cfg) (e0 : Env) (p : Proc) : Bool :=
  if finish_g0 p cfg e0 then finish_a4 p cfg e0 else finish_a5 p cfg e0

/-- `finish(pid, sts)`; `es` = decode_wait_status(sts)[0] (exit status, or -1 when killed by a
    signal); `busy` = the process is an event listener with an unprocessed event -/
def finish (cfg : Cfg) (now : Int) (es : Int) (busy : Bool) : S → S := guard fun s =>
  let e0 : Env := { now := now, es := es }
  let s0 := s |> setP (rollback cfg now) |> setP (fun p => { p with laststop := finish_a2 p cfg e0 })
  let e : Env := { e0 with tooQuickly := tooQuickly cfg e0 s0.p, exitExpected := finish_a6 s0.p cfg e0 }
  finishCore cfg e busy s0

/-- first block of `transition()`: automatic (re)starts, only while the daemon is RUNNING -/
def autoStart (cfg : Cfg) (e : Env) (res : SpawnRes) : S → S := guard fun s0 =>
  let now := e.now
  if transition_g0 s0.p cfg e then
    if transition_g1 s0.p cfg e then
      if transition_g2 s0.p cfg e then
        if transition_g3 s0.p cfg e then spawn cfg now res s0
        else if transition_g4 s0.p cfg e then spawn cfg now res s0
        else s0
      else s0
    else if transition_g5 s0.p cfg e then
      if transition_g6 s0.p cfg e then spawn cfg now res s0 else s0
    else if transition_g7 s0.p cfg e then
      if transition_g8 s0.p cfg e then
        if transition_g9 s0.p cfg e then spawn cfg now res s0 else s0
      else s0
    else s0
  else s0

/-- second block: STARTING -> RUNNING once the child has stayed up longer than startsecs -/
def toRunning (cfg : Cfg) (e : Env) : S → S := guard fun s1 =>
  if transition_g10 s1.p cfg e then
    if transition_g11 s1.p cfg e then
      s1 |> setP (fun p => { p with delay := transition_a4 p cfg e, backoff := transition_a5 p cfg e })
         |> (fun s => assertIn (transition_c0 s.p cfg e) s)
         |> (fun s => changeState cfg e.now (transition_c1_0 s.p cfg e) true s)
    else s1
  else s1

/-- third block: BACKOFF -> FATAL when the retries are used up, or SIGKILL escalation -/
def escalate (cfg : Cfg) (e : Env) (kr : KillRes) : S → S := guard fun s2 =>
  if transition_g12 s2.p cfg e then
    if transition_g13 s2.p cfg e then giveUp cfg e.now s2 else s2
  else if transition_g14 s2.p cfg e then
    if transition_g15 s2.p cfg e then kill cfg e.now (transition_c2_0 s2.p cfg e) kr s2 else s2
  else s2

/-- `transition()`; `res` answers a spawn attempt made here, `kr` a SIGKILL delivery made here -/
def transition (cfg : Cfg) (now : Int) (mood : Int) (res : SpawnRes) (kr : KillRes) : S → S := guard fun s =>
  let st0 := transition_a1 s.p cfg { now := now }
  let e : Env := { now := now, mood := mood, st0 := st0 }
  s |> setP (rollback cfg now) |> autoStart cfg e res |> toRunning cfg e |> escalate cfg e kr

end Sv.Proc
