import SupervisorModel.Basic.DriverKit
import SupervisorModel.Model.SupDriver
import SupervisorModel.Model.Robust
def main : IO Unit := Sv.driverMain [("sup", Sv.Sup.runCase), ("mkpipes", Sv.Robust.runCase)]
