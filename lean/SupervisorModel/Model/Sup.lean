import SupervisorModel.Model.ProcOps
import SupervisorModel.Generated.Sup
/-
  Model of the daemon: `supervisor.supervisord.Supervisor.runforever()` one pass at a time
  (shutdown test, ordered stop phase 1, exit test, RPCs executed at the poll point, deferred
  answers, transitions group by group, reap with its limit of 100, signal handling, ordered stop
  phase 2) over the per-process model `Sv.Proc`, plus `options.pidhistory`.

  Environment answers are inputs: for every pass the clock reading, the outcome of every spawn
  attempt and signal delivery (in the order they occur), what successive `waitpid` calls return
  (one list per `reap()` invocation), the signal dequeued by `handle_signal`, the RPCs that arrive.
  Child output / dispatchers are not part of this model (Model/OutDisp, Model/Listener).
-/
namespace Sv.Sup
open Sv.Proc Sv.Gen.Proc Sv.Gen.Sup

/-- one managed process: its (globally unique) name, its group and the group's priority, its own
    priority, configuration and state.  `Sup.procs` lists them in `process_groups` insertion order,
    members in configuration order. -/
structure PE where
  name : Nat
  gid : Nat
  gprio : Int
  prio : Int
  cfg : Cfg
  p : Proc := {}
  gen : Nat := 0       -- which incarnation of the process object this is (a re-added group gets new objects)
deriving Repr

inductive Rpc
  | start (id name : Nat) (wait : Bool) (missing : Bool)
  | stop (id name : Nat) (wait : Bool)
  | signal (id name : Nat) (sig : Int)
  | shutdown (id : Nat)
  | restart (id : Nat)
  | addGroup (id gid : Nat)
  | removeGroup (id gid : Nat)
deriving Repr, DecidableEq

inductive Deferred
  | startWait (id name : Nat)
  | stopWait (id name : Nat)
deriving Repr, DecidableEq

structure Env where
  now : Int := 0
  spawns : List SpawnRes := []
  kills : List KillRes := []
  waits : List (List (Int × Int)) := []     -- per reap() invocation: (pid, exit status) pairs returned
  sig : Option Int := none
  rpcs : List Rpc := []
deriving Repr

inductive SOut
  | proc (name : Nat) (o : Out)
  | stopping                      -- SUPERVISOR_STATE_CHANGE_STOPPING
  | reapedUnknown (pid : Int)
  | answer (id : Nat) (code : Int) (deferred : Bool)
  | deferredStart (id : Nat)      -- the call returned a callback
  | exitNow
deriving Repr, DecidableEq

inductive SExn | assertion | envExhausted
deriving Repr, DecidableEq

structure Sup where
  procs : List PE
  dormant : List PE := []      -- configured groups that are not active (options.process_group_configs only)
  mood : Int := 1
  stopping : Bool := false
  stopGroups : List Nat := []
  pidhist : List (Int × (Nat × Nat)) := []   -- options.pidhistory: pid ↦ process object (its name and incarnation)
  pending : List Deferred := []
  env : Env := {}
  outs : List SOut := []
  err : Option SExn := none
  exited : Bool := false
deriving Repr

abbrev M := Sup → Sup

def sguard (f : M) (s : Sup) : Sup := if s.err.isSome || s.exited then s else f s
def semit (o : SOut) : M := sguard fun s => { s with outs := s.outs ++ [o] }

/-! ### environment -/

/-- the kernel's contract for `fork()`: the pid of a new child is not 0 and is not the pid of a child
    that has not been waited for yet (its entry is still in `pidhistory`) -/
def spawnFresh (s : Sup) : SpawnRes → Bool
  | .ok pid => pid != 0 && (s.pidhist.lookup pid).isNone
  | _ => true

/-- the next spawn outcome; an environment that runs out of answers, or whose answer breaks the
    kernel's contract, cannot continue (the callers flag `envExhausted`) -/
def popSpawn (s : Sup) : Option SpawnRes × Sup :=
  match s.env.spawns with
  | [] => (none, s)
  | r :: rs => if spawnFresh s r then (some r, { s with env := { s.env with spawns := rs } }) else (none, s)

def popKill (s : Sup) : Option KillRes × Sup :=
  match s.env.kills with
  | [] => (none, s)
  | r :: rs => (some r, { s with env := { s.env with kills := rs } })

/-! ### access to one process -/

def findPE (ps : List PE) (name : Nat) : Option PE := ps.find? (·.name == name)

def setProc (ps : List PE) (name : Nat) (p : Proc) : List PE :=
  ps.map fun e => if e.name == name then { e with p := p } else e

/-- does this per-process operation ask the environment for a spawn / a signal-delivery answer?
    (decided on the state before the operation, exactly as the code decides to call spawn()/kill()) -/
def wantsSpawn (cfg : Cfg) (p : Proc) (now mood : Int) : Bool :=
  let e : Proc.Env := { now := now, mood := mood, st0 := p.state }
  let p0 := rollback cfg now p
  transition_g0 p0 cfg e &&
    ((transition_g1 p0 cfg e && transition_g2 p0 cfg e && (transition_g3 p0 cfg e || transition_g4 p0 cfg e)) ||
     (!transition_g1 p0 cfg e && transition_g5 p0 cfg e && transition_g6 p0 cfg e) ||
     (!transition_g1 p0 cfg e && !transition_g5 p0 cfg e && transition_g7 p0 cfg e && transition_g8 p0 cfg e && transition_g9 p0 cfg e))
  && p0.pid == 0

def wantsKillInTransition (cfg : Cfg) (p : Proc) (now : Int) : Bool :=
  let p0 := rollback cfg now p
  p.state == .stopping && p0.pid != 0 && Sv.ile (p0.delay - now) 0

/-- `options.pidhistory[pid] = self` in `_spawn_as_parent` -/
def regFork (name gen : Nat) (acc : Sup) : Out → Sup
  | .fork pid => { acc with pidhist := (acc.pidhist.filter (·.1 != pid)) ++ [(pid, (name, gen))] }
  | _ => acc

/-- run a per-process operation on process (gid, name), recording its outputs and errors;
    an AssertionError raised here is *not* caught by the main loop -/
def onProc (name : Nat) (f : Cfg → Proc.S → Proc.S) : M := sguard fun s =>
  match findPE s.procs name with
  | none => s
  | some e =>
    let r := f e.cfg { p := e.p }
    let s1 := { s with procs := setProc s.procs name r.p, outs := s.outs ++ r.outs.map (SOut.proc name) }
    -- pidhistory: a successful fork registers the child
    let s2 := r.outs.foldl (regFork name e.gen) s1
    match r.err with
    | some _ => { s2 with err := some .assertion }
    | none => s2

/-- `proc.transition()` with the environment answers it needs -/
def procTransition (name : Nat) : M := sguard fun s =>
  match findPE s.procs name with
  | none => s
  | some e =>
    let now := s.env.now
    if wantsSpawn e.cfg e.p now s.mood then
      match popSpawn s with
      | (none, _) => { s with err := some .envExhausted }
      | (some r, s1) => onProc name (fun cfg => transition cfg now s.mood r .ok) s1
    else if wantsKillInTransition e.cfg e.p now then
      match popKill s with
      | (none, _) => { s with err := some .envExhausted }
      | (some k, s1) => onProc name (fun cfg => transition cfg now s.mood (.ok 0) k) s1
    else onProc name (fun cfg => transition cfg now s.mood (.ok 0) .ok) s

/-- `process.stop()` / `give_up()` as `stop_all` calls them -/
def procGroupStop (name : Nat) : M := sguard fun s =>
  match findPE s.procs name with
  | none => s
  | some e =>
    let now := s.env.now
    if (e.p.state == .running || e.p.state == .starting) && e.p.pid != 0 then
      match popKill s with
      | (none, _) => { s with err := some .envExhausted }
      | (some k, s1) => onProc name (fun cfg => groupStop cfg now k) s1
    else onProc name (fun cfg => groupStop cfg now .ok) s

/-! ### sorting (Python's stable `list.sort()` on priority) -/

def insertBy {α : Type} (key : α → Int) (x : α) : List α → List α
  | [] => [x]
  | y :: ys => if key x < key y then x :: y :: ys else y :: insertBy key x ys

/-- stable ascending sort by key -/
def sortBy {α : Type} (key : α → Int) (l : List α) : List α := l.foldl (fun acc x => insertBy key x acc) []

/-- the distinct groups in insertion order, with their priority -/
def groupsOf (ps : List PE) : List (Nat × Int) :=
  ps.foldl (fun acc e => if acc.any (·.1 == e.gid) then acc else acc ++ [(e.gid, e.gprio)]) []

/-- `pgroups = list(self.process_groups.values()); pgroups.sort()` -/
def sortedGroups (s : Sup) : List (Nat × Int) := sortBy (·.2) (groupsOf s.procs)

def members (ps : List PE) (gid : Nat) : List PE := ps.filter (·.gid == gid)

/-! ### the pieces of one pass -/

def unstopped (ps : List PE) : List PE := ps.filter fun e => !(e.p.state ∈ stoppedStates)

def anyUnstopped (s : Sup) : Bool := !(unstopped s.procs).isEmpty

/-- `group.stop_all()`: members in descending priority order -/
def stopAll (gid : Nat) : M := sguard fun s =>
  (sortBy (·.prio) (members s.procs gid)).reverse.foldl (fun acc e => procGroupStop e.name acc) s

/-- `if not self.shutdown_report(): raise asyncore.ExitNow` -/
def exitTest : M := sguard fun s3 =>
  if !anyUnstopped s3 then { s3 with outs := s3.outs ++ [.exitNow], exited := true } else s3

/-- top of the loop: the shutdown test, phase 1, the exit test -/
def shutdownPhase1 : M := sguard fun s =>
  if runforever_g1 s.mood 0 0 0 s.stopping false then
    let s1 := if runforever_g2 s.mood 0 0 0 s.stopping false then
        { s with stopping := true, stopGroups := (sortedGroups s).map (·.1) } |> semit .stopping
      else s
    let s2 := match s1.stopGroups.getLast? with
      | some gid => stopAll gid s1
      | none => s1
    exitTest s2
  else s

/-- is the process object (name, incarnation) still in the process table? -/
def isLive (ps : List PE) (name gen : Nat) : Bool :=
  match findPE ps name with
  | some e => e.gen == gen
  | none => false

/-- `del self.options.pidhistory[pid]` (runs only if finish() returned) -/
def delHist (pid : Int) : M := sguard fun s => { s with pidhist := s.pidhist.filter (·.1 != pid) }

/-- `process.finish(pid, sts); del self.options.pidhistory[pid]` for the process object recorded at
    fork time.  The entry is the *object*: if its group has been removed (and possibly added again
    with new objects) meanwhile, finish() runs on the orphaned object and nothing here changes. -/
def reapOne (pid es : Int) (name gen : Nat) : M := fun s =>
  delHist pid (if isLive s.procs name gen then onProc name (fun cfg => finish cfg s.env.now es false) s else s)

/-- one `reap()` invocation: waitpid answers come from the environment; the recursion guard stops
    it after 100 children -/
def reapLoop : Int → List (Int × Int) → M
  | _, [] => id
  | k, (pid, es) :: rest => sguard fun s =>
    if reap_g0 0 0 k pid false false then s
    else if !(reap_g1 0 0 k pid false false) then s
    else
      match s.pidhist.lookup pid with
      | none => s |> semit (.reapedUnknown pid) |> reapLoop (k + 1) rest
      | some (name, gen) => reapLoop (k + 1) rest (reapOne pid es name gen s)

def reap : M := sguard fun s =>
  match s.env.waits with
  | [] => { s with err := some .envExhausted }
  | w :: ws => reapLoop 0 w { s with env := { s.env with waits := ws } }

/-- the mood after `handle_signal()` dequeued `sig` -/
def newMood (mood sig : Int) : Int :=
  if !(handle_signal_g0 mood sig 0 0 false false) then mood
  else if handle_signal_g1 mood sig 0 0 false false then handle_signal_a1 mood sig 0 0 false false
  else if handle_signal_g2 mood sig 0 0 false false then
    if handle_signal_g3 mood sig 0 0 false false then mood else handle_signal_a2 mood sig 0 0 false false
  else mood

/-- `handle_signal()` -/
def handleSignal : M := sguard fun s =>
  match s.env.sig with
  | none => s
  | some sig => { s with mood := newMood s.mood sig }

def shutdownPhase2 : M := sguard fun s =>
  if runforever_g10 s.mood 0 0 0 s.stopping false then
    match s.stopGroups.getLast? with
    | none => s
    | some gid =>
      if (unstopped (members s.procs gid)).isEmpty then { s with stopGroups := s.stopGroups.dropLast } else s
  else s

/-! ### RPCs (executed at the poll point, inside the per-dispatcher guard) -/

def answerOf (outs : List Out) : Int :=
  match outs.reverse.find? (fun o => match o with | .answer _ => true | _ => false) with
  | some (.answer c) => c
  | _ => faultFAILED

def rpcOne (r : Rpc) : M := sguard fun s =>
  let now := s.env.now
  match r with
  | .shutdown id =>
    if Sv.ilt s.mood moodRUNNING then semit (.answer id faultSHUTDOWN_STATE false) s
    else { s with mood := moodSHUTDOWN } |> semit (.answer id faultSUCCESS false)
  | .restart id =>
    if Sv.ilt s.mood moodRUNNING then semit (.answer id faultSHUTDOWN_STATE false) s
    else { s with mood := moodRESTARTING } |> semit (.answer id faultSUCCESS false)
  | .addGroup id gid =>
    -- rpcinterface.addProcessGroup → Supervisor.add_process_group: fresh processes, appended to process_groups
    if Sv.ilt s.mood moodRUNNING then semit (.answer id faultSHUTDOWN_STATE false) s
    else if (s.dormant.filter (·.gid == gid)).isEmpty then
      if (s.procs.filter (·.gid == gid)).isEmpty then semit (.answer id faultBAD_NAME false) s
      else semit (.answer id faultALREADY_ADDED false) s
    else
      { s with procs := s.procs ++ (s.dormant.filter (·.gid == gid)).map (fun e => { e with p := {}, gen := e.gen + 1 }),
               dormant := s.dormant.filter (·.gid != gid) } |> semit (.answer id faultSUCCESS false)
  | .removeGroup id gid =>
    if Sv.ilt s.mood moodRUNNING then semit (.answer id faultSHUTDOWN_STATE false) s
    else if (s.procs.filter (·.gid == gid)).isEmpty then semit (.answer id faultBAD_NAME false) s
    else if !(unstopped (members s.procs gid)).isEmpty then semit (.answer id faultSTILL_RUNNING false) s
    else
      { s with procs := s.procs.filter (·.gid != gid),
               dormant := s.dormant ++ (s.procs.filter (·.gid == gid)).map (fun e => { e with p := {} }) }
        |> semit (.answer id faultSUCCESS false)
  | .start id name wait missing =>
    if Sv.ilt s.mood moodRUNNING then semit (.answer id faultSHUTDOWN_STATE false) s else
    match findPE s.procs name with
    | none => semit (.answer id faultBAD_NAME false) s
    | some e =>
      match startRefusal e.p missing with
      | some code => semit (.answer id code false) s
      | none =>
        -- process.spawn()
        let (res, s0) := if e.p.pid == 0 then popSpawn s else (some (SpawnRes.ok 0), s)
        match res with
        | none => { s with err := some .envExhausted }
        | some res =>
          let s1 := onProc name (fun cfg => spawn cfg now res) s0
          -- self.supervisord.reap()
          let s2 := reap s1
          sguard (fun s2 =>
            match findPE s2.procs name with
            | none => s2
            | some e2 =>
              if e2.p.spawnerr then semit (.answer id faultSPAWN_ERROR false) s2
              else
                -- process.transition()
                let s3 := procTransition name s2
                sguard (fun s3 =>
                  match findPE s3.procs name with
                  | none => s3
                  | some e3 =>
                    if wait && e3.p.state != .running then
                      { s3 with pending := s3.pending ++ [.startWait id name] } |> semit (.deferredStart id)
                    else semit (.answer id faultSUCCESS false) s3) s3) s2
  | .stop id name wait =>
    if Sv.ilt s.mood moodRUNNING then semit (.answer id faultSHUTDOWN_STATE false) s else
    match findPE s.procs name with
    | none => semit (.answer id faultBAD_NAME false) s
    | some e =>
      let willKill := e.p.state ∈ runningStates && e.p.state != .backoff && e.p.pid != 0
      let (kr, s0) := if willKill then popKill s else (some KillRes.ok, s)
      match kr with
      | none => { s with err := some .envExhausted }
      | some kr =>
        let n0 := s0.outs.length
        let s1 := onProc name (fun cfg => rpcStop cfg now s0.mood kr) s0
        let pouts := (s1.outs.drop n0).filterMap fun o => match o with | .proc _ (.answer c) => some c | _ => none
        let code := pouts.getLast?.getD faultFAILED
        let s2 := { s1 with outs := s1.outs.filter fun o => match o with | .proc _ (.answer _) => false | _ => true }
        let s3 := if code == faultSUCCESS then reap s2 else s2
        if code == faultSUCCESS && wait then
          match findPE s3.procs name with
          | some e2 =>
            if !(e2.p.state ∈ stoppedStates) then
              { s3 with pending := s3.pending ++ [.stopWait id name] } |> semit (.deferredStart id)
            else semit (.answer id faultSUCCESS false) s3
          | none => s3
        else semit (.answer id code false) s3
  | .signal id name sig =>
    if Sv.ilt s.mood moodRUNNING then semit (.answer id faultSHUTDOWN_STATE false) s else
    match findPE s.procs name with
    | none => semit (.answer id faultBAD_NAME false) s
    | some e =>
      if sig < 0 then semit (.answer id faultBAD_SIGNAL false) s else   -- signal_number() raised ValueError
      let willKill := e.p.state ∈ signallableStates && e.p.pid != 0
      let (kr, s0) := if willKill then popKill s else (some KillRes.ok, s)
      match kr with
      | none => { s with err := some .envExhausted }
      | some kr =>
        let n0 := s0.outs.length
        let s1 := onProc name (fun cfg => rpcSignal cfg now s0.mood sig kr) s0
        let pouts := (s1.outs.drop n0).filterMap fun o => match o with | .proc _ (.answer c) => some c | _ => none
        let code := pouts.getLast?.getD faultFAILED
        let s2 := { s1 with outs := s1.outs.filter fun o => match o with | .proc _ (.answer _) => false | _ => true }
        semit (.answer id code false) s2

/-- an AssertionError inside an RPC is caught by the dispatcher guard of runforever: the call
    fails (HTTP 500) but the loop goes on -/
def rpcGuarded (r : Rpc) : M := sguard fun s =>
  let s1 := rpcOne r s
  match s1.err with
  | some .assertion => { s1 with err := none }
  | _ => s1

/-- `onwait` of startProcess(wait=True): the answer, or `none` for NOT_DONE_YET -/
def startWaitAnswer (p : Proc) : Option Int :=
  if p.spawnerr then some faultSPAWN_ERROR
  else if p.state != .starting && p.state != .running then some faultABNORMAL_TERMINATION
  else if p.state == .running then some faultSUCCESS
  else none

/-- `onwait` of stopProcess(wait=True), evaluated after its `stop_report()` -/
def stopWaitAnswer (p : Proc) : Option Int :=
  if !(p.state ∈ stoppedStates) then none else some faultSUCCESS

/-- poll one deferred answer (`onwait`) -/
def pollDeferred (d : Deferred) : M := sguard fun s =>
  match d with
  | .startWait id name =>
    match findPE s.procs name with
    | none => s
    | some e =>
      match startWaitAnswer e.p with
      | some c => semit (.answer id c true) s
      | none => { s with pending := s.pending ++ [d] }
  | .stopWait id name =>
    let s1 := onProc name (fun cfg => stopReport cfg s.env.now) s
    match findPE s1.procs name with
    | none => s1
    | some e =>
      match stopWaitAnswer e.p with
      | some c => semit (.answer id c true) s1
      | none => { s1 with pending := s1.pending ++ [d] }

def pollAll : M := sguard fun s =>
  let ds := s.pending
  ds.foldl (fun acc d => pollDeferred d acc) { s with pending := [] }

/-- `for group in pgroups: group.transition()`: groups by ascending priority (stable), members in
    configuration order; in which a pass transitions the processes: `pgroups` is computed at the top of the loop
    iteration, i.e. before this pass's RPCs could add or remove a group -/
def transitionOrder (s : Sup) : List (Nat × Nat) :=
  (sortedGroups s).flatMap fun g => (members s.procs g.1).map (fun e => (e.name, e.gen))

/-- only group objects that are still in the process table are transitioned (fix F41): a group removed
    — or removed and added again — during this pass is skipped -/
def transitions (order : List (Nat × Nat)) : M := sguard fun s =>
  order.foldl (fun acc ng =>
    match findPE acc.procs ng.1 with
    | some e => if e.gen == ng.2 then procTransition ng.1 acc else acc
    | none => acc) s

/-- **one pass of `runforever()`**, cut at the poll point (the main-loop boundary): what happens
    from one `poll()` to the next — read events (RPCs), write events (deferred answers),
    transitions, reap, signal handling, ordered-stop phase 2, and then the top of the next
    iteration (shutdown test, phase 1, exit test), all under one clock reading. -/
def pass (env : Env) : M := sguard fun s =>
  let hadPending := !s.pending.isEmpty
  let order := transitionOrder s
  { s with env := env }
    |> (fun s => env.rpcs.foldl (fun acc r => rpcGuarded r acc) s)
    |> (fun s => if hadPending then pollAll s else s)
    |> transitions order
    |> reap
    |> handleSignal
    |> shutdownPhase2
    |> shutdownPhase1

end Sv.Sup
