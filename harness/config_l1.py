"""
Shared by harness/props/c14.py and c15.py: generation of configuration files from the documented option
space, their single-point corruptions, and the implementation-side runner (real ServerOptions on real
files) that produces (a) canonical observable lines and (b) the parsed-ini token list handed to the Lean
model (Model/ConfigIO.lean).  Nothing here imports supervisor at module import time.
"""
import os, platform, pwd, signal, sys, io


def hx(s):
    b = s.encode('utf-8', 'surrogateescape') if isinstance(s, str) else s
    return b.hex() if b else '-'


AUTO_MARK = 'VERIFAUTO'
HANDLER_SPECS = ['supervisor.dispatchers:default_handler', 'supervisor.dispatchers:stripEscapes']


# ---------------------------------------------------------------------------------------------------
# implementation side
# ---------------------------------------------------------------------------------------------------
class Outcome:
    """result of one real parse"""
    def __init__(self):
        self.status = None        # 'ok' | 'err' | 'exc <Class>'
        self.message = ''
        self.options = None
        self.parser = None
        self.include_done = False
        self.pre_env = None
        self.here = None


_state = {}


def _classes():
    """subclasses of the real classes, created once per imported supervisor"""
    import supervisor.options as so
    key = id(so)
    if _state.get('key') == key:
        return _state
    real_parser = so.UnhosedConfigParser
    if getattr(real_parser, '_verif_rec', False):      # already patched by an earlier call
        real_parser = real_parser.__mro__[1]

    class RecParser(real_parser):
        _verif_rec = True
        instances = []

        def __init__(self, *a, **k):
            real_parser.__init__(self, *a, **k)
            RecParser.instances.append(self)

    class Opts(so.ServerOptions):
        include_done = False

        def read_include_config(self, fp, parser, expansions):
            so.ServerOptions.read_include_config(self, fp, parser, expansions)
            self.include_done = True

        def mktempfile(self, suffix, prefix, dir):
            # system-call seam: the name an AUTO child log would get, without creating the file
            return os.path.join(dir, prefix + AUTO_MARK + suffix)

    _state.update(key=key, so=so, RecParser=RecParser, Opts=Opts, real_parser=real_parser)
    return _state


class UsageExit(Exception):
    pass


def make_options(env=None):
    """a real ServerOptions (subclass recording the include stage) built under the given extra environment"""
    st = _classes()
    saved = {}
    for k, v in (env or {}).items():
        saved[k] = os.environ.get(k)
        os.environ[k] = v
    try:
        o = st['Opts']()
    finally:
        for k, v in saved.items():
            if v is None:
                os.environ.pop(k, None)
            else:
                os.environ[k] = v
    o.stderr = io.StringIO()
    o.stdout = io.StringIO()
    from supervisor.tests.base import DummyLogger
    o.logger = DummyLogger()          # seam: make_logger() is what main() would call

    def _exit(code):
        raise UsageExit(code)
    o.exit = _exit
    return o


def parse_with(o, path, reread=True):
    """one configuration read through the real code.  reread=True: process_config(do_usage=False), the path
    reloadConfig takes; reread=False: realize(['-c', path]), the path of a first start (errors leave through
    usage() -> exit(2))."""
    st = _classes()
    so = st['so']
    out = Outcome()
    out.options = o
    out.pre_env = dict(o.environ_expansions)
    st['RecParser'].instances.clear()
    o.include_done = False
    so.UnhosedConfigParser = st['RecParser']
    try:
        try:
            if reread:
                o.configfile = path
                o.process_config(do_usage=False)
            else:
                o.realize(args=['-c', path])
            out.status = 'ok'
        except ValueError as e:
            out.status, out.message = 'err', str(e)
        except UsageExit as e:
            out.status, out.message = ('err' if e.args[0] == 2 else 'exc SystemExit%s' % e.args[0]), o.stderr.getvalue()
        except Exception as e:       # any other class: the property forbids it
            out.status, out.message = 'exc ' + type(e).__name__, repr(e)
    finally:
        so.UnhosedConfigParser = st['real_parser']
    inst = st['RecParser'].instances
    out.parser = inst[0] if inst else None
    out.include_done = o.include_done
    out.here = o.here
    return out


def known_dirs(extra=()):
    return [d for d in (['/tmp', '/'] + list(extra)) if os.path.isdir(d)]


def model_tokens(out, dirs):
    """the parsed ini as the model's case tokens (None when the failure happened before the parser state
    the model starts from exists: syntax errors, include errors)"""
    if out.parser is None or not out.include_done:
        return None
    p = out.parser
    toks = ['H=' + hx(out.here if out.here is not None else 'None'), 'N=' + hx(platform.node())]
    for k, v in out.pre_env.items():
        toks.append('X=%s:%s' % (hx(k), hx(v)))
    for d in dirs:
        toks.append('D=' + hx(d))
    for u in pwd.getpwall():
        toks.append('U=%s:%d' % (hx(u.pw_name), u.pw_uid))
    specs = list(HANDLER_SPECS)
    for sname in p.sections():          # importlib is a parameter of the model: which of the file's specs resolve
        if sname.startswith('eventlistener:') and p.has_option(sname, 'result_handler'):
            v = p.get(sname, 'result_handler')
            if v not in specs and '%' not in v and _resolves(v):
                specs.append(v)
    for h in specs:
        toks.append('R=' + hx(h))
    for s in p.sections():
        toks.append('S=' + hx(s))
        for k, v in p.items(s):
            toks.append('O=%s:%s' % (hx(k), hx(v)))
    return toks


def _resolves(spec):
    st = _classes()
    try:
        obj = st['so'].import_spec(spec)
    except Exception:
        return False
    handler_spec(None)
    try:
        _state['handlers'].setdefault(obj, spec)
    except TypeError:
        return False
    return True


def _lf(v):
    from supervisor.datatypes import Automatic, Syslog
    if v is None: return 'None'
    if v is Automatic: return 'AUTO'
    if v is Syslog: return 'SYSLOG'
    if AUTO_MARK in v: return 'AUTO'      # an AUTO log file after create_autochildlogs() gave it its name
    return 'P:' + hx(v)


def _opt_s(v):
    return 'None' if v is None else hx(v)


def _b(v):
    return '1' if v else '0'


def _env(e):
    if not e:
        return '-'
    return ','.join('%s:%s' % (hx(k), hx(e[k])) for k in sorted(e))


def _restart(v):
    from supervisor.datatypes import RestartUnconditionally, RestartWhenExitUnexpected
    if v is RestartUnconditionally: return 'always'
    if v is RestartWhenExitUnexpected: return 'unexpected'
    if v is False: return 'never'
    return 'other:%r' % (v,)


def proc_line(p):
    return ('p %s kind=%s cmd=%s dir=%s umask=%s prio=%d autostart=%s autorestart=%s startsecs=%d startretries=%d '
            'uid=%s out=%s outcap=%d outev=%s outbk=%d outmax=%d outsys=%s err=%s errcap=%d errev=%s errbk=%d '
            'errmax=%d errsys=%s stopsig=%d stopwait=%d stopasgroup=%s killasgroup=%s exitcodes=%s redirect=%s '
            'env=%s url=%s') % (
        hx(p.name), type(p).__name__, hx(p.command), _opt_s(p.directory), 'None' if p.umask is None else '%d' % p.umask,
        p.priority, _b(p.autostart), _restart(p.autorestart), p.startsecs, p.startretries,
        'None' if p.uid is None else '%d' % p.uid, _lf(p.stdout_logfile), p.stdout_capture_maxbytes,
        _b(p.stdout_events_enabled), p.stdout_logfile_backups, p.stdout_logfile_maxbytes, _b(p.stdout_syslog),
        _lf(p.stderr_logfile), p.stderr_capture_maxbytes, _b(p.stderr_events_enabled), p.stderr_logfile_backups,
        p.stderr_logfile_maxbytes, _b(p.stderr_syslog), int(p.stopsignal), p.stopwaitsecs, _b(p.stopasgroup),
        _b(p.killasgroup), ','.join('%d' % c for c in p.exitcodes) or '-', _b(p.redirect_stderr),
        _env(p.environment), _opt_s(p.serverurl))


def handler_spec(h):
    st = _classes()
    tab = _state.get('handlers')
    if tab is None:
        tab = {}
        for s in HANDLER_SPECS:
            try:
                tab[st['so'].import_spec(s)] = s
            except Exception:
                pass
        _state['handlers'] = tab
    return tab.get(h, repr(h))


def group_line(g):
    kind = type(g).__name__
    head = 'g %s kind=%s prio=%d nprocs=%d ' % (hx(g.name), kind, g.priority, len(g.process_configs))
    if kind == 'EventListenerPoolConfig':
        return head + 'buffer=%d events=%s handler=%s socket=-' % (
            g.buffer_size, ','.join(sorted(set(e.__name__ for e in g.pool_events))), hx(handler_spec(g.result_handler)))
    if kind == 'FastCGIGroupConfig':
        return head + 'buffer=- events=- handler=- socket=%s' % hx(g.socket_config.url)
    return head + 'buffer=- events=- handler=- socket=-'


def sup_line(o):
    s = o.configroot.supervisord
    return ('sup minfds=%d minprocs=%d umask=%d maxbytes=%d backups=%d ident=%s nodaemon=%s silent=%s nocleanup=%s '
            'strip_ansi=%s env=%s') % (s.minfds, s.minprocs, s.umask, s.logfile_maxbytes, s.logfile_backups,
                                       hx(s.identifier), _b(s.nodaemon), _b(s.silent), _b(s.nocleanup),
                                       _b(s.strip_ansi), _env(s.environment))


def capture_tokens(o, fn, dirs, pre_env=None):
    """run fn() (which makes `o` read its file) recording the parser; -> (fn's result or exception, model tokens or None).
    pre_env: the ENV_ names the read starts with (default: whatever `o` holds now)"""
    st = _classes()
    so = st['so']
    pre_env = dict(o.environ_expansions) if pre_env is None else dict(pre_env)
    st['RecParser'].instances.clear()
    o.include_done = False
    so.UnhosedConfigParser = st['RecParser']
    try:
        try:
            res = ('ok', fn())
        except Exception as e:
            res = ('exc', e)
    finally:
        so.UnhosedConfigParser = st['real_parser']
    inst = st['RecParser'].instances
    if not inst or not o.include_done:
        return res, None, None
    fake = Outcome()
    fake.parser, fake.include_done, fake.pre_env, fake.here = inst[0], True, pre_env, o.here
    return res, model_tokens(fake, dirs), inst[0]


def cfg_digest(g):
    return group_line(g) + ';' + ';'.join(proc_line(p) for p in g.process_configs)


def list_digest(gs):
    return '#'.join(cfg_digest(g) for g in gs) or '-'


def impl_case(out):
    """(op lines, implementation answer lines)"""
    if out.status != 'ok':
        return ['status', 'sup', 'group 0'], [out.status, 'none', 'none']
    groups = out.options.configroot.supervisord.process_group_configs
    ops, lines = ['status', 'sup'], ['ok %d' % len(groups), sup_line(out.options)]
    for i, g in enumerate(groups):
        ops.append('group %d' % i); lines.append(group_line(g))
        for j, p in enumerate(g.process_configs):
            ops.append('proc %d %d' % (i, j)); lines.append(proc_line(p))
        ops.append('proc %d %d' % (i, len(g.process_configs))); lines.append('none')
    ops.append('group %d' % len(groups)); lines.append('none')
    return ops, lines


# ---------------------------------------------------------------------------------------------------
# generation: structured descriptions from the documented option space
# ---------------------------------------------------------------------------------------------------
ENV_VARS = {'VERIF_A': 'alpha', 'VERIF_B': 'b-b', 'VERIF_BAD': 'a b:c/d', 'VERIF_N': '7', 'VERIF_PCT': '100%'}

BOOL_T = ['true', 'True', 'yes', 'on', '1', 'TRUE']
BOOL_F = ['false', 'no', 'off', '0', 'False']
SIGS = ['TERM', 'HUP', 'INT', 'QUIT', 'KILL', 'USR1', 'USR2', 'SIGTERM', 'term', '15', '9', ' 2']
SIZES = ['0', '1', '100', '1KB', '2kb', '3MB', '1GB', '50MB', '10mb', '1_000']
EVENTS = None


def event_names():
    global EVENTS
    if EVENTS is None:
        from supervisor.events import EventTypes
        EVENTS = sorted(n for n in dir(EventTypes) if n == n.upper() and not n.startswith('__'))
    return EVENTS


def pick_bool(rng):
    return rng.choice(BOOL_T + BOOL_F)


def thread_env(rng, opts, inherited, n):
    """the 'extend an inherited variable' idiom: environment= defines X through %(ENV_X)s of the same X (inherited from
    os.environ or from the [supervisord] environment), possibly per process, and command / directory / log file names /
    process_name use the program's own value through %(ENV_X)s.  `inherited`: {variable: value is free of ' :/'}.
    Rewrites `opts` in place; returns the environment string."""
    d = dict(opts)
    names = sorted(inherited)
    x = rng.choice(names)
    plain = inherited[x]
    parts = []
    form = rng.choice(['prefix', 'prefix', 'suffix-num', 'both'])
    pre = rng.choice(['w-', 'x.', 'v_']) if plain else rng.choice(['/opt/app/bin:', 'pre:', '/o p/'])
    if form == 'prefix':
        parts.append('%s="%s%%(ENV_%s)s"' % (x, pre, x))
    elif form == 'suffix-num':
        parts.append('%s="%%(ENV_%s)s.%%(process_num)d"' % (x, x))
    else:
        parts.append('%s="%s%%(ENV_%s)s-%%(process_num)02d"' % (x, pre, x))
    if rng.random() < 0.5:                       # a second variable built from the inherited value of the first
        parts.append('%s_SUB="%%(ENV_%s)s/sub"' % (x, x))
    if rng.random() < 0.4:
        y = rng.choice(names)
        # (a variable that names or log file names of the section may already use stays free of ' :/')
        if y != x and (plain or not inherited[y]):
            parts.append('%s="%%(ENV_%s)s+%%(ENV_%s)s"' % (y, y, x))
    if rng.random() < 0.4:
        parts.append('SLOT="%(process_num)d"')
    rng.shuffle(parts)
    env = ','.join(parts)
    use = '%%(ENV_%s)s' % x
    uses = rng.sample(['command', 'directory', 'stdout_logfile', 'stderr_logfile', 'process_name'], rng.randrange(1, 4))
    for u in uses:
        if u == 'command':
            d['command'] = d['command'] + ' --x=' + use
        elif u == 'directory':
            d['directory'] = '/srv/' + use + rng.choice(['', '/%(process_num)d'])
        elif u in ('stdout_logfile', 'stderr_logfile') and plain:
            d[u] = '/tmp/' + use + '_%(process_num)d.' + u[:6]
        elif u == 'process_name' and plain:
            d['process_name'] = '%(program_name)s_' + use + '_%(process_num)d'
    d['environment'] = env
    opts[:] = [(k, d[k]) for k, _ in opts if k in d] + [(k, v) for k, v in d.items() if k not in dict(opts)]
    return env


def here_uses(rng, name, opts):
    """the 'paths relative to the file that configures the program' idiom: %(here)s in command / environment / directory /
    log file names.  Rewrites `opts` in place."""
    d = dict(opts)
    for u in rng.sample(['command', 'environment', 'directory', 'stdout_logfile', 'stderr_logfile'], rng.randrange(1, 4)):
        if u == 'command':
            d['command'] = d['command'] + rng.choice([' --home=%(here)s', ' -c %(here)s/app.ini', ' %(here)s/bin/run'])
        elif u == 'environment':
            d['environment'] = 'APP_HOME="%(here)s"' + (',' + d['environment'] if d.get('environment') else '')
        elif u == 'directory':
            d['directory'] = '%(here)s'
        else:
            d[u] = '%(here)s/' + name.replace('\u00e9', 'e') + '_%(process_num)d.' + u[:6]
            if u == 'stderr_logfile':
                d.pop('redirect_stderr', None)
    opts[:] = [(k, d[k]) for k, _ in opts if k in d] + [(k, v) for k, v in d.items() if k not in dict(opts)]


def gen_program_opts(rng, name, scratch, kind='program', rich=None, inherited=None, here_heavy=False, full=False):
    """[(key, value)] for one [program:x]-like section, plus the facts the monitors need.
    inherited: when given ({variable: plain}), some sections additionally get the thread_env dimension.
    here_heavy: most sections use %(here)s (the include-layout dimension).
    full: the section sets EVERY option of the pool (the 'every expandable option' dimension of C14)."""
    rich = True if full else (rng.random() < 0.7 if rich is None else rich)
    facts = {'name': name, 'kind': kind}
    n = 1
    start = 0
    opts = []
    if rng.random() < 0.55:
        n = rng.choice([1, 2, 2, 3, 4, 5, 8, 13, 25, 40])
    if rng.random() < 0.4:
        start = rng.choice([0, 1, 2, 5, 10, 97, -1, -3])
    pname = None
    if n > 1 or rng.random() < 0.3:
        pname = rng.choice(['%(program_name)s_%(process_num)02d', '%(program_name)s-%(process_num)d',
                            'p%(process_num)s', '%(group_name)s.%(program_name)s.%(process_num)03d',
                            'x%(process_num)d%%', '%(process_num)d_of_%(numprocs)d', '%(program_name)s_%(process_num)2d'.replace('2d', '02d'),
                            '%(ENV_VERIF_A)s%(process_num)d'])
    elif rng.random() < 0.2:
        pname = rng.choice(['%(program_name)s', 'fixed', '%(program_name)s_%(ENV_VERIF_A)s', '  padded  ', '%(host_node_name)s_x'])
    cmd = rng.choice(['/bin/cat', '/bin/prog --port=80%(process_num)02d', '/bin/%(program_name)s -g %(group_name)s',
                      'run %(ENV_VERIF_A)s %(ENV_VERIF_N)s', 'sh -c "echo 100%%"', '/bin/x %(here)s/y', 'prog --n %(numprocs)d',
                      '/usr/bin/env python -u %(here)s/w.py %(process_num)d', 'café --x'])
    opts.append(('command', cmd))
    if pname is not None:
        opts.append(('process_name', pname))
    if n != 1 or rng.random() < 0.2:
        opts.append(('numprocs', str(n)))
    if start != 0 or rng.random() < 0.1:
        opts.append(('numprocs_start', str(start)))
    facts.update(numprocs=n, start=start, process_name=pname if pname is not None else '%(program_name)s', command=cmd)
    prio = None
    if rng.random() < 0.6:
        prio = rng.choice([0, 1, 1, 2, 5, 10, 500, 998, 999, 1000, -1, -5])
        opts.append(('priority', str(prio)))
    facts['priority'] = prio
    env = None
    if rng.random() < 0.5:
        env = rng.choice(['A=1', 'A="1",B=\'two\'', 'PORT="80%(process_num)02d"', 'X=%(ENV_VERIF_A)s,Y="%(program_name)s"',
                          'PATH="/bin:/usr/bin",LANG=C', 'A=1,A=2', 'K="v w", Z=/a/b.c+d-e(f):g', 'N=%(numprocs)d',
                          'GLOBAL="prog"', 'A="x,y",B=z', ''])        # '' = present but empty: no variable
        opts.append(('environment', env))
    facts['environment'] = env
    if rich:
        pool = [
            ('autostart', lambda: pick_bool(rng)),
            ('autorestart', lambda: rng.choice(['true', 'false', 'unexpected', 'UNEXPECTED', 'yes', 'no', '1', '0', 'on'])),
            ('startsecs', lambda: str(rng.choice([0, 1, 2, 10, 60]))),
            ('startretries', lambda: str(rng.choice([0, 1, 3, 10]))),
            ('stopsignal', lambda: rng.choice(SIGS)),
            ('stopwaitsecs', lambda: str(rng.choice([0, 1, 10, 30, 600]))),
            ('exitcodes', lambda: rng.choice(['0', '0,2', '1', '0, 1 ,2', '255', '0,0', '2,0', '', ''])),    # '' = no expected exit status
            ('stdout_capture_maxbytes', lambda: rng.choice(SIZES)),
            ('stderr_capture_maxbytes', lambda: rng.choice(SIZES)),
            ('stdout_events_enabled', lambda: pick_bool(rng)),
            ('stderr_events_enabled', lambda: pick_bool(rng)),
            ('stdout_logfile', lambda: rng.choice(['AUTO', 'auto', 'NONE', 'none', 'off', 'syslog', 'out.log',
                                                   '/tmp/%(program_name)s_%(process_num)d.log', scratch + '/o_%(process_num)02d.log',
                                                   '%(here)s/out.log', '/tmp/%(ENV_VERIF_A)s.log'])),
            ('stderr_logfile', lambda: rng.choice(['AUTO', 'NONE', 'off', 'syslog', 'err.log', '/tmp/e_%(process_num)d.log',
                                                   '%(here)s/%(group_name)s.err'])),
            ('stdout_logfile_maxbytes', lambda: rng.choice(SIZES)),
            ('stderr_logfile_maxbytes', lambda: rng.choice(SIZES)),
            ('stdout_logfile_backups', lambda: str(rng.choice([0, 1, 10, 99]))),
            ('stderr_logfile_backups', lambda: str(rng.choice([0, 1, 10, 99]))),
            ('stdout_syslog', lambda: pick_bool(rng)),
            ('stderr_syslog', lambda: pick_bool(rng)),
            ('directory', lambda: rng.choice(['/tmp', '%(here)s', '/srv/%(program_name)s/%(process_num)d'])),
            ('umask', lambda: rng.choice(['022', '077', '0', '002', '0o22', '7'])),
            ('serverurl', lambda: rng.choice(['AUTO', 'auto', ' Auto', 'http://localhost:9001', 'unix:///tmp/s.sock'])),
            ('user', lambda: rng.choice(['root', '0'])),
        ]
        if kind != 'eventlistener':
            pool.append(('redirect_stderr', lambda: pick_bool(rng)))
        k = len(pool) if full else rng.randrange(1, 9)
        for key, gen in rng.sample(pool, k):
            opts.append((key, gen()))
        # stopasgroup / killasgroup: only the allowed combinations
        r = rng.random()
        if r < 0.15:
            opts.append(('stopasgroup', rng.choice(BOOL_T)))
        elif r < 0.3:
            opts.append(('stopasgroup', rng.choice(BOOL_T))); opts.append(('killasgroup', rng.choice(BOOL_T)))
        elif r < 0.4:
            opts.append(('killasgroup', pick_bool(rng)))
        elif r < 0.45:
            opts.append(('stopasgroup', rng.choice(BOOL_F))); opts.append(('killasgroup', pick_bool(rng)))
    if here_heavy and rng.random() < 0.8:
        here_uses(rng, name, opts)
        d = dict(opts)
        env = d.get('environment')
        facts.update(environment=env, command=d['command'])
    if inherited and rng.random() < 0.5:
        env = thread_env(rng, opts, inherited, n)
        d = dict(opts)
        facts.update(environment=env, command=d['command'], process_name=d.get('process_name', facts['process_name']))
        facts['threaded'] = True
    rng.shuffle(opts)
    facts['opts'] = dict(opts)
    return opts, facts


NAMES = ['web', 'worker', 'db', 'cache', 'api', 'cron', 'mail', 'a', 'b', 'zz', 'x1', 'svc_2', 'café', 'UP', 'n-1', 'q.r']


# [supervisord] environment strings of the per-process dimension: (text, {variable: value free of ' :/'})
SUPENV_INHERIT = [
    ('GLOBAL="sup"', {'GLOBAL': True}),
    ('GLOBAL=sup,A="fromsup"', {'GLOBAL': True, 'A': True}),
    ('LIBDIR="/srv/lib",TAG="t1"', {'LIBDIR': False, 'TAG': True}),
    ('PATH="/sbin:/bin"', {'PATH': False}),
    ('A=%(ENV_VERIF_A)s', {'A': True}),
    ('VERIF_B="sup-%(ENV_VERIF_B)s",LIBDIR="/l"', {'LIBDIR': False}),      # [supervisord] itself extends an os.environ variable
]
OSENV_INHERIT = {'VERIF_A': True, 'VERIF_B': True, 'VERIF_N': True}


def gen_config(rng, scratch, small=False, perproc=False, layout=False, servers=False, full=False):
    """-> dict(sections=[(name, [(k, v)])], facts=..., include=[indices of sections placed in an included file])
    perproc: add the dimension 'numprocs > 1 x environment= referring to its own inherited ENV_ variable (from os.environ
    and from the [supervisord] environment) x use of the program's value in command/directory/log files/process_name'
    layout: add the dimension 'sections spread over included files' (gen_layout; most sections then use %(here)s)
    servers: add [unix_http_server] / [inet_http_server] sections (gen_servers)
    full: every program-like section sets every option of the pool"""
    names = rng.sample(NAMES, len(NAMES))
    nprog = rng.choice([1, 1, 2, 2, 3, 4]) if small else rng.choice([1, 2, 2, 3, 3, 4, 5, 6])
    sections = []
    sup = []
    supenv = None
    if rng.random() < 0.5:
        supenv = rng.choice(['GLOBAL="sup"', 'GLOBAL=sup,A="fromsup"', 'S1=x,S2="%(here)s"',
                             'A=%(ENV_VERIF_A)s', 'PATH="/sbin"', 'PCT="100%%",URI="/a%%20b"'])
        sup.append(('environment', supenv))
    inherited = None
    if perproc:
        inherited = dict(OSENV_INHERIT)
        if rng.random() < 0.6:
            supenv, more = rng.choice(SUPENV_INHERIT)
            sup[:] = [('environment', supenv)]
            inherited.update(more)
    for key, vals in (('minfds', ['1024', '2048']), ('minprocs', ['200', '50']), ('umask', ['022', '077']),
                      ('logfile_maxbytes', ['50MB', '1KB']), ('logfile_backups', ['10', '0']), ('identifier', ['supervisor', 'sv2']),
                      ('nodaemon', ['true', 'false']), ('silent', ['false', 'true']), ('nocleanup', ['true', 'false']),
                      ('strip_ansi', ['false', 'true'])):
        if rng.random() < 0.15:
            sup.append((key, rng.choice(vals)))
    sections.append(('supervisord', sup))
    facts = {'supenv': supenv, 'programs': [], 'groups': [], 'listeners': [], 'fcgi': []}
    progs = []
    for _ in range(nprog):
        nm = names.pop()
        opts, f = gen_program_opts(rng, nm, scratch, inherited=inherited, here_heavy=layout, full=full)
        sections.append(('program:' + nm, opts))
        facts['programs'].append(f)
        progs.append(nm)
    # heterogeneous groups
    free = list(progs)
    rng.shuffle(free)
    while len(free) >= 1 and rng.random() < 0.45:
        k = rng.randrange(1, min(3, len(free)) + 1)
        members, free = free[:k], free[k:]
        gname = names.pop()
        gopts = [('programs', rng.choice([',', ', ', ' ,']).join(members))]
        gp = None
        if rng.random() < 0.5:
            gp = rng.choice([1, 5, 100, 999, 1000, -1])
            gopts.append(('priority', str(gp)))
        sections.append(('group:' + gname, gopts))
        facts['groups'].append({'name': gname, 'programs': members, 'priority': gp})
    # event listeners
    while rng.random() < 0.35:
        nm = names.pop()
        opts, f = gen_program_opts(rng, nm, scratch, kind='eventlistener', rich=rng.random() < 0.3, inherited=inherited, here_heavy=layout, full=full)
        evs = rng.sample(event_names(), rng.randrange(1, 4))
        if rng.random() < 0.3:
            evs.append(evs[0])
        evtxt = rng.choice([',', ', ']).join(e if rng.random() < 0.7 else e.lower() for e in evs)
        opts.append(('events', evtxt))
        f['events'] = evs
        if rng.random() < 0.4:
            bs = rng.choice([1, 2, 10, 100]); opts.append(('buffer_size', str(bs))); f['buffer_size'] = bs
        if rng.random() < 0.2:
            opts.append(('result_handler', rng.choice(HANDLER_SPECS)))
        if rng.random() < 0.2:
            opts.append(('redirect_stderr', rng.choice(BOOL_F)))
        rng.shuffle(opts)
        sections.append(('eventlistener:' + nm, opts))
        facts['listeners'].append(f)
    # fastcgi
    while rng.random() < 0.2:
        nm = names.pop()
        opts, f = gen_program_opts(rng, nm, scratch, kind='fcgi', rich=rng.random() < 0.3, inherited=inherited, here_heavy=layout, full=full)
        sock = rng.choice(['tcp://localhost:9%03d' % rng.randrange(1000), 'tcp://Host.Example:80', 'unix:///tmp/%(program_name)s.sock',
                           'unix://' + scratch + '/f.sock'])
        opts.append(('socket', sock))
        if rng.random() < 0.3:
            opts.append(('socket_backlog', str(rng.choice([1, 128, 65535]))))
        if sock.startswith('unix') and rng.random() < 0.3:
            opts.append(('socket_mode', rng.choice(['0700', '0770'])))
        rng.shuffle(opts)
        sections.append(('fcgi-program:' + nm, opts))
        f['socket'] = sock
        facts['fcgi'].append(f)
    if servers:
        facts['servers'] = gen_servers(rng, scratch)
        sections.extend(facts['servers'])
    # section order is free in the file format
    head, tail = sections[:1], sections[1:]
    rng.shuffle(tail)
    if rng.random() < 0.3:
        pos = rng.randrange(len(tail) + 1)
        tail.insert(pos, head[0]); head = []
    sections = head + tail
    include = []
    if layout:
        return {'sections': sections, 'facts': facts, 'include': [], 'layout': gen_layout(rng, sections)}
    if rng.random() < 0.25 and len(sections) > 2:
        cand = [i for i, (s, _) in enumerate(sections) if s != 'supervisord']
        include = sorted(rng.sample(cand, rng.randrange(1, len(cand))))
    return {'sections': sections, 'facts': facts, 'include': include}


SERVER_COMBOS = [['unix'], ['inet'], ['unix', 'inet'], ['inet', 'unix'], []]
SERVER_PASSWORDS = ['secret', 'p w', '{SHA}82ab876d1387bfafe46cc1c8a2ef074eae50cb1d', '123', 'pa:ss']


def gen_servers(rng, scratch, combo=None):
    """[(section, [(k, v)])]: the http server sections of a file -- none, unix only, inet only, both (either order); socket path /
    port forms, optional chmod / chown, optional credentials (plain and {SHA})"""
    secs = []
    for k in (combo if combo is not None else rng.choice(SERVER_COMBOS)):
        opts = []
        if k == 'unix':
            opts.append(('file', rng.choice(['/tmp/verif_sv.sock', scratch + '/sv.sock', '%(here)s/sv.sock', '/tmp/%(ENV_VERIF_A)s.sock'])))
            if rng.random() < 0.5:
                opts.append(('chmod', rng.choice(['0700', '0770', '0777', '700'])))
            if rng.random() < 0.3:
                opts.append(('chown', rng.choice(['root', 'root:root'])))
        else:
            opts.append(('port', rng.choice(['127.0.0.1:9%03d' % rng.randrange(1000), '*:9001', ':9002', '9003', 'localhost:9004'])))
        if rng.random() < 0.7:
            opts.append(('username', rng.choice(['admin', 'user', 'u-1'])))
            opts.append(('password', rng.choice(SERVER_PASSWORDS)))
        rng.shuffle(opts)
        secs.append((k + '_http_server', opts))
    return secs


def server_lines(o):
    """the parsed http server configurations (section.server_configs) in canonical form"""
    import socket
    out = []
    for c in o.configroot.supervisord.server_configs:
        fam = {socket.AF_INET: 'inet', socket.AF_UNIX: 'unix'}.get(c.get('family'), repr(c.get('family')))
        out.append('srv %s family=%s host=%s port=%s file=%s user=%s pass=%s chmod=%s chown=%s' % (
            hx(c.get('section', '')), fam, _opt_s(c.get('host')), c.get('port'), _opt_s(c.get('file')), _opt_s(c.get('username')),
            _opt_s(c.get('password')), c.get('chmod'), c.get('chown')))
    return out


# ---------------------------------------------------------------------------------------------------
# include layouts: which file holds which section, and how [include] files= names those files.
# All paths are relative to the layout root <scratch>/L_<tag>/ ; placeholders {root} (absolute layout root) and
# {rel} (layout root relative to the main file's directory) are filled in by write_config.
# ---------------------------------------------------------------------------------------------------
LAYOUT_FORMS = ['glob-file', 'literal', 'dot-relative', 'absolute', 'here', 'env', 'dir-star', 'dir-star', 'dir-class', 'dir-question',
                'two-level', 'parent', 'two-patterns']


def gen_layout(rng, sections, form=None):
    """-> dict(form, main_sub, files=[{'path', 'sections': [indices]}], patterns=[text], sep, nested=None|file index,
               decoys=[{'path', 'text'}])"""
    form = form or rng.choice(LAYOUT_FORMS)
    cand = [i for i, (s, _) in enumerate(sections) if s != 'supervisord']
    rng.shuffle(cand)
    keep = rng.randrange(0, max(1, len(cand) // 2 + 1)) if len(cand) > 1 else 0      # sections that stay in the main file
    moved = cand[keep:]
    main_sub = ''
    decoys = []
    if form in ('glob-file', 'absolute', 'here', 'env'):
        d = 'alpha' if form == 'env' else 'inc'
        paths = ['%s/part%d.conf' % (d, k) for k in range(rng.choice([1, 1, 2, 3]))]
        pat = {'glob-file': '{rel}inc/*.conf', 'absolute': '{root}/inc/*.conf', 'here': '%(here)s/{rel}inc/*.conf',
               'env': '{rel}%(ENV_VERIF_A)s/*.conf'}[form]
        patterns = [pat]
        decoys.append({'path': d + '/notes.txt', 'text': '[program:decoy_suffix]\ncommand=/bin/decoy\n'})
    elif form in ('literal', 'dot-relative'):
        paths = ['inc/extra.conf']
        patterns = [('./' if form == 'dot-relative' else '') + '{rel}inc/extra.conf']
    elif form == 'dir-star':
        dirs = rng.sample(['alpha', 'beta', 'gamma', 'x1'], rng.choice([1, 2, 2, 3]))
        paths = ['apps/%s/supervisor.conf' % d for d in dirs]
        patterns = ['{rel}apps/*/supervisor.conf']
        decoys.append({'path': 'apps/README', 'text': 'not a directory\n'})
    elif form == 'dir-class':
        paths = ['apps/alpha/x.conf', 'apps/beta/x.conf']
        patterns = ['{rel}apps/[ab]*/x.conf']
        decoys.append({'path': 'apps/gamma/x.conf', 'text': '[program:decoy_class]\ncommand=/bin/decoy\n'})
    elif form == 'dir-question':
        paths = ['srv1/app.conf', 'srv2/app.conf']
        patterns = ['{rel}srv?/app.conf']
        decoys.append({'path': 'srv10/app.conf', 'text': '[program:decoy_question]\ncommand=/bin/decoy\n'})
    elif form == 'two-level':
        paths = rng.sample(['conf.d/a/p.ini', 'conf.d/a/q.ini', 'conf.d/b/p.ini', 'conf.d/b/r.ini'], rng.choice([2, 3, 4]))
        patterns = ['{rel}conf.d/*/*.ini']
        decoys.append({'path': 'conf.d/top.ini', 'text': '[program:decoy_level]\ncommand=/bin/decoy\n'})
    elif form == 'parent':
        main_sub = 'main'
        paths = ['shared/one.conf', 'shared/two.conf'][:rng.choice([1, 2])]
        patterns = ['../shared/*.conf']
    else:   # two-patterns: a literal directory and a wildcard directory, in one files= value
        paths = ['inc/part.conf', 'apps/alpha/supervisor.conf', 'apps/beta/supervisor.conf']
        patterns = ['{rel}inc/*.conf', '{rel}apps/*/supervisor.conf']
        if rng.random() < 0.5:
            patterns.reverse()
    if rng.random() < 0.25:
        patterns.insert(rng.randrange(len(patterns) + 1), '{rel}nothing-here/*.conf')     # matches nothing: a warning, not an error
    files = [{'path': p, 'sections': []} for p in paths]
    for k, i in enumerate(moved):
        files[k % len(files)]['sections'].append(i)
    if not moved:
        files = files[:1]
    for f in files:
        f['sections'].sort()
    nested = None
    if rng.random() < 0.3:
        # an included file with an [include] section of its own: not followed
        nested = rng.randrange(len(files))
        decoys.append({'path': 'nested/deep.conf', 'text': '[program:decoy_nested]\ncommand=/bin/decoy\n'})
    return {'form': form, 'main_sub': main_sub, 'files': files, 'patterns': patterns, 'sep': rng.choice([' ', ' ', '\n', '  ']),
            'nested': nested, 'decoys': decoys}


def layout_paths(layout, dirpath, tag):
    """(layout root, main file path, {file index: absolute path})"""
    root = os.path.join(dirpath, 'L_%s' % tag)
    if layout.get('main_sub'):
        main = os.path.join(root, layout['main_sub'], 'sv_%s.conf' % tag)
    else:
        main = os.path.join(dirpath, 'sv_%s.conf' % tag)
    return root, main, {k: os.path.join(root, f['path']) for k, f in enumerate(layout['files'])}


def layout_here(cfg, dirpath, tag):
    """{section index: directory of the file that holds the section} -- what %(here)s stands for there (documented)"""
    root, main, fpaths = layout_paths(cfg['layout'], dirpath, tag)
    here = {i: os.path.dirname(main) for i in range(len(cfg['sections']))}
    for k, f in enumerate(cfg['layout']['files']):
        for i in f['sections']:
            here[i] = os.path.dirname(fpaths[k])
    return here


def include_patterns(cfg, dirpath, tag):
    """the absolute include patterns of a case in the order of its files= value (the harness's own reading of what it wrote)"""
    import platform as _pf
    if cfg.get('layout'):
        lay = cfg['layout']
        root, main, _ = layout_paths(lay, dirpath, tag)
        rel = '' if lay.get('main_sub') else 'L_%s/' % tag
        base = os.path.dirname(main)
        out = []
        for x in lay['patterns']:
            x = x.replace('{rel}', rel).replace('{root}', root).replace('%(here)s', base).replace('%(host_node_name)s', _pf.node())
            for k, v in ENV_VARS.items():
                x = x.replace('%%(ENV_%s)s' % k, v)
            out.append(os.path.join(base, x))
        return main, out
    main = os.path.join(dirpath, 'sv_%s.conf' % tag)
    if cfg.get('include'):
        return main, [os.path.join(dirpath, 'inc_%s/*.conf' % tag)]
    return main, []


def include_tokens(cfg, dirpath, tag, here):
    """case tokens of the include model: each file tokenised ALONE by the real parser class (tokenisation is trusted), the
    matches of every pattern by glob (a parameter of the model)"""
    import glob
    st = _classes()
    def file_toks(path):
        p = st['real_parser']()
        p.read(path)
        toks = []
        for sname in p.sections():
            if sname == 'include':
                continue
            toks.append('S=' + hx(sname))
            for k, v in p.items(sname):
                toks.append('O=%s:%s' % (hx(k), hx(v)))
        return toks
    main, pats = include_patterns(cfg, dirpath, tag)
    toks = ['H=' + hx(here)] + file_toks(main)
    for pat in pats:
        toks.append('P=' + hx(os.path.abspath(os.path.dirname(pat))))
        for fn in sorted(glob.glob(pat)):
            toks.append('F=' + hx(os.path.abspath(os.path.dirname(fn))))
            toks.extend(file_toks(fn))
    return toks


def parser_view(parser):
    """the real parser's sections after read_include_config, in the include model's output form"""
    toks = []
    for sname in parser.sections():
        if sname == 'include':
            continue
        toks.append('S=' + hx(sname))
        for k, v in parser.items(sname):
            toks.append('O=%s:%s' % (hx(k), hx(v)))
    return ' '.join(toks)


def write_layout(cfg, dirpath, tag):
    import shutil
    lay = cfg['layout']
    secs = cfg['sections']
    root, main, fpaths = layout_paths(lay, dirpath, tag)
    shutil.rmtree(root, ignore_errors=True)
    os.makedirs(os.path.dirname(main), exist_ok=True)
    rel = '' if lay.get('main_sub') else 'L_%s/' % tag
    moved = set()
    for k, f in enumerate(lay['files']):
        os.makedirs(os.path.dirname(fpaths[k]), exist_ok=True)
        body = [secs[i] for i in f['sections'] if i < len(secs)]
        moved.update(f['sections'])
        if lay.get('nested') == k:
            body = body + [('include', [('files', '../nested/*.conf ' + os.path.join(root, 'nested', '*.conf'))])]
        with open(fpaths[k], 'w', encoding='utf-8') as fh:
            fh.write(render(body))
    for d in lay.get('decoys') or []:
        p = os.path.join(root, d['path'])
        os.makedirs(os.path.dirname(p), exist_ok=True)
        with open(p, 'w', encoding='utf-8') as fh:
            fh.write(d['text'])
    pats = lay['sep'].join(x.replace('{rel}', rel).replace('{root}', root) for x in lay['patterns'])
    mainsecs = [s for i, s in enumerate(secs) if i not in moved] + [('include', [('files', pats)])]
    with open(main, 'w', encoding='utf-8') as fh:
        fh.write(render(mainsecs))
    return main


def render(sections):
    out = []
    for name, opts in sections:
        out.append('[%s]' % name)
        for k, v in opts:
            v = v.replace('\n', '\n  ')
            out.append('%s=%s' % (k, v) if (len(k) + len(v)) % 3 else '%s = %s' % (k, v))
        out.append('')
    return '\n'.join(out) + '\n'


def write_config(cfg, dirpath, tag):
    """writes the main file (and the included ones); returns the main path"""
    if cfg.get('layout'):
        return write_layout(cfg, dirpath, tag)
    main = os.path.join(dirpath, 'sv_%s.conf' % tag)
    secs = cfg['sections']
    inc = set(cfg.get('include') or [])
    if inc:
        incdir = os.path.join(dirpath, 'inc_%s' % tag)
        os.makedirs(incdir, exist_ok=True)
        for fn in os.listdir(incdir):
            os.unlink(os.path.join(incdir, fn))
        with open(os.path.join(incdir, 'part.conf'), 'w', encoding='utf-8') as f:
            f.write(render([s for i, s in enumerate(secs) if i in inc]))
        mainsecs = [s for i, s in enumerate(secs) if i not in inc] + [('include', [('files', 'inc_%s/*.conf' % tag)])]
    else:
        mainsecs = secs
    with open(main, 'w', encoding='utf-8') as f:
        f.write(render(mainsecs))
    return main


# ---------------------------------------------------------------------------------------------------
# single-point corruptions.  must_reject: True = violates a documented constraint (the property demands an
# error message); None = outcome not prescribed (correspondence + "no other exception class" only)
# ---------------------------------------------------------------------------------------------------
BAD = {
    'boolean': ['maybe', '2', '', 'truee', 'y', 'none'],
    'integer': ['abc', '1.5', '', '1e3', '0x10', '1 2', '--1', '1_', '_1'],
    'byte_size': ['10XB', 'MB', '1.5MB', '', 'kb', '1 MB x', '0x1kb'],
    'exitcodes': ['0,256', '-1', 'a', '0,,2', '0;2', '1.0', '0,2,'],
    'signal': ['FOO', '99', '-1', '', 'SIGFOO', '15.0', '35'],
    'autorestart': ['maybe', '', 'unexpectedly', '2'],
    'umask': ['9', 'abc', '0x1', '08', ''],
    'expansion': ['%(nokey)s', 'x%(process_num', 'x%', '%(process_num)z', '%(program_name)d', '%(process_num)', 'a%(ENV_NOPE)sb'],
}
OPT_CLASS = {
    'autostart': 'boolean', 'stopasgroup': 'boolean', 'killasgroup': 'boolean', 'redirect_stderr': 'boolean',
    'stdout_events_enabled': 'boolean', 'stderr_events_enabled': 'boolean', 'stdout_syslog': 'boolean', 'stderr_syslog': 'boolean',
    'priority': 'integer', 'startsecs': 'integer', 'startretries': 'integer', 'stopwaitsecs': 'integer', 'numprocs': 'integer',
    'numprocs_start': 'integer', 'stdout_logfile_backups': 'integer', 'stderr_logfile_backups': 'integer',
    'stdout_capture_maxbytes': 'byte_size', 'stderr_capture_maxbytes': 'byte_size', 'stdout_logfile_maxbytes': 'byte_size',
    'stderr_logfile_maxbytes': 'byte_size', 'exitcodes': 'exitcodes', 'stopsignal': 'signal', 'autorestart': 'autorestart',
    'umask': 'umask',
}
EXPANDED_OPTS = ['command', 'directory', 'stdout_logfile', 'stderr_logfile', 'process_name', 'environment']
EMPTY_VALUE_OPTS = sorted(set(OPT_CLASS) | {'exitcodes', 'environment', 'directory', 'user', 'serverurl', 'stdout_logfile', 'stderr_logfile',
                                            'process_name', 'command'})


def _with(sections, si, opts):
    s = list(sections)
    s[si] = (s[si][0], opts)
    return s


def _set(opts, key, val):
    o = [(k, v) for k, v in opts if k != key]
    o.append((key, val))
    return o


def corruptions(rng, cfg, per_class=1, everything=False):
    """yield (label, must_reject, sections)"""
    secs = cfg['sections']
    prog_idx = [i for i, (s, _) in enumerate(secs) if s.split(':')[0] in ('program', 'eventlistener', 'fcgi-program')]
    res = []
    if not prog_idx:
        return res
    def some(seq, k):
        seq = list(seq)
        return seq if everything or len(seq) <= k else rng.sample(seq, k)
    for si in some(prog_idx, 2):
        sname, opts = secs[si]
        kind = sname.split(':')[0]
        # malformed value of every typed option
        for opt, cls in some(sorted(OPT_CLASS.items()), 8):
            if kind == 'eventlistener' and opt == 'redirect_stderr':
                continue
            for bad in some(BAD[cls], per_class):
                res.append(('malformed-%s:%s=%r' % (cls, opt, bad), True, _with(secs, si, _set(opts, opt, bad))))
        # malformed expansions
        for opt in some(EXPANDED_OPTS, 3):
            for bad in some(BAD['expansion'], per_class):
                val = bad if opt != 'environment' else 'E="%s"' % bad
                res.append(('malformed-expansion:%s=%r' % (opt, val), True, _with(secs, si, _set(opts, opt, val))))
        # cross-option constraints
        res.append(('numprocs-without-process_num', True,
                    _with(secs, si, _set(_set(opts, 'numprocs', str(rng.choice([2, 3, 40]))), 'process_name', rng.choice(['fixed', '%(program_name)s', '%(numprocs)d'])))))
        res.append(('stopasgroup-without-killasgroup', True,
                    _with(secs, si, _set(_set(opts, 'stopasgroup', rng.choice(BOOL_T)), 'killasgroup', rng.choice(BOOL_F)))))
        res.append(('missing-command', True, _with(secs, si, [(k, v) for k, v in opts if k != 'command'])))
        # an ENV_ key that only the environment of an EARLIER process of the section defines (F43): every process is
        # expanded on its own, so the later processes cannot use it
        nn, st = rng.choice([2, 3, 5]), rng.choice([0, 1, 7, -1])
        o2 = opts
        for k, v in (('numprocs', str(nn)), ('numprocs_start', str(st)), ('process_name', 'k%(process_num)d'),
                     ('environment', 'KEY%(process_num)d="v%(process_num)d"'),
                     (rng.choice(['command', 'directory', 'stdout_logfile']), '/tmp/x%%(ENV_KEY%d)s' % st)):
            o2 = _set(o2, k, v)
        if 'command' not in dict(o2):
            o2 = _set(o2, 'command', '/bin/cat')
        res.append(('env-key-of-earlier-process', True, _with(secs, si, o2)))
        # forbidden name characters, directly and through an expansion (F17)
        d = dict(opts)
        many = int(d.get('numprocs', '1')) > 1
        suffix = '%(process_num)d' if many else ''
        for bad in some(['a b', 'a:b', 'a/b', '%(ENV_VERIF_BAD)s', 'x%(ENV_VERIF_BAD)s', 'a%(here)s'], 2 * per_class):
            res.append(('forbidden-name-char:process_name=%r' % (bad + suffix), True, _with(secs, si, _set(opts, 'process_name', bad + suffix))))
        bname = rng.choice(['a b', 'a:b', 'a/b', 'x y'])
        renamed = list(secs); renamed[si] = (kind + ':' + bname, opts)
        # a group section naming the old program would fail for another reason as well; that is still a rejection
        res.append(('forbidden-name-char:section=%r' % bname, True, renamed))
        # file system / passwd
        res.append(('logfile-directory-missing', True, _with(secs, si, _set(opts, 'stdout_logfile', '/nonexistent-verif/x.log'))))
        res.append(('unknown-user', True, _with(secs, si, _set(opts, 'user', rng.choice(['no-such-user-verif', '4123456789'])))))
        for bad in some(['A', 'A=', 'A=1,B', 'A="x', "A='x", '=1', 'A=1 B=2 C'], per_class):
            res.append(('malformed-environment:%r' % bad, True, _with(secs, si, _set(opts, 'environment', bad))))
        # boundary: an option that is present but empty (outcome not prescribed in general; where it is accepted the value
        # must be the empty value of the option's type -- c14 monitor_written -- and the model must agree)
        for opt in some(EMPTY_VALUE_OPTS, 3):
            if not (kind == 'eventlistener' and opt == 'redirect_stderr'):
                res.append(('empty-value:%s' % opt, None, _with(secs, si, _set(opts, opt, ''))))
        # outcome not prescribed
        if opts:
            k, v = rng.choice(opts)
            res.append(('delete-option:%s' % k, True if k == 'command' else None, _with(secs, si, [(a, b) for a, b in opts if a != k])))
            res.append(('duplicate-option:%s' % k, None, _with(secs, si, opts + [(k, v)])))
            res.append(('upper-key:%s' % k, None, _with(secs, si, [(a.upper() if a == k else a, b) for a, b in opts])))
            if v:
                pos = rng.randrange(len(v))
                c = rng.choice('%()=,"\' \t;#:/\\0x~é')
                res.append(('char-flip:%s@%d=%r' % (k, pos, c), None, _with(secs, si, _set(opts, k, v[:pos] + c + v[pos + 1:]))))
                res.append(('truncate:%s@%d' % (k, pos), None, _with(secs, si, _set(opts, k, v[:pos]))))
        res.append(('stopsignal-zero', True, _with(secs, si, _set(opts, 'stopsignal', rng.choice(['0', '_DFL', 'SIG_BLOCK'])))))
    # listeners
    for si in [i for i, (s, _) in enumerate(secs) if s.startswith('eventlistener:')][:1]:
        sname, opts = secs[si]
        for bad in some(['NOPE', 'PROCESS_STATE,NOPE', 'TICK_7', 'PROCESS STATE', 'EVENT,,TICK_5'], 2 * per_class):
            res.append(('unknown-event-type:%r' % bad, True, _with(secs, si, _set(opts, 'events', bad))))
        res.append(('events-missing', True, _with(secs, si, [(k, v) for k, v in opts if k != 'events'])))
        res.append(('events-empty', True, _with(secs, si, _set(opts, 'events', ''))))
        for bad in some(['0', '-1', 'x', ''], per_class):
            res.append(('bad-buffer_size:%r' % bad, True, _with(secs, si, _set(opts, 'buffer_size', bad))))
        res.append(('listener-redirect_stderr', True, _with(secs, si, _set(opts, 'redirect_stderr', rng.choice(BOOL_T)))))
        res.append(('bad-result_handler', True, _with(secs, si, _set(opts, 'result_handler', rng.choice(['nomodule_verif:f', 'supervisor.dispatchers:nope', 'noseparator'])))))
    # groups
    for si in [i for i, (s, _) in enumerate(secs) if s.startswith('group:')][:1]:
        sname, opts = secs[si]
        res.append(('group-unknown-program', True, _with(secs, si, _set(opts, 'programs', dict(opts)['programs'] + ',nosuchprogram'))))
        res.append(('group-bad-priority', True, _with(secs, si, _set(opts, 'priority', 'high'))))
        renamed = list(secs); renamed[si] = ('group:' + rng.choice(['g h', 'g:h', 'g/h']), opts)
        res.append(('forbidden-name-char:group-section', True, renamed))
    # fcgi
    for si in [i for i, (s, _) in enumerate(secs) if s.startswith('fcgi-program:')][:1]:
        sname, opts = secs[si]
        res.append(('fcgi-socket-missing', True, _with(secs, si, [(k, v) for k, v in opts if k != 'socket'])))
        for bad in some(['tcp://localhost', 'tcp://localhost:0', 'tcp://localhost:70000', 'udp://x:1', 'unix://relative/path', 'tcp://a b:80'], 2 * per_class):
            res.append(('fcgi-bad-socket:%r' % bad, True, _with(secs, si, _set([(k, v) for k, v in opts if k != 'socket_mode'], 'socket', bad))))
        for bad in some(['0', '65536', 'x'], per_class):
            res.append(('fcgi-bad-backlog:%r' % bad, True, _with(secs, si, _set(opts, 'socket_backlog', bad))))
    # supervisord section
    si = next(i for i, (s, _) in enumerate(secs) if s == 'supervisord')
    sname, opts = secs[si]
    res.append(('no-supervisord-section', True, [s for i, s in enumerate(secs) if i != si]))
    for opt, cls in some([('minfds', 'integer'), ('minprocs', 'integer'), ('umask', 'umask'), ('logfile_maxbytes', 'byte_size'),
                          ('logfile_backups', 'integer'), ('nodaemon', 'boolean'), ('silent', 'boolean'), ('nocleanup', 'boolean'),
                          ('strip_ansi', 'boolean')], 2):
        bad = rng.choice(BAD[cls])
        res.append(('malformed-%s:supervisord.%s=%r' % (cls, opt, bad), True, _with(secs, si, _set(opts, opt, bad))))
    for bad in some(['A', 'A="x', 'A=%(nokey)s', 'A=%'], per_class):
        res.append(('malformed-environment:supervisord %r' % bad, True, _with(secs, si, _set(opts, 'environment', bad))))
    return res
