import SupervisorModel.Lemmas.SupLemmas
/-
  `options.pidhistory` as a finite map (insert at fork, delete at reap), names of the process
  table, and the daemon-level bookkeeping invariant `SInvC` on (procs, dormant, pidhist) with the
  four ways the daemon changes these three: one process is updated (with or without a fork, or
  reaped), an orphaned entry is deleted, a group is added, a group is removed.
-/
set_option linter.unusedSimpArgs false
set_option linter.unusedVariables false
namespace Sv.Sup
open Sv Sv.Proc Sv.Gen.Proc Sv.Gen.Sup

abbrev PidHist := List (Int × (Nat × Nat))

/-! ### pidhistory as a map -/

theorem lookup_del (h : PidHist) (pid k : Int) :
    (h.filter (·.1 != pid)).lookup k = if k = pid then none else h.lookup k := by
  induction h with
  | nil => simp
  | cons x xs ih =>
    obtain ⟨a, v⟩ := x
    by_cases ha : a = pid
    · subst ha
      simp only [List.filter_cons, bne_self_eq_false, Bool.false_eq_true, if_false, ih, List.lookup_cons]
      by_cases hk : k = a
      · simp [hk]
      · have : (k == a) = false := by simpa using hk
        simp [hk, this]
    · have hne : (a != pid) = true := by simpa using ha
      simp only [List.filter_cons, hne, if_true, List.lookup_cons, ih]
      by_cases hk : k = a
      · subst hk; simp [ha]
      · have : (k == a) = false := by simpa using hk
        simp [this]

theorem lookup_ins (h : PidHist) (pid k : Int) (v : Nat × Nat) :
    (h.filter (·.1 != pid) ++ [(pid, v)]).lookup k = if k = pid then some v else h.lookup k := by
  rw [List.lookup_append, lookup_del]
  by_cases hk : k = pid
  · subst hk; simp [List.lookup_cons]
  · have : (k == pid) = false := by simpa using hk
    simp [hk, List.lookup_cons, this]

theorem keys_del (h : PidHist) (pid : Int) (hk : (h.map (·.1)).Nodup) : ((h.filter (·.1 != pid)).map (·.1)).Nodup :=
  List.Nodup.sublist (List.Sublist.map _ List.filter_sublist) hk

theorem keys_ins (h : PidHist) (pid : Int) (v : Nat × Nat) (hk : (h.map (·.1)).Nodup) :
    ((h.filter (·.1 != pid) ++ [(pid, v)]).map (·.1)).Nodup := by
  rw [List.map_append, List.nodup_append]
  refine ⟨keys_del h pid hk, by simp, ?_⟩
  intro a ha b hb
  obtain ⟨x, hx, rfl⟩ := List.mem_map.mp ha
  have hne : x.1 ≠ pid := by simpa using (List.mem_filter.mp hx).2
  simp only [List.map_cons, List.map_nil, List.mem_singleton] at hb
  rw [hb]; exact hne

theorem lookup_of_mem (h : PidHist) (hk : (h.map (·.1)).Nodup) {k : Int} {v : Nat × Nat} (hm : (k, v) ∈ h) :
    h.lookup k = some v := by
  induction h with
  | nil => simp at hm
  | cons x xs ih =>
    obtain ⟨a, w⟩ := x
    simp only [List.map_cons, List.nodup_cons] at hk
    rcases List.mem_cons.mp hm with heq | hm'
    · cases heq; simp [List.lookup_cons]
    · have hne : (k == a) = false := by
        have : k ≠ a := by
          intro hka; subst hka
          exact hk.1 (List.mem_map.mpr ⟨(k, v), hm', rfl⟩)
        simpa using this
      rw [List.lookup_cons, hne]
      exact ih hk.2 hm'

/-! ### pidhistory registration depends on the forks only -/

def regH (n g : Nat) (h : PidHist) : Out → PidHist
  | .fork pid => h.filter (·.1 != pid) ++ [(pid, (n, g))]
  | _ => h

theorem regFork_eq (n g : Nat) (acc : Sup) (o : Out) :
    regFork n g acc o = { acc with pidhist := regH n g acc.pidhist o } := by
  cases o <;> rfl

theorem foldl_regFork (n g : Nat) (outs : List Out) (acc : Sup) :
    outs.foldl (regFork n g) acc = { acc with pidhist := outs.foldl (regH n g) acc.pidhist } := by
  induction outs generalizing acc with
  | nil => rfl
  | cons o os ih => simp only [List.foldl_cons]; rw [ih, regFork_eq]

theorem foldl_regH_forks (n g : Nat) (outs : List Out) (h : PidHist) :
    outs.foldl (regH n g) h = (forks outs).foldl (regH n g) h := by
  induction outs generalizing h with
  | nil => rfl
  | cons o os ih =>
    cases o <;> simp only [List.foldl_cons, forks, List.filter_cons, if_true, Bool.false_eq_true, if_false, regH] <;>
      exact ih _

/-! ### names -/

theorem nodup_map_inj {α β : Type} (f : α → β) : ∀ (l : List α), (l.map f).Nodup → ∀ a ∈ l, ∀ b ∈ l, f a = f b → a = b
  | [], _, a, ha, _, _, _ => by simp at ha
  | x :: xs, h, a, ha, b, hb, hab => by
    simp only [List.map_cons, List.nodup_cons, List.mem_map, not_exists, not_and] at h
    obtain ⟨hx, hxs⟩ := h
    rcases List.mem_cons.mp ha with rfl | ha' <;> rcases List.mem_cons.mp hb with rfl | hb'
    · rfl
    · exact absurd hab.symm (hx b hb')
    · exact absurd hab (hx a ha')
    · exact nodup_map_inj f xs hxs a ha' b hb' hab

theorem findPE_some_mem {ps : List PE} {n : Nat} {e : PE} (h : findPE ps n = some e) : e ∈ ps ∧ e.name = n := by
  unfold findPE at h
  exact ⟨List.mem_of_find?_eq_some h, by simpa using List.find?_some h⟩

theorem findPE_of_mem {ps : List PE} (hn : (ps.map (·.name)).Nodup) {e : PE} (he : e ∈ ps) : findPE ps e.name = some e := by
  cases hf : findPE ps e.name with
  | none =>
    unfold findPE at hf
    have := List.find?_eq_none.mp hf e he
    simp at this
  | some e' =>
    obtain ⟨h1, h2⟩ := findPE_some_mem hf
    rw [nodup_map_inj _ ps hn e' h1 e he h2]

theorem mem_setProc {ps : List PE} {n : Nat} {q : Proc} {x : PE} (hx : x ∈ setProc ps n q) :
    ∃ e ∈ ps, x.name = e.name ∧ x.gen = e.gen ∧ x.cfg = e.cfg ∧ ((e.name = n ∧ x.p = q) ∨ (e.name ≠ n ∧ x = e)) := by
  unfold setProc at hx
  obtain ⟨e, he, rfl⟩ := List.mem_map.mp hx
  refine ⟨e, he, ?_⟩
  by_cases hn : e.name = n
  · have : (e.name == n) = true := by simpa using hn
    simp [this, hn]
  · have : (e.name == n) = false := by simpa using hn
    simp [this, hn]

/-! ### the invariant -/

/-- the daemon's bookkeeping: names are unique over active and dormant groups; every process satisfies
    the per-process invariant; a held pid is recorded in `pidhistory` for exactly that process object;
    an entry of `pidhistory` that names a current process object is the pid that object holds; entries
    never name a *later* incarnation than the current one; pid 0 is never recorded; `pidhistory` is a
    map (no pid occurs twice) -/
structure SInvC (procs dormant : List PE) (h : PidHist) : Prop where
  nodup : ((procs ++ dormant).map (·.name)).Nodup
  inv   : ∀ e ∈ procs, Proc.Inv e.p
  hist  : ∀ e ∈ procs, e.p.pid ≠ 0 → h.lookup e.p.pid = some (e.name, e.gen)
  conv  : ∀ pid n g, h.lookup pid = some (n, g) → ∀ e ∈ procs, e.name = n → e.gen = g → e.p.pid = pid
  gens  : ∀ pid n g, h.lookup pid = some (n, g) → ∀ e ∈ procs ++ dormant, e.name = n → g ≤ e.gen
  nz    : h.lookup 0 = none
  keys  : (h.map (·.1)).Nodup
  cfgok : ∀ e ∈ procs ++ dormant, 0 ≤ e.cfg.startsecs

theorem SInvC.nodupP {ps d : List PE} {h : PidHist} (hI : SInvC ps d h) : (ps.map (·.name)).Nodup := by
  have := hI.nodup
  rw [List.map_append] at this
  exact (List.nodup_append.mp this).1

theorem SInvC.uniq {ps d : List PE} {h : PidHist} (hI : SInvC ps d h) {a b : PE} (ha : a ∈ ps ++ d) (hb : b ∈ ps ++ d)
    (hab : a.name = b.name) : a = b :=
  nodup_map_inj _ _ hI.nodup a ha b hb hab

/-- one process `name` is replaced by `q`, `pidhistory` becomes `h'`: entries naming other processes
    are kept, new entries name this process object, and `q.pid` is what `h'` records for it -/
theorem sinv_update {ps d : List PE} {h h' : PidHist} (hI : SInvC ps d h) {name : Nat} {e : PE} {q : Proc}
    (hf : findPE ps name = some e) (hq : Proc.Inv q)
    (hold : ∀ k n g, h.lookup k = some (n, g) → n ≠ name → h'.lookup k = some (n, g))
    (hnew : ∀ k n g, h'.lookup k = some (n, g) → (n = name ∧ g = e.gen) ∨ h.lookup k = some (n, g))
    (hnz : h'.lookup 0 = none) (hkeys : (h'.map (·.1)).Nodup)
    (hq1 : q.pid ≠ 0 → h'.lookup q.pid = some (name, e.gen))
    (hq2 : ∀ k, h'.lookup k = some (name, e.gen) → q.pid = k) :
    SInvC (setProc ps name q) d h' := by
  obtain ⟨hem, hen⟩ := findPE_some_mem hf
  have huniq : ∀ e' ∈ ps, e'.name = name → e' = e := fun e' he' hn =>
    hI.uniq (List.mem_append_left _ he') (List.mem_append_left _ hem) (hn.trans hen.symm)
  constructor
  · rw [List.map_append, setProc_names, ← List.map_append]; exact hI.nodup
  · intro x hx
    obtain ⟨e', he', _, _, _, hc⟩ := mem_setProc hx
    rcases hc with ⟨_, hp⟩ | ⟨_, rfl⟩
    · rw [hp]; exact hq
    · exact hI.inv _ he'
  · intro x hx hpid
    obtain ⟨e', he', h1, h2, _, hc⟩ := mem_setProc hx
    rcases hc with ⟨hn, hp⟩ | ⟨hn, rfl⟩
    · rw [hp] at hpid ⊢
      rw [h1, h2, huniq e' he' hn, hen]
      exact hq1 hpid
    · exact hold _ _ _ (hI.hist _ he' hpid) hn
  · intro k n g hl x hx hxn hxg
    obtain ⟨e', he', h1, h2, _, hc⟩ := mem_setProc hx
    rcases hc with ⟨hn, hp⟩ | ⟨hn, rfl⟩
    · rw [hp]
      apply hq2
      rw [hl, ← hxn, ← hxg, h1, h2, huniq e' he' hn, hen]
    · rcases hnew k n g hl with ⟨hn', _⟩ | hl'
      · exact absurd (hxn.trans hn') hn
      · exact hI.conv k n g hl' _ he' hxn hxg
  · intro k n g hl x hx hxn
    have hx' : ∃ e' ∈ ps ++ d, x.name = e'.name ∧ x.gen = e'.gen := by
      rcases List.mem_append.mp hx with hx | hx
      · obtain ⟨e', he', h1, h2, _⟩ := mem_setProc hx
        exact ⟨e', List.mem_append_left _ he', h1, h2⟩
      · exact ⟨x, List.mem_append_right _ hx, rfl, rfl⟩
    obtain ⟨e', he', h1, h2⟩ := hx'
    rcases hnew k n g hl with ⟨hn', hg'⟩ | hl'
    · have : e' = e := hI.uniq he' (List.mem_append_left _ hem) (by rw [← h1, hxn, hn', hen])
      rw [h2, this, hg']
      exact Nat.le_refl _
    · rw [h2]; exact hI.gens k n g hl' e' he' (h1 ▸ hxn)
  · exact hnz
  · exact hkeys
  · intro x hx
    rcases List.mem_append.mp hx with hx | hx
    · obtain ⟨e', he', _, _, h3, _⟩ := mem_setProc hx
      rw [h3]; exact hI.cfgok _ (List.mem_append_left _ he')
    · exact hI.cfgok _ (List.mem_append_right _ hx)

/-- a process is updated, its pid and `pidhistory` stay -/
theorem sinv_same {ps d : List PE} {h : PidHist} (hI : SInvC ps d h) {name : Nat} {e : PE} {q : Proc}
    (hf : findPE ps name = some e) (hq : Proc.Inv q) (hpid : q.pid = e.p.pid) : SInvC (setProc ps name q) d h := by
  obtain ⟨hem, hen⟩ := findPE_some_mem hf
  refine sinv_update hI hf hq (fun _ _ _ hl _ => hl) (fun _ _ _ hl => Or.inr hl) hI.nz hI.keys ?_ ?_
  · intro hz; rw [hpid] at hz ⊢; rw [← hen]; exact hI.hist e hem hz
  · intro k hl; rw [hpid]; exact hI.conv k _ _ hl e hem hen rfl

/-- a process without a child forks: it now holds the fresh `pid`, which is recorded for it -/
theorem sinv_fork {ps d : List PE} {h : PidHist} (hI : SInvC ps d h) {name : Nat} {e : PE} {q : Proc} {pid : Int}
    (hf : findPE ps name = some e) (hq : Proc.Inv q) (h0 : e.p.pid = 0) (hpid : q.pid = pid) (hnz : pid ≠ 0)
    (hfresh : h.lookup pid = none) :
    SInvC (setProc ps name q) d (h.filter (·.1 != pid) ++ [(pid, (name, e.gen))]) := by
  obtain ⟨hem, hen⟩ := findPE_some_mem hf
  refine sinv_update hI hf hq ?_ ?_ ?_ ?_ ?_ ?_
  · intro k n g hl _
    rw [lookup_ins]
    have : k ≠ pid := by intro hk; rw [hk, hfresh] at hl; simp at hl
    simp [this, hl]
  · intro k n g hl
    rw [lookup_ins] at hl
    by_cases hk : k = pid
    · simp only [hk, if_true, Option.some.injEq, Prod.mk.injEq] at hl
      exact Or.inl ⟨hl.1.symm, hl.2.symm⟩
    · simp only [hk, if_false] at hl; exact Or.inr hl
  · rw [lookup_ins]; simp [Ne.symm hnz, hI.nz]
  · exact keys_ins _ _ _ hI.keys
  · intro _; rw [lookup_ins, hpid]; simp
  · intro k hl
    rw [lookup_ins] at hl
    by_cases hk : k = pid
    · rw [hpid, hk]
    · simp only [hk, if_false] at hl
      have := hI.conv k _ _ hl e hem hen rfl
      rw [h0] at this
      rw [← this, hI.nz] at hl
      simp at hl

/-- the child of a process is reaped: the process holds no pid any more, the entry is deleted -/
theorem sinv_reap {ps d : List PE} {h : PidHist} (hI : SInvC ps d h) {name : Nat} {e : PE} {q : Proc} {pid : Int}
    (hf : findPE ps name = some e) (hq : Proc.Inv q) (hl : h.lookup pid = some (name, e.gen)) (hpid : q.pid = 0) :
    SInvC (setProc ps name q) d (h.filter (·.1 != pid)) := by
  obtain ⟨hem, hen⟩ := findPE_some_mem hf
  refine sinv_update hI hf hq ?_ ?_ ?_ ?_ ?_ ?_
  · intro k n g hk hn
    rw [lookup_del]
    have : k ≠ pid := by
      intro hkp; rw [hkp, hl] at hk
      simp only [Option.some.injEq, Prod.mk.injEq] at hk
      exact hn hk.1.symm
    simp [this, hk]
  · intro k n g hk
    rw [lookup_del] at hk
    by_cases hkp : k = pid
    · simp [hkp] at hk
    · simp only [hkp, if_false] at hk; exact Or.inr hk
  · rw [lookup_del]; split <;> simp [hI.nz]
  · exact keys_del _ _ hI.keys
  · intro hz; exact absurd hpid hz
  · intro k hk
    rw [lookup_del] at hk
    by_cases hkp : k = pid
    · simp [hkp] at hk
    · simp only [hkp, if_false] at hk
      have h1 := hI.conv k _ _ hk e hem hen rfl
      have h2 := hI.conv pid _ _ hl e hem hen rfl
      exact absurd (h1.symm.trans h2) hkp

/-- the entry of a process object that is no longer in the table is deleted -/
theorem sinv_orphan {ps d : List PE} {h : PidHist} (hI : SInvC ps d h) {name gen : Nat} {pid : Int}
    (hl : h.lookup pid = some (name, gen)) (hlive : isLive ps name gen = false) :
    SInvC ps d (h.filter (·.1 != pid)) := by
  have hsub : ∀ k n g, (h.filter (·.1 != pid)).lookup k = some (n, g) → h.lookup k = some (n, g) := by
    intro k n g hk
    rw [lookup_del] at hk
    by_cases hkp : k = pid
    · simp [hkp] at hk
    · simpa [hkp] using hk
  constructor
  · exact hI.nodup
  · exact hI.inv
  · intro e he hz
    have h1 := hI.hist e he hz
    rw [lookup_del]
    by_cases hkp : e.p.pid = pid
    · exfalso
      rw [hkp, hl] at h1
      simp only [Option.some.injEq, Prod.mk.injEq] at h1
      have hfe := findPE_of_mem hI.nodupP he
      rw [← h1.1] at hfe
      simp [isLive, hfe, h1.2] at hlive
    · simp [hkp, h1]
  · intro k n g hk; exact hI.conv k n g (hsub k n g hk)
  · intro k n g hk; exact hI.gens k n g (hsub k n g hk)
  · rw [lookup_del]; split <;> simp [hI.nz]
  · exact keys_del _ _ hI.keys
  · exact hI.cfgok

/-! ### groups -/

theorem names_reinit (l : List PE) (f : PE → PE) (hf : ∀ e, (f e).name = e.name) : (l.map f).map (·.name) = l.map (·.name) := by
  rw [List.map_map]; apply List.map_congr_left; intro e _; exact hf e

theorem names_add (ps A B : List PE) (f : PE → PE) (hf : ∀ e, (f e).name = e.name) :
    List.map (fun (x : PE) => x.name) ((ps ++ A.map f) ++ B) = ps.map (·.name) ++ (A ++ B).map (·.name) := by
  simp only [List.map_append, List.append_assoc]
  rw [names_reinit _ _ hf]

theorem names_rm (A d B : List PE) (f : PE → PE) (hf : ∀ e, (f e).name = e.name) :
    List.map (fun (x : PE) => x.name) (A ++ (d ++ B.map f)) = A.map (·.name) ++ (d.map (·.name) ++ B.map (·.name)) := by
  simp only [List.map_append]
  rw [names_reinit _ _ hf]

/-- `add_process_group`: the dormant group's members become active with fresh process objects -/
theorem sinv_addGroup {ps d : List PE} {h : PidHist} (hI : SInvC ps d h) (gid : Nat) :
    SInvC (ps ++ (d.filter (·.gid == gid)).map (fun e => { e with p := {}, gen := e.gen + 1 }))
      (d.filter (·.gid != gid)) h := by
  have hmem : ∀ x ∈ (ps ++ (d.filter (·.gid == gid)).map (fun e => { e with p := {}, gen := e.gen + 1 })) ++ (d.filter (·.gid != gid)),
      ∃ e ∈ ps ++ d, x.name = e.name ∧ e.gen ≤ x.gen ∧ x.cfg = e.cfg := by
    intro x hx
    rcases List.mem_append.mp hx with hx | hx
    · rcases List.mem_append.mp hx with hx | hx
      · exact ⟨x, List.mem_append_left _ hx, rfl, Nat.le_refl _, rfl⟩
      · obtain ⟨e, he, rfl⟩ := List.mem_map.mp hx
        exact ⟨e, List.mem_append_right _ (List.mem_filter.mp he).1, rfl, Nat.le_succ _, rfl⟩
    · exact ⟨x, List.mem_append_right _ (List.mem_filter.mp hx).1, rfl, Nat.le_refl _, rfl⟩
  constructor
  · rw [names_add _ _ _ (fun e => { e with p := {}, gen := e.gen + 1 }) (fun e => rfl)]
    have := hI.nodup
    rw [List.map_append] at this
    exact (List.Perm.append (List.Perm.refl _) ((List.filter_append_perm _ d).map _)).nodup_iff.mpr this
  · intro x hx
    rcases List.mem_append.mp hx with hx | hx
    · exact hI.inv x hx
    · obtain ⟨e, he, rfl⟩ := List.mem_map.mp hx
      exact Proc.inv_init
  · intro x hx hz
    rcases List.mem_append.mp hx with hx | hx
    · exact hI.hist x hx hz
    · obtain ⟨e, he, rfl⟩ := List.mem_map.mp hx
      exact absurd rfl hz
  · intro k n g hl x hx hxn hxg
    rcases List.mem_append.mp hx with hx | hx
    · exact hI.conv k n g hl x hx hxn hxg
    · obtain ⟨e, he, rfl⟩ := List.mem_map.mp hx
      have := hI.gens k n g hl e (List.mem_append_right _ (List.mem_filter.mp he).1) hxn
      simp only at hxg
      omega
  · intro k n g hl x hx hxn
    obtain ⟨e, he, h1, h2, _⟩ := hmem x hx
    exact Nat.le_trans (hI.gens k n g hl e he (h1 ▸ hxn)) h2
  · exact hI.nz
  · exact hI.keys
  · intro x hx
    obtain ⟨e, he, _, _, h3⟩ := hmem x hx
    rw [h3]; exact hI.cfgok e he

/-- `remove_process_group`: the group's members become dormant -/
theorem sinv_removeGroup {ps d : List PE} {h : PidHist} (hI : SInvC ps d h) (gid : Nat) :
    SInvC (ps.filter (·.gid != gid)) (d ++ (ps.filter (·.gid == gid)).map (fun e => { e with p := {} })) h := by
  have hmem : ∀ x ∈ ps.filter (·.gid != gid) ++ (d ++ (ps.filter (·.gid == gid)).map (fun e => { e with p := {} })),
      ∃ e ∈ ps ++ d, x.name = e.name ∧ x.gen = e.gen ∧ x.cfg = e.cfg := by
    intro x hx
    rcases List.mem_append.mp hx with hx | hx
    · exact ⟨x, List.mem_append_left _ (List.mem_filter.mp hx).1, rfl, rfl, rfl⟩
    · rcases List.mem_append.mp hx with hx | hx
      · exact ⟨x, List.mem_append_right _ hx, rfl, rfl, rfl⟩
      · obtain ⟨e, he, rfl⟩ := List.mem_map.mp hx
        exact ⟨e, List.mem_append_left _ (List.mem_filter.mp he).1, rfl, rfl, rfl⟩
  have hsub : ∀ x ∈ ps.filter (·.gid != gid), x ∈ ps := fun x hx => (List.mem_filter.mp hx).1
  constructor
  · rw [names_rm _ _ _ (fun e => { e with p := {} }) (fun e => rfl)]
    have := hI.nodup
    rw [List.map_append] at this
    refine (List.Perm.nodup_iff ?_).mpr this
    have h1 : List.Perm ((ps.filter (·.gid == gid)).map (·.name) ++ (ps.filter (fun x => !(x.gid == gid))).map (·.name)) (ps.map (·.name)) := by
      rw [← List.map_append]; exact (List.filter_append_perm _ ps).map _
    refine List.Perm.trans List.perm_append_comm ?_
    rw [List.append_assoc]
    exact List.Perm.trans (List.Perm.append (List.Perm.refl _) h1) List.perm_append_comm
  · intro x hx; exact hI.inv x (hsub x hx)
  · intro x hx; exact hI.hist x (hsub x hx)
  · intro k n g hl x hx; exact hI.conv k n g hl x (hsub x hx)
  · intro k n g hl x hx hxn
    obtain ⟨e, he, h1, h2, _⟩ := hmem x hx
    rw [h2]; exact hI.gens k n g hl e he (h1 ▸ hxn)
  · exact hI.nz
  · exact hI.keys
  · intro x hx
    obtain ⟨e, he, _, _, h3⟩ := hmem x hx
    rw [h3]; exact hI.cfgok e he

end Sv.Sup
