import SupervisorModel.Model.Envelope
import SupervisorModel.Model.Tick
import SupervisorModel.Model.Notify
import SupervisorModel.Generated.Events
import SupervisorModel.Lemmas.PoolLedger
/-
  C11 — event notifications tell the truth.  Property theorems only.
  Models: `Sv.Envelope` (header, registry, payload formatters) and `Sv.Tick`; both interpret
  tables/guards regenerated from /repo on every run (`Sv.Gen.Envelope`, `Sv.Gen.EventNames`,
  `Sv.Gen.Tick`); `Sv.Notify` (what is announced and when: group additions/removals, the output
  flushed while a child is reaped, state changes) interprets the statement sequences of `Sv.Gen.Notify`.
-/
set_option linter.unusedSimpArgs false
namespace Sv.Props.C11
open Sv Sv.Envelope Sv.Gen.Envelope Sv.Gen.EventNames

/-- **eventname_concrete**: every concrete event class (a class of supervisor/events.py that
    has no subclass there) is registered under exactly one name, and `getEventNameByType`
    returns that name.  Decided over the whole regenerated registry. -/
theorem eventname_concrete :
    ∀ c ∈ concrete,
      (registry.filter fun e => e.2 == c).length = 1 ∧
      ∃ nm, getEventNameByType c = some nm ∧ (nm, c) ∈ registry := by
  decide

/-- registered names are distinct (a name identifies one type) -/
theorem registry_names_distinct : (registry.map (·.1)).Nodup := by decide

/-! ### the documented type names

  `eventname_concrete` is relative to the registry regenerated from supervisor/events.py.  The statement's "the
  concrete event type's name" is a name of docs/events.rst: the table `Sv.Gen.Events.documented` is regenerated from
  the documentation ("``T`` Event Type" sections with their "*Subtype Of*" lines), independently of the classes. -/

/-- the types docs/events.rst documents and gives no subtype: the concrete types a notification can carry -/
def documentedConcrete : List String :=
  (Sv.Gen.Events.documented.map (·.1)).filter fun n => !(Sv.Gen.Events.documented.any fun e => e.2 == some n)

/-- the names in `EventTypes` are exactly the documented type names -/
theorem registry_names_are_the_documented_ones :
    (registry.all fun e => (Sv.Gen.Events.documented.map (·.1)).contains e.1) = true ∧
    (Sv.Gen.Events.documented.all fun e => (registry.map (·.1)).contains e.1) = true := by decide

/-- **eventname_documented**: the `eventname` of every concrete event class is a type name docs/events.rst documents,
    and one it documents as concrete (no other type is a "*Subtype Of*" it) -/
theorem eventname_documented :
    ∀ c ∈ concrete, ∃ nm, getEventNameByType c = some nm ∧ nm ∈ documentedConcrete := by
  decide

/-- ... and every documented concrete type is the name of exactly one concrete class -/
theorem documented_concrete_all_named :
    (documentedConcrete.all fun n => (concrete.filter fun c => getEventNameByType c == some n).length == 1) = true := by
  decide

/-! ### one notification per event and pool: a rejection concerns the rejecting listener's pool only -/

/-- **rejection_renotifies_own_pool_only**: when a listener gives an event back (FAIL answer, protocol violation,
    death while BUSY -> `EventRejectedEvent`), every pool is told, but only the pool that owns that listener's process
    object puts the event back in its queue; every other pool -- whether it is subscribed to the event's type (and
    has been, or will be, notified of it once) or not subscribed at all, and whatever its listeners are *named* -- is
    left exactly as it was, so it sends no second notification of that event and no notification of a type it did
    not ask for.  (`Pool.Static`: distinct pool names, every listener its own process object.) -/
theorem rejection_renotifies_own_pool_only (w : Pool.W) (hs : Pool.Static w) (pi li e : Nat) (p : Pool.PoolSt)
    (hp : w.pools[pi]? = some p) (hli : li < p.procs.length) (j : Nat) (hj : j ≠ pi) :
    (Pool.rejected (Pool.whoOf w pi li) e w).pools[j]? = w.pools[j]? :=
  Pool.rejected_other _ e w j (fun q hq => (hs.owner pi li p hp hli).2 j hj q hq)

/-- the hypotheses are met by two pools whose listeners have the same names -/
example : Pool.Static { pools := Pool.assignIds 0 (
    [{ name := "alpha", bufSize := 3, subs := [Sv.Gen.Events.Cls.PROCESS_GROUP], procs := [Listener.initial, Listener.initial],
       names := ["listener_00", "listener_01"] },
     { name := "beta", bufSize := 3, subs := [Sv.Gen.Events.Cls.TICK_60], procs := [Listener.initial, Listener.initial],
       names := ["listener_00", "listener_01"] }] : List Pool.PoolSt) } :=
  Pool.static_assignIds _ (by decide)

/-! ### len -/

theorem utf8_ascii_length (t : Text) (h : ∀ c ∈ t, c < 128) : (utf8 t).length = t.length := by
  induction t with
  | nil => rfl
  | cons c r ih =>
    have hc : c < 128 := h c (List.mem_cons_self ..)
    have hr := ih (fun x hx => h x (List.mem_cons_of_mem _ hx))
    simp only [utf8, List.flatMap_cons, List.length_append, List.length_cons] at hr ⊢
    rw [hr]
    have : utf8Cp c = [UInt8.ofNat c] := by
      unfold utf8Cp
      have : c < 0x80 := hc
      simp [this]
    rw [this]
    simp
    omega

/-- the value sent in the `len` field is the decimal rendering of the number of *characters* of
    the payload -/
theorem len_field_value (i : Inp) : fieldValue i "len" = some (dec i.payload.length) := by
  simp [fieldValue, fields, List.lookup, srcValue]

/-- **len_ascii_partial** — full statement (FALSE, open finding F2): "len is the exact number
    of payload bytes that follow", i.e. `fieldValue i "len" = some (dec (utf8 i.payload).length)`
    for every payload.  Proved here under the hypothesis that the payload is ASCII; the
    missing part is every payload with a code point ≥ 128. -/
theorem len_ascii_partial (i : Inp) (h : ∀ c ∈ i.payload, c < 128) :
    fieldValue i "len" = some (dec (utf8 i.payload).length) := by
  rw [len_field_value, utf8_ascii_length _ h]

/-- counterexample to the unrestricted statement (F2): payload "é" is announced as `len:1`
    and two bytes follow. -/
theorem len_not_byte_length :
    ∃ i : Inp, fieldValue i "len" ≠ some (dec (utf8 i.payload).length) :=
  ⟨⟨[], 0, [], 0, [], [233]⟩, by decide⟩

/-- a non-ASCII code point always takes more than one byte, so the defect is exactly the
    non-ASCII payloads -/
theorem utf8Cp_nonascii_longer (c : Nat) (h : 128 ≤ c) : 2 ≤ (utf8Cp c).length := by
  unfold utf8Cp
  have : ¬ c < 0x80 := by omega
  simp only [this, if_false]
  split
  · simp
  · split <;> simp

example : (utf8 [233, 8364, 128512]).length = 9 := by decide

/-! ### the header: what a listener parses is what was sent -/

theorem splitFirst_append (sep : Nat) (a b : Text) (h : sep ∉ a) :
    splitFirst sep (a ++ sep :: b) = some (a, b) := by
  induction a with
  | nil => simp [splitFirst]
  | cons c r ih =>
    have hc : c ≠ sep := fun e => h (e ▸ List.mem_cons_self ..)
    have hr : sep ∉ r := fun m => h (List.mem_cons_of_mem _ m)
    simp [splitFirst, hc, ih hr]

theorem splitOn_nosep (sep : Nat) (a : Text) (h : sep ∉ a) : splitOn sep a = [a] := by
  induction a with
  | nil => rfl
  | cons c r ih =>
    have hc : c ≠ sep := fun e => h (e ▸ List.mem_cons_self ..)
    have hr : sep ∉ r := fun m => h (List.mem_cons_of_mem _ m)
    simp [splitOn, hc, ih hr]

theorem splitOn_append (sep : Nat) (a b : Text) (h : sep ∉ a) :
    splitOn sep (a ++ sep :: b) = a :: splitOn sep b := by
  induction a with
  | nil => simp [splitOn]
  | cons c r ih =>
    have hc : c ≠ sep := fun e => h (e ▸ List.mem_cons_self ..)
    have hr : sep ∉ r := fun m => h (List.mem_cons_of_mem _ m)
    simp [splitOn, hc, ih hr]

/-- keys free of space, colon and newline; values free of space and newline (values may contain
    colons: the listener splits at the *first* colon) -/
def Good (p : Text × Text) : Prop :=
  32 ∉ p.1 ∧ 58 ∉ p.1 ∧ 10 ∉ p.1 ∧ 32 ∉ p.2 ∧ 10 ∉ p.2

theorem tok_free (p : Text × Text) (h : Good p) : 32 ∉ tok p ∧ 10 ∉ tok p := by
  obtain ⟨a, _, c, d, e⟩ := h
  simp [tok, a, c, d, e]

theorem render_free (ps : List (Text × Text)) (h : ∀ p ∈ ps, Good p) : 10 ∉ renderPairs ps := by
  induction ps with
  | nil => simp [renderPairs]
  | cons p r ih =>
    have hp := tok_free p (h p (List.mem_cons_self ..))
    have hr := ih (fun x hx => h x (List.mem_cons_of_mem _ hx))
    cases r with
    | nil => simpa [renderPairs] using hp.2
    | cons q r' =>
      simp only [renderPairs, List.mem_append, List.mem_cons, not_or]
      exact ⟨hp.2, by decide, hr⟩

theorem splitOn_render (ps : List (Text × Text)) (hne : ps ≠ []) (h : ∀ p ∈ ps, Good p) :
    splitOn 32 (renderPairs ps) = ps.map tok := by
  induction ps with
  | nil => exact absurd rfl hne
  | cons p r ih =>
    have hp := tok_free p (h p (List.mem_cons_self ..))
    cases r with
    | nil => simp [renderPairs, splitOn_nosep _ _ hp.1]
    | cons q r' =>
      have := ih (by simp) (fun x hx => h x (List.mem_cons_of_mem _ hx))
      simp only [renderPairs, List.map_cons] at this ⊢
      rw [splitOn_append _ _ _ hp.1, this]

theorem parsePairs_tok (ps : List (Text × Text)) (h : ∀ p ∈ ps, Good p) :
    parsePairs (ps.map tok) = some ps := by
  induction ps with
  | nil => rfl
  | cons p r ih =>
    have hp := h p (List.mem_cons_self ..)
    have hr := ih (fun x hx => h x (List.mem_cons_of_mem _ hx))
    simp only [List.map_cons, parsePairs, tok, splitFirst_append 58 p.1 p.2 hp.2.1, hr]

/-- **header_roundtrip** (general form): a header line rendered from any non-empty list of
    key/value pairs whose keys contain no space, colon or newline and whose values contain no
    space or newline, followed by a newline and any payload, is parsed by the reference
    listener ("up to the first newline; split on spaces; split each token at its first colon")
    into exactly those pairs, in order, and exactly that payload. -/
theorem header_roundtrip (ps : List (Text × Text)) (hne : ps ≠ []) (h : ∀ p ∈ ps, Good p) (body : Text) :
    parseEnvelope (renderPairs ps ++ 10 :: body) = some (ps, body) := by
  unfold parseEnvelope
  rw [splitFirst_append 10 _ _ (render_free ps h)]
  simp only [splitOn_render ps hne h, parsePairs_tok ps h]

theorem decAux_digits (f n : Nat) : ∀ d ∈ decAux f n, 48 ≤ d ∧ d ≤ 57 := by
  induction f generalizing n with
  | zero => simp [decAux]
  | succ f ih =>
    intro d hd
    unfold decAux at hd
    split at hd
    · simp at hd; omega
    · simp only [List.mem_append, List.mem_singleton] at hd
      rcases hd with hd | hd
      · exact ih _ d hd
      · omega

theorem dec_free (n : Nat) : 32 ∉ dec n ∧ 58 ∉ dec n ∧ 10 ∉ dec n := by
  refine ⟨?_, ?_, ?_⟩ <;> intro h <;> have := decAux_digits _ _ _ h <;> omega

/-- the seven header pairs `_eventEnvelope` sends, in order -/
def sentPairs (i : Inp) : List (Text × Text) :=
  [(ofString "ver", ofString "3.0"), (ofString "server", i.identifier), (ofString "serial", dec i.serial),
   (ofString "pool", i.poolName), (ofString "poolserial", dec i.poolSerial),
   (ofString "eventname", i.eventName), (ofString "len", dec i.payload.length)]

theorem envelope_eq (i : Inp) : envelope i = some (renderPairs (sentPairs i) ++ 10 :: i.payload) := by
  simp [envelope, headerPairs, headerTokens, pairsOf, fieldValue, fields, List.lookup, srcValue, bodyField, sentPairs]

/-- **header_roundtrip** for `_eventEnvelope`: when the supervisor identifier, the pool name and
    the event name contain no space or newline, the listener obtains exactly the keys ver,
    server, serial, pool, poolserial, eventname, len — in this order, each once — with the values
    sent, and the payload is exactly what follows the first newline. -/
theorem envelope_roundtrip (i : Inp)
    (h1 : 32 ∉ i.identifier ∧ 10 ∉ i.identifier) (h2 : 32 ∉ i.poolName ∧ 10 ∉ i.poolName)
    (h3 : 32 ∉ i.eventName ∧ 10 ∉ i.eventName) :
    ∃ t, envelope i = some t ∧ parseEnvelope t = some (sentPairs i, i.payload) := by
  refine ⟨_, envelope_eq i, ?_⟩
  apply header_roundtrip _ (by simp [sentPairs])
  intro p hp
  simp only [sentPairs, List.mem_cons, List.mem_nil_iff, or_false] at hp
  have d1 := dec_free i.serial
  have d2 := dec_free i.poolSerial
  have d3 := dec_free i.payload.length
  rcases hp with rfl | rfl | rfl | rfl | rfl | rfl | rfl
  · exact ⟨by decide, by decide, by decide, by decide, by decide⟩
  · exact ⟨by show _ ∉ ofString _; decide, by show _ ∉ ofString _; decide, by show _ ∉ ofString _; decide, h1.1, h1.2⟩
  · exact ⟨by show _ ∉ ofString _; decide, by show _ ∉ ofString _; decide, by show _ ∉ ofString _; decide, d1.1, d1.2.2⟩
  · exact ⟨by show _ ∉ ofString _; decide, by show _ ∉ ofString _; decide, by show _ ∉ ofString _; decide, h2.1, h2.2⟩
  · exact ⟨by show _ ∉ ofString _; decide, by show _ ∉ ofString _; decide, by show _ ∉ ofString _; decide, d2.1, d2.2.2⟩
  · exact ⟨by show _ ∉ ofString _; decide, by show _ ∉ ofString _; decide, by show _ ∉ ofString _; decide, h3.1, h3.2⟩
  · exact ⟨by show _ ∉ ofString _; decide, by show _ ∉ ofString _; decide, by show _ ∉ ofString _; decide, d3.1, d3.2.2⟩

-- non-vacuity
example : parseEnvelope (renderPairs [([118], [51]), ([108], [58, 49])] ++ 10 :: [120, 32, 10]) =
    some ([([118], [51]), ([108], [58, 49])], [120, 32, 10]) := by decide

/-! ### payloads: fields and their order -/

/-- PROCESS_STATE_EXITED: processname, groupname, from_state, expected, pid — in this order,
    with the values the event object was given when it was created -/
theorem exited_payload (i : PSInp) :
    processStatePayload ["ProcessStateExitedEvent", "ProcessStateEvent", "Event"] i =
      some (joinItems [(ofString "processname", i.processname), (ofString "groupname", i.groupname),
        (ofString "from_state", i.fromState), (ofString "expected", if i.expected then [49] else [48]),
        (ofString "pid", decInt i.pid)]) := by
  simp [processStatePayload, extraOf, extraValues, List.lookup, processStateLead, psItems, psValue]

/-- PROCESS_STATE_STARTING / BACKOFF: …, tries -/
theorem starting_payload (i : PSInp) :
    processStatePayload ["ProcessStateStartingEvent", "ProcessStateStartingOrBackoffEvent", "ProcessStateEvent", "Event"] i =
      some (joinItems [(ofString "processname", i.processname), (ofString "groupname", i.groupname),
        (ofString "from_state", i.fromState), (ofString "tries", decInt i.tries)]) := by
  simp [processStatePayload, extraOf, extraValues, List.lookup, processStateLead, psItems, psValue]

/-- PROCESS_STATE_RUNNING (likewise STOPPING, STOPPED): …, pid -/
theorem running_payload (i : PSInp) :
    processStatePayload ["ProcessStateRunningEvent", "ProcessStateEvent", "Event"] i =
      some (joinItems [(ofString "processname", i.processname), (ofString "groupname", i.groupname),
        (ofString "from_state", i.fromState), (ofString "pid", decInt i.pid)]) := by
  simp [processStatePayload, extraOf, extraValues, List.lookup, processStateLead, psItems, psValue]

/-- PROCESS_STATE_FATAL / UNKNOWN: the three leading fields only -/
theorem fatal_payload (i : PSInp) :
    processStatePayload ["ProcessStateFatalEvent", "ProcessStateEvent", "Event"] i =
      some (joinItems [(ofString "processname", i.processname), (ofString "groupname", i.groupname),
        (ofString "from_state", i.fromState)]) := by
  simp [processStatePayload, extraOf, extraValues, List.lookup, processStateLead, psItems, psValue]

/-! ### payloads of the other notifications: content, line by line -/

/-- PROCESS_GROUP_ADDED / PROCESS_GROUP_REMOVED: one line `groupname:<the group's name>` -/
theorem group_payload (g : Text) :
    fmtS (ofString processGroupTemplate) [g] = some (ofString "groupname:" ++ g ++ [10]) := by
  rfl

/-- SUPERVISOR_STATE_CHANGE_RUNNING / _STOPPING: the payload is empty (the event name says it all) -/
theorem supervisor_state_payload : ofString supervisorStatePayload = [] := by decide

/-- TICK_*: `when:<seconds>` -/
theorem tick_payload (w : Text) : fmtS (ofString tickTemplate) [w] = some (ofString "when:" ++ w) := by
  have : fmtS (ofString tickTemplate) [w] = some (ofString "when:" ++ (w ++ [])) := rfl
  simpa using this

/-- REMOTE_COMMUNICATION: first line `type:<type>`, then the data, unchanged -/
theorem remote_payload (t d : Text) :
    fmtS (ofString remoteCommTemplate) [t, d] = some (ofString "type:" ++ t ++ 10 :: d) := by
  have : fmtS (ofString remoteCommTemplate) [t, d] = some (ofString "type:" ++ t ++ 10 :: (d ++ [])) := rfl
  simpa using this

/-- **remote one-to-one**: one call of `sendRemoteCommEvent(type, data)` raises exactly one
    REMOTE_COMMUNICATION notification, whose payload carries exactly that type and that data
    (for every type and data, also multi-line and non-ASCII) -/
theorem send_remote_comm (t d : Text) :
    sendRemoteComm t d = some [ofString "type:" ++ t ++ 10 :: d] := by
  have : sendRemoteComm t d = some [ofString "type:" ++ t ++ 10 :: (d ++ [])] := rfl
  simpa using this

/-- PROCESS_LOG_STDOUT / _STDERR: header line processname, groupname, pid, channel — in this
    order — then a newline, then the data, unchanged -/
theorem process_log_payload (name group pid channel data : Text) :
    fmtS (ofString processLogTemplate) [name, group, pid, channel, data] =
      some (renderPairs [(ofString "processname", name), (ofString "groupname", group),
        (ofString "pid", pid), (ofString "channel", channel)] ++ 10 :: data) := by
  have ht : ofString processLogTemplate = [112, 114, 111, 99, 101, 115, 115, 110, 97, 109, 101, 58, 37, 115, 32, 103, 114, 111, 117, 112, 110, 97, 109, 101, 58, 37, 115, 32, 112, 105, 100, 58, 37, 115, 32, 99, 104, 97, 110, 110, 101, 108, 58, 37, 115, 10, 37, 115] := by decide
  have k1 : ofString "processname" = [112, 114, 111, 99, 101, 115, 115, 110, 97, 109, 101] := by decide
  have k2 : ofString "groupname" = [103, 114, 111, 117, 112, 110, 97, 109, 101] := by decide
  have k3 : ofString "pid" = [112, 105, 100] := by decide
  have k4 : ofString "channel" = [99, 104, 97, 110, 110, 101, 108] := by decide
  rw [ht, k1, k2, k3, k4]
  simp [fmtS, renderPairs, tok]

/-- PROCESS_COMMUNICATION_STDOUT / _STDERR: header line processname, groupname, pid, then the
    captured data, unchanged -/
theorem process_comm_payload (name group pid data : Text) :
    fmtS (ofString processCommTemplate) [name, group, pid, data] =
      some (renderPairs [(ofString "processname", name), (ofString "groupname", group),
        (ofString "pid", pid)] ++ 10 :: data) := by
  have ht : ofString processCommTemplate = [112, 114, 111, 99, 101, 115, 115, 110, 97, 109, 101, 58, 37, 115, 32, 103, 114, 111, 117, 112, 110, 97, 109, 101, 58, 37, 115, 32, 112, 105, 100, 58, 37, 115, 10, 37, 115] := by decide
  have k1 : ofString "processname" = [112, 114, 111, 99, 101, 115, 115, 110, 97, 109, 101] := by decide
  have k2 : ofString "groupname" = [103, 114, 111, 117, 112, 110, 97, 109, 101] := by decide
  have k3 : ofString "pid" = [112, 105, 100] := by decide
  rw [ht, k1, k2, k3]
  simp [fmtS, renderPairs, tok]

/-- what a listener parses out of a PROCESS_LOG payload is what was announced: for process and
    group names free of spaces and newlines, the reference parser returns exactly the four
    header fields with the sent values and exactly the logged data (any data: further newlines,
    colons, look-alike headers) -/
theorem process_log_roundtrip (name group channel data : Text) (pid : Nat)
    (h1 : 32 ∉ name ∧ 10 ∉ name) (h2 : 32 ∉ group ∧ 10 ∉ group) (h3 : 32 ∉ channel ∧ 10 ∉ channel) :
    ∃ p, fmtS (ofString processLogTemplate) [name, group, dec pid, channel, data] = some p ∧
      parseEnvelope p = some ([(ofString "processname", name), (ofString "groupname", group),
        (ofString "pid", dec pid), (ofString "channel", channel)], data) := by
  refine ⟨_, process_log_payload name group (dec pid) channel data, ?_⟩
  apply header_roundtrip _ (by simp)
  intro p hp
  simp only [List.mem_cons, List.mem_nil_iff, or_false] at hp
  have d := dec_free pid
  rcases hp with rfl | rfl | rfl | rfl
  · exact ⟨by show _ ∉ ofString _; decide, by show _ ∉ ofString _; decide, by show _ ∉ ofString _; decide, h1.1, h1.2⟩
  · exact ⟨by show _ ∉ ofString _; decide, by show _ ∉ ofString _; decide, by show _ ∉ ofString _; decide, h2.1, h2.2⟩
  · exact ⟨by show _ ∉ ofString _; decide, by show _ ∉ ofString _; decide, by show _ ∉ ofString _; decide, d.1, d.2.2⟩
  · exact ⟨by show _ ∉ ofString _; decide, by show _ ∉ ofString _; decide, by show _ ∉ ofString _; decide, h3.1, h3.2⟩

/-! ### ticks -/
section ticks
open Sv.Tick Sv.Gen.Tick

theorem filterMap_congr' {α β : Type} (f g : α → Option β) (l : List α) (h : ∀ x ∈ l, f x = g x) :
    l.filterMap f = l.filterMap g := by
  induction l with
  | nil => rfl
  | cons a r ih =>
    have ha := h a (List.mem_cons_self ..)
    have hr := ih (fun x hx => h x (List.mem_cons_of_mem _ hx))
    simp only [List.filterMap_cons, ha, hr]

theorem tickPeriod_spec (p now : Int) (last : Option Int) :
    (tickPeriod p now last).1 = some (timeslice p now) ∧
    (tickPeriod p now last).2 =
      (match last with
       | none => none
       | some l => if timeslice p now ≠ l then some (timeslice p now) else none) := by
  cases last with
  | none => simp [tickPeriod, tick_g1, tick_g2]
  | some l =>
    by_cases h : timeslice p now = l
    · simp [tickPeriod, tick_g1, tick_g2, h]
    · simp [tickPeriod, tick_g1, tick_g2, h]

/-- what one pass announces for a list of (class, period) pairs, given the dict before -/
def announced (now : Int) (t : Ticks) (L : List (Nat × Int)) : List Ev :=
  L.filterMap fun e => ((tickPeriod e.2 now (t.get e.2)).2).map fun w => ⟨e.1, e.2, w⟩

theorem tickLoop_spec (now : Int) (L : List (Nat × Int)) (hL : (L.map (·.2)).Nodup) :
    ∀ (t : Ticks) (out : List Ev),
      (tickLoop now L t out).2 = out ++ announced now t L ∧
      ∀ q, (tickLoop now L t out).1.get q =
        if q ∈ L.map (·.2) then (tickPeriod q now (t.get q)).1 else t.get q := by
  induction L with
  | nil => intro t out; simp [tickLoop, announced]
  | cons e r ih =>
    intro t out
    obtain ⟨cls, p⟩ := e
    simp only [List.map_cons, List.nodup_cons] at hL
    obtain ⟨hp, hr⟩ := hL
    have key : ∀ q ∈ r.map (·.2), q ≠ p := fun q hq h => hp (h ▸ hq)
    simp only [tickLoop]
    obtain ⟨h1, h2⟩ := ih hr ⟨fun q => if q = p then (tickPeriod p now (t.get p)).1 else t.get q⟩
      (match (tickPeriod p now (t.get p)).2 with
       | some w => out ++ [⟨cls, p, w⟩]
       | none => out)
    refine ⟨?_, ?_⟩
    · refine h1.trans ?_
      have hann : announced now ⟨fun q => if q = p then (tickPeriod p now (t.get p)).1 else t.get q⟩ r
          = announced now t r := by
        unfold announced
        apply filterMap_congr'
        intro e he
        have : e.2 ≠ p := key e.2 (List.mem_map_of_mem he)
        simp [this]
      rw [hann]
      cases hw : (tickPeriod p now (t.get p)).2 with
      | none => simp [announced, hw]
      | some w => simp [announced, hw]
    · intro q
      refine (h2 q).trans ?_
      by_cases hq : q = p
      · subst hq
        have : q ∉ r.map (·.2) := hp
        simp [this]
      · by_cases hqr : q ∈ r.map (·.2)
        · simp [hq, hqr]
        · simp [hq, hqr]

/-- the start of the time slice of `p` seconds containing the clock reading -/
abbrev slice (p now : Int) : Int := timeslice p now

/-- what the property demands of a pass at reading `now` following a pass at reading `prev` -/
def expected (prev now : Int) : List Ev :=
  tickEvents.filterMap fun e =>
    if slice e.2 now ≠ slice e.2 prev then some ⟨e.1, e.2, slice e.2 now⟩ else none

def expectedRun : Int → List Int → List (List Ev)
  | _, [] => []
  | prev, now :: r => expected prev now :: expectedRun now r

theorem tickEvents_nodup : (tickEvents.map (·.2)).Nodup := by decide

theorem tick_pass (now : Int) (t : Ticks) :
    (tick now t).2 = announced now t tickEvents ∧
    ∀ p ∈ tickEvents.map (·.2), (tick now t).1.get p = some (slice p now) := by
  obtain ⟨h1, h2⟩ := tickLoop_spec now tickEvents tickEvents_nodup t []
  refine ⟨by simpa [tick] using h1, ?_⟩
  intro p hp
  have := h2 p
  simp only [hp, if_true] at this
  rw [tick, this]
  exact (tickPeriod_spec p now _).1

theorem runFrom_exact (prev : Int) (clock : List Int) :
    ∀ t : Ticks, (∀ p ∈ tickEvents.map (·.2), t.get p = some (slice p prev)) →
      Tick.runFrom t clock = expectedRun prev clock := by
  induction clock generalizing prev with
  | nil => intro t _; rfl
  | cons now r ih =>
    intro t ht
    obtain ⟨h1, h2⟩ := tick_pass now t
    simp only [Tick.runFrom, expectedRun]
    rw [ih now _ h2, h1]
    congr 1
    unfold announced expected
    apply filterMap_congr'
    intro e he
    have hp : e.2 ∈ tickEvents.map (·.2) := List.mem_map_of_mem he
    rw [(tickPeriod_spec e.2 now _).2, ht e.2 hp]
    by_cases h : slice e.2 now = slice e.2 prev
    · simp [h]
    · simp [h]

/-- **tick_exact**: for every sequence of clock readings t₀ t₁ … (irregular, skipping several
    slices, going backwards, repeating), the first pass announces nothing and pass i announces
    TICK_p exactly for the periods p whose time slice at tᵢ differs from the one at tᵢ₋₁, in
    the order of TICK_EVENTS, with `when` = the start of the new slice. -/
theorem tick_exact (t0 : Int) (clock : List Int) :
    Tick.run (t0 :: clock) = [] :: expectedRun t0 clock := by
  have h0 := tick_pass t0 ⟨fun _ => none⟩
  simp only [Tick.run, Tick.runFrom]
  rw [runFrom_exact t0 clock _ h0.2, h0.1]
  congr 1
  unfold announced
  apply List.filterMap_eq_nil_iff.mpr
  intro e _
  rw [(tickPeriod_spec e.2 t0 none).2]
  rfl

/-- **the slice in seconds**: `timeslice p t` — computed by the code as
    `int(when - when % period)` — is `p * ⌊t / (1024·p)⌋`, the start in whole seconds of the
    `p`-second slice containing the clock reading of `t` ticks (any reading, also negative; the
    periods of TICK_EVENTS are positive: `tickEvents_periods_positive`) -/
theorem slice_seconds (p t : Int) : slice p t = p * (t / (1024 * p)) := by
  unfold slice timeslice
  have h1 : t - t.emod (1024 * p) = 1024 * (p * (t / (1024 * p))) := by
    have := Int.mul_ediv_add_emod t (1024 * p)
    rw [← Int.mul_assoc]
    show t - t % (1024 * p) = _
    omega
  rw [h1]
  exact Int.mul_tdiv_cancel_left _ (by decide)

theorem tickEvents_periods_positive : ∀ e ∈ tickEvents, 0 < e.2 := by decide

/-- every announced tick says `when` = the start of the new slice, in seconds, and names the
    class registered for its period -/
theorem expected_when_seconds (prev now : Int) :
    ∀ e ∈ expected prev now, e.when_ = e.period * (now / (1024 * e.period)) ∧ (e.cls, e.period) ∈ tickEvents := by
  intro e he
  unfold expected at he
  rw [List.mem_filterMap] at he
  obtain ⟨x, hx, hxe⟩ := he
  split at hxe
  · injection hxe with hxe
    subst hxe
    exact ⟨slice_seconds _ _, hx⟩
  · simp at hxe

-- non-vacuity: a clock that skips, repeats and goes backwards
example : Tick.run [0, 5119, 5120, 5120, 1024 * 61, 1024 * 3] =
    [[], [], [⟨25, 5, 5⟩], [], [⟨25, 5, 60⟩, ⟨26, 60, 60⟩], [⟨25, 5, 0⟩, ⟨26, 60, 0⟩]] := by decide

end ticks

/-! ### what is announced, and when -/
section notify
open Sv.Notify Sv.Gen.Notify

/-- once a result is set (return or exception) the remaining statements do nothing -/
theorem run_done (g : String) (fault : Option String) (u : Bool) (L : List Step) (s : G)
    (h : s.res.isSome = true) : run g fault u L s = s := by
  induction L with
  | nil => rfl
  | cons st r ih =>
    have : step g fault u s st = s := by simp [step, h]
    simp only [run, List.foldl_cons, this] at ih ⊢
    exact ih

theorem run_cons (g : String) (fault : Option String) (u : Bool) (st : Step) (L : List Step) (s : G) :
    run g fault u (st :: L) s = run g fault u L (step g fault u s st) := rfl

/-- how far an operation has got -/
inductive Phase | untouched | changed | announced
deriving DecidableEq

def addedNote (g : String) : Note := ⟨"ProcessGroupAddedEvent", g, true⟩
def removedNote (g : String) : Note := ⟨"ProcessGroupRemovedEvent", g, false⟩

/-- the statement order that keeps PROCESS_GROUP_ADDED truthful -/
def okAdd : Phase → List Step → Bool
  | .changed, [] => false
  | _, [] => true
  | .untouched, .call _ :: r => okAdd .untouched r
  | .announced, .call _ :: r => okAdd .announced r
  | .untouched, .insertMade _ :: r => okAdd .changed r
  | .changed, .notify cls :: r => cls == "ProcessGroupAddedEvent" && okAdd .announced r
  | .untouched, .ret b :: _ => !b
  | .announced, .ret b :: _ => b
  | _, _ => false

def AddRel (gs : List String) (g : String) : Phase → G → Prop
  | .untouched, s => s = ⟨gs, [], none⟩
  | .changed, s => s = ⟨gs ++ [g], [], none⟩
  | .announced, s => s = ⟨gs ++ [g], [addedNote g], none⟩

def AddGood (gs : List String) (g : String) (s : G) : Prop :=
  (s.notes = [addedNote g] ∧ s.groups = gs ++ [g] ∧ s.res ≠ some (.ret false)) ∨
  (s.notes = [] ∧ s.groups = gs ∧ s.res ≠ some (.ret true))

theorem okAdd_sound (gs : List String) (g : String) (fault : Option String) (u : Bool) (hg : g ∉ gs) :
    ∀ (L : List Step) (ph : Phase) (s : G), okAdd ph L = true → AddRel gs g ph s →
      AddGood gs g (run g fault u L s) := by
  intro L
  induction L with
  | nil =>
    intro ph s hok hrel
    cases ph <;> simp [okAdd] at hok <;> simp [AddRel] at hrel <;> subst hrel <;> simp [run, AddGood]
  | cons st r ih =>
    intro ph s hok hrel
    rw [run_cons]
    cases ph <;> cases st <;> simp [okAdd] at hok <;> simp [AddRel] at hrel <;> subst hrel
    · -- untouched, call
      rename_i f
      by_cases hf : fault = some f
      · have : step g fault u ⟨gs, [], none⟩ (.call f) = ⟨gs, [], some (.raised f)⟩ := by simp [step, hf]
        rw [this, run_done _ _ _ _ _ (by simp)]
        simp [AddGood]
      · have : step g fault u ⟨gs, [], none⟩ (.call f) = ⟨gs, [], none⟩ := by simp [step, hf]
        rw [this]
        exact ih .untouched _ hok rfl
    · -- untouched, insertMade
      rename_i f
      by_cases hf : fault = some f
      · have : step g fault u ⟨gs, [], none⟩ (.insertMade f) = ⟨gs, [], some (.raised f)⟩ := by simp [step, hf]
        rw [this, run_done _ _ _ _ _ (by simp)]
        simp [AddGood]
      · have : step g fault u ⟨gs, [], none⟩ (.insertMade f) = ⟨gs ++ [g], [], none⟩ := by simp [step, hf, hg]
        rw [this]
        exact ih .changed _ hok rfl
    · -- untouched, ret false
      subst hok
      have : step g fault u ⟨gs, [], none⟩ (.ret false) = ⟨gs, [], some (.ret false)⟩ := by simp [step]
      rw [this, run_done _ _ _ _ _ (by simp)]
      simp [AddGood]
    · -- changed, notify
      obtain ⟨hc, hok⟩ := hok
      subst hc
      have : step g fault u ⟨gs ++ [g], [], none⟩ (.notify "ProcessGroupAddedEvent") = ⟨gs ++ [g], [addedNote g], none⟩ := by
        simp [step, addedNote]
      rw [this]
      exact ih .announced _ hok rfl
    · -- announced, call
      rename_i f
      by_cases hf : fault = some f
      · have : step g fault u ⟨gs ++ [g], [addedNote g], none⟩ (.call f) = ⟨gs ++ [g], [addedNote g], some (.raised f)⟩ := by simp [step, hf]
        rw [this, run_done _ _ _ _ _ (by simp)]
        simp [AddGood]
      · have : step g fault u ⟨gs ++ [g], [addedNote g], none⟩ (.call f) = ⟨gs ++ [g], [addedNote g], none⟩ := by simp [step, hf]
        rw [this]
        exact ih .announced _ hok rfl
    · -- announced, ret true
      subst hok
      have : step g fault u ⟨gs ++ [g], [addedNote g], none⟩ (.ret true) = ⟨gs ++ [g], [addedNote g], some (.ret true)⟩ := by simp [step]
      rw [this, run_done _ _ _ _ _ (by simp)]
      simp [AddGood]

/-- statements that change nothing and announce nothing (the name is already in the table) -/
def okNoop : List Step → Bool
  | [] => true
  | .call _ :: r => okNoop r
  | .ret b :: _ => !b
  | _ => false

theorem okNoop_sound (gs : List String) (g : String) (fault : Option String) (u : Bool) :
    ∀ (L : List Step), okNoop L = true →
      (run g fault u L ⟨gs, [], none⟩).notes = [] ∧ (run g fault u L ⟨gs, [], none⟩).groups = gs ∧
      (run g fault u L ⟨gs, [], none⟩).res ≠ some (.ret true) := by
  intro L
  induction L with
  | nil => intro _; simp [run]
  | cons st r ih =>
    intro hok
    rw [run_cons]
    cases st <;> simp [okNoop] at hok
    · rename_i f
      by_cases hf : fault = some f
      · have : step g fault u ⟨gs, [], none⟩ (.call f) = ⟨gs, [], some (.raised f)⟩ := by simp [step, hf]
        rw [this, run_done _ _ _ _ _ (by simp)]
        simp
      · have : step g fault u ⟨gs, [], none⟩ (.call f) = ⟨gs, [], none⟩ := by simp [step, hf]
        rw [this]
        exact ih hok
    · subst hok
      have : step g fault u ⟨gs, [], none⟩ (.ret false) = ⟨gs, [], some (.ret false)⟩ := by simp [step]
      rw [this, run_done _ _ _ _ _ (by simp)]
      simp

/-- the statement order that keeps PROCESS_GROUP_REMOVED truthful -/
def okRem : Phase → List Step → Bool
  | .changed, [] => false
  | _, [] => true
  | .untouched, .retIfUnstopped b :: r => !b && okRem .untouched r
  | .untouched, .call _ :: r => okRem .untouched r
  | .announced, .call _ :: r => okRem .announced r
  | .untouched, .delete :: r => okRem .changed r
  | .changed, .notify cls :: r => cls == "ProcessGroupRemovedEvent" && okRem .announced r
  | .untouched, .ret b :: _ => !b
  | .announced, .ret b :: _ => b
  | _, _ => false

def RemRel (gs : List String) (g : String) : Phase → G → Prop
  | .untouched, s => s = ⟨gs, [], none⟩
  | .changed, s => g ∈ gs ∧ s = ⟨gs.filter (· ≠ g), [], none⟩
  | .announced, s => g ∈ gs ∧ s = ⟨gs.filter (· ≠ g), [removedNote g], none⟩

def RemGood (gs : List String) (g : String) (s : G) : Prop :=
  (s.notes = [removedNote g] ∧ g ∈ gs ∧ s.groups = gs.filter (· ≠ g) ∧ s.res ≠ some (.ret false)) ∨
  (s.notes = [] ∧ s.groups = gs ∧ s.res ≠ some (.ret true))

theorem okRem_sound (gs : List String) (g : String) (fault : Option String) (u : Bool) :
    ∀ (L : List Step) (ph : Phase) (s : G), okRem ph L = true → RemRel gs g ph s →
      RemGood gs g (run g fault u L s) := by
  intro L
  induction L with
  | nil =>
    intro ph s hok hrel
    cases ph <;> simp [okRem] at hok <;> simp [RemRel] at hrel
    · subst hrel; simp [run, RemGood]
    · obtain ⟨hm, hrel⟩ := hrel; subst hrel; simp [run, RemGood, hm]
  | cons st r ih =>
    intro ph s hok hrel
    rw [run_cons]
    cases ph <;> cases st <;> simp [okRem] at hok <;> simp only [RemRel] at hrel
    · -- untouched, call
      rename_i f
      subst hrel
      by_cases hf : fault = some f
      · have : step g fault u ⟨gs, [], none⟩ (.call f) = ⟨gs, [], some (.raised f)⟩ := by simp [step, hf]
        rw [this, run_done _ _ _ _ _ (by simp)]
        simp [RemGood]
      · have : step g fault u ⟨gs, [], none⟩ (.call f) = ⟨gs, [], none⟩ := by simp [step, hf]
        rw [this]
        exact ih .untouched _ hok rfl
    · -- untouched, delete
      subst hrel
      by_cases hm : g ∈ gs
      · have : step g fault u ⟨gs, [], none⟩ .delete = ⟨gs.filter (· ≠ g), [], none⟩ := by simp [step, hm]
        rw [this]
        exact ih .changed _ hok ⟨hm, rfl⟩
      · have : step g fault u ⟨gs, [], none⟩ .delete = ⟨gs, [], some (.raised "KeyError")⟩ := by simp [step, hm]
        rw [this, run_done _ _ _ _ _ (by simp)]
        simp [RemGood]
    · -- untouched, ret false
      subst hrel; subst hok
      have : step g fault u ⟨gs, [], none⟩ (.ret false) = ⟨gs, [], some (.ret false)⟩ := by simp [step]
      rw [this, run_done _ _ _ _ _ (by simp)]
      simp [RemGood]
    · -- untouched, retIfUnstopped false
      subst hrel
      obtain ⟨hb, hok⟩ := hok
      subst hb
      by_cases hm : g ∈ gs
      · cases u
        · have : step g fault false ⟨gs, [], none⟩ (.retIfUnstopped false) = ⟨gs, [], none⟩ := by simp [step, hm]
          rw [this]
          exact ih .untouched _ hok rfl
        · have : step g fault true ⟨gs, [], none⟩ (.retIfUnstopped false) = ⟨gs, [], some (.ret false)⟩ := by simp [step, hm]
          rw [this, run_done _ _ _ _ _ (by simp)]
          simp [RemGood]
      · have : step g fault u ⟨gs, [], none⟩ (.retIfUnstopped false) = ⟨gs, [], some (.raised "KeyError")⟩ := by simp [step, hm]
        rw [this, run_done _ _ _ _ _ (by simp)]
        simp [RemGood]
    · -- changed, notify
      obtain ⟨hc, hok⟩ := hok
      obtain ⟨hm, hrel⟩ := hrel
      subst hc; subst hrel
      have : step g fault u ⟨gs.filter (· ≠ g), [], none⟩ (.notify "ProcessGroupRemovedEvent") = ⟨gs.filter (· ≠ g), [removedNote g], none⟩ := by
        simp [step, removedNote]
      rw [this]
      exact ih .announced _ hok ⟨hm, rfl⟩
    · -- announced, call
      rename_i f
      obtain ⟨hm, hrel⟩ := hrel
      subst hrel
      by_cases hf : fault = some f
      · have : step g fault u ⟨gs.filter (· ≠ g), [removedNote g], none⟩ (.call f) = ⟨gs.filter (· ≠ g), [removedNote g], some (.raised f)⟩ := by simp [step, hf]
        rw [this, run_done _ _ _ _ _ (by simp)]
        simp [RemGood, hm]
      · have : step g fault u ⟨gs.filter (· ≠ g), [removedNote g], none⟩ (.call f) = ⟨gs.filter (· ≠ g), [removedNote g], none⟩ := by simp [step, hf]
        rw [this]
        exact ih .announced _ hok ⟨hm, rfl⟩
    · -- announced, ret true
      obtain ⟨hm, hrel⟩ := hrel
      subst hrel; subst hok
      have : step g fault u ⟨gs.filter (· ≠ g), [removedNote g], none⟩ (.ret true) = ⟨gs.filter (· ≠ g), [removedNote g], some (.ret true)⟩ := by simp [step]
      rw [this, run_done _ _ _ _ _ (by simp)]
      simp [RemGood, hm]

/-- the regenerated statement sequences are in a truthful order (decided on the generated lists) -/
theorem add_order_ok : okAdd .untouched addWhenAbsent = true ∧ okNoop addWhenPresent = true := by decide
theorem remove_order_ok : okRem .untouched removeSteps = true := by decide

/-- **PROCESS_GROUP_ADDED is truthful**: for every table, every group name and every point at which
    `add_process_group` can fail (an exception out of `after_setuid`, `make_group`, or any other call it
    makes): either exactly one PROCESS_GROUP_ADDED notification naming the group was raised, the group was not
    in the table before, is in it at the moment of the notification and afterwards, and the call did not answer
    False -- or no notification was raised, the table is unchanged and the call did not answer True. -/
theorem add_truthful (gs : List String) (g : String) (fault : Option String) :
    ((addGroup gs g fault).notes = [⟨"ProcessGroupAddedEvent", g, true⟩] ∧ g ∉ gs ∧
        (addGroup gs g fault).groups = gs ++ [g] ∧ (addGroup gs g fault).res ≠ some (.ret false)) ∨
    ((addGroup gs g fault).notes = [] ∧ (addGroup gs g fault).groups = gs ∧
        (addGroup gs g fault).res ≠ some (.ret true)) := by
  unfold addGroup
  by_cases hg : g ∈ gs
  · right
    rw [if_pos hg]
    exact okNoop_sound gs g fault false _ add_order_ok.2
  · rw [if_neg hg]
    rcases okAdd_sound gs g fault false hg _ .untouched _ add_order_ok.1 rfl with h | h
    · left; exact ⟨h.1, hg, h.2.1, h.2.2⟩
    · right; exact h

/-- **PROCESS_GROUP_REMOVED is truthful**: either exactly one PROCESS_GROUP_REMOVED notification naming the group
    was raised, the group was in the table before, is no longer in it at the moment of the notification nor
    afterwards, and the call did not answer False -- or no notification was raised, the table is unchanged and
    the call did not answer True (processes still running, unknown name, exception out of `before_remove`). -/
theorem remove_truthful (gs : List String) (g : String) (unstopped : Bool) (fault : Option String) :
    ((removeGroup gs g unstopped fault).notes = [⟨"ProcessGroupRemovedEvent", g, false⟩] ∧ g ∈ gs ∧
        (removeGroup gs g unstopped fault).groups = gs.filter (· ≠ g) ∧
        (removeGroup gs g unstopped fault).res ≠ some (.ret false)) ∨
    ((removeGroup gs g unstopped fault).notes = [] ∧ (removeGroup gs g unstopped fault).groups = gs ∧
        (removeGroup gs g unstopped fault).res ≠ some (.ret true)) :=
  okRem_sound gs g fault unstopped _ .untouched _ remove_order_ok rfl

/-- **whatever the RPC method answers, the notifications are truthful**: `addProcessGroup` answers True exactly when
    `add_process_group` returned True, and then exactly one PROCESS_GROUP_ADDED was raised for a group that is now in the
    table; for every other answer -- a fault (ALREADY_ADDED, or the fault the method raises for an exception class it
    catches around the call: regenerated table `rpcAddCaught`) or an exception that escapes -- either nothing was announced
    and the table is unchanged, or the addition was done and announced once.  For every exception class. -/
theorem rpc_add_truthful (gs : List String) (g : String) (fault : Option String) (cls : List String) :
    ((rpcAdd gs g fault cls).2 = .ok →
      (rpcAdd gs g fault cls).1.notes = [⟨"ProcessGroupAddedEvent", g, true⟩] ∧ g ∉ gs ∧ (rpcAdd gs g fault cls).1.groups = gs ++ [g]) ∧
    (((rpcAdd gs g fault cls).1.notes = [⟨"ProcessGroupAddedEvent", g, true⟩] ∧ (rpcAdd gs g fault cls).1.groups = gs ++ [g]) ∨
     ((rpcAdd gs g fault cls).1.notes = [] ∧ (rpcAdd gs g fault cls).1.groups = gs)) := by
  have h := add_truthful gs g fault
  have hok : (rpcAdd gs g fault cls).2 = .ok → (addGroup gs g fault).res = some (.ret true) := by
    intro ha
    simp only [rpcAdd] at ha
    cases hr : (addGroup gs g fault).res with
    | none => rw [hr] at ha; simp [answerOf] at ha
    | some r =>
      cases r with
      | ret b => cases b <;> simp_all [answerOf]
      | raised w => rw [hr] at ha; simp only [answerOf] at ha; split at ha <;> simp at ha
  refine ⟨?_, ?_⟩
  · intro ha
    rcases h with h | h
    · exact ⟨h.1, h.2.1, h.2.2.1⟩
    · exact absurd (hok ha) h.2.2
  · rcases h with h | h
    · left; exact ⟨h.1, h.2.2.1⟩
    · right; exact ⟨h.1, h.2.1⟩

theorem rpc_remove_truthful (gs : List String) (g : String) (u : Bool) (fault : Option String) (cls : List String) :
    ((rpcRemove gs g u fault cls).2 = .ok →
      (rpcRemove gs g u fault cls).1.notes = [⟨"ProcessGroupRemovedEvent", g, false⟩] ∧ g ∈ gs ∧
      (rpcRemove gs g u fault cls).1.groups = gs.filter (· ≠ g)) ∧
    (((rpcRemove gs g u fault cls).1.notes = [⟨"ProcessGroupRemovedEvent", g, false⟩] ∧ (rpcRemove gs g u fault cls).1.groups = gs.filter (· ≠ g)) ∨
     ((rpcRemove gs g u fault cls).1.notes = [] ∧ (rpcRemove gs g u fault cls).1.groups = gs)) := by
  have h := remove_truthful gs g u fault
  have hok : (rpcRemove gs g u fault cls).2 = .ok → (removeGroup gs g u fault).res = some (.ret true) := by
    intro ha
    simp only [rpcRemove] at ha
    cases hr : (removeGroup gs g u fault).res with
    | none => rw [hr] at ha; simp [answerOf] at ha
    | some r =>
      cases r with
      | ret b => cases b <;> simp_all [answerOf]
      | raised w => rw [hr] at ha; simp only [answerOf] at ha; split at ha <;> simp at ha
  refine ⟨?_, ?_⟩
  · intro ha
    rcases h with h | h
    · exact ⟨h.1, h.2.1, h.2.2.1⟩
    · exact absurd (hok ha) h.2.2
  · rcases h with h | h
    · left; exact ⟨h.1, h.2.2.1⟩
    · right; exact ⟨h.1, h.2.1⟩

-- an exception of a class the method catches (here: the first class of the regenerated handler table, and a subclass of it) is
-- answered as the fault raised for it; a class that is not caught escapes; nothing is announced either way
example : ∀ h ∈ rpcAddCaught.head?, (rpcAdd ["a"] "b" (some "make_group") ["SubClass", h.1, "Exception"]).2 = .fault h.2 ∧
    (rpcAdd ["a"] "b" (some "make_group") ["SubClass", h.1, "Exception"]).1.notes = [] := by decide
example : (rpcAdd ["a"] "b" (some "make_group") ["NotCaughtError", "BaseException"]).2 = .escaped "make_group" ∧
    (rpcAdd ["a"] "b" (some "make_group") ["NotCaughtError", "BaseException"]).1.groups = ["a"] := by decide

/-- the successful cases are reachable: an addition without fault and a removal of a stopped group -/
example : (addGroup ["a"] "b" none).notes = [⟨"ProcessGroupAddedEvent", "b", true⟩] ∧ (addGroup ["a"] "b" none).res = some (.ret true) := by decide
example : (addGroup ["a"] "b" (some "make_group")).notes = [] ∧ (addGroup ["a"] "b" (some "make_group")).groups = ["a"] := by decide
example : (removeGroup ["a", "b"] "a" false none).notes = [⟨"ProcessGroupRemovedEvent", "a", false⟩] ∧ (removeGroup ["a", "b"] "a" false none).groups = ["b"] := by decide

theorem believe_append (v : List String) (a b : List Note) : believe v (a ++ b) = believe (believe v a) b := by
  induction a generalizing v with
  | nil => rfl
  | cons n r ih => simp only [List.cons_append, believe, ih]

theorem applyOp_view (gs : List String) (op : Op) : believe gs (applyOp gs op).notes = (applyOp gs op).groups := by
  cases op with
  | add g f =>
    rcases add_truthful gs g f with h | h
    · simp [applyOp, h.1, h.2.1, h.2.2.1, believe]
    · simp [applyOp, h.1, h.2.1, believe]
  | remove g u f =>
    rcases remove_truthful gs g u f with h | h
    · simp [applyOp, h.1, h.2.2.1, believe]
    · simp [applyOp, h.1, h.2.1, believe]

/-- **group notifications and the table are in bijection over every history**: for every history of additions
    and removals (failed additions, retries, refused removals, exceptions at any call included), a subscriber
    that applies the PROCESS_GROUP_ADDED / _REMOVED notifications, in order, to the table it knew at the start
    holds exactly `supervisord.process_groups` at the end -/
theorem group_history_view (ops : List Op) : ∀ gs : List String,
    believe gs (runHist gs ops).2 = (runHist gs ops).1 := by
  induction ops with
  | nil => intro gs; rfl
  | cons op r ih =>
    intro gs
    simp only [runHist, believe_append, applyOp_view, ih]

/-! ### a group is subscribed exactly while it is in the table -/

theorem stepX_g (g : String) (fault : Option String) (u : Bool) (s : GX) (st : Step) :
    (stepX g fault u s st).g = step g fault u s.g st := by
  unfold stepX
  split
  · rename_i h; simp [step, h]
  · cases st <;> simp only [] <;> (try split) <;> (try split) <;> rfl

/-- the extended run does to the table and the notifications exactly what `run` does -/
theorem runX_g (g : String) (fault : Option String) (u : Bool) (L : List Step) (s : GX) :
    (runX g fault u L s).g = run g fault u L s.g := by
  induction L generalizing s with
  | nil => rfl
  | cons st r ih =>
    show (runX g fault u r (stepX g fault u s st)).g = run g fault u r (step g fault u s.g st)
    rw [ih, stepX_g]

theorem runX_done (g : String) (fault : Option String) (u : Bool) (L : List Step) (s : GX)
    (h : s.g.res.isSome = true) : runX g fault u L s = s := by
  induction L with
  | nil => rfl
  | cons st r ih =>
    have : stepX g fault u s st = s := by simp [stepX, h]
    simp only [runX, List.foldl_cons, this] at ih ⊢
    exact ih

theorem runX_cons (g : String) (fault : Option String) (u : Bool) (st : Step) (L : List Step) (s : GX) :
    runX g fault u (st :: L) s = runX g fault u L (stepX g fault u s st) := rfl

/-- the statement order that keeps "subscribed" and "in the table" together: `before_remove` is called only when the
    deletion follows at once (no call that can raise, no early return in between -- a *refused* removal must not have
    unsubscribed the group), and nothing is deleted that has not been unsubscribed.  `pending`: `before_remove` has run,
    the deletion is due. -/
def okLive : Bool → List Step → Bool
  | false, [] => true
  | true, [] => false
  | false, .call f :: r => if f = "before_remove" then okLive true r else okLive false r
  | true, .call _ :: _ => false
  | false, .insertMade _ :: r => okLive false r
  | true, .insertMade _ :: _ => false
  | false, .delete :: _ => false
  | true, .delete :: r => okLive false r
  | p, .notify _ :: r => okLive p r
  | false, .ret _ :: _ => true
  | true, .ret _ :: _ => false
  | false, .retIfUnstopped _ :: r => okLive false r
  | true, .retIfUnstopped _ :: _ => false

def LiveRel (g : String) : Bool → GX → Prop
  | false, s => s.live = s.g.groups
  | true, s => s.live = s.g.groups.filter (· ≠ g) ∧ s.g.res = none

theorem filter_ne_of_not_mem (g : String) (l : List String) (h : g ∉ l) : l.filter (· ≠ g) = l := by
  rw [List.filter_eq_self]
  intro a ha
  simp only [ne_eq, decide_not, Bool.not_eq_eq_eq_not, Bool.not_true, decide_eq_false_iff_not]
  exact fun hh => h (hh ▸ ha)

theorem okLive_sound (g : String) (fault : Option String) (u : Bool) :
    ∀ (L : List Step) (pend : Bool) (s : GX), okLive pend L = true → LiveRel g pend s →
      (runX g fault u L s).live = (runX g fault u L s).g.groups := by
  intro L
  induction L with
  | nil =>
    intro pend s hok hrel
    cases pend <;> simp [okLive] at hok
    exact hrel
  | cons st r ih =>
    intro pend s hok hrel
    rw [runX_cons]
    by_cases hdone : s.g.res.isSome = true
    · have hs : stepX g fault u s st = s := by simp [stepX, hdone]
      rw [hs, runX_done _ _ _ _ _ hdone]
      cases pend
      · exact hrel
      · simp only [LiveRel] at hrel; rw [hrel.2] at hdone; simp at hdone
    · have hnone : s.g.res = none := by cases hr : s.g.res <;> simp_all
      cases pend <;> cases st <;> simp only [okLive] at hok <;> simp only [LiveRel] at hrel
      · -- not pending, call f
        rename_i f
        by_cases hf : fault = some f
        · have hs : stepX g fault u s (.call f) = { s with g := { s.g with res := some (.raised f) } } := by
            simp [stepX, step, hnone, hf]
          rw [hs, runX_done _ _ _ _ _ (by simp)]
          exact hrel
        · by_cases hb : f = "before_remove"
          · subst hb
            simp only [if_true] at hok
            have hs : stepX g fault u s (.call "before_remove") = { g := s.g, live := s.live.filter (· ≠ g) } := by
              simp [stepX, step, hnone, hf]
            rw [hs]
            exact ih true _ hok ⟨by simp [hrel], hnone⟩
          · simp only [hb, if_false] at hok
            have hs : stepX g fault u s (.call f) = s := by
              simp [stepX, step, hnone, hf, hb]
            rw [hs]
            exact ih false _ hok hrel
      · -- not pending, insertMade
        rename_i f
        by_cases hf : fault = some f
        · have hs : stepX g fault u s (.insertMade f) = { s with g := { s.g with res := some (.raised f) } } := by
            simp [stepX, step, hnone, hf]
          rw [hs, runX_done _ _ _ _ _ (by simp)]
          exact hrel
        · have hs : stepX g fault u s (.insertMade f) =
              { g := { s.g with groups := if g ∈ s.g.groups then s.g.groups else s.g.groups ++ [g] },
                live := if g ∈ s.live then s.live else s.live ++ [g] } := by
            simp [stepX, step, hnone, hf]
          rw [hs]
          exact ih false _ hok (by simp [LiveRel, hrel])
      · -- not pending, delete: excluded
        simp at hok
      · -- not pending, notify
        rename_i cls
        have hs : stepX g fault u s (.notify cls) =
            { s with g := { s.g with notes := s.g.notes ++ [⟨cls, g, decide (g ∈ s.g.groups)⟩] } } := by
          simp [stepX, step, hnone]
        rw [hs]
        exact ih false _ hok (by simpa [LiveRel] using hrel)
      · -- not pending, ret
        rename_i b
        have hs : stepX g fault u s (.ret b) = { s with g := { s.g with res := some (.ret b) } } := by
          simp [stepX, step, hnone]
        rw [hs, runX_done _ _ _ _ _ (by simp)]
        exact hrel
      · -- not pending, retIfUnstopped
        rename_i b
        have hs : (stepX g fault u s (.retIfUnstopped b)).live = s.live ∧
            (stepX g fault u s (.retIfUnstopped b)).g.groups = s.g.groups := by
          simp only [stepX, hnone, Option.isSome_none, Bool.false_eq_true, if_false, step]
          split <;> (try split) <;> simp
        by_cases hd2 : (stepX g fault u s (.retIfUnstopped b)).g.res.isSome = true
        · rw [runX_done _ _ _ _ _ hd2, hs.1, hs.2]; exact hrel
        · exact ih false _ hok (by simp only [LiveRel]; rw [hs.1, hs.2]; exact hrel)
      · simp at hok
      · simp at hok
      · -- pending, delete
        by_cases hm : g ∈ s.g.groups
        · have hs : stepX g fault u s .delete = { s with g := { s.g with groups := s.g.groups.filter (· ≠ g) } } := by
            simp [stepX, step, hnone, hm]
          rw [hs]
          exact ih false _ hok (by simp only [LiveRel]; exact hrel.1)
        · have hs : stepX g fault u s .delete = { s with g := { s.g with res := some (.raised "KeyError") } } := by
            simp [stepX, step, hnone, hm]
          rw [hs, runX_done _ _ _ _ _ (by simp)]
          simp only []
          rw [hrel.1, filter_ne_of_not_mem g _ hm]
      · -- pending, notify
        rename_i cls
        have hs : stepX g fault u s (.notify cls) =
            { s with g := { s.g with notes := s.g.notes ++ [⟨cls, g, decide (g ∈ s.g.groups)⟩] } } := by
          simp [stepX, step, hnone]
        rw [hs]
        exact ih true _ hok ⟨hrel.1, hnone⟩
      · simp at hok
      · simp at hok

/-- the regenerated statement sequences keep subscription and table together (decided on the generated lists) -/
theorem live_order_ok :
    okLive false addWhenAbsent = true ∧ okLive false addWhenPresent = true ∧ okLive false removeSteps = true := by decide

/-- **subscribed_while_in_table** (one call): if before the call the live groups are exactly the groups in the table,
    they are afterwards -- for an addition at every fault point, for a removal whether it goes through, is *refused*
    because a process is still running (then nothing is unsubscribed: a refused call changes nothing), or fails in
    `before_remove`. -/
theorem add_keeps_subscriptions (gs : List String) (g : String) (fault : Option String) :
    (addGroupX gs gs g fault).live = (addGroupX gs gs g fault).g.groups ∧
    (addGroupX gs gs g fault).g = addGroup gs g fault := by
  unfold addGroupX addGroup
  split
  · exact ⟨okLive_sound g fault false _ false _ live_order_ok.2.1 rfl, runX_g _ _ _ _ _⟩
  · exact ⟨okLive_sound g fault false _ false _ live_order_ok.1 rfl, runX_g _ _ _ _ _⟩

theorem remove_keeps_subscriptions (gs : List String) (g : String) (unstopped : Bool) (fault : Option String) :
    (removeGroupX gs gs g unstopped fault).live = (removeGroupX gs gs g unstopped fault).g.groups ∧
    (removeGroupX gs gs g unstopped fault).g = removeGroup gs g unstopped fault :=
  ⟨okLive_sound g fault unstopped _ false _ live_order_ok.2.2 rfl, runX_g _ _ _ _ _⟩

/-- **a refused removal changes nothing**: when `remove_process_group` answers False (a process of the group is not
    stopped) the table, the live groups (the pool's subscriptions) and the notifications are what they were -/
theorem refused_removal_changes_nothing (gs : List String) (g : String) (fault : Option String)
    (h : (removeGroup gs g true fault).res = some (.ret false)) :
    (removeGroupX gs gs g true fault).live = gs ∧ (removeGroup gs g true fault).groups = gs ∧
    (removeGroup gs g true fault).notes = [] := by
  have h1 := remove_keeps_subscriptions gs g true fault
  rcases remove_truthful gs g true fault with h2 | h2
  · exact absurd h h2.2.2.2
  · rw [h1.1, h1.2]; exact ⟨h2.2.1, h2.2.1, h2.1⟩

/-- the refusal is reachable, and then the pool "b" is still live -/
example : (removeGroup ["a", "b"] "b" true none).res = some (.ret false) ∧
    (removeGroupX ["a", "b"] ["a", "b"] "b" true none).live = ["a", "b"] := by decide

/-- a history of calls, with the live groups threaded through like the table -/
def runHistX : List String → List String → List Op → List String × List String
  | gs, live, [] => (gs, live)
  | gs, live, .add g f :: r => runHistX (addGroupX gs live g f).g.groups (addGroupX gs live g f).live r
  | gs, live, .remove g u f :: r => runHistX (removeGroupX gs live g u f).g.groups (removeGroupX gs live g u f).live r

/-- **subscribed_while_in_table** (every history of additions and removals, every fault point, refused removals and
    retries included): at the end the live groups are exactly the groups in `supervisord.process_groups` -- a listener
    pool is subscribed exactly while it is in the table -/
theorem group_history_subscriptions (ops : List Op) : ∀ gs : List String,
    (runHistX gs gs ops).2 = (runHistX gs gs ops).1 := by
  induction ops with
  | nil => intro gs; rfl
  | cons op r ih =>
    intro gs
    cases op with
    | add g f =>
      simp only [runHistX]
      rw [(add_keeps_subscriptions gs g f).1]
      exact ih _
    | remove g u f =>
      simp only [runHistX]
      rw [(remove_keeps_subscriptions gs g u f).1]
      exact ih _

/-! ### output notifications while a child is reaped -/

/-- every output event the dispatcher raises is created with the process's current pid, and the event classes
    keep the pid they were given (decided over the regenerated tables) -/
theorem output_events_carry_process_pid :
    (∀ s ∈ outputEventSites, s.2.2.1 = "self.process" ∧ s.2.2.2 = "self.process.pid") ∧
    processLogEventCtorParams = ["process", "pid", "data"] ∧ ("pid", "pid") ∈ processLogEventCtorBinds ∧
    processCommunicationEventCtorParams = ["process", "pid", "data"] ∧ ("pid", "pid") ∈ processCommunicationEventCtorBinds ∧
    Sv.Gen.Envelope.processLogArgs[2]? = some "self.pid" ∧ Sv.Gen.Envelope.processCommArgs[2]? = some "self.pid" := by
  decide

/-- **output is announced with the writer's pid, before the exit**: for every dispatcher configuration and state,
    every pending pipe content and every pid, `Subprocess.finish` raises: first the notifications for what `drain()`
    reads, then those for the output still held back for token matching (`record_output(eof=True)`), every one of
    them carrying the pid of the child being reaped; then (if the exit is announced at all) the PROCESS_STATE
    notification, with the same pid; only then is `self.pid` reset and are the dispatchers discarded. -/
theorem finish_truthful (c : OutDisp.Cfg) (pending : Bytes) (announce : Bool) (pid : Int) (d : OutDisp.S) :
    let dr := drainD c pending { d with outs := [] }
    let fl := flushD c { dr with outs := [] }
    (finish c pending announce ⟨pid, some d, []⟩).notes =
        (dr.outs ++ fl.outs).filterMap (stamp pid) ++ (if announce then [.state pid] else []) ∧
    (finish c pending announce ⟨pid, some d, []⟩).pid = 0 ∧
    (finish c pending announce ⟨pid, some d, []⟩).disp = none := by
  cases announce <;> simp [finish, finishSteps, fstep, withDisp, List.filterMap_append]

/-- every notification of a reaping names the reaped child's pid, and no output notification follows the state one -/
def fpid : FNote → Int
  | .plog p _ _ => p
  | .comm p _ => p
  | .state p => p

theorem finish_pids (c : OutDisp.Cfg) (pending : Bytes) (announce : Bool) (pid : Int) (d : OutDisp.S) :
    ∀ n ∈ (finish c pending announce ⟨pid, some d, []⟩).notes, fpid n = pid := by
  intro n hn
  rw [(finish_truthful c pending announce pid d).1] at hn
  simp only [List.mem_append, List.mem_filterMap] at hn
  rcases hn with ⟨o, _, ho⟩ | hn
  · cases o <;> simp [stamp] at ho <;> subst ho <;> rfl
  · cases announce <;> simp at hn
    subst hn; rfl

-- non-vacuity: capture and events on; "bye" arrives with the reaping read, is held back for token matching, and is
-- announced by the flush with the child's pid before the exit
example : (finish ⟨10, true, false, true, true, false, Sv.Gen.OutDisp.stdout_BEGIN, Sv.Gen.OutDisp.stdout_END, false⟩
    [98, 121, 101] true ⟨4242, some OutDisp.init, []⟩).notes = [.plog 4242 true [98, 121, 101], .state 4242] := by decide

/-! ### PROCESS_STATE notifications carry the values at the moment of the change -/

/-- **one notification per change, with the values at the change**: `change_state(new)` on a process in another
    state raises exactly one notification (when the new state has an event class): it names the state left, and its
    `tries` is the retry counter *after* the increment made on entering BACKOFF, its pid the pid at that moment; a
    "change" to the current state raises nothing and changes nothing. -/
theorem change_state_truthful (p : PS) (new : Int) (expected : Bool) (bc : Int) :
    (new ≠ p.state →
      (changeState p new expected true bc).notes =
        [⟨p.state, new, p.backoff + (if new = bc then 1 else 0), p.pid, expected⟩] ∧
      (changeState p new expected true bc).p.state = new) ∧
    (new ≠ p.state → (changeState p new expected false bc).notes = []) ∧
    (new = p.state → ∀ hc, (changeState p new expected hc bc).notes = [] ∧ (changeState p new expected hc bc).p = p) := by
  refine ⟨?_, ?_, ?_⟩
  · intro h
    by_cases hb : new = bc
    · subst hb; simp [changeState, changeStateSteps, cstep, h]
    · simp [changeState, changeStateSteps, cstep, h, hb]
  · intro h
    by_cases hb : new = bc
    · subst hb; simp [changeState, changeStateSteps, cstep, h]
    · simp [changeState, changeStateSteps, cstep, h, hb]
  · intro h hc
    simp [changeState, changeStateSteps, cstep, h]

example : (changeState ⟨10, 2, 0⟩ 30 true true 30).notes = [⟨10, 30, 3, 0, true⟩] := by decide
end notify

end Sv.Props.C11
