-- stub: replaced by the property author
namespace Sv.Props.C01
end Sv.Props.C01
