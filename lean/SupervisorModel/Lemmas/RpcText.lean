import SupervisorModel.Model.RpcText
/-
  The strict UTF-8 decoder of Model/RpcText.lean (`bytes.decode('utf-8')`) undoes the encoder
  (`as_bytes` / `str.encode('utf-8')`): `decodeUtf8 (utf8Of t) = some t` for every text.
  Used by Props/C12.lean (the request body a client encodes is the text `continue_request` gets).
-/
namespace Sv.Rpc

/-- the decoder between two characters -/
def idle (out : List Char) : Dec := { out := out, need := 0, acc := 0, lo := 0x80, hi := 0xBF }

theorem run_cons (d : Dec) (b : UInt8) (bs : Bytes) : Dec.run (some d) (b :: bs) = Dec.run (d.step b) bs := rfl

def utf8Nat (n : Nat) : Bytes :=
  if n < 0x80 then [UInt8.ofNat n]
  else if n < 0x800 then [UInt8.ofNat (0xC0 + n / 64), UInt8.ofNat (0x80 + n % 64)]
  else if n < 0x10000 then
    [UInt8.ofNat (0xE0 + n / 4096), UInt8.ofNat (0x80 + n / 64 % 64), UInt8.ofNat (0x80 + n % 64)]
  else
    [UInt8.ofNat (0xF0 + n / 262144), UInt8.ofNat (0x80 + n / 4096 % 64), UInt8.ofNat (0x80 + n / 64 % 64),
     UInt8.ofNat (0x80 + n % 64)]

theorem utf8Char_eq (c : Char) : utf8Char c = utf8Nat c.toNat := rfl

theorem toNat_ofNat_small (k : Nat) (h : k < 256) : (UInt8.ofNat k).toNat = k := by
  rw [UInt8.toNat_ofNat']; omega

theorem run1 (out : List Char) (rest : Bytes) (b0 : UInt8) (h : b0.toNat < 0x80) :
    Dec.run (some (idle out)) (b0 :: rest) = Dec.run (some (idle (out ++ [Char.ofNat b0.toNat]))) rest := by
  simp [run_cons, Dec.step, idle, h]

theorem run2 (out : List Char) (rest : Bytes) (b0 b1 : UInt8)
    (h0 : 0xC2 ≤ b0.toNat ∧ b0.toNat < 0xE0) (h1 : 0x80 ≤ b1.toNat ∧ b1.toNat ≤ 0xBF) :
    Dec.run (some (idle out)) (b0 :: b1 :: rest) =
      Dec.run (some (idle (out ++ [Char.ofNat ((b0.toNat - 0xC0) * 64 + (b1.toNat - 0x80))]))) rest := by
  have a1 : ¬ b0.toNat < 0x80 := by omega
  have a2 : ¬ b0.toNat < 0xC2 := by omega
  simp [run_cons, Dec.step, idle, a1, a2, h0.2, h1.1, h1.2]

theorem run3 (out : List Char) (rest : Bytes) (b0 b1 b2 : UInt8)
    (h0 : 0xE0 ≤ b0.toNat ∧ b0.toNat < 0xF0)
    (h1 : (if b0.toNat = 0xE0 then 0xA0 else 0x80) ≤ b1.toNat ∧ b1.toNat ≤ (if b0.toNat = 0xED then 0x9F else 0xBF))
    (h2 : 0x80 ≤ b2.toNat ∧ b2.toNat ≤ 0xBF) :
    Dec.run (some (idle out)) (b0 :: b1 :: b2 :: rest) =
      Dec.run (some (idle (out ++ [Char.ofNat (((b0.toNat - 0xE0) * 64 + (b1.toNat - 0x80)) * 64 + (b2.toNat - 0x80))]))) rest := by
  have a1 : ¬ b0.toNat < 0x80 := by omega
  have a2 : ¬ b0.toNat < 0xC2 := by omega
  have a3 : ¬ b0.toNat < 0xE0 := by omega
  simp [run_cons, Dec.step, idle, a1, a2, a3, h0.2, h1.1, h1.2, h2.1, h2.2]

theorem run4 (out : List Char) (rest : Bytes) (b0 b1 b2 b3 : UInt8)
    (h0 : 0xF0 ≤ b0.toNat ∧ b0.toNat < 0xF5)
    (h1 : (if b0.toNat = 0xF0 then 0x90 else 0x80) ≤ b1.toNat ∧ b1.toNat ≤ (if b0.toNat = 0xF4 then 0x8F else 0xBF))
    (h2 : 0x80 ≤ b2.toNat ∧ b2.toNat ≤ 0xBF) (h3 : 0x80 ≤ b3.toNat ∧ b3.toNat ≤ 0xBF) :
    Dec.run (some (idle out)) (b0 :: b1 :: b2 :: b3 :: rest) =
      Dec.run (some (idle (out ++ [Char.ofNat ((((b0.toNat - 0xF0) * 64 + (b1.toNat - 0x80)) * 64 + (b2.toNat - 0x80)) * 64 + (b3.toNat - 0x80))]))) rest := by
  have a1 : ¬ b0.toNat < 0x80 := by omega
  have a2 : ¬ b0.toNat < 0xC2 := by omega
  have a3 : ¬ b0.toNat < 0xE0 := by omega
  have a4 : ¬ b0.toNat < 0xF0 := by omega
  simp [run_cons, Dec.step, idle, a1, a2, a3, a4, h0.2, h1.1, h1.2, h2.1, h2.2, h3.1, h3.2]


theorem run_nat (out : List Char) (n : Nat) (hv : n < 0xD800 ∨ (0xDFFF < n ∧ n < 0x110000)) (rest : Bytes) :
    Dec.run (some (idle out)) (utf8Nat n ++ rest) = Dec.run (some (idle (out ++ [Char.ofNat n]))) rest := by
  unfold utf8Nat
  split
  · have e : (UInt8.ofNat n).toNat = n := toNat_ofNat_small _ (by omega)
    have := run1 out rest (UInt8.ofNat n) (by omega)
    rw [e] at this
    simpa using this
  · split
    · have e0 : (UInt8.ofNat (0xC0 + n / 64)).toNat = 0xC0 + n / 64 := toNat_ofNat_small _ (by omega)
      have e1 : (UInt8.ofNat (0x80 + n % 64)).toNat = 0x80 + n % 64 := toNat_ofNat_small _ (by omega)
      have := run2 out rest (UInt8.ofNat (0xC0 + n / 64)) (UInt8.ofNat (0x80 + n % 64)) (by omega) (by omega)
      rw [e0, e1, show (0xC0 + n / 64 - 0xC0) * 64 + (0x80 + n % 64 - 0x80) = n by omega] at this
      simpa using this
    · split
      · have e0 : (UInt8.ofNat (0xE0 + n / 4096)).toNat = 0xE0 + n / 4096 := toNat_ofNat_small _ (by omega)
        have e1 : (UInt8.ofNat (0x80 + n / 64 % 64)).toNat = 0x80 + n / 64 % 64 := toNat_ofNat_small _ (by omega)
        have e2 : (UInt8.ofNat (0x80 + n % 64)).toNat = 0x80 + n % 64 := toNat_ofNat_small _ (by omega)
        have := run3 out rest (UInt8.ofNat (0xE0 + n / 4096)) (UInt8.ofNat (0x80 + n / 64 % 64)) (UInt8.ofNat (0x80 + n % 64))
          (by omega) (by rw [e0, e1]; split <;> split <;> omega) (by omega)
        rw [e0, e1, e2, show ((0xE0 + n / 4096 - 0xE0) * 64 + (0x80 + n / 64 % 64 - 0x80)) * 64 + (0x80 + n % 64 - 0x80) = n by omega] at this
        simpa using this
      · have e0 : (UInt8.ofNat (0xF0 + n / 262144)).toNat = 0xF0 + n / 262144 := toNat_ofNat_small _ (by omega)
        have e1 : (UInt8.ofNat (0x80 + n / 4096 % 64)).toNat = 0x80 + n / 4096 % 64 := toNat_ofNat_small _ (by omega)
        have e2 : (UInt8.ofNat (0x80 + n / 64 % 64)).toNat = 0x80 + n / 64 % 64 := toNat_ofNat_small _ (by omega)
        have e3 : (UInt8.ofNat (0x80 + n % 64)).toNat = 0x80 + n % 64 := toNat_ofNat_small _ (by omega)
        have := run4 out rest (UInt8.ofNat (0xF0 + n / 262144)) (UInt8.ofNat (0x80 + n / 4096 % 64)) (UInt8.ofNat (0x80 + n / 64 % 64)) (UInt8.ofNat (0x80 + n % 64))
          (by omega) (by rw [e0, e1]; split <;> split <;> omega) (by omega) (by omega)
        rw [e0, e1, e2, e3, show (((0xF0 + n / 262144 - 0xF0) * 64 + (0x80 + n / 4096 % 64 - 0x80)) * 64 + (0x80 + n / 64 % 64 - 0x80)) * 64 + (0x80 + n % 64 - 0x80) = n by omega] at this
        simpa using this

theorem run_utf8Of (t : List Char) (out : List Char) (rest : Bytes) :
    Dec.run (some (idle out)) (utf8Of t ++ rest) = Dec.run (some (idle (out ++ t))) rest := by
  induction t generalizing out with
  | nil => simp [utf8Of]
  | cons c r ih =>
    have h := run_nat out c.toNat c.valid (utf8Of r ++ rest)
    rw [Char.ofNat_toNat] at h
    have e : utf8Of (c :: r) ++ rest = utf8Nat c.toNat ++ (utf8Of r ++ rest) := by
      simp [utf8Of, utf8Char_eq]
    rw [e, h, ih]
    simp

/-- decoding what `as_bytes` encoded gives the text back -/
theorem decodeUtf8_utf8Of (t : List Char) : decodeUtf8 (utf8Of t) = some t := by
  have h := run_utf8Of t [] []
  simp only [List.append_nil, List.nil_append] at h
  unfold decodeUtf8
  rw [show Dec.init = idle [] from rfl, h]
  rfl

end Sv.Rpc
