"""
Shared by C07 and C08: drives the real supervisor.dispatchers.POutputDispatcher (real Subprocess,
real ProcessConfig, real loggers writing to a real file / BoundIO; fake only the options object's
`readfd`), produces canonical lines from observables, an independent reference splitter, and the
token-aware stream / fragmentation generators.
"""
import itertools, os


def hexs(b):
    return b.hex() if b else '-'


class Seam:
    """the `options` object: only what POutputDispatcher / Subprocess touch; system calls are the seam"""
    def __init__(self, strip_ansi=False, loglevel=20):
        from supervisor import loggers
        self._loggers = loggers
        self.strip_ansi = strip_ansi
        self.loglevel = loglevel           # INFO: child output is not copied to the main log
        self.logger = loggers.getLogger()  # real Logger without handlers: main-log wording is not an observable
        self.pending = {}                  # fd -> list of chunks the kernel will hand out
        self.identifier = 'supervisor'
        self.pidhistory = {}

    def getLogger(self, *a, **kw):
        return self._loggers.getLogger(*a, **kw)

    def readfd(self, fd):
        q = self.pending.get(fd)
        if not q:
            return b''
        return q.pop(0)


def make_pconfig(options, name, **over):
    from supervisor.options import ProcessConfig
    import signal
    params = dict(name=name, uid=None, command='/bin/true', directory=None, umask=None, priority=999,
                  autostart=True, autorestart=True, startsecs=1, startretries=3,
                  stdout_logfile=None, stdout_capture_maxbytes=0, stdout_events_enabled=False, stdout_syslog=False,
                  stdout_logfile_backups=0, stdout_logfile_maxbytes=0,
                  stderr_logfile=None, stderr_capture_maxbytes=0, stderr_logfile_backups=0, stderr_logfile_maxbytes=0,
                  stderr_events_enabled=False, stderr_syslog=False,
                  stopsignal=signal.SIGTERM, stopwaitsecs=10, stopasgroup=False, killasgroup=False,
                  exitcodes=(0,), redirect_stderr=False)
    params.update(over)
    return ProcessConfig(options, **params)


class Cfg:
    """one dispatcher configuration = one `case outdisp` line"""
    __slots__ = ('capture', 'log', 'strip', 'channel', 'oev', 'eev', 'mainlog')

    def __init__(self, capture=0, log=1, strip=0, channel='stdout', oev=0, eev=0, mainlog=0):
        self.capture, self.log, self.strip, self.channel, self.oev, self.eev = capture, log, strip, channel, oev, eev
        self.mainlog = mainlog      # the daemon runs at loglevel=debug: child output is copied to its own log (log_to_mainlog)

    def line(self):
        return 'case outdisp capture=%d log=%d strip=%d channel=%s oev=%d eev=%d' % (
            self.capture, self.log, self.strip, self.channel, self.oev, self.eev) + (' mainlog=1' if self.mainlog else '')

    def events_on(self):
        return self.oev if self.channel == 'stdout' else self.eev

    def json(self):
        return {k: getattr(self, k) for k in self.__slots__}


class Run:
    """one real dispatcher fed chunk by chunk; everything recorded is an observable"""
    PID = 4711

    def __init__(self, cfg, scratch, shared_seen=None, label='', fd=7, pid=None, name='prog'):
        from supervisor import events, dispatchers
        from supervisor.process import Subprocess
        self.cfg = cfg
        self.events_mod = events
        if pid is not None:
            self.PID = pid
        if shared_seen is None:
            events.clear()
            self.seen = []
            events.subscribe(events.Event, self.seen.append)
        else:
            self.seen = shared_seen          # several dispatchers observed through one subscription
        self.opt = Seam(strip_ansi=bool(cfg.strip), loglevel=10 if getattr(cfg, 'mainlog', 0) else 20)     # DEBG / INFO
        self.raised = None
        self.path = os.path.join(scratch, 'child%s-%s.log' % (label, cfg.channel))
        other = os.path.join(scratch, 'child%s-other.log' % label)
        for p in (self.path, other):
            open(p, 'wb').close()
        self.other = other
        ch, och = cfg.channel, ('stderr' if cfg.channel == 'stdout' else 'stdout')
        over = {ch + '_logfile': self.path if cfg.log else None, ch + '_capture_maxbytes': cfg.capture,
                och + '_logfile': other, och + '_capture_maxbytes': 0,
                'stdout_events_enabled': bool(cfg.oev), 'stderr_events_enabled': bool(cfg.eev)}
        self.pconfig = make_pconfig(self.opt, name, **over)
        self.proc = Subprocess(self.pconfig)
        self.proc.pid = self.PID
        self.etype = (events.ProcessCommunicationStdoutEvent if ch == 'stdout'
                      else events.ProcessCommunicationStderrEvent)
        self.fd = fd
        self.disp = dispatchers.POutputDispatcher(self.proc, self.etype, self.fd)
        self.off = 0
        self.was_readable = True
        # accumulated observables
        self.logged = b''
        self.plog = []      # (class letter, data, ok-attribution)
        self.comm = []
        self.bad_attr = []

    def step(self, chunk):
        """the kernel hands `chunk` to the next read (b'' = end of file); returns the canonical line"""
        ev = self.events_mod
        n0 = len(self.seen)
        self.opt.pending[self.fd] = [chunk]
        raised = None
        try:
            self.disp.handle_read_event()
        except Exception as e:
            # what runforever() does with an exception out of a dispatcher: handle_error() (logs, closes the dispatcher)
            raised = self.raised = type(e).__name__
            try:
                self.disp.handle_error()
            except Exception:
                pass
        with open(self.path, 'rb') as f:
            f.seek(self.off)
            new = f.read()
        self.off += len(new)
        self.logged += new
        plogs, comms = [], []
        for e in self.seen[n0:]:
            if isinstance(e, ev.ProcessLogEvent):
                letter = 'o' if isinstance(e, ev.ProcessLogStdoutEvent) else 'e'
                plogs.append(letter + ':' + hexs(e.data))
                self.plog.append((letter, e.data))
                if e.process is not self.proc or e.pid != self.PID or e.channel != self.cfg.channel:
                    self.bad_attr.append(('plog', repr(e.process), e.pid, e.channel))
            elif isinstance(e, ev.ProcessCommunicationEvent):
                comms.append(hexs(e.data))
                self.comm.append(e.data)
                if e.process is not self.proc or e.pid != self.PID or type(e) is not self.etype \
                        or e.channel != self.cfg.channel:
                    self.bad_attr.append(('comm', repr(e.process), e.pid, getattr(e, 'channel', None)))
        r = self.disp.readable()
        closed_now = self.was_readable and not r
        self.was_readable = r
        if raised:
            # `closed` after an exception is handle_error()'s doing, not the dispatcher's own decision
            return 'log:%s | plog:%s | comm:%s | closed:0 | raised:%s' % (hexs(new), ','.join(plogs), ','.join(comms), raised)
        return 'log:%s | plog:%s | comm:%s | closed:%d' % (hexs(new), ','.join(plogs), ','.join(comms), 1 if closed_now else 0)

    def other_log(self):
        with open(self.other, 'rb') as f:
            return f.read()

    def finish(self):
        for lg in (self.disp.normallog, self.disp.capturelog):
            if lg is not None:
                for h in lg.handlers:
                    try:
                        h.close()
                    except Exception:
                        pass
        if self.seen is not None and not getattr(self, 'keep_events', False):
            self.events_mod.clear()


def tokens():
    from supervisor import events
    return events.ProcessCommunicationEvent.BEGIN_TOKEN, events.ProcessCommunicationEvent.END_TOKEN


# the documented tags (docs/logging.rst / docs/events.rst); the monitors use these, not the code's constants
DOC_BEGIN = b'<!--XSUPERVISOR:BEGIN-->'
DOC_END = b'<!--XSUPERVISOR:END-->'


def ref_split(stream, begin=DOC_BEGIN, end=DOC_END):
    """independent reference splitter over the *whole* stream ("no more data follows"):
    returns (plain bytes, [enclosed bytes of every closed section], enclosed bytes of an unterminated section or None)"""
    plain, sections, pos, inside = [], [], 0, False
    while True:
        j = stream.find(end if inside else begin, pos)
        if j < 0:
            rest = stream[pos:]
            if inside:
                return b''.join(plain), sections, rest
            plain.append(rest)
            return b''.join(plain), sections, None
        seg = stream[pos:j]
        if inside:
            sections.append(seg)
        else:
            plain.append(seg)
        pos = j + len(end if inside else begin)
        inside = not inside


ANSI = [b'\x1b[31m', b'\x1b[0m', b'\x1b[1;32m', b'\x1b[2J', b'\x1b[10;20H', b'\x1b[K']


def gen_stream(rng, tokens_weight=0.45, ansi=False, maxpieces=9):
    """token-aware stream: complete tags, tag prefixes, near-tags, ANSI escapes, invalid UTF-8, bulk"""
    B, E = DOC_BEGIN, DOC_END
    pieces = []
    for _ in range(rng.randrange(0, maxpieces)):
        r = rng.random()
        if r < tokens_weight * 0.4:
            pieces.append(B)
        elif r < tokens_weight * 0.8:
            pieces.append(E)
        elif r < tokens_weight:
            t = rng.choice([B, E])
            pieces.append(t[:rng.randrange(1, len(t))])          # proper prefix of a tag
        elif r < tokens_weight + 0.05:
            t = rng.choice([B, E])
            k = rng.randrange(len(t))
            pieces.append(t[:k] + b'#' + t[k + 1:])                # one byte off
        elif r < tokens_weight + 0.10:
            pieces.append(rng.choice([b'<', b'<!', b'<!--', b'-->', b'<!--X']))
        elif r < tokens_weight + 0.18 and ansi:
            a = rng.choice(ANSI)
            pieces.append(a if rng.random() < 0.8 else a[:rng.randrange(1, len(a))])
        elif r < tokens_weight + 0.24:
            pieces.append(rng.choice([b'\xff\xfe', b'\xc3', b'\xe2\x82', b'\x80abc', b'\xc3\xa9']))
        elif r < tokens_weight + 0.30:
            pieces.append(bytes([rng.randrange(97, 123)]) * rng.randrange(10, 60))
        else:
            pieces.append(bytes(rng.choice(b'abcxyz \n') for _ in range(rng.randrange(1, 7))))
    return b''.join(pieces)


def gen_cuts(rng, n, stream=None):
    """random fragmentation of n bytes: sorted cut positions in (0, n)"""
    if n <= 1:
        return []
    r = rng.random()
    if r < 0.15:
        return []
    if r < 0.25:
        return list(range(1, n))                                   # byte by byte
    k = rng.randrange(1, min(n, 8))
    cuts = set(rng.randrange(1, n) for _ in range(k))
    if stream is not None and rng.random() < 0.6:                  # bias: cut inside / right after tags
        for t in (DOC_BEGIN, DOC_END):
            j = stream.find(t)
            if j >= 0:
                c = j + rng.randrange(0, len(t) + 1)
                if 0 < c < n:
                    cuts.add(c)
    return sorted(cuts)


def fragment(stream, cuts):
    out, p = [], 0
    for c in cuts:
        out.append(stream[p:c]); p = c
    out.append(stream[p:])
    return [x for x in out if x]


def all_cuts(n_units):
    """every subset of the n_units-1 interior boundaries"""
    for mask in range(1 << max(0, n_units - 1)):
        yield [i + 1 for i in range(n_units - 1) if mask >> i & 1]


# symbols standing for whole tokens / token parts, so that short symbol strings make long byte streams
P = b'<!--XSUPERVISOR:'
SYMBOLS = {'B': DOC_BEGIN, 'E': DOC_END, 'P': P, 'b': b'BEGIN-->', 'e': b'END-->', 'x': b'x'}


def symbol_streams(maxlen, alphabet='BEPbex'):
    for L in range(0, maxlen + 1):
        for w in itertools.product(alphabet, repeat=L):
            yield w


def run_case(cfg, chunks, scratch, eof=True):
    """feed chunks (+ EOF) to a fresh real dispatcher; returns (Run, [op lines], [canonical lines])"""
    run = Run(cfg, scratch)
    ops, lines = [], []
    try:
        for c in chunks:
            ops.append('read ' + hexs(c)); lines.append(run.step(c))
            if run.raised:
                break
        if eof and not run.raised:
            ops.append('read -'); lines.append(run.step(b''))
    finally:
        run.finish()
    return run, ops, lines
