"""
C14 -- a configuration file determines exactly the configured process set.

Implementation side: real ServerOptions on real files in ctx.scratch, both entry paths (realize(['-c', f]) = first
start, errors leave through usage()/exit(2); process_config(do_usage=False) = the reread path, errors are raised).
Model side: Model/Config.lean started from the real parser's view of the file (sections/options after include
processing), see harness/config_l1.py.
Monitors: the property statement evaluated on the resulting config objects against the *generator's* facts
(numprocs law by Python's own % operator, group membership, listener subscriptions, documented defaults parsed from
docs/configuration.rst, environment precedence, ordering, rejection of every labelled constraint violation, no
exception class other than ValueError / exit through usage()), and per-process independence: every process of a
numprocs > 1 section equals what the same file yields when that section is read with numprocs=1 and
numprocs_start=<its process_num> (a fresh single-process expansion; monitor_independent).
"""
import json, os, re, signal
import config_l1 as L

ID = 'C14'
LEAN_PROPS = 'SupervisorModel.Props.C14'
DRIVER = 'drv_c14'
GENERATED = ['Config']
TRUSTED = [
    "ConfigParser tokenisation and include-file globbing (the configuration model starts from UnhosedConfigParser.sections()/items() after "
    "read_include_config; the include model readInclude takes every file as tokenised on its own by the parser class and the glob matches of every "
    "pattern as parameters, models a value as its pieces around the %(here)s marker, and does not model two files defining the same section)",
    "CPython int(), str.strip/lower/upper outside ASCII (+ the few non-ASCII characters that map to ASCII letters), the % operator outside "
    "%%, %(k)s, %(k)d, %(k)Nd, %(k)0Nd, %(k)Ns; shlex is modelled (non-POSIX mode) and exercised, not proved equal to the library",
    "os.path.isdir / pwd database / importlib resolution of result_handler: parameters of the model (existing directories, passwd table, resolvable specs)",
    "[supervisord] options directory, logfile, loglevel, pidfile, childlogdir, user and the [rpcinterface:x] sections are not modelled; of the "
    "[unix_http_server]/[inet_http_server] sections only the dictionary their options are expanded with is modelled (serverExps), their converters "
    "(inet_address, normalize_path, chmod/chown) are not -- the parsed server_configs are observed by the ENV_-source monitor",
    "fcgi-program: socket_owner (group database) and unix socket paths that normalize_path would change are outside the model",
]
ASSUMPTIONS = ["the files are not modified between the two reads of one case", "the passwd database and the listed directories do not change during a run"]
RULE = ("base cases = configurations generated from the documented option space (1-6 programs, numprocs up to 40, numprocs_start incl. negative, "
        "process_name/command/environment/logfile expansions incl. ENV_, group sections, eventlisteners, fcgi-programs, section order shuffled, "
        "a quarter split over an included file); in half of them the per-process dimension: numprocs > 1 x an environment= whose value refers to "
        "its own variable through %(ENV_X)s (X inherited from os.environ or from the [supervisord] environment, optionally per process_num) x use of "
        "the program's value in command / directory / log file names / process_name; every base case is followed by its single-point corruptions "
        "(each typed option malformed, each cross-option constraint, names, expansions, environment, an ENV_ key of an earlier process, events, "
        "sockets, [supervisord]); every accepted file with a numprocs > 1 section is re-read with that section cut down to single processes; "
        "the include dimension (layout_population): sections spread over 1-4 included files named by a literal file, ./ and ../ relative, absolute, "
        "%(here)s and %(ENV_X)s patterns, a wildcard in the file part, a wildcard / character class / ? in a DIRECTORY part, two directory levels, "
        "several patterns, matches in several directories, a pattern matching nothing, an included file with an [include] of its own, look-alike "
        "files no pattern matches, most sections using %(here)s in command / environment / directory / log file names; every included file's "
        "sections are re-read from one file lying in that file's directory; well-formed files with several program sections and environment= are "
        "re-read with the sections in the opposite order and with each such section alone; the ENV_ dimension (env_source_population): files "
        "with http server sections (none / unix / inet / both, either order, credentials plain and {SHA}) whose program-like sections set EVERY "
        "option of the pool, every %-free option value of every section kind (program, eventlistener, fcgi-program, group, unix_http_server, "
        "inet_http_server; [supervisord] from the process environment) rewritten as %(ENV_X)s with X defined only by [supervisord] environment=, "
        "only in the process environment, or in both with different values; option values at their boundaries (present but empty: exitcodes=, "
        "environment=, and every other option as a corruption whose outcome is compared with the model); a case "
        "is distinct by the parser's view of the file, non-trivial when it has at least one program-like section")


def fmt_in_subset(v):
    """is every % construct of v either in the modelled subset or certainly invalid for CPython?"""
    i, n = 0, len(v)
    maybe = set('#0- +123456789.*hlLdiouxXeEfFgGcrsa')
    while i < n:
        if v[i] != '%':
            i += 1; continue
        i += 1
        if i >= n: return True
        c = v[i]
        if c == '%':
            i += 1; continue
        if c != '(':
            if c in maybe: return False
            return True            # certainly a ValueError; nothing after it matters
        depth, i = 1, i + 1
        while i < n and depth:
            if v[i] == ')': depth -= 1
            elif v[i] == '(': depth += 1
            i += 1
        if depth: return True
        while i < n and v[i] in '0123456789':
            i += 1
        if i >= n: return True
        c = v[i]
        if c in 'sd':
            i += 1; continue
        if c in maybe or c == '%': return False
        return True
    return True


def in_model_subset(parser, servers_ok=False):
    """servers_ok: the file's http server sections are well-formed by construction (the model does not read them)"""
    for s in parser.sections():
        for k, v in parser.items(s):
            if not fmt_in_subset(v):
                return False
            if k.endswith('_logfile') and v.startswith('~'):
                return False
            if k == 'socket_owner':
                return False
            if k == 'socket' and v.startswith('unix:///') and (v == 'unix:///' or any(c in ('', '.', '..') for c in v[8:].split('/'))):
                return False       # a unix socket path that normalize_path would change: outside the model (see TRUSTED)
            if any(ord(ch) > 127 and (ch.isdigit() or ch.lower() != ch or ch.upper() != ch) for ch in v) and k not in ('command',):
                return False       # non-ASCII letters/digits in converted values: outside the modelled str methods
        if s == 'supervisord' and any(parser.has_option(s, o) for o in ('directory', 'logfile', 'loglevel', 'pidfile', 'childlogdir')):
            return False
        if s.split(':')[0] in ('unix_http_server', 'inet_http_server', 'rpcinterface', 'include') and s != 'include':
            if not (servers_ok and s in ('unix_http_server', 'inet_http_server')):
                return False
    return True


# ---- reference semantics used by the monitors (independent of options.py and of the model) ---------
def ref_env(s):
    """KEY=val / KEY="val" / KEY='val' lists as the generator writes them"""
    d, i, n = {}, 0, len(s)
    while i < n:
        while i < n and s[i] in ' ,': i += 1
        if i >= n: break
        j = s.index('=', i)
        k = s[i:j].strip(); i = j + 1
        if i < n and s[i] in '"\'':
            q = s[i]; j = s.index(q, i + 1); v = s[i + 1:j]; i = j + 1
        else:
            j = i
            while j < n and s[j] not in ', ': j += 1
            v = s[i:j]; i = j
        d[k] = v
    return d


def doc_defaults():
    import sites.config as sc
    return {(sec, opt): (text, kind == 'value') for sec, opt, text, kind in sc.doc_rows() if kind != 'opaque'}


def documented_value(opt, text):
    """the value a documented default denotes, by the type the documentation gives the option"""
    from supervisor import datatypes as dt
    t = text.strip()
    if opt in ('autostart', 'stopasgroup', 'killasgroup', 'redirect_stderr', 'stdout_events_enabled', 'stderr_events_enabled',
               'stdout_syslog', 'stderr_syslog'):
        return {'true': True, '1': True, 'false': False, '0': False}[t.lower()]
    if opt == 'autorestart':
        return {'unexpected': dt.RestartWhenExitUnexpected, 'true': dt.RestartUnconditionally, 'false': False}[t]
    if opt == 'exitcodes':
        return [int(x) for x in t.split(',')]
    if opt == 'stopsignal':
        return getattr(signal, 'SIG' + t)
    if opt.endswith('_logfile'):
        return dt.Automatic if t == 'AUTO' else t
    if opt.endswith('maxbytes'):
        m = {'KB': 1024, 'MB': 1024 ** 2, 'GB': 1024 ** 3}
        return int(t[:-2]) * m[t[-2:]] if t[-2:] in m else int(t)
    if opt == 'process_name':
        return t
    return int(t)


def monitor_valid(ctx, cfg, out, inp):
    """the property statement on an accepted well-formed configuration"""
    from supervisor.events import EventTypes
    facts = cfg['facts']
    groups = out.options.configroot.supervisord.process_group_configs
    here = out.here
    # %(here)s of an included file is that file's directory (documented)
    if cfg.get('layout'):
        hmap = L.layout_here(cfg, ctx.scratch, cfg.get('_tag', 'v'))
        here_of = {cfg['sections'][i][0]: h for i, h in hmap.items()}
    else:
        inc_here = os.path.join(out.here, 'inc_%s' % cfg.get('_tag', 'v'))
        here_of = {cfg['sections'][i][0]: inc_here for i in (cfg.get('include') or [])}
    byname = {}
    for g in groups:
        byname.setdefault(g.name, []).append(g)
    supenv = ref_env(facts['supenv'] % dict({'here': here}, **out.pre_env)) if facts['supenv'] else {}
    docs = doc_defaults()
    grouped = {p for g in facts['groups'] for p in g['programs']}
    progfacts = {f['name']: f for f in facts['programs']}
    expect = []   # (group name, kind, [(fact, group_name)] )
    for g in facts['groups']:
        expect.append((g['name'], 'ProcessGroupConfig', [(progfacts[p], g['name']) for p in g['programs']], g['priority'], 999))
    for f in facts['programs']:
        if f['name'] not in grouped:
            expect.append((f['name'], 'ProcessGroupConfig', [(f, f['name'])], f['priority'], 999))
    for f in facts['listeners']:
        expect.append((f['name'], 'EventListenerPoolConfig', [(f, f['name'])], f['priority'], -1))
    for f in facts['fcgi']:
        expect.append((f['name'], 'FastCGIGroupConfig', [(f, f['name'])], f['priority'], 999))
    if sorted(g.name for g in groups) != sorted(e[0] for e in expect):
        ctx.violation('wrong-group-set', 'groups %r, the file defines %r' % (sorted(g.name for g in groups), sorted(e[0] for e in expect)), inp)
        return
    for gname, kind, members, gprio, dprio in expect:
        g = byname[gname][0]
        if type(g).__name__ != kind:
            ctx.violation('wrong-group-kind', '%s is %s, expected %s' % (gname, type(g).__name__, kind), inp)
        want_prio = gprio if gprio is not None else dprio
        if g.priority != want_prio:
            ctx.violation('wrong-group-priority', '%s priority %r, expected %r' % (gname, g.priority, want_prio), inp)
        want_names = []
        pos = 0
        for f, group_name in members:
            n, s = f['numprocs'], f['start']
            secname = {'program': 'program:', 'eventlistener': 'eventlistener:', 'fcgi': 'fcgi-program:'}[f['kind']] + f['name']
            here = here_of.get(secname, out.here)
            procs = g.process_configs[pos:pos + n]
            pos += n
            exp_names = []
            for num in range(s, s + n):
                d = dict(out.pre_env)
                for k, v in supenv.items():
                    d['ENV_' + k] = v
                d.update({'here': here, 'program_name': f['name'], 'group_name': group_name, 'host_node_name': L.platform.node(),
                          'process_num': num, 'numprocs': n})
                penv = ref_env(f['environment'] % d) if f['environment'] else {}
                # documented: the program's own environment is available as %(ENV_X)s to the rest of the section --
                # for THIS process; d is built anew for every process_num
                for k, v in penv.items():
                    d['ENV_' + k] = v
                name = (f['process_name'] % d).strip()
                exp_names.append(name)
                p = next((q for q in procs if q.name == name), None)
                if p is None:
                    continue
                if p.command != f['command'] % d:
                    ctx.violation('command-not-expanded-per-process', '%s:%s command %r, expected %r' % (gname, name, p.command, f['command'] % d), inp)
                want_dir = f['opts']['directory'] % d if f['opts'].get('directory') is not None else None
                if p.directory != want_dir:
                    ctx.violation('directory-not-expanded-per-process', '%s:%s directory %r, expected %r' % (gname, name, p.directory, want_dir), inp)
                env = dict(supenv); env.update(penv)
                if p.environment != env:
                    ctx.violation('environment-precedence', '%s:%s environment %r, expected [supervisord] %r overridden by %r' % (gname, name, p.environment, supenv, penv), inp)
                for k in ('stdout_logfile', 'stderr_logfile'):
                    v = f['opts'].get(k)
                    if v and v.lower() not in ('auto', 'none', 'off', 'syslog') and not (k == 'stderr_logfile' and p.redirect_stderr):
                        if getattr(p, k) != v % d:
                            ctx.violation('logfile-not-expanded-per-process', '%s:%s %s=%r, expected %r' % (gname, name, k, getattr(p, k), v % d), inp)
                # documented defaults of every option the section does not set
                for (sec, opt), (text, has) in docs.items():
                    if sec != 'program' or opt in f['opts'] or opt in ('command', 'numprocs', 'numprocs_start', 'environment'):
                        continue
                    if opt == 'killasgroup' and 'stopasgroup' in f['opts']:
                        continue        # documented: stopasgroup implies killasgroup
                    if opt == 'stderr_logfile' and p.redirect_stderr:
                        continue
                    if opt == 'stdout_syslog' and (f['opts'].get('stdout_logfile', '').lower() == 'syslog'):
                        continue
                    if opt == 'stderr_syslog' and (f['opts'].get('stderr_logfile', '').lower() == 'syslog'):
                        continue
                    if opt == 'process_name':
                        continue        # checked through the names
                    attr = {'user': 'uid'}.get(opt, opt)
                    got = getattr(p, attr)
                    want = documented_value(opt, text) if has else None
                    if got != want:
                        ctx.violation('default-not-as-documented:' + opt, '%s:%s %s=%r although absent; documented default %r' % (gname, name, opt, got, text or None), inp)
                        ctx.count('default-mismatch:' + opt)
            if sorted(q.name for q in procs) != sorted(exp_names):
                ctx.violation('numprocs-law', 'program %s in group %s: processes %r, expected %r (numprocs=%d numprocs_start=%d process_name=%r)' % (
                    f['name'], gname, [q.name for q in procs], exp_names, n, s, f['process_name']), inp)
            keys = [(q.priority, q.name) for q in procs]
            if keys != sorted(keys):
                ctx.violation('processes-not-ordered', 'program %s: %r' % (f['name'], keys), inp)
            want_names.extend(exp_names)
        if len(g.process_configs) != len(want_names):
            ctx.violation('numprocs-law', 'group %s has %d processes, expected %d' % (gname, len(g.process_configs), len(want_names)), inp)
        if kind == 'EventListenerPoolConfig':
            f = members[0][0]
            want = {getattr(EventTypes, e.upper()) for e in f['events']}
            if set(g.pool_events) != want or len(g.pool_events) != len(want):
                ctx.violation('listener-subscription', '%s subscribed to %r, listed %r' % (gname, [e.__name__ for e in g.pool_events], f['events']), inp)
            if g.buffer_size != f.get('buffer_size', 10):
                ctx.violation('listener-buffer-size', '%s buffer_size %r' % (gname, g.buffer_size), inp)


def monitor_accepted(ctx, out, inp, parser):
    """holds for every accepted file, well-formed or corrupted"""
    groups = out.options.configroot.supervisord.process_group_configs
    keys = [(g.priority, g.name) for g in groups]
    if keys != sorted(keys):
        ctx.violation('groups-not-ordered', 'group order %r' % (keys,), inp)
    for g in groups:
        names = [(g.name, 'group')] + [(p.name, 'process') for p in g.process_configs]
        for nm, what in names:
            if any(c in nm for c in ' :/'):
                if what == 'group' and type(g).__name__ == 'EventListenerPoolConfig' and not any(c in nm.strip() for c in ' :/'):
                    ctx.violation('forbidden-name-char:unstripped-eventlistener-section', 'pool name %r keeps the blanks of its section header' % nm, inp)
                else:
                    ctx.violation('forbidden-name-char', '%s name %r accepted' % (what, nm), inp)
        for p in g.process_configs:
            if int(p.stopsignal) not in [int(s) for s in signal.valid_signals()]:
                ctx.violation('signal-zero-accepted' if int(p.stopsignal) == 0 else 'invalid-signal-accepted',
                              'stopsignal %d accepted for %s' % (int(p.stopsignal), p.name), inp)
            if p.stopasgroup and not p.killasgroup:
                ctx.violation('accepted-malformed:stopasgroup-without-killasgroup', 'process %s' % p.name, inp)
            if any(c < 0 or c > 255 for c in p.exitcodes):
                ctx.violation('accepted-malformed:exitcodes', 'process %s exitcodes %r' % (p.name, p.exitcodes), inp)


_NUMPROCS_FMT = re.compile(r'%\(numprocs\)(0?[0-9]*)([ds])')


def subst_numprocs(v, n):
    """v with every %(numprocs)… conversion replaced by the text it stands for (%% escapes respected);
    None when a reference remains that this scanner does not handle"""
    out, i = [], 0
    while i < len(v):
        if v[i] != '%':
            out.append(v[i]); i += 1
        elif v.startswith('%%', i):
            out.append('%%'); i += 2
        else:
            m = _NUMPROCS_FMT.match(v, i)
            if m:
                out.append((('%' + m.group(1) + m.group(2)) % n).replace('%', '%%')); i = m.end()
            else:
                out.append('%'); i += 1
    r = ''.join(out)
    return None if '(numprocs)' in r.replace('%%', '') else r


def independence_plan(sections):
    """{section index: (numprocs, numprocs_start, [offsets to re-read on their own])} for the numprocs > 1 sections"""
    plan = {}
    for idx, (sname, opts) in enumerate(sections):
        if sname.split(':')[0] not in ('program', 'eventlistener', 'fcgi-program'):
            continue
        d = {k.lower(): v for k, v in opts}
        try:
            n, s = int(d.get('numprocs', '1')), int(d.get('numprocs_start', '0'))
        except ValueError:
            continue
        if n < 2 or any(subst_numprocs(v, n) is None for _, v in opts):
            continue
        plan[idx] = (n, s, list(range(1, n)) if n <= 4 else sorted({1, n // 2, n - 1}))
    return plan


def monitor_independent(ctx, cfg, out, inp):
    """the property's 'expanded per process': process number k of a section is what a fresh single-process expansion with
    process_num = k gives.  The same file is re-read with every numprocs > 1 section replaced by numprocs=1,
    numprocs_start=k (%(numprocs)… written out); every process of the re-read file must be a process of the original,
    in the same group, equal in every observable."""
    plan = independence_plan(cfg['sections'])
    if not plan:
        return
    ctx.count('independence:files')
    orig = {}
    for g in out.options.configroot.supervisord.process_group_configs:
        orig.setdefault(g.name, []).extend(L.proc_line(p) for p in g.process_configs)
    rounds = max(len(v[2]) for v in plan.values())
    try:
        _independent_rounds(ctx, cfg, out, inp, plan, orig, rounds)
    finally:
        L.write_config(cfg, ctx.scratch, cfg['_tag'])      # the re-reads used the file names of the original (same %(here)s)


def _independent_rounds(ctx, cfg, out, inp, plan, orig, rounds):
    for t in range(rounds):
        secs = []
        chosen = {}
        for idx, (sname, opts) in enumerate(cfg['sections']):
            if idx not in plan:
                secs.append((sname, opts)); continue
            n, s, offs = plan[idx]
            k = s + offs[t % len(offs)]
            chosen[sname] = k
            o2 = [(a, subst_numprocs(b, n)) for a, b in opts if a.lower() not in ('numprocs', 'numprocs_start')]
            secs.append((sname, o2 + [('numprocs', '1'), ('numprocs_start', str(k))]))
        path = L.write_config({'sections': secs, 'include': cfg.get('include') or [], 'layout': cfg.get('layout')}, ctx.scratch, cfg['_tag'])
        b = L.parse_with(L.make_options(L.ENV_VARS), path, reread=True)
        ctx.count('independence:rereads')
        what = 'sections re-read as single processes with process_num %r' % (chosen,)
        if b.status != 'ok':
            stale = 'cannot be expanded' in b.message and "('ENV_" in b.message
            ctx.violation('process-depends-on-earlier:stale-program-env-key' if stale else 'process-depends-on-earlier:fresh-expansion-rejected',
                          'the file is accepted, but %s are rejected (%s %s): a later process is only accepted thanks to what an earlier '
                          'one left behind' % (what, b.status, b.message[:160]), inp)
            return
        for g in b.options.configroot.supervisord.process_group_configs:
            have = orig.get(g.name, [])
            for p in g.process_configs:
                line = L.proc_line(p)
                if line not in have:
                    other = next((q for q in out.options.configroot.supervisord.process_group_configs if q.name == g.name), None)
                    twin = next((q for q in (other.process_configs if other else []) if q.name == p.name), None)
                    ctx.violation('process-depends-on-earlier',
                                  '%s: group %s process %s alone: command %r environment %r directory %r stdout_logfile %r; among the numprocs '
                                  'processes: %s' % (what, g.name, p.name, p.command, p.environment, p.directory, L._lf(p.stdout_logfile),
                                                     'no process of that name' if twin is None else 'command %r environment %r directory %r stdout_logfile %r' % (
                                                         twin.command, twin.environment, twin.directory, L._lf(twin.stdout_logfile))), inp)
                    return


PROGRAM_LIKE = ('program', 'eventlistener', 'fcgi-program')


def monitor_env_independent(ctx, cfg, out, inp, valid):
    """'the child environment is the [supervisord] environment overridden by the program's' -- the program's own, whatever
    else the file contains: (a) the same sections written in the opposite order give the same configuration in every
    observable; (b) (well-formed files) a program section that sets environment=, read from a file that holds nothing but
    [supervisord] and that section, gives its processes the same environments."""
    secs = cfg['sections']
    progs = [i for i, (n, _) in enumerate(secs) if n.split(':')[0] in PROGRAM_LIKE]
    if len(progs) < 2 or cfg.get('layout'):
        return
    with_env = [i for i in progs if any(k.lower() == 'environment' for k, _ in secs[i][1])]
    if not with_env or not valid:
        return
    tag = cfg['_tag']
    try:
        ops0, lines0 = L.impl_case(out)
        # (a) opposite order
        perm = list(range(len(secs)))[::-1]
        inc = set(cfg.get('include') or [])
        rev = {'sections': [secs[i] for i in perm], 'include': sorted(k for k, i in enumerate(perm) if i in inc)}
        b = L.parse_with(L.make_options(L.ENV_VARS), L.write_config(rev, ctx.scratch, tag), reread=True)
        ctx.count('env-independence:reordered-rereads')
        if b.status != 'ok':
            ctx.violation('configuration-depends-on-section-order:rejected', 'accepted, but rejected with the sections in the opposite order: %s' % b.message[:160], inp)
        elif L.impl_case(b) != (ops0, lines0):
            detail = 'groups differ'
            for x, y in zip(out.options.configroot.supervisord.process_group_configs, b.options.configroot.supervisord.process_group_configs):
                for q, r in zip(x.process_configs, y.process_configs):
                    if q.environment != r.environment:
                        detail = 'group %s process %s environment %r, with the sections in the opposite order %r' % (x.name, q.name, q.environment, r.environment); break
                else:
                    continue
                break
            kind = 'environment-depends-on-section-order' if 'environment' in detail else 'configuration-depends-on-section-order'
            ctx.violation(kind, detail, inp)
        # (b) each section on its own
        grouped = {p.strip() for n, o in secs if n.startswith('group:') for k, v in o if k.lower() == 'programs' for p in v.split(',')}
        sup = [x for x in secs if x[0] == 'supervisord']
        groups = {g.name: g for g in out.options.configroot.supervisord.process_group_configs}
        for i in with_env[:2]:
            name = secs[i][0].split(':', 1)[1].strip()
            if name in grouped or name not in groups:
                continue
            alone = {'sections': sup + [secs[i]], 'include': []}
            c = L.parse_with(L.make_options(L.ENV_VARS), L.write_config(alone, ctx.scratch, tag), reread=True)
            ctx.count('env-independence:alone-rereads')
            if c.status != 'ok':
                continue        # (the section may legitimately need another one; per-process independence is monitor_independent's)
            ga = next((g for g in c.options.configroot.supervisord.process_group_configs if g.name == name), None)
            if ga is None:
                continue
            mine = {q.name: q.environment for q in groups[name].process_configs}
            for q in ga.process_configs:
                if q.name in mine and mine[q.name] != q.environment:
                    ctx.violation('environment-depends-on-other-sections',
                                  'section %s process %s environment %r; in a file with [supervisord] and this section only %r' % (
                                      secs[i][0], q.name, mine[q.name], q.environment), inp)
                    break
    finally:
        L.write_config(cfg, ctx.scratch, tag)


def included_files(cfg, scratch, tag):
    """[(absolute path of an included file, [section indices it holds])] for both ways a case can be spread over files"""
    if cfg.get('layout'):
        root, main, fpaths = L.layout_paths(cfg['layout'], scratch, tag)
        return [(fpaths[k], [i for i in f['sections'] if i < len(cfg['sections'])]) for k, f in enumerate(cfg['layout']['files'])]
    if cfg.get('include'):
        return [(os.path.join(scratch, 'inc_%s' % tag, 'part.conf'), [i for i in cfg['include'] if i < len(cfg['sections'])])]
    return []


HERE = '%(here)s'


def _proc_diff(a, b):
    for k in ('name', 'command', 'environment', 'directory', 'stdout_logfile', 'stderr_logfile'):
        if getattr(a, k) != getattr(b, k):
            return '%s %r, on its own %r' % (k, getattr(a, k), getattr(b, k))
    return 'another option differs'


def monitor_include(ctx, cfg, out, inp):
    """every option of a section from an included file is what the same section yields in a file of its own that lies in
    the directory of THAT included file: for each included file F the whole configuration is written as one file without
    [include] into F's directory -- the sections of F as they are, %(here)s of every other section written out as the
    directory of the file that holds it -- and must give the same groups and processes in every observable."""
    files = [(p, idx) for p, idx in included_files(cfg, ctx.scratch, cfg['_tag']) if idx]
    if not files:
        return
    secs = cfg['sections']
    here_of = {i: out.here for i in range(len(secs))}
    for p, idx in files:
        for i in idx:
            here_of[i] = os.path.dirname(p)
    uses = [(p, idx) for p, idx in files if any(HERE in v for i in idx for _, v in secs[i][1])]
    ctx.count('include:files-with-sections', len(files))
    ctx.count('include:files-using-here', len(uses))
    ops0, lines0 = L.impl_case(out)
    for p, idx in uses[:3]:
        mine = set(idx)
        flat = [(name, [(k, v if i in mine else v.replace(HERE, here_of[i])) for k, v in opts]) for i, (name, opts) in enumerate(secs)]
        fp = os.path.join(os.path.dirname(p), 'verif_flat.main')
        with open(fp, 'w', encoding='utf-8') as fh:
            fh.write(L.render(flat))
        try:
            b = L.parse_with(L.make_options(L.ENV_VARS), fp, reread=True)
        finally:
            os.unlink(fp)
        ctx.count('include:flat-rereads')
        where = 'sections %r of the included file %s' % ([secs[i][0] for i in idx], os.path.relpath(p, ctx.scratch))
        if b.status != 'ok':
            ctx.violation('included-section-differs-from-own-file:rejected-alone',
                          'the configuration is accepted, but with %s written into one file in that directory it is rejected: %s' % (where, b.message[:160]), inp)
            continue
        ops1, lines1 = L.impl_case(b)
        if (ops0, lines0) != (ops1, lines1):
            detail = 'groups differ'
            ga = out.options.configroot.supervisord.process_group_configs
            gb = b.options.configroot.supervisord.process_group_configs
            for x, y in zip(ga, gb):
                for q, r in zip(x.process_configs, y.process_configs):
                    if L.proc_line(q) != L.proc_line(r):
                        detail = 'group %s process %s: %s' % (x.name, q.name, _proc_diff(q, r)); break
                else:
                    continue
                break
            ctx.violation('included-section-differs-from-own-file',
                          '%s: %%(here)s is not the directory of the file that holds the section -- %s' % (where, detail), inp)


# ---- "the parsed value is what the documented converter gives for the written text" ------------------------------------
TRUTHY_WORDS = ('true', 'yes', 'on', '1')
FALSY_WORDS = ('false', 'no', 'off', '0')
BOOL_OPTS = ('autostart', 'stopasgroup', 'killasgroup', 'redirect_stderr', 'stdout_events_enabled', 'stderr_events_enabled',
             'stdout_syslog', 'stderr_syslog')
INT_OPTS = ('priority', 'startsecs', 'startretries', 'stopwaitsecs', 'stdout_logfile_backups', 'stderr_logfile_backups')
SIZE_OPTS = ('stdout_capture_maxbytes', 'stderr_capture_maxbytes', 'stdout_logfile_maxbytes', 'stderr_logfile_maxbytes')


def ref_bool(t):
    if t.lower() in TRUTHY_WORDS: return True
    if t.lower() in FALSY_WORDS: return False
    raise ValueError(t)


def ref_convert(opt, t):
    """the value the documentation gives the text `t` of option `opt` (ValueError: not a value of that type).
    Written from docs/configuration.rst, independent of supervisor.datatypes."""
    if opt in BOOL_OPTS:
        return ref_bool(t)
    if opt in INT_OPTS:
        return int(t)
    if opt in SIZE_OPTS:
        l = t.lower()
        for suf, m in (('kb', 1024), ('mb', 1024 ** 2), ('gb', 1024 ** 3)):
            if l.endswith(suf):
                return int(l[:-2]) * m
        return int(l)
    if opt == 'exitcodes':           # a comma-separated list of exit statuses; an empty list: no status is expected
        return [int(x) for x in t.split(',')] if t else []
    if opt == 'autorestart':
        if t.lower() == 'unexpected': return 'unexpected'
        return 'always' if ref_bool(t) else 'never'
    if opt == 'stopsignal':
        try:
            return int(t)
        except ValueError:
            name = t.strip().upper()
            return int(getattr(signal, name if name.startswith('SIG') else 'SIG' + name))
    if opt == 'umask':
        return int(t, 8)
    if opt == 'user':
        import pwd
        try:
            return int(t)
        except ValueError:
            return pwd.getpwnam(t).pw_uid
    if opt == 'serverurl':
        return None if t.strip().upper() == 'AUTO' else t
    if opt in ('directory', 'command'):
        return t
    raise KeyError(opt)


def monitor_written(ctx, sections, out, inp):
    """every option a program-like section WRITES (values free of %-expansions) has, in each of its processes, the value the
    documented converter gives for the written text -- in particular at the boundaries: an option that is present but
    empty is the empty value of its type (exitcodes= : no expected exit status; environment= : no variable), not the
    default of an absent option.  Sections taken by a [group:x] are checked through the others."""
    grouped = {p.strip() for n, o in sections if n.startswith('group:') for k, v in o if k.lower() == 'programs' for p in v.split(',')}
    groups = {}
    for g in out.options.configroot.supervisord.process_group_configs:
        groups.setdefault(g.name, []).append(g)
    for sname, opts in sections:
        kind = sname.split(':')[0]
        if kind not in PROGRAM_LIKE:
            continue
        name = sname.split(':', 1)[1].strip()
        keys = [k.lower() for k, _ in opts]
        if name in grouped or len(groups.get(name, [])) != 1 or len(set(keys)) != len(keys):
            continue
        d = {k.lower(): v.strip() for k, v in opts}
        procs = groups[name][0].process_configs
        for opt, t in sorted(d.items()):
            if any(c in t for c in '%\n;#'):       # (; and # can start a comment: ConfigParser tokenisation is trusted, not restated)
                continue
            try:
                want = ref_convert(opt, t)
            except KeyError:
                want = None
                if opt not in ('stdout_logfile', 'stderr_logfile', 'environment'):
                    continue
            except (ValueError, AttributeError, TypeError, OverflowError):
                continue            # not a value of the option's type: the rejection monitors deal with it
            ctx.count('written-value-checked:' + opt + ('(empty)' if t == '' else ''))
            for p in procs:
                if opt == 'autorestart':
                    got = L._restart(p.autorestart)
                elif opt == 'stopsignal':
                    got = int(p.stopsignal)
                elif opt == 'user':
                    got = p.uid
                elif opt in ('stdout_syslog', 'stderr_syslog'):
                    if d.get(opt[:6] + '_logfile', '').lower() == 'syslog':
                        continue
                    got = getattr(p, opt)
                elif opt == 'killasgroup' or opt == 'stopasgroup':
                    got = getattr(p, opt)
                elif opt in ('stdout_logfile', 'stderr_logfile'):
                    if opt == 'stderr_logfile' and p.redirect_stderr:
                        continue
                    lf = L._lf(getattr(p, opt))
                    w = t.lower()
                    want = 'None' if w in ('none', 'off', 'syslog') else 'AUTO' if w == 'auto' else 'P:' + L.hx(t)
                    got = lf
                    if w == 'syslog' and not getattr(p, opt[:6] + '_syslog'):
                        ctx.violation('option-value-not-as-written:' + opt, '%s: %s=syslog, but %s_syslog is off for process %s' % (sname, opt, opt[:6], p.name), inp)
                elif opt == 'environment':
                    continue        # (needs the [supervisord] environment: monitor_valid)
                else:
                    got = getattr(p, opt)
                if got != want:
                    ctx.violation('option-value-not-as-written:' + opt,
                                  '[%s] writes %s=%r, which denotes %r; process %s has %r' % (sname, opt, t, want, p.name, got), inp)
                    break


# ---- where an ENV_ variable comes from ---------------------------------------------------------------------------------
ENV_SOURCES = ('supenv', 'both', 'osenv')


def env_eligible(sname, opt, v, source):
    """may the value v of this option be written as %(ENV_X)s?  ([include] is read before any section; the [supervisord]
    section's own options are read before its environment= is known: process environment only)"""
    kind = sname.split(':')[0]
    if kind == 'include' or kind.startswith('rpcinterface') or kind in ('supervisorctl', 'ctlplugin'):
        return False
    if kind == 'supervisord' and (source != 'osenv' or opt.lower() == 'environment'):
        return False
    return not any(c in v for c in '%"\'\n\\;#') and v == v.strip()


def env_rewrite(sections, source, only=None):
    """-> (baseline sections, substituted sections, extra process environment, [(section, option, variable, value)])
    Every eligible option value (or only the one at position `only`) is replaced by %(ENV_XVk)s; XVk is defined with the
    replaced text in [supervisord] environment= ('supenv'), in the process environment ('osenv'), or in both with ANOTHER
    value in the process environment ('both': the file's definition is the one that counts).  The baseline defines the same
    variables and uses none of them."""
    subs = []
    out = []
    for si, (sname, opts) in enumerate(sections):
        o2 = []
        for oi, (k, v) in enumerate(opts):
            if env_eligible(sname, k, v, source):
                var = 'XV%d' % len(subs)
                subs.append((si, oi, sname, k, var, v))
                o2.append((k, '%%(ENV_%s)s' % var if only is None or only == len(subs) - 1 else v))
            else:
                o2.append((k, v))
        out.append((sname, o2))
    defs = ','.join('%s="%s"' % (var, v) for _, _, _, _, var, v in subs)
    osenv = {}
    if source == 'osenv':
        osenv = {var: v for _, _, _, _, var, v in subs}
        base = [(n, list(o)) for n, o in sections]
    else:
        if source == 'both':
            osenv = {var: 'inherited-%d' % i for i, (_, _, _, _, var, _) in enumerate(subs)}
        def with_defs(secs):
            r = []
            for n, o in secs:
                if n == 'supervisord' and defs:
                    cur = [v for k, v in o if k.lower() == 'environment']
                    o = [(k, v) for k, v in o if k.lower() != 'environment'] + [('environment', (cur[-1].rstrip().rstrip(',') + ',' if cur and cur[-1].strip() else '') + defs)]
                r.append((n, o))
            return r
        base, out = with_defs(sections), with_defs(out)
    return base, out, osenv, [(sname, k, var, v) for _, _, sname, k, var, v in subs]


def env_observe(ctx, secs, osenv, tag):
    env = dict(L.ENV_VARS); env.update(osenv)
    path = L.write_config({'sections': secs, 'include': []}, ctx.scratch, tag)
    o = L.parse_with(L.make_options(env), path, reread=True)
    if o.status != 'ok':
        return o, (o.status,)
    return o, (o.status, L.impl_case(o)[1], L.server_lines(o.options))


def monitor_servers(ctx, sections, out, inp):
    """the parsed http server configurations are the ones the file writes (values free of %-expansions): one configuration per
    section, credentials as written, the port split into host and number, the socket path, the mode"""
    import socket
    confs = {}
    for c in out.options.configroot.supervisord.server_configs:
        confs.setdefault(c.get('section'), []).append(c)
    want_secs = [n for n, _ in sections if n in ('unix_http_server', 'inet_http_server')]
    if sorted(confs) != sorted(set(want_secs)) or any(len(v) != 1 for v in confs.values()):
        ctx.violation('server-config-not-as-written:sections', 'server configurations for %r, the file has %r' % (sorted(confs), want_secs), inp)
        return
    for sname, opts in sections:
        if sname not in confs:
            continue
        c = confs[sname][0]
        d = {k.lower(): v.strip() for k, v in opts}
        want = {'family': socket.AF_UNIX if sname.startswith('unix') else socket.AF_INET,
                'username': d.get('username'), 'password': d.get('password')}
        if 'port' in d:
            host, _, port = d['port'].rpartition(':')
            want['host'] = '' if host == '*' else host.lower()
            try:
                want['port'] = int(port)
            except ValueError:
                want.pop('host')
        if 'file' in d:
            want['file'] = os.path.normpath(d['file'])
        if 'chmod' in d:
            want['chmod'] = int(d['chmod'], 8)
        for k, v in sorted(want.items()):
            if isinstance(v, str) and any(ch in v for ch in '%;#'):
                continue
            ctx.count('server-value-checked:' + k)
            if c.get(k) != v:
                ctx.violation('server-config-not-as-written:' + k, '[%s] writes %s=%r; the parsed configuration has %r' % (
                    sname, {'host': 'port', 'family': 'section'}.get(k, k), d.get({'host': 'port'}.get(k, k)), c.get(k)), inp)


def env_source_case(ctx, st, sections, source, label, tag='e'):
    """the metamorphic statement of 'ENV_ variables' in the property's quantifier: writing an option value as %(ENV_X)s, X
    being defined with that text, changes nothing -- for every option of every section kind and wherever X is defined"""
    base, sub, osenv, subs = env_rewrite(sections, source)
    if not subs:
        return
    a, oa = env_observe(ctx, base, osenv, tag)
    if a.status != 'ok':
        ctx.count('env-source:baseline-rejected'); return
    if source == ENV_SOURCES[0] or label.startswith('corpus'):
        inp0 = {'label': label, 'must_reject': None, 'sections': base, 'include': [], 'layout': None, 'facts': None, 'env': L.ENV_VARS}
        monitor_servers(ctx, base, a, inp0)
        monitor_written(ctx, base, a, inp0)
    b, ob = env_observe(ctx, sub, osenv, tag)
    ctx.count('env-source:' + source)
    for sname, k, _, _ in subs:
        ctx.count('env-source-option:%s.%s' % (sname.split(':')[0], k.lower()))
    ctx.case_done(('env-source', source, repr(sub)), True)
    if b.status.startswith('exc'):
        ctx.violation(exc_kind(b, sub), '%s instead of an error message: %s' % (b.status[4:], b.message[:160]),
                      {'label': label, 'env_source': source, 'sections': sections})
    if oa != ob:
        # name the options: each substitution on its own
        culprits = []
        first = None
        for i, (sname, k, var, v) in enumerate(subs):
            _, s1, _, _ = env_rewrite(sections, source, only=i)
            c, oc = env_observe(ctx, s1, osenv, tag)
            if oc != oa:
                culprits.append('[%s] %s=%%(ENV_%s)s (%s=%r)%s' % (sname, k, var, var, v, ': ' + c.message[:120] if c.status != 'ok' else ''))
                first = first if first is not None else i
            if len(culprits) >= 4:
                break
        where = {'supenv': 'defined only by [supervisord] environment=', 'osenv': 'defined only in the process environment',
                 'both': 'defined by [supervisord] environment= and, with another value, in the process environment'}[source]
        inp = {'label': label, 'env_source': source, 'sections': sections, 'only': first}
        if b.status != 'ok':
            ctx.violation('rejected-wellformed:env-expansion:' + source,
                          'a well-formed file is rejected when option values are written as %%(ENV_X)s with X %s: %s; options: %s' % (
                              where, b.message[:160], '; '.join(culprits) or '(only in combination)'), inp)
        else:
            diff = next((('%r' % x, '%r' % y) for x, y in zip(oa[1] + oa[2], ob[1] + ob[2]) if x != y), ('', ''))
            ctx.violation('env-expansion-not-transparent:' + source,
                          'option values written as %%(ENV_X)s with X %s do not denote the text X is defined with; options: %s; first difference: %s / literal: %s' % (
                              where, '; '.join(culprits) or '(only in combination)', diff[1][:200], diff[0][:200]), inp)
    # the substituted file against the model
    if b.parser is not None and b.include_done and in_model_subset(b.parser, servers_ok=True):
        toks = L.model_tokens(b, L.known_dirs([ctx.scratch, b.here or '/']))
        ops, lines = L.impl_case(b)
        st['cases'].append(('case config ' + ' '.join(toks), ops)); st['impls'].append(lines); st['labels'].append(label)
        ctx.count('env-source:compared-with-model')


def exc_kind(out, sections):
    return 'other-exception:' + out.status.split(' ', 1)[1]


def check_case(ctx, st, cfg, label, must_reject, tag):
    """one file through both entry paths, the monitors, and (when inside the modelled subset) the model"""
    path = L.write_config(cfg, ctx.scratch, tag)
    cfg['_tag'] = tag
    inp = {'label': label, 'must_reject': must_reject, 'sections': cfg['sections'], 'include': cfg.get('include') or [],
           'layout': cfg.get('layout'), 'facts': cfg.get('facts') if must_reject is False else None, 'env': L.ENV_VARS}
    a = L.parse_with(L.make_options(L.ENV_VARS), path, reread=True)
    # the first-start path (errors leave through usage()) on every well-formed file and a quarter of the others
    both = must_reject is False or label.startswith('corpus') or st['k'] % 4 == 0
    st['k'] += 1
    b = L.parse_with(L.make_options(L.ENV_VARS), path, reread=False) if both else a
    ctx.count('outcome:' + a.status.split(' ')[0])
    ctx.count('class:' + label.split(':')[0])
    if a.status.split(' ')[0] != b.status.split(' ')[0] and not (a.status == 'ok' and b.status == 'err' and 'user' in b.message):
        ctx.violation('first-start-and-reread-disagree', 'process_config(do_usage=False): %s; realize(): %s %s' % (a.status, b.status, b.message[:120]), inp)
    for o in (a, b):
        if o.status.startswith('exc'):
            ctx.violation(exc_kind(o, cfg['sections']), '%s instead of an error message: %s' % (o.status[4:], o.message[:160]), inp)
            break
    if a.status == 'ok':
        if must_reject is True:
            ctx.violation('accepted-malformed:' + label.split(':')[0].split('=')[0], 'the file violates a documented constraint (%s) and was accepted' % label, inp)
        monitor_accepted(ctx, a, inp, a.parser)
        monitor_written(ctx, cfg['sections'], a, inp)
        monitor_servers(ctx, cfg['sections'], a, inp)
        if must_reject is False:
            monitor_valid(ctx, cfg, a, inp)
        monitor_include(ctx, cfg, a, inp)
        monitor_env_independent(ctx, cfg, a, inp, must_reject is False)
        monitor_independent(ctx, cfg, a, inp)
    elif a.status == 'err' and must_reject is False:
        ctx.violation('rejected-wellformed' + (':' + cfg['expect_kind'] if cfg.get('expect_kind') and cfg['expect_kind'] in NARROW_OK(a.message) else ''),
                      'a well-formed file was rejected: %s' % a.message[:200], inp)
    if a.status == 'err':
        ctx.count('error:' + classify(a.message))
    if a.parser is not None and a.include_done and (cfg.get('layout') or cfg.get('include')) and (must_reject is False or label.startswith('corpus')):
        # the include stage against Model/Config.lean readInclude (every file tokenised on its own, glob matches as parameters)
        st.setdefault('icases', []).append(('case include ' + ' '.join(L.include_tokens(cfg, ctx.scratch, tag, a.here)), ['view']))
        st.setdefault('iimpls', []).append([L.parser_view(a.parser)])
        ctx.count('include:stage-compared-with-model')
    extra_dirs = sorted({os.path.dirname(p) for p, _ in included_files(cfg, ctx.scratch, tag)})
    if cfg.get('layout'):
        # every directory of the layout tree exists (a corrupted log file name may point into any of them)
        root = L.layout_paths(cfg['layout'], ctx.scratch, tag)[0]
        extra_dirs = sorted(set(extra_dirs) | {dp for dp, _, _ in os.walk(root)})
    toks = L.model_tokens(a, L.known_dirs([ctx.scratch, a.here or '/', os.path.join(ctx.scratch, 'inc_%s' % tag)] + extra_dirs))
    nontrivial = any(s.split(':')[0] in ('program', 'eventlistener', 'fcgi-program') for s, _ in cfg['sections'])
    if toks is None:
        ctx.count('not-modelled:before-parser-view')
        ctx.case_done((label, repr(cfg['sections'])), nontrivial)
        return
    if not in_model_subset(a.parser):
        ctx.count('not-modelled:outside-subset')
        ctx.case_done((label, repr(cfg['sections'])), nontrivial)
        return
    ops, lines = L.impl_case(a)
    ctx.case_done(tuple(t for t in toks if t[0] in 'SO'), nontrivial)
    ctx.count('nprocs:%s' % min(40, sum(len(g.process_configs) for g in a.options.configroot.supervisord.process_group_configs) // 5 * 5) if a.status == 'ok' else 'nprocs:-')
    st['cases'].append(('case config ' + ' '.join(toks), ops))
    st['impls'].append(lines)
    st['labels'].append(label)
    if len(ctx.samples) < 3 and a.status == 'ok' and label == 'valid':
        ctx.sample({'file': open(path).read()[:600], 'impl': lines[:4]})
    elif len(ctx.samples) < 6 and a.status != 'ok':
        ctx.sample({'corruption': label, 'impl': lines[0], 'message': a.message[:160]})


def NARROW_OK(message):
    """the narrow kinds a rejection message is compatible with (so that a different failure of the same input is a new kind)"""
    ok = []
    if "for 'environment'" in message and 'Format string' in message:
        ok.append('percent-escape-in-supervisord-environment')
    if ("for 'stdout_logfile'" in message or "for 'stderr_logfile'" in message) and 'Format string' in message:
        ok.append('percent-escape-in-logfile')
    return ok


def classify(msg):
    """coarse error-kind histogram (evidence only, never compared)"""
    for key, kind in (('boolean', 'boolean'), ('invalid literal', 'number'), ('exit code', 'exitcodes'), ('signal', 'signal'),
                      ('Invalid name', 'name'), ('process_num', 'numprocs'), ('stopasgroup', 'stopasgroup'), ('command', 'command'),
                      ('Format string', 'expansion'), ('event type', 'events'), ('events', 'events'), ('buffer_size', 'buffer_size'),
                      ('redirect_stderr', 'listener-redirect'), ('resolved', 'handler'), ('unknown program', 'group'),
                      ('directory named', 'logfile-dir'), ('user', 'user'), ('key/value', 'environment'), ('quotation', 'environment'),
                      ('supervisord section', 'no-supervisord'), ('socket', 'socket'), ('octal', 'octal'), ('autorestart', 'autorestart')):
        if key in msg:
            return kind
    return 'other'


def _facts(supenv, opts, **kw):
    f = {'name': 'a', 'kind': 'program', 'numprocs': 1, 'start': 0, 'process_name': '%(program_name)s', 'command': dict(opts)['command'],
         'priority': None, 'environment': None, 'opts': dict(opts)}
    f.update(kw)
    return {'supenv': supenv, 'programs': [f], 'groups': [], 'listeners': [], 'fcgi': []}


_F40N = [('command', 'x'), ('numprocs', '3'), ('numprocs_start', '2'), ('process_name', 'a%(process_num)d'),
         ('stdout_logfile', '/tmp/a%%20b_%(process_num)d.log')]
_C143 = [('command', '/bin/worker --slot=%(process_num)d --lib=%(ENV_LIBDIR)s'), ('process_name', '%(program_name)s_%(process_num)02d'),
         ('numprocs', '4'), ('numprocs_start', '3'),
         ('environment', 'PATH="/opt/app/bin:%(ENV_PATH)s",LIBDIR="%(ENV_LIBDIR)s/worker",SLOT="%(process_num)d"'),
         ('stdout_logfile', '/tmp/%(program_name)s_%(process_num)d.log'), ('directory', '%(ENV_LIBDIR)s/%(process_num)d')]
_C143B = [('command', '/bin/w %(ENV_VERIF_A)s'), ('process_name', 'w_%(ENV_VERIF_B)s_%(process_num)d'), ('numprocs', '3'),
          ('environment', 'VERIF_B="%(ENV_VERIF_B)s.%(process_num)d",VERIF_A="pre:%(ENV_VERIF_A)s"'),
          ('stderr_logfile', '/tmp/%(ENV_VERIF_B)s.err')]

_EMPTYX = [('command', '/bin/true'), ('exitcodes', ''), ('environment', ''), ('autorestart', 'unexpected')]

_ENV3 = [('supervisord', [('environment', 'C18_GLOBAL="g",C18_SHARED="from_supervisord"')]),
         ('program:alpha', [('command', '/usr/bin/env'), ('environment', 'C18_ONLY_ALPHA="1",C18_SHARED="from_alpha"')]),
         ('program:beta', [('command', '/usr/bin/env')]),
         ('program:gamma', [('command', '/usr/bin/env'), ('environment', 'C18_ONLY_GAMMA="1",C18_SHARED="from_gamma"')])]
_ENV3_FACTS = {'supenv': dict(_ENV3[0][1])['environment'], 'groups': [], 'listeners': [], 'fcgi': [],
               'programs': [{'name': n.split(':')[1], 'kind': 'program', 'numprocs': 1, 'start': 0, 'process_name': '%(program_name)s',
                             'command': '/usr/bin/env', 'priority': None, 'environment': dict(o).get('environment'), 'opts': dict(o)}
                            for n, o in _ENV3[1:]]}

CORPUS = [
    # (label, must_reject, sections, facts for well-formed files, narrow kind suffix when a well-formed file is rejected)
    # F17 (fixed): forbidden characters reaching a process name through an expansion
    ('F17-name-through-ENV-expansion', True, [('supervisord', []), ('program:a', [('command', '/bin/cat'), ('process_name', '%(ENV_VERIF_BAD)s')])], None, None),
    ('F17-name-through-here-expansion', True, [('supervisord', []), ('program:a', [('command', '/bin/cat'), ('process_name', 'p%(here)s')])], None, None),
    # F31 (fixed): an unresolvable result_handler is an error message, never a TypeError
    ('F31-relative-result_handler', True, [('supervisord', []), ('eventlistener:l', [('command', 'x'), ('events', 'TICK_5'), ('result_handler', '.foo')])], None, None),
    ('F31-empty-result_handler', True, [('supervisord', []), ('eventlistener:l', [('command', 'x'), ('events', 'TICK_5'), ('result_handler', '')])], None, None),
    # F32 (fixed): the pool name is validated and stripped (monitor_accepted checks the names of whatever is accepted)
    ('F32-unstripped-eventlistener-section', None, [('supervisord', []), ('eventlistener: lx ', [('command', 'x'), ('events', 'TICK_5')])], None, None),
    ('F32-eventlistener-section-inner-blank', True, [('supervisord', []), ('eventlistener:l x', [('command', 'x'), ('events', 'TICK_5')])], None, None),
    # F33 (fixed): 0 / SIG_DFL / SIG_BLOCK are not signals
    ('F33-stopsignal-zero', True, [('supervisord', []), ('program:a', [('command', 'x'), ('stopsignal', '0')])], None, None),
    ('F33-stopsignal-SIG_DFL', True, [('supervisord', []), ('program:a', [('command', 'x'), ('stopsignal', '_DFL')])], None, None),
    # F34 (fixed): the documented percent escape in the [supervisord] environment
    ('F34-documented-percent-escape', False, [('supervisord', [('environment', 'URI="/first%%20name"')]), ('program:a', [('command', 'x')])],
     _facts('URI="/first%%20name"', [('command', 'x')]), 'percent-escape-in-supervisord-environment'),
    # F40 (fixed): the same escape in a program's log file name; a log file name is expanded once
    ('percent-escape-in-logfile', False, [('supervisord', []), ('program:a', [('command', 'x'), ('stdout_logfile', '/tmp/a%%20b.log')])],
     _facts(None, [('command', 'x'), ('stdout_logfile', '/tmp/a%%20b.log')]), 'percent-escape-in-logfile'),
    ('F40-escaped-key-in-logfile', False, [('supervisord', []), ('program:a', [('command', 'x'), ('stderr_logfile', '/tmp/%%(program_name)s_%(program_name)s.err')])],
     _facts(None, [('command', 'x'), ('stderr_logfile', '/tmp/%%(program_name)s_%(program_name)s.err')]), 'percent-escape-in-logfile'),
    ('F40-escape-in-logfile-numprocs', False, [('supervisord', []), ('program:a', _F40N)], _facts(None, _F40N, numprocs=3, start=2, process_name='a%(process_num)d'),
     'percent-escape-in-logfile'),
    # F43 (fixed): an ENV_ key taken from the environment of an earlier process of the section is not visible to the later ones
    ('F43-env-key-of-earlier-process', True, [('supervisord', []), ('program:w', [('command', '/bin/x %(ENV_A0)s'), ('process_name', 'w%(process_num)d'),
                                                                                   ('numprocs', '2'), ('environment', 'A%(process_num)d="v%(process_num)d"'),
                                                                                   ('stdout_logfile', 'NONE')])], None, None),
    ('F43-env-key-of-earlier-process-in-directory', True, [('supervisord', []), ('program:w', [('command', '/bin/x'), ('process_name', 'w%(process_num)d'),
                                                                                                ('numprocs', '3'), ('numprocs_start', '5'),
                                                                                                ('environment', 'A%(process_num)d="v"'), ('directory', '/srv/%(ENV_A5)s')])], None, None),
    # seeded change C14-3 (the expansion dictionary no longer rebuilt per process): the "prepend to an inherited variable" idiom
    ('C14-3-extend-inherited-variable', False, [('supervisord', [('environment', 'LIBDIR="/srv/lib"')]), ('program:worker', _C143)],
     _facts('LIBDIR="/srv/lib"', _C143, name='worker', numprocs=4, start=3, process_name='%(program_name)s_%(process_num)02d',
            environment=dict(_C143)['environment']), None),
    ('C14-3-extend-os-environ-variable', False, [('supervisord', []), ('program:w', _C143B)],
     _facts(None, _C143B, name='w', numprocs=3, start=0, process_name='w_%(ENV_VERIF_B)s_%(process_num)d', environment=dict(_C143B)['environment']), None),
    # seeded change C18-6 (one environment dictionary shared by all programs): several programs, different environment=, a
    # [supervisord] environment that one of them overrides and one does not touch
    ('C18-6-environments-of-several-programs', False, _ENV3, _ENV3_FACTS, None),
    # seeded change C03-7 (`get(section, 'exitcodes', '0') or '0'`): a present-but-empty exitcodes= is "no expected exit status"
    ('C03-7-empty-exitcodes', False, [('supervisord', []), ('program:a', _EMPTYX)], _facts(None, _EMPTYX), None),
    ('C03-7-empty-exitcodes-listener', None, [('supervisord', []), ('eventlistener:l', [('command', 'x'), ('events', 'TICK_5'), ('exitcodes', ''),
                                                                                          ('environment', '')])], None, None),
    # plain regression cases
    ('numprocs-40', None, [('supervisord', []), ('program:w', [('command', '/bin/w %(process_num)02d'), ('numprocs', '40'), ('numprocs_start', '-3'),
                                                               ('process_name', '%(program_name)s_%(process_num)03d')])], None, None),
    ('group-takes-programs', None, [('program:a', [('command', 'a')]), ('supervisord', []), ('program:b', [('command', 'b'), ('priority', '1')]),
                                    ('group:g', [('programs', 'b, a'), ('priority', '5')]), ('program:c', [('command', 'c')])], None, None),
]


def run(ctx):
    rng = ctx.rng
    st = {'cases': [], 'impls': [], 'labels': [], 'k': 0}
    k = 0
    for label, must, secs, facts, narrow in CORPUS:
        cfg = {'sections': secs, 'include': []}
        if facts is not None:
            cfg['facts'] = facts
        if narrow:
            cfg['expect_kind'] = narrow
        check_case(ctx, st, cfg, 'corpus:' + label, must, 'c%d' % k)
        k += 1
    nbase = ctx.n(30, 180)
    for i in range(nbase):
        cfg = L.gen_config(rng, ctx.scratch, small=(i % 3 == 0), perproc=(i % 2 == 1))
        for f in cfg['facts']['programs'] + cfg['facts']['listeners'] + cfg['facts']['fcgi']:
            if f.get('threaded'):
                ctx.count('perproc:self-referring-environment' + ('(numprocs>1)' if f['numprocs'] > 1 else '(numprocs=1)'))
                ctx.count('perproc:inherited-from-' + ('os.environ' if '(ENV_VERIF_' in f['environment'] else 'supervisord-environment'))
                for u in ('command', 'directory', 'stdout_logfile', 'stderr_logfile', 'process_name'):
                    if '(ENV_' in f['opts'].get(u, '') and f['numprocs'] > 1:
                        ctx.count('perproc:own-value-used-in-' + u)
        check_case(ctx, st, cfg, 'valid', False, 'v')
        for label, must, secs in L.corruptions(rng, cfg, per_class=1, everything=(ctx.tier == 'thorough' and i % 10 == 0)):
            c2 = {'sections': secs, 'include': [j for j in cfg['include'] if j < len(secs)] if len(secs) == len(cfg['sections']) else []}
            check_case(ctx, st, c2, label, must, 'x')
    layout_population(ctx, st, rng)
    env_source_population(ctx, st, rng)
    ctx.correspond('config', st['cases'], st['impls'])
    ctx.correspond('include', st.get('icases', []), st.get('iimpls', []))


# seeded changes C14-8 (the parser expands with a snapshot of the ENV_ expansions) and C17-7 (the http server sections are parsed
# before the [supervisord] environment reaches the ENV_ expansions): the demos' files
ENV_CORPUS = [
    ('C14-8-demo', [('supervisord', [('environment', 'C14_N="3",C14_PRIO="7",C14_SIG="USR1",C14_CODES="0,2"')]),
                    ('program:worker', [('command', '/bin/worker --n=3'), ('process_name', 'worker_%(process_num)d'), ('numprocs', '3'), ('priority', '7'),
                                        ('stopsignal', 'USR1'), ('exitcodes', '0,2'), ('autostart', 'false'), ('user', 'root'), ('umask', '027'),
                                        ('serverurl', 'http://localhost:9001'), ('startsecs', '2')]),
                    ('eventlistener:listener', [('command', '/bin/listener'), ('events', 'PROCESS_STATE,TICK_60'), ('buffer_size', '25')]),
                    ('group:g', [('programs', 'worker'), ('priority', '5')])]),
    ('C17-7-demo', [('supervisord', [('environment', 'HTPASS="from-config-file"')]),
                    ('unix_http_server', [('file', '/tmp/c17seed7.sock'), ('username', 'admin'), ('password', 'from-config-file')]),
                    ('inet_http_server', [('port', '127.0.0.1:49001'), ('username', 'admin'), ('password', '{SHA}82ab876d1387bfafe46cc1c8a2ef074eae50cb1d')]),
                    ('program:cat', [('command', '/bin/cat')])]),
    ('fcgi-and-empty-values', [('supervisord', []),
                               ('fcgi-program:f', [('command', '/bin/f'), ('socket', 'tcp://localhost:9100'), ('socket_backlog', '128'), ('exitcodes', ''),
                                                   ('priority', '3'), ('environment', '')])]),
]


def env_source_population(ctx, st, rng):
    """the 'ENV_ variables' dimension: where the variable of a %(ENV_X)s comes from (the process environment, [supervisord]
    environment=, both with different values) x EVERY option of every section kind that takes expansions (program,
    eventlistener, fcgi-program, group, unix_http_server, inet_http_server; [supervisord] itself from the process environment)"""
    for label, secs in ENV_CORPUS:
        for source in ENV_SOURCES:
            env_source_case(ctx, st, secs, source, 'corpus:env-source:' + label)
    n = ctx.n(14, 120)
    for i in range(n):
        cfg = L.gen_config(rng, ctx.scratch, small=True, servers=True, full=(i % 2 == 0))
        secs = [(sn, [(k, str(min(int(v), 6)) if k == 'numprocs' and v.strip().isdigit() else v) for k, v in o]) for sn, o in cfg['sections']]
        for source in (ENV_SOURCES if i % 2 == 0 or ctx.tier == 'thorough' else [ENV_SOURCES[(i // 2) % 3]]):
            env_source_case(ctx, st, secs, source, 'env-source')


def _app(name):
    return [('command', '%(here)s/bin/run --instance %(process_num)d'), ('process_name', '%(program_name)s_%(process_num)02d'), ('numprocs', '2'),
            ('numprocs_start', '3'), ('environment', 'APP_HOME="%(here)s"'), ('stdout_logfile', '%(here)s/' + name + '_%(process_num)d.out')]


def _app_fact(name):
    o = _app(name)
    return {'name': name, 'kind': 'program', 'numprocs': 2, 'start': 3, 'process_name': '%(program_name)s_%(process_num)02d',
            'command': dict(o)['command'], 'priority': None, 'environment': dict(o)['environment'], 'opts': dict(o)}


LAYOUT_CORPUS = [
    # seeded change C14-6 (%(here)s of included files computed once per include pattern): a wildcard in a directory part
    ('C14-6-wildcard-directory', {
        'sections': [('supervisord', []), ('program:alpha', _app('alpha')), ('program:beta', _app('beta'))], 'include': [],
        'facts': {'supenv': None, 'programs': [_app_fact('alpha'), _app_fact('beta')], 'groups': [], 'listeners': [], 'fcgi': []},
        'layout': {'form': 'dir-star', 'main_sub': '', 'patterns': ['{rel}apps/*/supervisor.conf'], 'sep': ' ', 'nested': None, 'decoys': [],
                   'files': [{'path': 'apps/alpha/supervisor.conf', 'sections': [1]}, {'path': 'apps/beta/supervisor.conf', 'sections': [2]}]}}),
    ('C14-6-character-class-directory', {
        'sections': [('supervisord', [('environment', 'ROOT="%(here)s"')]), ('program:alpha', _app('alpha')), ('program:beta', _app('beta'))], 'include': [],
        'facts': {'supenv': 'ROOT="%(here)s"', 'programs': [_app_fact('alpha'), _app_fact('beta')], 'groups': [], 'listeners': [], 'fcgi': []},
        'layout': {'form': 'dir-class', 'main_sub': 'main', 'patterns': ['../conf.d/[a-b]*/*.ini'], 'sep': ' ', 'nested': 0,
                   'decoys': [{'path': 'nested/deep.conf', 'text': '[program:decoy_nested]\ncommand=/bin/decoy\n'}],
                   'files': [{'path': 'conf.d/a1/x.ini', 'sections': [1]}, {'path': 'conf.d/b2/y.ini', 'sections': [2]}]}}),
]


def layout_population(ctx, st, rng):
    """the include dimension: every way of naming the included files (literal directory, wildcard in the file part, wildcard /
    character class / ? in a directory part, two directory levels, several patterns, several matches in different
    directories, relative / ./ / ../ / absolute / %(here)s / %(ENV_X)s patterns, a pattern matching nothing, an included file
    with an [include] of its own, look-alike files that no pattern matches), sections using %(here)s"""
    for k, (label, cfg) in enumerate(LAYOUT_CORPUS):
        check_case(ctx, st, dict(cfg), 'corpus:' + label, False, 'lc%d' % k)
    forms = sorted(set(L.LAYOUT_FORMS))
    extra = ctx.n(6, 90)
    for i in range(len(forms) * (ctx.boost if ctx.searching else 1) + extra):
        cfg = L.gen_config(rng, ctx.scratch, small=(i % 2 == 0), perproc=(i % 4 == 3), layout=True)
        if i < len(forms):
            cfg['layout'] = L.gen_layout(rng, cfg['sections'], form=forms[i])
        lay = cfg['layout']
        ctx.count('include-form:' + lay['form'])
        ctx.count('include:files', len(lay['files']))
        if lay['nested'] is not None:
            ctx.count('include:nested-include-not-followed')
        if len({os.path.dirname(f['path']) for f in lay['files'] if f['sections']}) > 1:
            ctx.count('include:matches-in-several-directories')
        check_case(ctx, st, cfg, 'valid', False, 'v')
        if i % 3 == 2:
            for label, must, secs in L.corruptions(rng, cfg, per_class=1):
                same = len(secs) == len(cfg['sections'])
                c2 = {'sections': secs, 'include': [], 'layout': lay if same else None}
                check_case(ctx, st, c2, label, must, 'x')


def replay(ctx, data):
    inp = data['input']
    st = {'cases': [], 'impls': [], 'labels': [], 'k': 0}
    if inp.get('env_source'):
        env_source_case(ctx, st, [(s, [tuple(o) for o in opts]) for s, opts in inp['sections']], inp['env_source'], inp['label'], tag='r')
        ctx.correspond('config', st['cases'], st['impls'])
        return
    cfg = {'sections': [(s, [tuple(o) for o in opts]) for s, opts in inp['sections']], 'include': inp.get('include') or [],
           'layout': inp.get('layout'), 'facts': inp.get('facts')}
    check_case(ctx, st, cfg, inp['label'], inp['must_reject'], 'r')
    ctx.correspond('config', st['cases'], st['impls'])
    ctx.correspond('include', st.get('icases', []), st.get('iimpls', []))


# ---- MANIFEST metadata -----------------------------------------------------------------------
TECHNIQUE = ("Lean 4 theorems over a table-driven model of configuration processing (option names, converters, defaults, word tables, "
             "numeric guards and the placement of the statements binding the expansion dictionary of the numprocs loop regenerated from "
             "options.py/datatypes.py/docs on every run); differential correspondence against the real ServerOptions on generated files and all "
             "their single-point corruptions; monitors restating the property on the real objects, incl. metamorphic re-reads: every "
             "numprocs > 1 section as single processes, the sections of every included file from one file in that file's directory, sections "
             "in the opposite order, a section alone; the include stage and the environment loop of read_config are modelled over extracted facts "
             "(which directory expand_here gets per matched file; whether the [supervisord] environment is copied per process; whether the parser "
             "expands with the options' own ENV_ dictionary or a snapshot, and whether the program and the http server sections are parsed after the "
             "[supervisord] environment was added to it; lookups written `get(...) or '<text>'`); metamorphic ENV_-source monitor (an option value "
             "written as %(ENV_X)s denotes the text X is defined with, wherever X is defined) and the written-value monitor (each written option has "
             "the value the documented converter gives for its text, the empty text included)")
LEVEL_TEXT = ("numprocs law, per-process independence of expansion (process k is what a fresh single-process expansion yields; over the generated "
              "placement of the statements that rebuild the expansion dictionary inside the numprocs loop), group membership, listener subscription, "
              "environment precedence, independence of a program's environment from the other sections (environment_independent_of_other_sections, "
              "read_config_environment), %(here)s of an included file = that file's directory for all patterns and matches "
              "(include_here_is_directory_of_file), visibility of the [supervisord] environment as ENV_ names with the file's value in every section kind "
              "(sections_see_supervisord_environment, env_var_of_supervisord_environment), no replacement of a present-but-empty value "
              "(written_value_is_converted), ordering and the rejection of every documented constraint are proved for all parsed files (no bound on "
              "sections, options, numprocs); documented defaults = coded defaults is decided over the generated tables; the model is tied to the "
              "code by the generated tables and by running both on the same files")
LEVEL_NOTE = "trusts ConfigParser tokenisation, CPython string/int/% semantics outside the stated subset, the file system / passwd / importlib parameters"
DESIGN_REF = "DESIGN.md section 6, C14"
