"""
C12 -- XML-RPC exposes only the public API; answers are results or documented faults.

Correspondence (real code vs Model/Rpc.lean, same cases):
  rec      xmlrpc.traverse over RootRPCInterface and AttrDict roots holding *recording* namespaces (bound methods of every
           arity shape, class/static methods, plain attributes, None, lambdas, foreign bound methods): every name
           reachable from the objects, dunder names, dotted chains, empty parts, 0..4 arguments; and
           SystemNamespaceRPCInterface.multicall over the same namespaces with immediate, faulting, raising and
           deferred calls, polled to completion
  real     traverse over the real RootRPCInterface([supervisor, system]) built as make_http_servers does, with
           the real SupervisorNamespaceRPCInterface over supervisor.tests.base dummies: every attribute name reachable from
           the root and the interface objects x argument tuples with 32-bit edge values; observable = refused /
           arity fault / body entered (sys.setprofile on the method's code object)
  gate     every public method of the real interface in every mood: SHUTDOWN_STATE or not, and whether anything changed
Monitors: the statement itself (closure, arity, gating, documented fault codes), and the real
supervisor_xmlrpc_handler end-to-end on marshalled requests (never 500 on documented argument types, fault codes
in Faults, multicall element for element what single requests return).
"""
import errno, inspect, os, re, sys, types
from framework import Infra

ID = 'C12'
LEAN_PROPS = 'SupervisorModel.Props.C12'
DRIVER = 'drv_c12'
GENERATED = ['Rpc']
TRUSTED = [
    "Python's getattr / bound-method creation / argument binding (a call with a wrong number of positional arguments raises TypeError before the body runs): a parameter of the model (Kind, minArgs, maxArgs), exercised not verified",
    "str.split('.') and str.startswith('_') are modelled on character lists (splitDot, head?)",
    "method *bodies* are arbitrary state transformers in the theorems; which faults each real body raises is read off the AST (raisesTable), not proved from the body",
    "xmlrpclib marshalling, the medusa HTTP request/channel objects and DeferredXMLRPCResponse are exercised through the real handler with supervisor.tests.base.DummyRequest, not modelled",
    "'never 500 / never hangs / daemon survives' is PARTIAL: proved = refused names and arity errors answer a fault without running anything, gated methods answer SHUTDOWN_STATE, log methods never raise (C16 log_rpc_never_raises), every fault name is in Faults; exercised = the real handler on every public method with arguments of the documented types",
]
ASSUMPTIONS = [
    "arguments have the documented XML-RPC types (other types can raise inside int()/split_namespec and are outside the statement)",
    "interface objects are those registered by make_http_servers (RootRPCInterface + SystemNamespaceRPCInterface); the closure theorems hold for any attribute table",
]
RULE = ("rec: attribute tables drawn from the kinds {bound method with (min,max) arity and behaviour value/fault/raise/TypeError/deferred, "
        "classmethod, staticmethod, lambda attribute, int, None}, names = all ns x attr incl. dunder and private, dotted chains, empty parts, "
        "0..4 arguments; multicall = random compositions incl. recursion, missing methodName, deferred calls; real: every name reachable "
        "from the live interface objects x argument tuples of 32-bit edge values / strings; gate: public methods x 4 moods; "
        "e2e: every public method x generated arguments of the documented types.  non-trivial = the name resolves or is refused by a "
        "rule other than 'unknown namespace'; distinct = distinct (table-hash, name, argument count/values, mood)")

EDGES = [0, 1, -1, 2**31 - 1, -2**31, 2**31 - 2, 7]


def hx(s):
    b = s.encode('utf-8')
    return b.hex() if b else '-'


# =================================================================================================
# recording namespaces
# =================================================================================================
def make_function(label, mn, mx, beh, log, first='self'):
    """a Python function with exactly mn required and mx-mn optional positional parameters"""
    from supervisor.xmlrpc import RPCError
    from supervisor.http import NOT_DONE_YET
    params = [first] + ['a%d' % i for i in range(mn)] + ['b%d=_missing' % i for i in range(mx - mn)]
    names = ['a%d' % i for i in range(mn)] + ['b%d' % i for i in range(mx - mn)]
    def body(args):
        n = sum(1 for a in args if a is not _missing)
        log.append('%s/%d' % (label, n))
        return finish(beh, True)
    def finish(b, first_call):
        k = b[0]
        if k == 'v': return b[1]
        if k == 'f': raise RPCError(b[1])
        if k == 'x': raise ValueError('boom')
        if k == 't': raise TypeError('inside the body')
        if k == 'd':
            left = [b[1]]
            def cb():
                log.append('poll:' + label)
                if left[0] > 0:
                    left[0] -= 1
                    return NOT_DONE_YET
                return finish(b[2], False)
            cb.delay = 0.05
            return cb
    ns = {'_body': body, '_missing': _missing}
    exec('def f(%s):\n    return _body([%s])' % (', '.join(params), ', '.join(names)), ns)
    return ns['f']


_missing = object()


def beh_text(b):
    if b[0] == 'v': return 'v%d' % b[1]
    if b[0] == 'f': return 'f%d' % b[1]
    if b[0] in ('x', 't'): return b[0]
    return 'd%d,%s' % (b[1], beh_text(b[2]))


def gen_beh(rng, allow_deferred=True):
    r = rng.random()
    if r < 0.45: return ('v', rng.randrange(100))
    if r < 0.65: return ('f', rng.choice([1, 2, 3, 6, 10, 20, 30, 70]))
    if r < 0.75: return ('x',)
    if r < 0.82 or not allow_deferred: return ('t',)
    fin = rng.choice([('v', rng.randrange(100)), ('f', rng.choice([10, 30, 40, 50])), ('x',)])
    return ('d', rng.randrange(0, 4), fin)


ATTR_POOL = ['getPID', 'startProcess', 'listMethods', 'multicall', 'a', 'b1', 'supervisord', 'namespaces', 'x_y',
             '_update', '_private', '__init__', '__class__', '__dunder__', '_', '__call__']
NS_POOL = ['supervisor', 'system', 'ns', 'laforge', 'x']


def gen_world(rng, log):
    """returns (namespaces: [(name, instance)], entries: model table entries as text, spec: {ns: {attr: kind}})"""
    nss, entries, spec = [], [], {}
    for ns in rng.sample(NS_POOL, rng.randrange(1, 4)):
        cls_dict, inst_attrs, spec[ns] = {}, {}, {}
        for attr in rng.sample(ATTR_POOL, rng.randrange(2, 9)):
            label = '%s.%s' % (ns, attr)
            r = rng.random()
            if r < 0.55:
                mn = rng.randrange(0, 3); mx = mn + rng.randrange(0, 3)
                b = gen_beh(rng)
                cls_dict[attr] = make_function(label, mn, mx, b, log)
                spec[ns][attr] = ('m', mn, mx, b)
            elif r < 0.62:      # classmethod: a bound method (of the class)
                mn = rng.randrange(0, 2); mx = mn + rng.randrange(0, 2)
                b = gen_beh(rng, allow_deferred=False)
                cls_dict[attr] = classmethod(make_function(label, mn, mx, b, log, first='cls'))
                spec[ns][attr] = ('m', mn, mx, b)
            elif r < 0.69:      # staticmethod: a plain function, not a bound method
                cls_dict[attr] = staticmethod(make_function(label, 0, 1, ('v', 1), log, first='x=None'))
                spec[ns][attr] = ('o',)
            elif r < 0.76:      # function stored on the instance: not bound
                inst_attrs[attr] = make_function(label, 0, 0, ('v', 2), log, first='x=None')
                spec[ns][attr] = ('o',)
            elif r < 0.83:      # a bound method of a *different* object stored on the instance
                other = type('Other', (object,), {'m': make_function(label, 0, 1, ('v', 3), log)})()
                inst_attrs[attr] = other.m
                spec[ns][attr] = ('m', 0, 1, ('v', 3))
            elif r < 0.93:
                inst_attrs[attr] = rng.choice([5, 'text', [1, 2], {'k': 1}])
                spec[ns][attr] = ('o',)
            else:
                inst_attrs[attr] = None       # getattr(..., None) is None
                spec[ns][attr] = None
        if '__init__' in cls_dict or '__class__' in cls_dict or '__call__' in cls_dict:
            # keep instantiation and attribute machinery intact: move such names to plain data entries
            for k in ('__init__', '__class__', '__call__'):
                if k in cls_dict:
                    del cls_dict[k]; spec[ns].pop(k, None)
        for k in ('__class__', '__init__', '__call__'):
            if k in inst_attrs:
                del inst_attrs[k]; spec[ns].pop(k, None)
        inst = type('Rec_' + ns, (object,), cls_dict)()
        for k, v in inst_attrs.items():
            setattr(inst, k, v)
        if 'inner' not in spec[ns]:
            inner = type('Inner', (object,), {'go': make_function('%s.inner.go' % ns, 0, 1, ('v', 9), log)})()
            inst.inner = inner
            spec[ns]['inner'] = ('o',)
        nss.append((ns, inst))
    for ns, attrs in spec.items():
        entries.append(hx(ns))
        for attr, k in attrs.items():
            if k is None:
                continue
            if k[0] == 'o':
                entries.append('%s:%s:o' % (hx(ns), hx(attr)))
            else:
                entries.append('%s:%s:m%d,%d,%s' % (hx(ns), hx(attr), k[1], k[2], beh_text(k[3])))
    return nss, entries, spec


def names_for(rng, spec, n_random):
    nss = list(spec) + ['nosuch', '', '__class__', '__dict__']
    names = set()
    for ns in nss:
        attrs = list(spec.get(ns, {})) + ['nosuch', '', '_x', '__class__', '__init__']
        for a in attrs:
            names.add('%s.%s' % (ns, a))
            if rng.random() < 0.15:
                names.add('%s.%s.%s' % (ns, a, rng.choice(['x', '__call__', 'supervisord', ''])))
    for ns in spec:
        names.add('%s.inner.go' % ns); names.add('x.%s.inner.go' % ns)
    names.update(['', '.', '..', 'supervisor', 'supervisor.', '.getPID', 'system.multicall', 'supervisor..getPID',
                  'supervisor.supervisord.options.mood', 'a.b.c.d'])
    names = sorted(names)
    rng.shuffle(names)
    return names[:n_random] + ['%s.inner.go' % ns for ns in spec]


def outcome_line(fn, log):
    """run fn(), canonical outcome + what ran"""
    from supervisor.xmlrpc import RPCError
    before = len(log)
    try:
        v = fn()
        if isinstance(v, types.FunctionType):
            line = 'deferred'
        else:
            line = 'value %s' % (v,)
    except RPCError as e:
        line = 'fault %d' % e.code
    except Exception as e:
        line = 'raised ' + type(e).__name__
    ran = log[before:]
    return '%s ran=%s' % (line, ','.join(ran) if ran else '-')


def drive_multicall(system, calls, log, max_ticks=10000):
    from supervisor.http import NOT_DONE_YET
    from supervisor.xmlrpc import RPCError
    before = len(log)
    ticks = 1
    v = system.multicall(calls)
    while isinstance(v, types.FunctionType):
        r = v()
        ticks += 1
        if r is not NOT_DONE_YET:
            v = r
            break
        if ticks > max_ticks:
            return 'never-completes'
    def el(x):
        if isinstance(x, dict) and 'faultCode' in x:
            return 'f%d' % x['faultCode']
        return 'v%s' % (x,)
    ran = log[before:]
    return 'results=%s ticks=%d ran=%s' % (';'.join(el(x) for x in v) if v else '-', ticks, ','.join(ran) if ran else '-')


def run_rec(ctx):
    from supervisor import xmlrpc
    rng = ctx.rng
    cases, impls = [], []
    for ci in range(ctx.n(60, 900)):
        log = []
        nss, entries, spec = gen_world(rng, log)
        use_attrdict = ci % 2 == 1
        root = xmlrpc.AttrDict(dict(nss)) if use_attrdict else xmlrpc.RootRPCInterface(nss)
        system = xmlrpc.SystemNamespaceRPCInterface([(n, o) for n, o in nss if n != 'system'])
        ops, il = [], []
        plan = []
        for ns_, attrs_ in spec.items():
            for a_, k_ in attrs_.items():
                if k_ is not None and k_[0] == 'm':
                    for n_ in sorted(set([k_[1], k_[2], max(0, k_[1] - 1), k_[2] + 1])):
                        plan.append(('%s.%s' % (ns_, a_), n_))
        for name in names_for(rng, spec, 30):
            for nargs in rng.sample(range(5), 2):
                plan.append((name, nargs))
        rng.shuffle(plan)
        for name, nargs in plan:
            if True:
                ops.append('call %s %d' % (hx(name), nargs))
                line = outcome_line(lambda: xmlrpc.traverse(root, name, tuple(range(nargs))), log)
                il.append(line)
                ctx.count('rec:' + line.split(' ran=')[0].split()[0] + (line.split()[1] if line.startswith('fault') else ''))
                # ---- monitor: closure and arity, straight from the statement
                parts = name.split('.')
                k = spec.get(parts[0], {}).get(parts[1]) if len(parts) == 2 else None
                public = len(parts) == 2 and not parts[1].startswith('_') and k is not None and k[0] == 'm'
                ran = line.split(' ran=')[1]
                inp = {'part': 'rec', 'entries': entries, 'name': name, 'nargs': nargs, 'attrdict': use_attrdict}
                if not public and (ran != '-' or not line.startswith('fault 1 ')):
                    ctx.violation('non-public-name-executed' if ran != '-' else 'refused-name-wrong-answer',
                                  'name %r is not a public method of a namespace but traverse answered %r' % (name, line), inp)
                if public and not (k[1] <= nargs <= k[2]) and (ran != '-' or not line.startswith('fault 2 ')):
                    ctx.violation('arity-not-incorrect-parameters', '%r takes %d..%d arguments, %d given: %r' % (name, k[1], k[2], nargs, line), inp)
                if public and k[1] <= nargs <= k[2] and ran == '-':
                    ctx.violation('public-method-not-called', '%r with %d arguments: %r' % (name, nargs, line), inp)
                ctx.case_done(('rec', tuple(entries), name, nargs, use_attrdict), nontrivial=parts[0] in spec)
        # multicall over the system namespace's own root (AttrDict(namespaces) incl. 'system')
        sys_spec_entries = list(entries) + [hx('system')] if not any(n == 'system' for n, _ in nss) else entries
        callable_names = ['%s.%s' % (ns, a) for ns, at in spec.items() if ns != 'system' for a, k in at.items()]
        for _ in range(3):
            calls, items = [], []
            for _ in range(rng.randrange(0, 7)):
                r = rng.random()
                nargs = rng.randrange(0, 4)
                if r < 0.08:
                    calls.append({'params': list(range(nargs))}); items.append('*:%d' % nargs)
                    continue
                if r < 0.18: nm = 'system.multicall'
                elif r < 0.3 or not callable_names: nm = rng.choice(['nosuch.m', 'a.b.c', '', 'supervisor._update'])
                else: nm = rng.choice(callable_names)
                calls.append({'methodName': nm, 'params': list(range(nargs))}); items.append('%s:%d' % (hx(nm), nargs))
            ops.append('multi ' + (','.join(items) if items else '-'))
            line = drive_multicall(system, calls, log)
            il.append(line)
            ctx.count('multi:calls', len(calls)); ctx.count('multi:ticks', int(line.split('ticks=')[1].split()[0]) if 'ticks=' in line else 0)
            # ---- monitor: element for element what single calls return, faults as structs, recursion refused
            if any(n == 'system' for n, _ in nss):
                continue       # a recording namespace called 'system' is shadowed by the real one in multicall's root
            log2 = []
            nss2, _, _ = rebuild(rng, spec, log2)
            root2 = xmlrpc.AttrDict(dict(nss2)); root2['system'] = xmlrpc.SystemNamespaceRPCInterface(nss2)
            want = []
            for c in calls:
                nm = c.get('methodName')
                if nm is None or nm == 'system.multicall':
                    want.append('f2'); continue
                want.append(single_result(root2, nm, tuple(c['params'])))
            got = line.split('results=')[1].split()[0] if 'results=' in line else line
            inp = {'part': 'multi', 'entries': entries, 'calls': calls}
            if got != (';'.join(want) if want else '-'):
                ctx.violation('multicall-differs-from-sequential', 'multicall answered %s, the calls one after another answer %s' % (got, ';'.join(want)), inp)
            ran_str = line.split('ran=')[1] if 'ran=' in line else line
            if ran_str != (','.join(log2) or '-'):
                ctx.violation('multicall-execution-order', 'multicall ran %s, sequential calls run %s' % (ran_str, ','.join(log2) or '-'), inp)
            ctx.case_done(('multi', tuple(entries), tuple(items)), nontrivial=len(calls) > 0)
        cases.append(('case rpc ' + ' '.join(sys_entries(entries, nss)), ops)); impls.append(il)
    ctx.sample({'case': cases[0][0][:200], 'ops': cases[0][1][:4] + cases[0][1][-1:], 'impl': impls[0][:4] + impls[0][-1:]})
    ctx.correspond('rec', cases, impls)


def sys_entries(entries, nss):
    """the model table for a case: the recording namespaces, plus the entry that makes 'system.multicall' etc. resolvable
    only where the implementation's root has it (RootRPCInterface roots of this harness have no system namespace)"""
    return entries


def rebuild(rng, spec, log):
    """fresh instances of the same recording namespaces (same behaviours), for the sequential reference run"""
    nss = []
    for ns, attrs in spec.items():
        cls_dict, inst_attrs = {}, {}
        for attr, k in attrs.items():
            if k is not None and k[0] == 'm':
                cls_dict[attr] = make_function('%s.%s' % (ns, attr), k[1], k[2], k[3], log)
            elif k is not None:
                inst_attrs[attr] = 5
        inst = type('Rec2_' + ns, (object,), cls_dict)()
        for a, v in inst_attrs.items():
            setattr(inst, a, v)
        nss.append((ns, inst))
    return nss, None, None


def single_result(root, name, params):
    """what one call made on its own answers (deferred answers polled to completion)"""
    from supervisor import xmlrpc
    from supervisor.http import NOT_DONE_YET
    try:
        v = xmlrpc.traverse(root, name, params)
        while isinstance(v, types.FunctionType):
            r = v()
            if r is not NOT_DONE_YET:
                v = r
    except xmlrpc.RPCError as e:
        return 'f%d' % e.code
    except Exception:
        return 'f%d' % xmlrpc.Faults.FAILED
    return 'v%s' % (v,)


# =================================================================================================
# the real interface objects
# =================================================================================================
def make_real(mood=1, with_logs=None):
    from supervisor.tests.base import DummyOptions, DummyPConfig, PopulatedDummySupervisor, DummyPGroupConfig
    from supervisor.rpcinterface import SupervisorNamespaceRPCInterface
    from supervisor import xmlrpc
    opts = DummyOptions()
    kw = {}
    if with_logs:
        kw = {'stdout_logfile': with_logs, 'stderr_logfile': with_logs}
    pconfig = DummyPConfig(opts, 'proc', '/bin/true', **kw)
    sup = PopulatedDummySupervisor(opts, 'grp', pconfig)
    opts.process_group_configs = [DummyPGroupConfig(opts, 'grp', pconfigs=[pconfig])]
    opts.logfile = with_logs
    opts.mood = mood
    sup.add_process_group = lambda config: False
    sup.remove_process_group = lambda name: False
    sup.diff_to_active = lambda: ([], [], [])
    iface = SupervisorNamespaceRPCInterface(sup)
    subs = [('supervisor', iface)]
    subs.append(('system', xmlrpc.SystemNamespaceRPCInterface(subs)))      # as make_http_servers does
    return sup, iface, subs


def snapshot(sup):
    s = {'mood': sup.options.mood, 'groups': sorted(sup.process_groups)}
    for g, grp in sup.process_groups.items():
        for n, p in grp.processes.items():
            s['%s:%s' % (g, n)] = sorted((k, repr(v)) for k, v in vars(p).items() if k not in ('config', 'group'))
    s['removed'] = repr(getattr(sup.options, 'removed', None))
    return s


def real_table(root):
    """attribute table of a live root object by introspection: (entries for the model, {ns: {attr: (kind, min, max, code)}})"""
    entries, tab = [], {}
    for ns in sorted(set(dir(root)) | set(getattr(root, 'keys', lambda: [])())):
        obj = getattr(root, ns, None)
        if obj is None:
            continue
        tab[ns] = {}
        entries.append(hx(ns))
        for attr in dir(obj):
            try:
                v = getattr(obj, attr, None)
            except Exception:
                continue
            if v is None:
                continue
            if inspect.ismethod(v):
                try:
                    sig = inspect.signature(v)
                    ps = list(sig.parameters.values())
                    mn = sum(1 for p in ps if p.kind in (p.POSITIONAL_ONLY, p.POSITIONAL_OR_KEYWORD) and p.default is p.empty)
                    mx = 10**6 if any(p.kind == p.VAR_POSITIONAL for p in ps) else sum(1 for p in ps if p.kind in (p.POSITIONAL_ONLY, p.POSITIONAL_OR_KEYWORD))
                    if any(p.kind == p.KEYWORD_ONLY and p.default is p.empty for p in ps):
                        mn, mx = 1, 0
                except (TypeError, ValueError):
                    mn, mx = 0, 10**6
                tab[ns][attr] = ('m', mn, mx, getattr(v.__func__, '__code__', None))
                entries.append('%s:%s:m%d,%d,v0' % (hx(ns), hx(attr), mn, mx))
            else:
                tab[ns][attr] = ('o',)
                entries.append('%s:%s:o' % (hx(ns), hx(attr)))
    return entries, tab


def deep_names(root, depth=4, limit=400):
    """dotted chains of three or more parts that lead, attribute by attribute, from the root to a bound method
    (what an object-traversing dispatcher would reach: CVE-2017-11610)"""
    out, seen = [], set()
    def walk(obj, path):
        if len(out) >= limit or len(path) >= depth or id(obj) in seen:
            return
        seen.add(id(obj))
        for a in dir(obj):
            if a.startswith('__'):
                continue
            try:
                v = getattr(obj, a)
            except Exception:
                continue
            if inspect.ismethod(v):
                if len(path) >= 2:
                    out.append('.'.join(path + [a]))
            elif hasattr(v, '__dict__') and not inspect.isclass(v) and not inspect.ismodule(v) and not inspect.isfunction(v):
                walk(v, path + [a])
    for ns in dir(root):
        if not ns.startswith('__'):
            walk(getattr(root, ns), [ns])
    return out


class Entered:
    """did a frame of this code object start?  (sys.setprofile; nothing in /repo is touched)"""
    def __init__(self, code):
        self.code, self.n = code, 0
    def __enter__(self):
        def prof(frame, event, arg):
            if event == 'call' and frame.f_code is self.code:
                self.n += 1
        self.old = sys.getprofile()
        sys.setprofile(prof)
        return self
    def __exit__(self, *a):
        sys.setprofile(self.old)


def gen_arg(rng):
    r = rng.random()
    if r < 0.5: return rng.choice(EDGES)
    if r < 0.8: return rng.choice(['grp:proc', 'proc', 'grp:*', 'nosuch', '', 'HUP', 'a:b:c', 'é'])
    return rng.choice([True, False])


def run_real(ctx):
    from supervisor import xmlrpc
    rng = ctx.rng
    sup, iface, subs = make_real()
    root = xmlrpc.RootRPCInterface(subs)
    entries, tab = real_table(root)
    # every reachable name: ns x attr for every attribute of the root and of each object hanging off it
    names = set()
    for ns, attrs in tab.items():
        for a in attrs:
            names.add('%s.%s' % (ns, a))
        names.add(ns); names.add(ns + '.'); names.add(ns + '.nosuch')
    for a in tab.get('supervisor', {}):
        names.add('supervisor.supervisord.' + a); names.add('system.namespaces.supervisor.' + a)
    names.update(['supervisor.supervisord.options.mood', 'supervisor.supervisord.options.logger.handlers', 'system.namespaces.clear',
                  '__class__.__init__', '__dict__.clear', '__init__.__func__', '.', '', 'supervisor..getPID', '__class__.mro'])
    names.update(deep_names(root))
    names = sorted(names)
    ctx.count('real:names', len(names)); ctx.count('real:table-entries', len(entries))
    ops, il = [], []
    per = 2 if ctx.tier == 'quick' else 4
    for name in names:
        parts = name.split('.')
        k = tab.get(parts[0], {}).get(parts[1]) if len(parts) == 2 else None
        public = len(parts) == 2 and not parts[1].startswith('_') and k is not None and k[0] == 'm'
        argcounts = sorted(set([0, 1] + ([k[1], min(k[2], 4), min(k[2] + 1, 5)] if public else []) + [rng.randrange(0, 5) for _ in range(per)]))
        for nargs in argcounts:
            sup, iface, subs = make_real(mood=rng.choice([1, 1, 1, 2]))
            root = xmlrpc.RootRPCInterface(subs)
            args = tuple(gen_arg(rng) for _ in range(nargs))
            code = k[3] if public else None
            target = None
            if public:       # the fresh objects' code objects are the same functions
                target = getattr(getattr(root, parts[0]), parts[1]).__func__.__code__
            before = snapshot(sup)
            with Entered(target) as ent:
                try:
                    xmlrpc.traverse(root, name, args)
                    res = 'ok'
                except xmlrpc.RPCError as e:
                    res = 'fault %d' % e.code
                except BaseException as e:
                    res = 'raised ' + type(e).__name__
            if ent.n:
                line = 'value 0 ran=%s/%d' % (name, nargs)
            else:
                line = '%s ran=-' % res
            ops.append('call %s %d' % (hx(name), nargs)); il.append(line)
            inp = {'part': 'real', 'name': name, 'args': [repr(a) for a in args]}
            ctx.count('real:' + ('entered' if ent.n else res))
            if not public:
                if res != 'fault 1' or snapshot(sup) != before:
                    ctx.violation('non-public-name-executed' if snapshot(sup) != before else 'refused-name-wrong-answer',
                                  'traverse(%r, %r) answered %s' % (name, args, res), inp)
            elif not (k[1] <= nargs <= k[2]):
                if res != 'fault 2' or ent.n or snapshot(sup) != before:
                    ctx.violation('arity-not-incorrect-parameters', '%r takes %d..%d arguments, %d given: %s (entered=%d)' % (name, k[1], k[2], nargs, res, ent.n), inp)
            elif not ent.n:
                ctx.violation('public-method-not-called', '%r with %d arguments: %s' % (name, nargs, res), inp)
            ctx.case_done(('real', name, args), nontrivial=parts[0] in tab)
    cases = [('case rpc ' + ' '.join(entries), ops)]
    ctx.sample({'case': 'rpc (live table, %d entries)' % len(entries), 'ops': ops[:3], 'impl': il[:3]})
    ctx.correspond('real', cases, [il])


# =================================================================================================
# gating in every mood
# =================================================================================================
def doc_sections():
    from framework import REPO
    doc = open(os.path.join(REPO, 'docs', 'api.rst')).read().split('\n')
    sections, cur = {}, None
    for i, line in enumerate(doc):
        if i + 1 < len(doc) and re.match(r'^-{3,}\s*$', doc[i + 1]) and line.strip():
            cur = line.strip(); sections[cur] = []
        m = re.match(r'\s*\.\. automethod:: (\w+)', line)
        if m and cur:
            sections[cur].append(m.group(1))
    return sections


def typed_args(rng, func, valid=True):
    """arguments of the documented types (@param tags of the docstring)"""
    from supervisor.xmlrpc import gettags
    args = []
    for t in gettags(func.__doc__ or ''):
        if t[1] != 'param':
            continue
        ty, nm = t[2], t[3]
        if ty == 'string':
            if nm == 'signal': args.append(rng.choice(['HUP', '1', 'TERM', 'BOGUS', '', '15', '99999']))
            elif nm in ('chars', 'data', 'type'): args.append(rng.choice(['hello\n', '', 'é€', 'x' * 300]))
            else: args.append('grp:proc' if valid and rng.random() < 0.6 else rng.choice(['grp:proc', 'proc', 'grp:*', 'grp', 'nosuch', 'grp:nosuch', '', 'a:b:c', 'é', '*']))
        elif ty == 'int':
            args.append(rng.choice(EDGES) if rng.random() < 0.7 else rng.randrange(-2**31, 2**31))
        elif ty == 'boolean':
            args.append(rng.random() < 0.5)
        elif ty == 'array':
            args.append([{'methodName': 'supervisor.getPID', 'params': []}, {'methodName': 'supervisor.nosuch'}, {'methodName': 'system.multicall', 'params': [[]]}])
        else:
            args.append({})
    return args


def run_gate(ctx):
    from supervisor import xmlrpc, events
    rng = ctx.rng
    control = set(doc_sections().get('Process Control', []))
    sup, iface, subs = make_real()
    publics = sorted(a for a in dir(iface) if not a.startswith('_') and inspect.ismethod(getattr(iface, a)))
    ops, il = [], []
    for name in publics:
        for mood in (-1, 0, 1, 2):
            sup, iface, subs = make_real(mood=mood)
            root = xmlrpc.RootRPCInterface(subs)
            seen = []
            events.clear(); events.subscribe(events.Event, seen.append)
            args = typed_args(rng, getattr(iface, name))
            before = snapshot(sup)
            try:
                xmlrpc.traverse(root, 'supervisor.' + name, tuple(args))
                res = 'passes'
            except xmlrpc.RPCError as e:
                res = 'fault %d' % e.code if e.code == xmlrpc.Faults.SHUTDOWN_STATE else 'passes'
            except Exception:
                res = 'passes'
            events.clear()
            changed = 1 if (snapshot(sup) != before or seen) else 0
            ops.append('gate %s %d 1' % (name, mood))
            il.append('%s changed=%d' % (res, changed) if res.startswith('fault') else 'passes')
            ctx.count('gate:' + res.split()[0] + ('' if mood >= 1 else '-below-running'))
            ctx.case_done(('gate', name, mood), nontrivial=True)
            if mood < 1 and name in control and (res != 'fault %d' % xmlrpc.Faults.SHUTDOWN_STATE or changed):
                ctx.violation('ungated-while-shutting-down:' + name,
                              'supervisor.%s%r in mood %d answered %s, changed=%d (events %d)' % (name, tuple(args), mood, res, changed, len(seen)),
                              {'part': 'gate', 'name': name, 'mood': mood, 'args': args})
    ctx.sample({'case': 'rpc gate', 'ops': ops[:4], 'impl': il[:4]})
    ctx.correspond('gate', [('case rpc', ops)], [il])


# =================================================================================================
# end to end: the real supervisor_xmlrpc_handler on marshalled requests
# =================================================================================================
def e2e_request(handler, method, params):
    """-> ('value', v) | ('fault', code) | ('http', status) | ('incomplete',)"""
    from supervisor.compat import xmlrpclib
    from supervisor.tests.base import DummyRequest
    from supervisor.http import NOT_DONE_YET
    from supervisor import xmlrpc
    data = xmlrpclib.dumps(tuple(params), method)
    req = DummyRequest('/RPC2', None, None, None)
    req.channel.server = type('S', (), {'logger': type('L', (), {'log': staticmethod(lambda *a: None)})()})()
    pushed = []
    req.channel.push_with_producer = pushed.append
    handler.continue_request(data, req)
    if req._error is not None:
        return ('http', req._error)
    if pushed:
        d = pushed[0]
        if isinstance(d, xmlrpc.DeferredXMLRPCResponse):
            got = []
            d.getresponse = lambda body: got.append(body)
            for _ in range(200):
                r = d.more()
                if req._error is not None:
                    return ('http', req._error)
                if got:
                    break
            if not got:
                return ('incomplete',)
            body = got[0]
        else:
            return ('http', 'unexpected producer')
    else:
        body = req.producers[0]
    try:
        v = xmlrpclib.loads(body)[0][0]
        return ('value', v)
    except xmlrpclib.Fault as f:
        return ('fault', f.faultCode)
    except Exception as e:
        return ('unparseable', type(e).__name__)


def make_stdin_full_process(sup):
    """F21: a real Subprocess whose stdin pipe is full (os.write -> EAGAIN)"""
    from supervisor.process import Subprocess
    from supervisor.dispatchers import PInputDispatcher
    from supervisor.tests.base import DummyPConfig
    opts = sup.options
    cfg = DummyPConfig(opts, 'full', '/bin/cat')
    p = Subprocess(cfg)
    p.pid = 4242
    p.pipes = {'stdin': 5}
    p.dispatchers = {5: PInputDispatcher(p, 'stdin', 5)}
    opts.write_exception = OSError(errno.EAGAIN, 'Resource temporarily unavailable')
    sup.process_groups['grp'].processes['full'] = p


def run_e2e(ctx):
    from supervisor import xmlrpc
    rng = ctx.rng
    codes = set(v for k, v in vars(xmlrpc.Faults).items() if not k.startswith('_'))
    logpath = os.path.join(ctx.scratch, 'e2e.log')
    open(logpath, 'wb').write('aé€\xff\x1b[0m tail\n'.encode('latin-1', 'replace') if False else b'a\xc3\xa9\xe2\x82\xac\xff tail\n')
    def fresh(mood=1):
        sup, iface, subs = make_real(mood=mood, with_logs=logpath)
        return sup, iface, xmlrpc.supervisor_xmlrpc_handler(sup, subs)
    def check(method, params, out, mood, extra=None):
        inp = dict({'part': 'e2e', 'method': method, 'params': params, 'mood': mood}, **(extra or {}))
        ctx.count('e2e:' + out[0] + (':%s' % out[1] if out[0] in ('fault', 'http') else ''))
        ctx.case_done(('e2e', method, repr(params), mood), nontrivial=True)
        if out[0] == 'http' and out[1] == 500:
            ctx.violation('http-500:' + method, '%s%r produced an HTTP 500' % (method, tuple(params)), inp)
        elif out[0] == 'http':
            ctx.violation('http-error:' + method, '%s%r produced HTTP %s' % (method, tuple(params), out[1]), inp)
        elif out[0] == 'fault' and out[1] not in codes:
            ctx.violation('undocumented-fault-code', '%s%r answered fault %r' % (method, tuple(params), out[1]), inp)
        elif out[0] == 'unparseable':
            ctx.violation('response-unparseable:' + method, '%s%r: the response body cannot be parsed (%s)' % (method, tuple(params), out[1]), inp)
    # ---- regression corpus: F7 (log window cutting a multi-byte character) and F21 (full stdin pipe)
    for m, p in [('supervisor.readProcessStdoutLog', ['grp:proc', 0, 2]), ('supervisor.tailProcessStdoutLog', ['grp:proc', 0, 3]),
                 ('supervisor.readLog', [1, 1]), ('supervisor.readProcessStderrLog', ['grp:proc', -3, 0]), ('supervisor.readMainLog', [5, 2])]:
        sup, iface, h = fresh()
        check(m, p, e2e_request(h, m, p), 1, {'regression': 'F7'})
    sup, iface, h = fresh()
    make_stdin_full_process(sup)
    out = e2e_request(h, 'supervisor.sendProcessStdin', ['grp:full', 'hello'])
    check('supervisor.sendProcessStdin', ['grp:full', 'hello'], out, 1, {'regression': 'F21'})
    if out != ('value', True):
        ctx.violation('stdin-full-not-accepted', 'sendProcessStdin to a child whose stdin pipe is full answered %r' % (out,), {'part': 'e2e-f21'})
    # ---- every public method, documented argument types
    sup, iface, h = fresh()
    publics = [('supervisor.' + a, getattr(iface, a)) for a in dir(iface) if not a.startswith('_') and inspect.ismethod(getattr(iface, a))]
    sysi = dict(make_real()[2])['system']
    publics += [('system.' + a, getattr(sysi, a)) for a in dir(sysi) if not a.startswith('_') and inspect.ismethod(getattr(sysi, a))]
    for _ in range(ctx.n(6, 60)):
        for method, func in publics:
            mood = rng.choice([1, 1, 1, -1, 0, 2])
            sup, iface, h = fresh(mood)
            params = typed_args(rng, func, valid=rng.random() < 0.7)
            if method in ('system.methodHelp', 'system.methodSignature'):
                params = [rng.choice([m for m, _ in publics] + ['nosuch', ''])]
            out = e2e_request(h, method, params)
            check(method, params, out, mood)
    # ---- names that are not public, wrong arity: faults 1 / 2 over the wire
    for name in ['supervisor._update', 'supervisor.supervisord', 'supervisor.supervisord.options', 'system._listMethods', 'nosuch.x',
                 'supervisor', 'system.namespaces', 'supervisor.__init__', 'a.b.c']:
        sup, iface, h = fresh()
        out = e2e_request(h, name, [])
        check(name, [], out, 1)
        if out != ('fault', xmlrpc.Faults.UNKNOWN_METHOD):
            ctx.violation('refused-name-wrong-answer', '%s over the wire answered %r' % (name, out), {'part': 'e2e', 'method': name, 'params': [], 'mood': 1})
    for method, func in publics:
        sup, iface, h = fresh()
        n = len(typed_args(rng, func)) + 1 + (2 if 'wait' in inspect.signature(func).parameters else 0)
        out = e2e_request(h, method, [1] * n)
        check(method, [1] * n, out, 1)
        if out != ('fault', xmlrpc.Faults.INCORRECT_PARAMETERS):
            ctx.violation('arity-not-incorrect-parameters', '%s with %d arguments over the wire answered %r' % (method, n, out), {'part': 'e2e', 'method': method, 'params': [1] * n, 'mood': 1})
    # ---- multicall over the wire: element for element what single requests return
    singles = [('supervisor.getPID', []), ('supervisor.getState', []), ('supervisor.nosuch', []), ('supervisor.getProcessInfo', ['nosuch']),
               ('supervisor.readLog', [0, 3]), ('supervisor.readLog', [-1, 1]), ('system.multicall', [[]]), ('supervisor.getAPIVersion', [1]),
               ('supervisor.getIdentification', []), ('supervisor.signalProcess', ['grp:proc', 'BOGUS'])]
    for _ in range(ctx.n(10, 100)):
        picks = [rng.choice(singles) for _ in range(rng.randrange(1, 6))]
        sup, iface, h = fresh()
        out = e2e_request(h, 'system.multicall', [[{'methodName': m, 'params': p} for m, p in picks]])
        want = []
        for m, p in picks:
            sup2, iface2, h2 = fresh()
            o = ('fault', xmlrpc.Faults.INCORRECT_PARAMETERS) if m == 'system.multicall' else e2e_request(h2, m, p)
            want.append(o)
        got = [('fault', x['faultCode']) if isinstance(x, dict) and 'faultCode' in x else ('value', x) for x in out[1]] if out[0] == 'value' else out
        ctx.count('e2e:multicall'); ctx.case_done(('e2e-multi', repr(picks)), nontrivial=True)
        norm = lambda o: ('value', 'pid') if o[0] == 'value' and isinstance(o[1], int) and not isinstance(o[1], bool) else o
        if [norm(g) for g in got] != [norm(w) for w in want]:
            ctx.violation('multicall-differs-from-sequential', 'multicall over the wire answered %r, single requests answer %r' % (got, want),
                          {'part': 'e2e-multi', 'calls': picks})


# =================================================================================================
# end to end, deferred answers: the real DeferredXMLRPCResponse polled until the HTTP response completes
# =================================================================================================
class SlowNs(object):
    """a registered namespace (as an rpcinterface plugin would be) whose methods answer later"""
    def __init__(self, log):
        self.log = log
    def slow(self, k, kind):
        from supervisor.http import NOT_DONE_YET
        from supervisor.xmlrpc import RPCError
        left = [int(k)]
        def cb():
            self.log.append('poll')
            if left[0] > 0:
                left[0] -= 1
                return NOT_DONE_YET
            if kind == 'fault':
                raise RPCError(70, 'slow')
            if kind == 'struct':
                return {'name': 'x', 'n': int(k), 'l': [1, 'é', True]}
            return 'done after %d' % int(k)
        cb.delay = 0.05
        return cb


def deferred_request(handler, method, params, between_polls=None, max_polls=60):
    """marshalled request through the real handler; the deferred producer it pushes is polled with the REAL
    DeferredXMLRPCResponse.more()/getresponse().  -> dict(status, answer, polls, content_length_ok, pushed_reply)"""
    from supervisor.compat import xmlrpclib, as_bytes
    from supervisor.tests.base import DummyRequest
    from supervisor.http import NOT_DONE_YET
    from supervisor import xmlrpc
    req = DummyRequest('/RPC2', None, None, None)
    req.channel.server = type('S', (), {'logger': type('L', (), {'log': staticmethod(lambda *a: None)})()})()
    pushed = []
    req.channel.push_with_producer = pushed.append
    req.channel.close_when_done = lambda: None
    handler.continue_request(xmlrpclib.dumps(tuple(params), method), req)
    res = {'polls': 0, 'deferred': False}
    if req._error is not None:
        res['status'] = req._error; return res
    if pushed and isinstance(pushed[0], xmlrpc.DeferredXMLRPCResponse):
        d = pushed[0]
        res['deferred'] = True
        while True:
            r = d.more()
            if req._error is not None:
                res['status'] = req._error; return res
            if r is NOT_DONE_YET:
                res['polls'] += 1
                if between_polls:
                    between_polls(res['polls'])
                if res['polls'] > max_polls:
                    res['status'] = 'never-completes'; return res
                continue
            break
        res['finished'] = d.finished and d.more() == ''
        res['pushed_reply'] = len(pushed) == 2        # getresponse() handed the header+body producer to the channel
    body = req.producers[0] if req.producers else None
    if body is None:
        res['status'] = 'no-body'; return res
    res['status'] = 200
    res['content_length_ok'] = req.headers.get('Content-Length') == len(body) and req.headers.get('Content-Type') == 'text/xml'
    try:
        res['answer'] = ('value', xmlrpclib.loads(body)[0][0])
    except xmlrpclib.Fault as f:
        res['answer'] = ('fault', f.faultCode)
    except Exception as e:
        res['answer'] = ('unparseable', type(e).__name__)
    return res


def direct_answer(fn, between_polls=None, max_polls=60):
    """the same call made directly on the interface object, its callback polled by hand"""
    from supervisor.http import NOT_DONE_YET
    from supervisor.xmlrpc import RPCError
    polls = 0
    try:
        v = fn()
        while isinstance(v, types.FunctionType):
            r = v()
            if r is NOT_DONE_YET:
                polls += 1
                if between_polls:
                    between_polls(polls)
                if polls > max_polls:
                    return ('never-completes',), polls
                continue
            v = r
    except RPCError as e:
        return ('fault', e.code), polls
    return ('value', v), polls


def run_e2e_deferred(ctx):
    from supervisor import xmlrpc
    from supervisor.states import ProcessStates
    rng = ctx.rng
    def check(label, res, want, want_polls, inp):
        ctx.count('deferred:' + label); ctx.count('deferred:polls', res['polls'])
        ctx.case_done(('e2e-deferred', label, repr(inp)), nontrivial=res['polls'] > 0)
        if res.get('status') == 500:
            ctx.violation('http-500:' + label, 'deferred %s produced an HTTP 500' % label, inp)
        elif res.get('status') != 200:
            ctx.violation('deferred-response-never-completes', 'deferred %s: status %r after %d polls' % (label, res.get('status'), res['polls']), inp)
        elif res['answer'] != want or res['polls'] != want_polls:
            ctx.violation('deferred-response-differs', 'deferred %s completed with %r after %d polls; the direct call gives %r after %d'
                          % (label, res['answer'], res['polls'], want, want_polls), inp)
        elif res['deferred'] and not (res.get('finished') and res.get('pushed_reply') and res.get('content_length_ok')):
            ctx.violation('deferred-response-incomplete', 'deferred %s: finished=%s reply-pushed=%s content-length-ok=%s'
                          % (label, res.get('finished'), res.get('pushed_reply'), res.get('content_length_ok')), inp)
    # ---- a plugin namespace answering after k polls
    for k in range(0, 6):
        for kind in ('value', 'fault', 'struct'):
            sup, iface, subs = make_real()
            log = []
            subs2 = [('supervisor', iface), ('slow', SlowNs(log))]
            subs2.append(('system', xmlrpc.SystemNamespaceRPCInterface(subs2)))
            h = xmlrpc.supervisor_xmlrpc_handler(sup, subs2)
            res = deferred_request(h, 'slow.slow', [k, kind])
            want, wp = direct_answer(lambda: SlowNs([]).slow(k, kind))
            check('slow.slow', res, want, wp, {'part': 'e2e-deferred', 'method': 'slow.slow', 'k': k, 'kind': kind})
            # the same inside system.multicall, between two immediate calls
            sup, iface, subs = make_real()
            subs2 = [('supervisor', iface), ('slow', SlowNs([]))]
            subs2.append(('system', xmlrpc.SystemNamespaceRPCInterface(subs2)))
            h = xmlrpc.supervisor_xmlrpc_handler(sup, subs2)
            calls = [{'methodName': 'supervisor.getAPIVersion', 'params': []}, {'methodName': 'slow.slow', 'params': [k, kind]},
                     {'methodName': 'supervisor.getIdentification', 'params': []}]
            res = deferred_request(h, 'system.multicall', [calls])
            mid = want[1] if want[0] == 'value' else {'faultCode': want[1], 'faultString': 'NOT_RUNNING: slow'}
            sup2, iface2, _ = make_real()
            wantm = ('value', [iface2.getAPIVersion(), mid, iface2.getIdentification()])
            check('multicall[slow.slow]', res, wantm, wp, {'part': 'e2e-deferred', 'method': 'system.multicall', 'k': k, 'kind': kind})
    # ---- the real interface: stop / start with wait, the process reaching its state after j polls
    for j in range(0, 5):
        for method, start_state, mid_state, end_state in (('stopProcess', ProcessStates.RUNNING, ProcessStates.STOPPING, ProcessStates.STOPPED),
                                                          ('startProcess', ProcessStates.STOPPED, ProcessStates.STARTING, ProcessStates.RUNNING),
                                                          ('startProcess', ProcessStates.STOPPED, ProcessStates.STARTING, ProcessStates.BACKOFF),
                                                          ('stopAllProcesses', ProcessStates.RUNNING, ProcessStates.STOPPING, ProcessStates.STOPPED),
                                                          ('startProcessGroup', ProcessStates.STOPPED, ProcessStates.STARTING, ProcessStates.RUNNING)):
            def scenario():
                sup, iface, subs = make_real()
                p = sup.process_groups['grp'].processes['proc']
                p.state = start_state
                p.stop = lambda: setattr(p, 'state', mid_state)
                p.spawn = lambda: setattr(p, 'state', mid_state)
                def between(n):
                    if n >= j:
                        p.state = end_state
                if j == 0:
                    p.stop = lambda: setattr(p, 'state', end_state)
                    p.spawn = lambda: setattr(p, 'state', end_state)
                return sup, iface, subs, between
            params = {'stopProcess': ['grp:proc', True], 'startProcess': ['grp:proc', True], 'stopAllProcesses': [True], 'startProcessGroup': ['grp', True]}[method]
            sup, iface, subs, between = scenario()
            h = xmlrpc.supervisor_xmlrpc_handler(sup, subs)
            res = deferred_request(h, 'supervisor.' + method, params, between)
            sup2, iface2, subs2, between2 = scenario()
            want, wp = direct_answer(lambda: getattr(iface2, method)(*params), between2)
            check('supervisor.' + method, res, want, wp,
                  {'part': 'e2e-deferred', 'method': 'supervisor.' + method, 'j': j, 'end_state': end_state})


def run(ctx):
    run_rec(ctx)
    run_real(ctx)
    run_gate(ctx)
    run_e2e(ctx)
    run_e2e_deferred(ctx)


# ---- MANIFEST metadata -----------------------------------------------------------------------
TECHNIQUE = ("Lean 4 theorems over a model of traverse() on an arbitrary attribute table, the generated gate/raise/arity/Faults tables "
             "(AST of rpcinterface.py, xmlrpc.py, docs/api.rst) and a step-function model of system.multicall; differential "
             "correspondence against the real traverse/multicall/interfaces and the real XML-RPC handler")
LEVEL_TEXT = ("traverse_closed / refused_executes_nothing / arity_fault for every attribute table and every name; gating for every "
              "documented process-control and configuration method (one exception, finding F39) by decide over the whole generated "
              "table; every raised fault name is a constant of Faults; multicall = the calls one after another for every call list, "
              "every deferred-callback behaviour and every tick schedule")
LEVEL_NOTE = ("'never 500 / never hangs' is partial: proved for name resolution, arity, gating and the log methods; the method bodies and the "
              "HTTP plumbing are exercised through the real handler, not proved")
DESIGN_REF = "DESIGN.md section 6, C12"
