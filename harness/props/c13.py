"""
C13 -- start/stop/signal RPC answers agree with what happened to the process.
L2: real SupervisorNamespaceRPCInterface calls executed inside the real main loop (at the place of the XML-RPC channel), deferred
answers polled by the loop, all eight states at request time, both wait modes, group/all forms (monitors) and single forms (model).
"""
from props import l2common
import l2

ID = 'C13'
LEAN_PROPS = 'SupervisorModel.Props.C13'
DRIVER = 'drv_c02'
GENERATED = ['Proc', 'Sup']
TRUSTED = l2common.TRUSTED
ASSUMPTIONS = ["deferred callbacks are polled once per pass by the channel (as medusa does when the channel is writable)"]
RULE = ("scenarios as for C02 with an RPC in about half of the passes (start/stop/signal on name, group:name, group:*, unknown names, "
        "start/stopAllProcesses; wait true/false), children dying before/after startsecs and during the deferred wait, spawn failures, missing "
        "command files; non-trivial = at least one RPC answered; distinct = distinct trace")


def dense_rpc(ctx, group_forms):
    rng = ctx.rng
    for _ in range(ctx.n(500, 10000)):
        progs = l2.gen_programs(rng, 4)
        n = rng.choice([15, 30])
        script = l2.gen_script(rng, progs, n, shutdown=None, faults=rng.random() < 0.2, rpcs=True, group_forms=group_forms)
        # densify: a second generator pass adds more RPCs
        extra = l2.gen_script(rng, progs, n, rpcs=True, group_forms=group_forms)
        script = [(dt, acts + [a if a[0] != 'rpc' else ('rpc', a[1] + 1000, a[2], a[3]) for a in e_acts if a[0] == 'rpc'])
                  for (dt, acts), (_, e_acts) in zip(script, extra)]
        yield progs, script


def run(ctx):
    mons = [l2.mon_c13, l2.mon_c13_groups, l2.mon_c02, l2.mon_c06]
    l2common.run_all(ctx, dense_rpc(ctx, False), mons, correspond=True)
    l2common.run_all(ctx, dense_rpc(ctx, True), mons, correspond=False)


def replay(ctx, data):
    l2common.replay(ctx, data, [l2.mon_c13, l2.mon_c13_groups, l2.mon_c02, l2.mon_c06])


TECHNIQUE = "Lean 4 theorems on the RPC layer of the process/daemon model (answers vs forks/signals/states, for all states and environment answers) + correspondence with the real rpcinterface executed inside the unmodified main loop"
LEVEL_TEXT = ("start_forks_only_if_eligible, start_true_sound, start_error_codes, stop_not_running_exact, signal_exact and the deferred-answer soundness "
              "lemmas are proved for every process state, mood and environment answer; group/all forms are checked by the monitor")
LEVEL_NOTE = "make_allfunc (group/all forms) is exercised by monitors, not modelled in Lean"
DESIGN_REF = "DESIGN.md section 6, C13"
