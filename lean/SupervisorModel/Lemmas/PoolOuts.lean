import SupervisorModel.Lemmas.PoolLedger
/-
  The trace of a daemon is append-only: every operation only adds entries to `W.outs`.  With the ledger
  (Lemmas/PoolLedger.lean) this gives "gone stays gone": an OK answer or a discard-log entry for an event is
  never followed by that event being buffered or handed over again.
-/
set_option linter.unusedSimpArgs false
set_option linter.unusedVariables false
namespace Sv.Pool
open Sv.Gen.Pool Sv.Gen.Events Sv.Events Sv.Listener

/-- `w'`'s trace extends `w`'s -/
def OutsExt (w w' : W) : Prop := ∃ l, w'.outs = w.outs ++ l

theorem OutsExt.refl (w : W) : OutsExt w w := ⟨[], by simp⟩
theorem OutsExt.trans {a b c : W} (h1 : OutsExt a b) (h2 : OutsExt b c) : OutsExt a c := by
  obtain ⟨l1, e1⟩ := h1
  obtain ⟨l2, e2⟩ := h2
  exact ⟨l1 ++ l2, by rw [e2, e1, List.append_assoc]⟩
theorem OutsExt.of_eq {w w' : W} (h : w'.outs = w.outs) : OutsExt w w' := ⟨[], by simp [h]⟩
theorem OutsExt.snoc (w : W) (l : List POut) : OutsExt w { w with outs := w.outs ++ l } := ⟨l, rfl⟩

theorem outs_insertEv (i e : Nat) (head : Bool) (w : W) : OutsExt w (insertEv i e head w) := by
  cases hp : w.pools[i]? with
  | none => unfold insertEv; simp only [hp]; exact OutsExt.refl w
  | some p => exact ⟨_, (insertEv_spec i e head w p hp).2.1⟩

theorem outs_acceptEvent (i e : Nat) (head : Bool) (w : W) : OutsExt w (acceptEvent i e head w) := by
  unfold acceptEvent
  split
  · rename_i pool ev _ _
    have h1 : OutsExt w (if ev.serial.isNone then
        { setEv w e (fun x => { x with serial := some (evSerial w pool) }) with gserial := evSerial w pool }
      else w) := by
      split
      · exact OutsExt.of_eq rfl
      · exact OutsExt.refl w
    simp only []
    split
    · exact OutsExt.trans h1 (OutsExt.trans (b := _) (OutsExt.of_eq rfl) (outs_insertEv i e head _))
    · split
      · exact h1
      · exact OutsExt.trans h1 (outs_insertEv i e head _)
  · exact OutsExt.refl w

theorem outs_foldl {α : Type} (f : W → α → W) (hf : ∀ w a, OutsExt w (f w a)) :
    ∀ (l : List α) (w : W), OutsExt w (l.foldl f w)
  | [], w => OutsExt.refl w
  | a :: l, w => OutsExt.trans (hf w a) (outs_foldl f hf l (f w a))

theorem outs_notify (c : Cls) (payload : Bytes) (w : W) : OutsExt w (notify c payload w) := by
  unfold notify
  split
  · exact OutsExt.refl w
  · exact OutsExt.trans (OutsExt.of_eq (w := w) rfl)
      (outs_foldl _ (fun w i => outs_acceptEvent i _ false w) _ _)

theorem outs_rejected (who : Option Nat) (e : Nat) (w : W) : OutsExt w (rejected who e w) := by
  unfold rejected
  apply outs_foldl
  intro w i
  split
  · split
    · exact outs_acceptEvent i e true w
    · exact OutsExt.refl w
  · exact OutsExt.refl w

theorem outs_absorb (pi li : Nat) (os : List Listener.Out) (w : W) : OutsExt w (absorb pi li os w) := by
  unfold absorb
  apply outs_foldl
  intro w o
  simp only []
  split
  · exact OutsExt.trans (OutsExt.snoc w _) (outs_rejected _ _ _)
  · exact OutsExt.snoc w _

theorem outs_onListener (pi li : Nat) (f : Listener.S → Listener.S) (w : W) : OutsExt w (onListener pi li f w) := by
  unfold onListener
  split
  · exact OutsExt.refl w
  · split
    · exact OutsExt.refl w
    · split
      · exact OutsExt.refl w
      · split
        · exact OutsExt.refl w
        · rename_i l _
          have h1 : OutsExt w (setPool w pi (fun p => { p with procs := p.procs.set li (f { p := l }).p })) := OutsExt.of_eq rfl
          have h2 := outs_absorb pi li (f { p := l }).outs (setPool w pi (fun p => { p with procs := p.procs.set li (f { p := l }).p }))
          exact OutsExt.trans h1 (OutsExt.trans h2 (OutsExt.of_eq rfl))

theorem outs_go (pi e : Nat) (env : Bytes) : ∀ (fuel li : Nat) (w : W), OutsExt w (dispatchEvent.go pi e env fuel li w).1
  | 0, li, w => OutsExt.refl w
  | fuel + 1, li, w => by
    unfold dispatchEvent.go
    split
    · exact OutsExt.refl w
    · rename_i l _
      have hstep : OutsExt w (absorb pi li (trySend e env { p := l }).1.outs
          (setPool w pi (fun p => { p with procs := p.procs.set li (trySend e env { p := l }).1.p }))) :=
        OutsExt.trans (OutsExt.of_eq (w := w) rfl) (outs_absorb pi li _ _)
      simp only []
      split
      · exact OutsExt.trans hstep (OutsExt.of_eq rfl)
      · split
        · exact hstep
        · exact OutsExt.trans hstep (outs_go pi e env fuel (li + 1) _)

theorem outs_dispatchEvent (pi e : Nat) (w : W) : OutsExt w (dispatchEvent pi e w).1 := by
  unfold dispatchEvent
  split
  · exact outs_go pi e _ _ 0 w
  · exact OutsExt.refl w

theorem outs_dispatch (pi : Nat) : ∀ (fuel : Nat) (w : W), OutsExt w (dispatch pi fuel w)
  | 0, w => OutsExt.refl w
  | fuel + 1, w => by
    unfold dispatch
    split
    · exact OutsExt.refl w
    · split
      · exact OutsExt.refl w
      · rename_i e _ _
        have h2 : OutsExt w (dispatchEvent pi e (setPool w pi (fun p => { p with buffer := p.buffer.drop 1 }))).1 :=
          OutsExt.trans (OutsExt.of_eq (w := w) rfl) (outs_dispatchEvent pi e _)
        simp only []
        split
        · exact h2
        · split
          · exact OutsExt.trans h2 (outs_dispatch pi fuel _)
          · exact OutsExt.trans h2 (outs_acceptEvent pi e true _)

theorem outs_transition (pi : Nat) (w : W) : OutsExt w (transition pi w) := by
  unfold transition
  split
  · exact OutsExt.refl w
  · split
    · exact OutsExt.refl w
    · simp only []
      split
      · exact outs_dispatch pi _ w
      · exact OutsExt.refl w

theorem outs_dieOp (h : Bytes → HRes) (pi li : Nat) (data payload : Bytes) (w : W) :
    OutsExt w (dieOp h pi li data payload w) := by
  unfold dieOp
  split
  · exact OutsExt.refl w
  · split
    · exact OutsExt.refl w
    · simp only []
      split
      · exact outs_onListener pi li _ w
      · exact OutsExt.trans (outs_onListener pi li _ w)
          (OutsExt.trans (outs_notify _ payload _) (outs_onListener pi li _ _))

theorem outs_spawnOp (pi li : Nat) (pid : Int) (payload : Bytes) (w : W) : OutsExt w (spawnOp pi li pid payload w) := by
  unfold spawnOp
  split
  · exact OutsExt.refl w
  · split
    · exact OutsExt.refl w
    · split
      · exact OutsExt.refl w
      · exact OutsExt.trans (outs_notify _ payload w) (outs_onListener pi li _ _)

theorem outs_gstep (pi : Nat) (s : W × Option Bool) (st : GStep) : OutsExt s.1 (gstep pi s st).1 := by
  unfold gstep
  split
  · exact OutsExt.refl _
  · split
    · exact OutsExt.refl _
    · split
      · split
        · exact OutsExt.of_eq rfl
        · exact OutsExt.refl _
      · exact OutsExt.refl _
    · split
      · exact OutsExt.of_eq rfl
      · exact OutsExt.refl _
    · exact OutsExt.of_eq rfl
    · split
      · exact outs_notify _ _ _
      · exact OutsExt.refl _
    · split
      · split
        · exact OutsExt.refl _
        · exact OutsExt.refl _
      · exact OutsExt.refl _

theorem outs_runGroup (pi : Nat) : ∀ (steps : List GStep) (s : W × Option Bool), OutsExt s.1 (steps.foldl (gstep pi) s).1
  | [], s => OutsExt.refl _
  | st :: r, s => OutsExt.trans (outs_gstep pi s st) (outs_runGroup pi r _)

theorem outs_removeOp (pi : Nat) (w : W) : OutsExt w (removeOp pi w) := by
  unfold removeOp removeRun runGroup
  split
  · exact OutsExt.refl w
  · split
    · exact OutsExt.refl w
    · exact outs_runGroup pi _ (w, none)

theorem outs_addOp (pi : Nat) (w : W) : OutsExt w (addOp pi w) := by
  unfold addOp addRun runGroup
  split
  · exact OutsExt.refl w
  · split
    · exact OutsExt.refl w
    · exact outs_runGroup pi _ (w, none)

theorem outs_applyOp (h : Bytes → HRes) (w : W) (op : Op) : OutsExt w (applyOp h w op) := by
  cases op <;> simp only [applyOp]
  · exact outs_notify _ _ w
  · exact outs_transition _ w
  all_goals first
    | exact outs_onListener _ _ _ w
    | exact outs_dieOp h _ _ _ _ w
    | exact outs_spawnOp _ _ _ _ w
    | exact outs_removeOp _ w
    | exact outs_addOp _ w

theorem outs_step (h : Bytes → HRes) (w : W) (op : Op) : OutsExt w (step h w op) := by
  unfold step
  split
  · exact OutsExt.of_eq rfl
  · exact OutsExt.trans (OutsExt.of_eq (w := w) rfl) (outs_applyOp h _ op)

/-- the trace of a history extends the trace of every prefix of it -/
theorem outs_exec (h : Bytes → HRes) (w : W) (ops : List Op) : OutsExt w (exec h w ops) :=
  outs_foldl _ (outs_step h) ops w

theorem exec_append (h : Bytes → HRes) (w : W) (a b : List Op) : exec h w (a ++ b) = exec h (exec h w a) b := by
  simp [exec, List.foldl_append]

theorem okCount_mono (h : Bytes → HRes) (pi e : Nat) {w w' : W} (hx : OutsExt w w') :
    okCount h pi e w.outs ≤ okCount h pi e w'.outs := by
  obtain ⟨l, hl⟩ := hx
  rw [hl, okCount_append]; omega

theorem discardCount_mono (pi e : Nat) {w w' : W} (hx : OutsExt w w') :
    discardCount pi e w.outs ≤ discardCount pi e w'.outs := by
  obtain ⟨l, hl⟩ := hx
  rw [hl, discardCount_append]; omega

/-! ### the poolserial may be drawn before or after the buffer insertion -/

theorem modify_modify_comm {α : Type} (f g : α → α) (hfg : ∀ a, f (g a) = g (f a)) (i : Nat) (l : List α) :
    (l.modify i g).modify i f = (l.modify i f).modify i g := by
  apply List.ext_getElem?
  intro j
  simp only [List.getElem?_modify]
  cases l[j]? <;> simp
  split <;> simp [hfg]

theorem serial_setEv_ps (w : W) (e d : Nat) (f : List (String × Int) → List (String × Int)) :
    ((setEv w e (fun x => { x with poolSerials := f x.poolSerials })).events[d]?).bind (·.serial) =
      (w.events[d]?).bind (·.serial) := by
  rw [getElem?_setEv]
  split
  · cases w.events[d]? <;> rfl
  · rfl

/-- `event.pool_serials[name] = new_serial(self)` and the overflow rule + insertion commute: the same state and
    the same log entries result whichever comes first (`_acceptEvent` does the draw first) -/
theorem stamp_insertEv_comm (i e : Nat) (head : Bool) (p : PoolSt) (w : W) :
    stamp i e p (insertEv i e head w) = insertEv i e head (stamp i e p w) := by
  cases hq : w.pools[i]? with
  | none =>
    have h1 : insertEv i e head w = w := by unfold insertEv; simp [hq]
    have h2 : (stamp i e p w).pools[i]? = none := by rw [stamp_pools]; simp [hq]
    have h3 : insertEv i e head (stamp i e p w) = stamp i e p w := by unfold insertEv; simp [h2]
    rw [h1, h3]
  | some q =>
    have h2 : (stamp i e p w).pools[i]? = some { q with serial := newSerial q.serial } := by
      rw [stamp_pools]; simp [hq]
    unfold insertEv
    simp only [hq, h2]
    have hov : overflowed { q with serial := newSerial q.serial } = overflowed q := rfl
    rw [hov]
    have hcomm : ∀ (l : List PoolSt), (l.modify i (insBuf e head)).modify i (fun q => { q with serial := newSerial q.serial }) =
        (l.modify i (fun q => { q with serial := newSerial q.serial })).modify i (insBuf e head) := by
      intro l
      refine modify_modify_comm _ _ ?_ i l
      intro a
      unfold insBuf
      simp only [accept_g6]
      have : overflowed { a with serial := newSerial a.serial } = overflowed a := rfl
      cases head <;> simp [this]
    by_cases ho : overflowed q = true
    · simp only [ho, if_true]
      cases hb : q.buffer with
      | nil =>
        simp only [stamp, setPool, setEv]
        rw [hcomm]
      | cons d r =>
        simp only [stamp, setPool, setEv]
        rw [hcomm]
        have := serial_setEv_ps w e d (fun ps => ps ++ [(p.name, newSerial p.serial)])
        simp only [setEv] at this
        rw [this]
    · simp only [ho, if_false, Bool.false_eq_true]
      simp only [stamp, setPool, setEv]
      rw [hcomm]

end Sv.Pool
