import SupervisorModel.Lemmas.CtlSpec
/-
  Helper lemmas for the "a name was unknown" clauses of C20 (names the *client* resolves: `update <groups>`,
  `status <names>`).
  `Mono f`  : `f` never takes back a line that was written.
  `clean_protect` : onecmd's exception net never turns an unclean end of the action clean.
-/
set_option linter.unusedSimpArgs false
set_option linter.unusedVariables false
namespace Sv.Ctl
open Sv.Gen.Ctl Sv.Ctl.Spec

/-- `f` never takes back a line that was written with `ctl.output` -/
def Mono (f : S → S) : Prop := ∀ s l, l ∈ s.outs → l ∈ (f s).outs

theorem mono_id : Mono id := fun _ _ h => h

theorem mono_comp {f g : S → S} (hf : Mono f) (hg : Mono g) : Mono (fun s => g (f s)) :=
  fun s l h => hg _ l (hf s l h)

theorem mono_out (x : String) : Mono (out x) := by
  intro s l h; unfold out emit guard; split <;> simp_all

theorem mono_outs (xs : List String) : Mono (outs xs) := by
  unfold outs
  induction xs with
  | nil => exact fun _ _ h => h
  | cons x xs ih =>
    intro s l h
    simp only [List.foldl_cons]
    exact ih _ l (mono_out x s l h)

theorem mono_setExit (n : Int) : Mono (setExit n) := by
  intro s l h; unfold setExit setP guard; split <;> simp_all

theorem mono_raise (e : Exc) : Mono (raise e) := by
  intro s l h; unfold raise guard; split <;> simp_all

theorem mono_raiseFault (c : Int) (t : String) : Mono (raiseFault c t) := mono_raise _
theorem mono_raiseSock (e : Int) : Mono (raiseSock e) := mono_raise _
theorem mono_badScript : Mono badScript := mono_raise _

theorem mono_foldl {α : Type} (f : α → S → S) (h : ∀ a, Mono (f a)) (l : List α) :
    Mono (fun s => l.foldl (fun s a => f a s) s) := by
  induction l with
  | nil => exact fun _ _ h => h
  | cons a l ih =>
    intro s x hx
    simp only [List.foldl_cons]
    exact ih _ x (h a s x hx)

theorem mono_rpc {m : String} {a : List String} {kOk : Val → S → S} {kFault : Int → String → S → S}
    {kSock : Int → S → S} (h1 : ∀ v, Mono (kOk v)) (h2 : ∀ c t, Mono (kFault c t)) (h3 : ∀ e, Mono (kSock e)) :
    Mono (rpc m a kOk kFault kSock) := by
  intro s l h
  unfold rpc guard
  split
  · exact h
  · dsimp only
    split
    · exact mono_badScript s l h
    · rename_i ans rest _
      cases ans with
      | ok v => exact h1 v _ l h
      | fault c t => exact h2 c t _ l h
      | proto c => exact mono_raise _ _ l h
      | sock e => exact h3 e _ l h

theorem mono_expectUnit {k : S → S} (hk : Mono k) : ∀ v, Mono (expectUnit k v) := by
  intro v; cases v <;> first | exact hk | exact mono_badScript

theorem mono_expectResults {k : List Res → S → S} (hk : ∀ rs, Mono (k rs)) : ∀ v, Mono (expectResults k v) := by
  intro v; cases v <;> first | exact hk _ | exact mono_badScript

theorem mono_rpcUnit (m : String) (args : List String) {k : S → S} (hk : Mono k) :
    Mono (rpc m args (expectUnit k) raiseFault raiseSock) :=
  mono_rpc (mono_expectUnit hk) mono_raiseFault mono_raiseSock

/-! ### update -/
theorem mono_updRemoved (valid : List String) (g : String) : Mono (updRemoved valid g) := by
  unfold updRemoved
  split
  · exact mono_id
  · refine mono_rpc (mono_expectResults fun rs => ?_) mono_raiseFault mono_raiseSock
    intro s l h
    dsimp only
    split
    · exact mono_setExit _ _ l (mono_out _ _ l (mono_out _ s l h))
    · exact mono_rpcUnit _ _ (mono_out _) _ l (mono_out _ s l h)

theorem mono_updChanged (valid : List String) (g : String) : Mono (updChanged valid g) := by
  unfold updChanged
  split
  · exact mono_id
  · refine mono_rpc (mono_expectResults fun rs => ?_) mono_raiseFault mono_raiseSock
    intro s l h
    dsimp only
    split
    · exact mono_setExit _ _ l (mono_out _ _ l (mono_out _ s l h))
    · exact mono_rpcUnit _ _ (mono_rpcUnit _ _ (mono_out _)) _ l (mono_out _ s l h)

theorem mono_updAdded (valid : List String) (g : String) : Mono (updAdded valid g) := by
  unfold updAdded
  split
  · exact mono_id
  · exact mono_rpcUnit _ _ (mono_out _)

theorem mono_updApply (valid x y z : List String) : Mono (updApply valid x y z) := by
  unfold updApply
  exact mono_comp (mono_comp (mono_foldl (updRemoved valid) (mono_updRemoved valid) z)
    (mono_foldl (updChanged valid) (mono_updChanged valid) y)) (mono_foldl (updAdded valid) (mono_updAdded valid) x)

theorem mono_updNoSuch (groups : List String) (g : String) : Mono (updNoSuch groups g) := by
  intro s l h
  unfold updNoSuch
  split
  · exact h
  · exact mono_setExit _ _ l (mono_out _ s l h)

theorem mono_updChecked (valid x y z : List String) : Mono (updChecked valid x y z) := by
  unfold updChecked
  split
  · exact mono_updApply _ _ _ _
  · refine mono_rpc (fun v => ?_) mono_raiseFault mono_raiseSock
    cases v <;> first | exact mono_badScript | skip
    exact mono_comp (mono_foldl (updNoSuch _) (mono_updNoSuch _) valid) (mono_updApply _ _ _ _)

theorem mono_doUpdate (arg : String) : Mono (doUpdate arg) := by
  unfold doUpdate
  refine mono_rpc (fun v => ?_) (fun c t => ?_) mono_raiseSock
  · cases v <;> first | exact mono_badScript | skip
    exact mono_updChecked _ _ _ _
  · intro s l h
    dsimp only
    split
    · exact mono_out _ _ l (mono_setExit _ s l h)
    · exact mono_raiseFault _ _ _ l (mono_setExit _ s l h)

/-! ### the exception net of onecmd -/
theorem mono_net : Mono net := by
  intro s l h
  unfold net
  split
  · exact h
  · split
    · exact h
    · exact mono_setExit _ _ l (mono_out _ _ l h)

theorem mono_protect {f : S → S} (hf : Mono f) : Mono (protect f) := by
  intro s l h
  have h1 := hf s l h
  unfold protect
  dsimp only
  split
  · split
    · exact mono_net _ l (hf _ l (mono_setExit _ _ l (mono_out _ _ l h1)))
    · exact mono_net _ l (mono_raise _ _ l (mono_setExit _ _ l h1))
  · exact mono_net _ l h1

/-- a line the action has written is still there after the net -/
theorem outs_protect {f : S → S} (hf : Mono f) (s : S) (l : String) (h : l ∈ (f s).outs) : l ∈ (protect f s).outs := by
  unfold protect
  dsimp only
  split
  · split
    · exact mono_net _ l (hf _ l (mono_setExit _ _ l (mono_out _ _ l h)))
    · exact mono_net _ l (mono_raise _ _ l (mono_setExit _ _ l h))
  · exact mono_net _ l h

/-- the net never turns an unclean end of the action clean -/
theorem clean_protect {ok : Call → Bool} {f : S → S} (hf : Safe ok f) (s : S) (hc : Clean (protect f s)) : Clean (f s) := by
  unfold protect at hc
  dsimp only at hc
  split at hc
  · split at hc
    · exfalso
      have h1 := clean_net _ hc
      have h2 := (hf _ h1).1
      revert h2; simp (disch := nz) [clean_setExit]
    · exfalso
      have h1 := clean_net _ hc
      revert h1; simp
  · exact clean_net _ hc

/-- the loop `for gname in valid_gnames: if gname not in groups: output(...); exitstatus = GENERIC` reports every
    unknown name, whatever else is in the list -/
theorem updNoSuch_fold (groups valid : List String) (g : String) (hg : g ∈ valid) (hk : g ∉ groups) (s : S)
    (he : s.err = none) :
    ("ERROR: no such group: " ++ g) ∈ (valid.foldl (fun s v => updNoSuch groups v s) s).outs ∧
    ¬ Clean (valid.foldl (fun s v => updNoSuch groups v s) s) := by
  induction valid generalizing s with
  | nil => cases hg
  | cons v vs ih =>
    simp only [List.foldl_cons]
    have herr : (updNoSuch groups v s).err = none := by
      unfold updNoSuch
      split
      · exact he
      · simp [out, emit, setExit, setP, guard, he]
    rcases List.mem_cons.1 hg with rfl | hin
    · have hstep : ("ERROR: no such group: " ++ g) ∈ (updNoSuch groups g s).outs ∧ ¬ Clean (updNoSuch groups g s) := by
        unfold updNoSuch
        have : groups.contains g = false := by simpa using hk
        simp only [this, Bool.false_eq_true, if_false]
        constructor
        · simp [out, emit, setExit, setP, guard, he]
        · simp (disch := nz) [clean_setExit]
      refine ⟨mono_foldl (updNoSuch groups) (mono_updNoSuch groups) vs _ _ hstep.1, fun hc => hstep.2 ?_⟩
      exact (safe_foldl (updNoSuch groups) (safe_updNoSuch groups) vs _ hc).1
    · exact ih hin _ herr

/-! ### update: what a run that raised nothing has printed (F47 is about the runs that did raise) -/
/-- `f` cannot clear a pending exception -/
def Sticky (f : S → S) : Prop := ∀ s, (f s).err = none → s.err = none

theorem sticky_guard (f : S → S) : Sticky (guard f) := by
  intro s h
  unfold guard at h
  split at h
  · rename_i hs; rw [h] at hs; cases hs
  · rename_i hs; simpa using hs

theorem sticky_comp {f g : S → S} (hf : Sticky f) (hg : Sticky g) : Sticky (fun s => g (f s)) :=
  fun s h => hf s (hg _ h)

theorem sticky_foldl {α : Type} (f : α → S → S) (h : ∀ a, Sticky (f a)) (l : List α) :
    Sticky (fun s => l.foldl (fun s a => f a s) s) := by
  induction l with
  | nil => exact fun _ h => h
  | cons a l ih => intro s hs; simp only [List.foldl_cons] at hs; exact h a s (ih _ hs)

theorem sticky_rpc (m : String) (a : List String) (kOk : Val → S → S) (kFault : Int → String → S → S)
    (kSock : Int → S → S) : Sticky (rpc m a kOk kFault kSock) := sticky_guard _

theorem sticky_updRemoved (valid : List String) (g : String) : Sticky (updRemoved valid g) := by
  unfold updRemoved; split
  · exact fun _ h => h
  · exact sticky_rpc _ _ _ _ _
theorem sticky_updChanged (valid : List String) (g : String) : Sticky (updChanged valid g) := by
  unfold updChanged; split
  · exact fun _ h => h
  · exact sticky_rpc _ _ _ _ _
theorem sticky_updAdded (valid : List String) (g : String) : Sticky (updAdded valid g) := by
  unfold updAdded; split
  · exact fun _ h => h
  · exact sticky_rpc _ _ _ _ _

/-- a loop over groups that raised nothing has, for every group it did not skip, written that group's line(s) -/
theorem foldl_lines (f : String → S → S) (cond : String → Bool) (good : String → String → Prop)
    (hs : ∀ g, Sticky (f g)) (hm : ∀ g, Mono (f g))
    (hp : ∀ g s, (f g s).err = none → cond g = true → ∃ l ∈ (f g s).outs, good g l)
    (gs : List String) (s : S) (h : (gs.foldl (fun s g => f g s) s).err = none) :
    ∀ g ∈ gs, cond g = true → ∃ l ∈ (gs.foldl (fun s g => f g s) s).outs, good g l := by
  induction gs generalizing s with
  | nil => intro g hg; cases hg
  | cons x xs ih =>
    intro g hg hc
    simp only [List.foldl_cons] at h ⊢
    rcases List.mem_cons.1 hg with rfl | hin
    · have h1 := sticky_foldl f hs xs _ h
      obtain ⟨l, hl, hgood⟩ := hp g s h1 hc
      exact ⟨l, mono_foldl f hm xs _ l hl, hgood⟩
    · exact ih _ h g hin hc

theorem updRemoved_line (valid : List String) (g : String) (s : S) (h : (updRemoved valid g s).err = none)
    (hc : (!skipped valid g) = true) :
    ∃ l ∈ (updRemoved valid g s).outs, l = g ++ ": removed process group" ∨ l = g ++ ": has problems; not removing" := by
  have hs := sticky_updRemoved valid g s h
  have hsk : skipped valid g = false := by simpa using hc
  revert h
  unfold updRemoved rpc guard
  simp only [hsk, Bool.false_eq_true, if_false, hs, Option.isSome_none]
  cases h1 : s.p.script with
  | nil => simp [badScript, raise, guard, hs]
  | cons a rest =>
    cases a with
    | ok v =>
      cases v <;> simp only [expectResults] <;> try (simp [badScript, raise, guard, hs]; done)
      rename_i rs
      skip
      split
      · intro _; exact ⟨_, by simp [out, emit, setExit, setP, guard, hs], Or.inr rfl⟩
      · simp only [out, emit, guard, hs, Option.isSome_none, Bool.false_eq_true, if_false]
        cases rest with
        | nil => simp [badScript, raise, guard, hs]
        | cons b rest2 =>
          cases b with
          | ok w =>
            cases w <;> simp [expectUnit, badScript, raise, guard, out, emit]
            exact ⟨_, Or.inr (Or.inr rfl), Or.inl rfl⟩
          | fault c t => simp [raiseFault, raise, guard]
          | proto c => simp [raise, guard]
          | sock e => simp [raiseSock, raise, guard]
    | fault c t => simp [raiseFault, raise, guard, hs]
    | proto c => simp [raise, guard, hs]
    | sock e => simp [raiseSock, raise, guard, hs]

theorem updChanged_line (valid : List String) (g : String) (s : S) (h : (updChanged valid g s).err = none)
    (hc : (!skipped valid g) = true) :
    ∃ l ∈ (updChanged valid g s).outs, l = g ++ ": updated process group" ∨ l = g ++ ": has problems; not updating" := by
  have hs := sticky_updChanged valid g s h
  have hsk : skipped valid g = false := by simpa using hc
  revert h
  unfold updChanged rpc guard
  simp only [hsk, Bool.false_eq_true, if_false, hs, Option.isSome_none]
  cases h1 : s.p.script with
  | nil => simp [badScript, raise, guard, hs]
  | cons a rest =>
    cases a with
    | ok v =>
      cases v <;> simp only [expectResults] <;> try (simp [badScript, raise, guard, hs]; done)
      rename_i rs
      skip
      split
      · intro _; exact ⟨_, by simp [out, emit, setExit, setP, guard, hs], Or.inr rfl⟩
      · simp only [out, emit, guard, hs, Option.isSome_none, Bool.false_eq_true, if_false]
        cases rest with
        | nil => simp [badScript, raise, guard, hs]
        | cons b rest2 =>
          cases b with
          | ok w =>
            cases w <;> simp only [expectUnit] <;> try (simp [badScript, raise, guard]; done)
            simp only [Option.isSome_none, Bool.false_eq_true, if_false]
            cases rest2 with
            | nil => simp [badScript, raise, guard]
            | cons d rest3 =>
              cases d with
              | ok x =>
                cases x <;> simp [expectUnit, badScript, raise, guard, out, emit]
                exact ⟨_, Or.inr (Or.inr rfl), Or.inl rfl⟩
              | fault c t => simp [raiseFault, raise, guard]
              | proto c => simp [raise, guard]
              | sock e => simp [raiseSock, raise, guard]
          | fault c t => simp [raiseFault, raise, guard]
          | proto c => simp [raise, guard]
          | sock e => simp [raiseSock, raise, guard]
    | fault c t => simp [raiseFault, raise, guard, hs]
    | proto c => simp [raise, guard, hs]
    | sock e => simp [raiseSock, raise, guard, hs]

theorem updAdded_line (valid : List String) (g : String) (s : S) (h : (updAdded valid g s).err = none)
    (hc : (!skipped valid g) = true) :
    ∃ l ∈ (updAdded valid g s).outs, l = g ++ ": added process group" := by
  have hs := sticky_updAdded valid g s h
  have hsk : skipped valid g = false := by simpa using hc
  revert h
  unfold updAdded rpc guard
  simp only [hsk, Bool.false_eq_true, if_false, hs, Option.isSome_none]
  cases h1 : s.p.script with
  | nil => simp [badScript, raise, guard, hs]
  | cons a rest =>
    cases a with
    | ok v => cases v <;> simp [expectUnit, badScript, raise, guard, out, emit, hs]
    | fault c t => simp [raiseFault, raise, guard, hs]
    | proto c => simp [raise, guard, hs]
    | sock e => simp [raiseSock, raise, guard, hs]

/-- the three loops of do_update, when none of their requests raised: every group that was not skipped has its
    result line -/
theorem updApply_lines (valid added changed removed : List String) (s : S)
    (h : (updApply valid added changed removed s).err = none) :
    (∀ g ∈ removed, (!skipped valid g) = true → ∃ l ∈ (updApply valid added changed removed s).outs,
        l = g ++ ": removed process group" ∨ l = g ++ ": has problems; not removing") ∧
    (∀ g ∈ changed, (!skipped valid g) = true → ∃ l ∈ (updApply valid added changed removed s).outs,
        l = g ++ ": updated process group" ∨ l = g ++ ": has problems; not updating") ∧
    (∀ g ∈ added, (!skipped valid g) = true → ∃ l ∈ (updApply valid added changed removed s).outs,
        l = g ++ ": added process group") := by
  unfold updApply at h ⊢
  dsimp only at h ⊢
  have h2 := sticky_foldl (updAdded valid) (sticky_updAdded valid) added _ h
  have h1 := sticky_foldl (updChanged valid) (sticky_updChanged valid) changed _ h2
  refine ⟨fun g hg hc => ?_, fun g hg hc => ?_, ?_⟩
  · obtain ⟨l, hl, hgood⟩ := foldl_lines (updRemoved valid) (fun g => !skipped valid g) _ (sticky_updRemoved valid)
      (mono_updRemoved valid) (updRemoved_line valid) removed s h1 g hg hc
    exact ⟨l, mono_foldl (updAdded valid) (mono_updAdded valid) added _ l
      (mono_foldl (updChanged valid) (mono_updChanged valid) changed _ l hl), hgood⟩
  · obtain ⟨l, hl, hgood⟩ := foldl_lines (updChanged valid) (fun g => !skipped valid g) _ (sticky_updChanged valid)
      (mono_updChanged valid) (updChanged_line valid) changed _ h2 g hg hc
    exact ⟨l, mono_foldl (updAdded valid) (mono_updAdded valid) added _ l hl, hgood⟩
  · exact foldl_lines (updAdded valid) (fun g => !skipped valid g) _ (sticky_updAdded valid)
      (mono_updAdded valid) (updAdded_line valid) added _ h

end Sv.Ctl
