import SupervisorModel.Lemmas.SupInvPass
/-
  C02 — every child is tracked and reaped once; reported state and live child agree.

  Per process (Model/Proc*.lean, guards regenerated from process.py) and for the daemon's reap
  loop and `pidhistory` (Model/Sup.lean, guards regenerated from supervisord.py).  The daemon
  model is checked pass by pass against the unmodified `runforever()` over a simulated kernel.
-/
set_option linter.unusedSimpArgs false
set_option linter.unusedVariables false
namespace Sv.Props.C02
open Sv Sv.Proc Sv.Gen.Proc Sv.Sup Sv.Gen.Sup

/-- **Reported state and held child agree, after every history.**  From the initial state, after any
    sequence of operations (passes, reaps, start/stop/signal requests, group stops — any clock
    readings, any environment answers, fork returning a non-zero pid): the process is STARTING,
    RUNNING or STOPPING only while it holds a child (`pid ≠ 0`), holds none in STOPPED, BACKOFF,
    EXITED and FATAL (UNKNOWN excepted), and `killing` is set exactly during a stop. -/
theorem state_pid_agree (cfg : Cfg) (ops : List Op) (hw : ∀ op ∈ ops, wfOp op) :
    Inv (run cfg { p := {} } ops).p :=
  run_inv cfg ops { p := {} } hw inv_init

/-- **A second child is never forked for a process that still has one** -/
theorem no_fork_with_child (cfg : Cfg) (p : Proc) (now mood : Int) (res : SpawnRes) (kr : KillRes) (hp : p.pid ≠ 0) :
    forks (transition cfg now mood res kr { p := p }).outs = [] :=
  transition_no_fork_with_child cfg p now mood res kr hp

/-- … nor by a start request: with a child the process is STARTING/RUNNING/STOPPING (or UNKNOWN), for
    which `startProcess` answers a fault without calling spawn -/
theorem start_request_no_fork_with_child (cfg : Cfg) (p : Proc) (now mood : Int) (res : SpawnRes) (hi : Inv p) (hp : p.pid ≠ 0) :
    forks (rpcStart cfg now mood res { p := p }).outs = [] := by
  have hst : p.state = .starting ∨ p.state = .running ∨ p.state = .stopping ∨ p.state = .unknown := by
    cases hs : p.state <;> simp <;> (exfalso; apply hp; apply hi.dead; simp [hs])
  have href : ∃ c, startRefusal p (res == .badCmd) = some c := by
    rcases hst with hs | hs | hs | hs <;> simp [startRefusal, hs, runningStates] <;> (repeat' split) <;> simp
  obtain ⟨c, hc⟩ := href
  simp only [rpcStart, guard, Option.isSome_none, Bool.false_eq_true, if_false, hc, answer, emit]
  split <;> simp [forks]

/-- **A fork is recorded**: a successful spawn leaves the process STARTING with exactly the pid fork returned -/
theorem fork_registers (cfg : Cfg) (p : Proc) (now pid : Int)
    (hs : p.state = .stopped ∨ p.state = .exited ∨ p.state = .fatal ∨ p.state = .backoff) (hp : p.pid = 0) (hpid : pid ≠ 0) :
    let r := spawn cfg now (.ok pid) { p := p }
    r.p.pid = pid ∧ r.p.state = .starting ∧ forks r.outs = [.fork pid] ∧ r.err = none := by
  rcases hs with hs | hs | hs | hs <;> simp [procdefs, hs, hp, hpid, forks]

theorem finishCore_pid (cfg : Cfg) (e : Proc.Env) (busy : Bool) (p : Proc) (os : List Out) :
    (finishCore cfg e busy { p := p, outs := os }).err = none → (finishCore cfg e busy { p := p, outs := os }).p.pid = 0 := by
  cases hs : p.state <;> cases busy <;> cases hk : p.killing <;> cases ht : e.tooQuickly <;> cases hx : e.exitExpected <;>
    simp [procdefs, hs, hk, ht, hx]

/-- **A reaped child is released**: after `finish()` the process holds no child and is not reported
    in a state that needs one — whatever the exit status, the clock and the state it was in
    (including UNKNOWN, fix F9), and without raising. -/
theorem reap_clears (cfg : Cfg) (p : Proc) (now es : Int) (busy : Bool) (hi : Inv p) (hp : p.pid ≠ 0) (hw : 0 ≤ cfg.startsecs) :
    let r := finish cfg now es busy { p := p }
    r.p.pid = 0 ∧ r.err = none ∧ ¬ (r.p.state = .starting ∨ r.p.state = .running ∨ r.p.state = .stopping) := by
  have hok := finish_ok [] cfg p now es busy hi hp hw
  have hinv := finish_inv cfg now es busy { p := p } hi
  have hpid : (finish cfg now es busy { p := p }).p.pid = 0 := by
    simp only [finish, guard, setP, Option.isSome_none, Bool.false_eq_true, if_false] at hok ⊢
    exact finishCore_pid _ _ _ _ _ hok
  refine ⟨hpid, hok, ?_⟩
  intro hl
  exact hinv.live hl hpid

/-- **Unknown pids are harmless**: a pid `waitpid` returns that supervisord never forked changes no
    process and no bookkeeping; it is only logged -/
theorem foreign_pid_harmless (k : Int) (pid es : Int) (s : Sup) (hk : k ≠ 100) (hp : pid ≠ 0)
    (hun : s.pidhist.lookup pid = none) (he : s.err = none) (hx : s.exited = false) :
    (reapLoop k [(pid, es)] s).procs = s.procs ∧ (reapLoop k [(pid, es)] s).pidhist = s.pidhist ∧
    (reapLoop k [(pid, es)] s).outs = s.outs ++ [.reapedUnknown pid] :=
  reap_unknown_pid k pid es s hk hp hun he hx

/-- **At most 100 per invocation** (the recursion guard), for any number of exited children -/
theorem reap_bound (ws : List (Int × Int)) (s : Sup) :
    reapLoop 0 ws s = reapLoop 0 (ws.take 100) s := by
  simpa using Sv.Sup.reap_bound ws s 0 (by omega)

/-- **An exit is attributed to the process recorded at fork time and to no other**: reaping pid
    changes only the process `pidhistory` maps it to -/
theorem reap_only_owner (pid es : Int) (name gen : Nat) (s : Sup) (hl : s.pidhist.lookup pid = some (name, gen))
    (he : s.err = none) (hx : s.exited = false) (hp : pid ≠ 0) :
    ∀ m, m ≠ name → findPE (reapLoop 0 [(pid, es)] s).procs m = findPE s.procs m := by
  intro m hm
  have h1 := onProc_others name (fun cfg => finish cfg s.env.now es false) s m hm
  have hd : ∀ t : Sup, (delHist pid t).procs = t.procs := by
    intro t; unfold delHist sguard; split <;> rfl
  simp [reapLoop, sguard, he, hx, reap_g0, reap_g1, hl, hp, reapOne]
  rw [hd]
  split
  · exact h1
  · rfl

-- non-vacuity: the burst case of the quantifier (130 exited children, none known)
example : (reapLoop 0 ((List.range 130).map fun (i : Nat) => (((i : Int) + 1000), (0 : Int))) { procs := [] }).outs.length = 100 := by
  decide +kernel

/-! ### the daemon: process table and `pidhistory` at every main-loop boundary -/

/-- **The daemon's bookkeeping holds at every main-loop boundary.**  Start from any configuration with
    distinct process names, fresh process objects and non-negative `startsecs`; run any number of
    passes of `runforever()` under *any* environments (clock readings, fork/kill/waitpid answers —
    fork honouring the kernel's contract —, signals, and any RPCs: start, stop, signal, shutdown,
    restart, addProcessGroup, removeProcessGroup).  Then `SInv` holds: names are still distinct,
    every process satisfies the per-process invariant `Inv`, every held pid is recorded in
    `pidhistory` for exactly the process object that holds it, every `pidhistory` entry that names a
    current process object is the pid that object holds, no entry names a later incarnation than the
    current one, and pid 0 is never recorded. -/
theorem daemon_bookkeeping (procs dormant : List PE) (hn : ((procs ++ dormant).map (·.name)).Nodup)
    (hp : ∀ e ∈ procs, e.p = {}) (hc : ∀ e ∈ procs ++ dormant, 0 ≤ e.cfg.startsecs) (envs : List Sup.Env) :
    SInv (passes envs { procs := procs, dormant := dormant }) :=
  (passes_good envs _ (init_good procs dormant hn hp hc)).1

/-- **Every child is tracked**: at every main-loop boundary, a process that holds a child has its pid
    in `pidhistory`, recorded for that very process object (name and incarnation) — so the exit of
    the child will be attributed to it. -/
theorem held_pid_recorded (procs dormant : List PE) (hn : ((procs ++ dormant).map (·.name)).Nodup)
    (hp : ∀ e ∈ procs, e.p = {}) (hc : ∀ e ∈ procs ++ dormant, 0 ≤ e.cfg.startsecs) (envs : List Sup.Env) :
    ∀ e ∈ (passes envs { procs := procs, dormant := dormant }).procs, e.p.pid ≠ 0 →
      (passes envs { procs := procs, dormant := dormant }).pidhist.lookup e.p.pid = some (e.name, e.gen) :=
  (daemon_bookkeeping procs dormant hn hp hc envs).hist

/-- **No two processes share a child**: at every main-loop boundary, two entries of the process table
    that hold the same (non-zero) pid are the same entry. -/
theorem no_two_processes_share_a_pid (procs dormant : List PE) (hn : ((procs ++ dormant).map (·.name)).Nodup)
    (hp : ∀ e ∈ procs, e.p = {}) (hc : ∀ e ∈ procs ++ dormant, 0 ≤ e.cfg.startsecs) (envs : List Sup.Env) :
    ∀ e ∈ (passes envs { procs := procs, dormant := dormant }).procs,
    ∀ e' ∈ (passes envs { procs := procs, dormant := dormant }).procs,
      e.p.pid ≠ 0 → e.p.pid = e'.p.pid → e = e' := by
  intro e he e' he' hz heq
  have hI := daemon_bookkeeping procs dormant hn hp hc envs
  have h1 := hI.hist e he hz
  have h2 := hI.hist e' he' (heq ▸ hz)
  rw [heq, h2] at h1
  simp only [Option.some.injEq, Prod.mk.injEq] at h1
  exact (hI.uniq (List.mem_append_left _ he) (List.mem_append_left _ he') h1.1.symm)

/-- **Reported state and held child agree for every process of the daemon, at every main-loop boundary**
    (the per-process invariant of `state_pid_agree`, now for the processes of the running daemon, with
    reaping, RPCs and group removal/addition interleaved as the main loop interleaves them). -/
theorem state_pid_agree_daemon (procs dormant : List PE) (hn : ((procs ++ dormant).map (·.name)).Nodup)
    (hp : ∀ e ∈ procs, e.p = {}) (hc : ∀ e ∈ procs ++ dormant, 0 ≤ e.cfg.startsecs) (envs : List Sup.Env) :
    ∀ e ∈ (passes envs { procs := procs, dormant := dormant }).procs, Inv e.p :=
  (daemon_bookkeeping procs dormant hn hp hc envs).inv

/-- **`pidhistory` is a well-formed map at every main-loop boundary**: no pid occurs twice, pid 0 is never
    recorded, and no entry names a later incarnation of a process than the current one (entries of
    removed groups may survive until their child is reaped — they name an earlier incarnation). -/
theorem pidhistory_wellformed (procs dormant : List PE) (hn : ((procs ++ dormant).map (·.name)).Nodup)
    (hp : ∀ e ∈ procs, e.p = {}) (hc : ∀ e ∈ procs ++ dormant, 0 ≤ e.cfg.startsecs) (envs : List Sup.Env) :
    ((passes envs { procs := procs, dormant := dormant }).pidhist.map (·.1)).Nodup ∧
    (∀ x ∈ (passes envs { procs := procs, dormant := dormant }).pidhist, x.1 ≠ 0) ∧
    (∀ x ∈ (passes envs { procs := procs, dormant := dormant }).pidhist,
      ∀ e ∈ (passes envs { procs := procs, dormant := dormant }).procs ++ (passes envs { procs := procs, dormant := dormant }).dormant,
        e.name = x.2.1 → x.2.2 ≤ e.gen) := by
  have hI := daemon_bookkeeping procs dormant hn hp hc envs
  refine ⟨hI.keys, ?_, ?_⟩
  · intro x hx h0
    have := hI.nz
    rw [List.lookup_eq_none_iff] at this
    have h1 := this x hx
    simp [h0] at h1
  · intro x hx e he hen
    exact hI.gens x.1 x.2.1 x.2.2 (lookup_of_mem _ hI.keys hx) e he hen

-- non-vacuity: a two-process configuration meets the hypotheses, and one pass over it forks both
-- children and records them
def cfgD : Cfg where
  startsecs := 1024
  startretries := 3
  autostart := true
  autorestart := .unexpected
  exitcodes := [0]
  stopsignal := 15
  stopwaitsecs := 10240
  stopasgroup := false
  killasgroup := false
def peA : PE := { name := 0, gid := 0, gprio := 999, prio := 999, cfg := cfgD }
def peB : PE := { name := 1, gid := 1, gprio := 999, prio := 999, cfg := cfgD }
example : (List.map (fun (e : PE) => e.name) ([peA, peB] ++ [])).Nodup ∧ (∀ e ∈ [peA, peB], e.p = {}) ∧
    (∀ e ∈ [peA, peB] ++ ([] : List PE), 0 ≤ e.cfg.startsecs) := by decide
example : (passes [{ now := 1024000, spawns := [.ok 7, .ok 8], waits := [[]] }] { procs := [peA, peB] }).pidhist
    = [(7, (0, 0)), (8, (1, 0))] := by decide +kernel

end Sv.Props.C02
