import SupervisorModel.Model.ProcOps
import SupervisorModel.Lemmas.ProcDefs
import SupervisorModel.Lemmas.ProcBackoff
/-
  C03 — automatic start, retry and restart policy is exactly the configured one.
  Theorems about `Sv.Proc` (guards/timers regenerated from supervisor/process.py).
-/
set_option linter.unusedSimpArgs false
set_option linter.unusedVariables false
namespace Sv.Props.C03
open Sv Sv.Proc Sv.Gen.Proc

def enters (st : PS) (outs : List Out) : Bool := outs.any (fun o => match o with | .ev to .. => to == st | _ => false)

theorem rollback_pid (cfg : Cfg) (now : Int) (p : Proc) :
    (rollback cfg now p).state = p.state ∧ (rollback cfg now p).pid = p.pid ∧
    (rollback cfg now p).backoff = p.backoff ∧ (rollback cfg now p).killing = p.killing ∧
    (rollback cfg now p).exitstatus = p.exitstatus := by
  simp only [rollback]
  repeat' split
  all_goals simp

/-- **RUNNING only after startsecs** (main-loop path): a pass announces RUNNING for a STARTING
    process exactly when the clock reads more than startsecs past the (rollback-adjusted) start. -/
theorem running_only_after_startsecs (cfg : Cfg) (p : Proc) (now mood : Int) (res : SpawnRes) (kr : KillRes)
    (hs : p.state = .starting) :
    enters .running (transition cfg now mood res kr { p := p }).outs = true ↔
      now - (rollback cfg now p).laststart > cfg.startsecs := by
  obtain ⟨h1, h2, h3, h4, h5⟩ := rollback_pid cfg now p
  rw [hs] at h1
  by_cases hd : cfg.startsecs < now - (rollback cfg now p).laststart <;>
    simp [transition, autoStart, toRunning, escalate, changeState, assertIn, emit, setP, guard, enters,
      transition_a1, transition_a4, transition_a5, transition_g0, transition_g1, transition_g5, transition_g7, transition_g10,
      transition_g11, transition_g12, transition_g14, transition_c0, transition_c1_0, change_state_g0, change_state_g1,
      change_state_a0, change_state_a2, announces_all, hs, h1, hd]

/-- the adjusted start time is never later than the recorded one and never in the future, so
    under a clock that did not go backwards "RUNNING" means the child really stayed up longer than
    startsecs; after a backward jump the start is re-based at the first pass after the jump -/
theorem rollback_laststart_starting (cfg : Cfg) (now : Int) (p : Proc) (hs : p.state = .starting) :
    (rollback cfg now p).laststart = min p.laststart now := by
  simp [rollback, rollback_g0, rollback_g1, rollback_g2, rollback_a0, rollback_a1, hs]
  repeat' split
  all_goals ((try dsimp only); omega)

/-- **Early exit ⇒ BACKOFF, whatever the exit status**: a child of a STARTING process (not being
    stopped) reaped before startsecs have passed puts the process in BACKOFF. -/
theorem early_exit_is_backoff (cfg : Cfg) (p : Proc) (now es : Int) (busy : Bool)
    (hs : p.state = .starting) (hk : p.killing = false)
    (h1 : p.laststart < now) (h2 : now - p.laststart < cfg.startsecs) :
    let r := finish cfg now es busy { p := p }
    r.p.state = .backoff ∧ r.p.pid = 0 ∧ r.p.backoff = p.backoff + 1 ∧
      r.p.delay = now + 1024 * (p.backoff + 1) ∧ r.err = none := by
  obtain ⟨g1, g2, g3, g4, g5⟩ := rollback_pid cfg now p
  rw [hs] at g1; rw [hk] at g4
  have hl : (rollback cfg now p).laststart = p.laststart := by
    rw [rollback_laststart_starting cfg now p hs]; omega
  cases busy <;>
    simp [finish, finishCore, tooQuickly, changeState, assertIn, emit, setP, guard, finish_g0, finish_g1, finish_g2, finish_a7, finish_a8, finish_a9, finish_g4, finish_a2,
      finish_a4, finish_a5, finish_a24, finish_c2, finish_c3_0, change_state_g0, change_state_g1, change_state_a0, change_state_a2,
      change_state_a4, change_state_a5, announces_all, g1, g3, g4, hl, h1, h2]

/-- **A start attempt that cannot be spawned ⇒ BACKOFF** (command lookup, pipe creation, fork) -/
theorem spawn_failure_is_backoff (cfg : Cfg) (p : Proc) (now : Int) (res : SpawnRes)
    (hs : p.state = .stopped ∨ p.state = .exited ∨ p.state = .fatal ∨ p.state = .backoff) (hpid : p.pid = 0)
    (hres : res = .badCmd ∨ res = .pipeErr ∨ res = .forkErr) :
    let r := spawn cfg now res { p := p }
    r.p.state = .backoff ∧ r.p.backoff = p.backoff + 1 ∧ r.p.delay = now + 1024 * (p.backoff + 1) ∧
      forks r.outs = [] ∧ r.err = none ∧ r.p.pid = 0 := by
  rcases hs with hs | hs | hs | hs <;> rcases hres with hr | hr | hr <;>
    simp [procdefs, hs, hr, hpid, forks]

/-- **Retry gate.**  From BACKOFF a pass starts the process again exactly when the daemon is running,
    the retries are not used up (`backoff ≤ startretries`) and the clock is past the retry time; the
    retry time of the k-th failure is k seconds after it (`early_exit_is_backoff`,
    `spawn_failure_is_backoff`: delay = t_fail + k). -/
theorem retry_gate (cfg : Cfg) (p : Proc) (now mood : Int) (pid : Int) (kr : KillRes)
    (hs : p.state = .backoff) (hpid : p.pid = 0) (hp : pid ≠ 0) :
    forks (transition cfg now mood (.ok pid) kr { p := p }).outs =
      if moodRESTARTING < mood ∧ p.backoff ≤ cfg.startretries ∧ (rollback cfg now p).delay < now
      then [.fork pid] else [] := by
  obtain ⟨g1, g2, g3, g4, g5⟩ := rollback_pid cfg now p
  rw [hs] at g1; rw [hpid] at g2
  by_cases hm : moodRESTARTING < mood <;> by_cases hb : p.backoff ≤ cfg.startretries <;>
    by_cases hd : (rollback cfg now p).delay < now <;>
    simp [transition, autoStart, toRunning, escalate, spawn, giveUp, changeState, assertIn, emit, setP, guard, forks,
      transition_a1, transition_g0, transition_g1, transition_g5, transition_g7, transition_g8, transition_g9, transition_g10,
      transition_g12, transition_g13, transition_g14, spawn_g0, spawn_g3, spawn_a3, spawn_a6, spawn_a7, spawn_a8, spawn_c0,
      spawn_c1_0, spawn_as_parent_a0, spawn_as_parent_a3, give_up_a0, give_up_a1, give_up_a2, give_up_c0, give_up_c1_0,
      change_state_g0, change_state_g1, change_state_a0, change_state_a2, announces_all, hs, g1, g2, g3, hm, hb, hd, hp]
  all_goals (try (split <;> simp_all))

/-- a backward clock jump never brings a retry forward in real time, and never postpones it by
    more than the k seconds of its back-off: the adjusted retry time is min(delay, now + k) -/
theorem rollback_delay_backoff (cfg : Cfg) (now : Int) (p : Proc) (hs : p.state = .backoff) (hd : 0 < p.delay) :
    (rollback cfg now p).delay = min p.delay (now + 1024 * p.backoff) := by
  simp [rollback, rollback_g0, rollback_g3, rollback_g5, rollback_g8, rollback_g9, rollback_a5, hs]
  split <;> (try dsimp only) <;> omega

/-- **FATAL after the last failure**: in BACKOFF with the retries used up, the next pass gives up —
    whatever the daemon's mood — and forks nothing. -/
theorem fatal_after_budget (cfg : Cfg) (p : Proc) (now mood : Int) (res : SpawnRes) (kr : KillRes)
    (hs : p.state = .backoff) (hb : cfg.startretries < p.backoff) :
    let r := transition cfg now mood res kr { p := p }
    r.p.state = .fatal ∧ forks r.outs = [] ∧ r.p.backoff = 0 ∧ r.err = none := by
  obtain ⟨g1, g2, g3, g4, g5⟩ := rollback_pid cfg now p
  rw [hs] at g1
  have hb' : ¬ p.backoff ≤ cfg.startretries := by omega
  simp [transition, autoStart, toRunning, escalate, giveUp, changeState, assertIn, emit, setP, guard, forks,
      transition_a1, transition_g0, transition_g1, transition_g5, transition_g7, transition_g8, transition_g9, transition_g10,
      transition_g12, transition_g13, transition_g14, give_up_a0, give_up_a1, give_up_a2, give_up_c0, give_up_c1_0,
      change_state_g0, change_state_g1, change_state_a0, change_state_a2, announces_all, hs, g1, g3, hb, hb']

/-- the documented restart rule -/
def wantsRestart (cfg : Cfg) (exitstatus : Option Int) : Bool :=
  match cfg.autorestart with
  | .always => true
  | .unexpected => !(match exitstatus with | some e => cfg.exitcodes.contains e | none => false)
  | .never => false

/-- **Automatic restart, exactly.**  A pass forks a new child for an EXITED process if and only if
    the daemon is running and autorestart is true, or is `unexpected` and the exit status is not one
    of exitcodes (death by signal is recorded as status -1, see `signal_death_unexpected`). -/
theorem autorestart_exact (cfg : Cfg) (p : Proc) (now mood : Int) (pid : Int) (kr : KillRes)
    (hs : p.state = .exited) (hpid : p.pid = 0) (hp : pid ≠ 0) :
    forks (transition cfg now mood (.ok pid) kr { p := p }).outs =
      if moodRESTARTING < mood ∧ wantsRestart cfg p.exitstatus = true then [.fork pid] else [] := by
  have hr : rollback cfg now p = p := by simp [rollback, rollback_g0, rollback_g3, rollback_g5, rollback_g8, hs]
  by_cases hm : moodRESTARTING < mood <;> cases ha : cfg.autorestart <;> cases he : p.exitstatus <;>
    simp [transition, autoStart, toRunning, escalate, spawn, changeState, assertIn, emit, setP, guard, forks, wantsRestart,
      transition_a1, transition_g0, transition_g1, transition_g2, transition_g3, transition_g4, transition_g5, transition_g7,
      transition_g10, transition_g12, transition_g14, spawn_g0, spawn_g3, spawn_a3, spawn_a6, spawn_a7, spawn_a8, spawn_c0,
      spawn_c1_0, spawn_as_parent_a0, spawn_as_parent_a3,
      change_state_g0, change_state_g1, change_state_a0, change_state_a2, announces_all, hs, hr, hm, ha, he, hp, hpid]
  all_goals (try (split <;> simp_all))

/-- a child killed by a signal has exit status -1, which no configurable exit code (0…255) equals -/
theorem signal_death_unexpected (cfg : Cfg) (h : ∀ c ∈ cfg.exitcodes, 0 ≤ c) (ha : cfg.autorestart = .unexpected) :
    wantsRestart cfg (some (-1)) = true := by
  simp only [wantsRestart, ha]
  simp
  intro hc
  have := h _ hc
  omega

/-- **Nothing else starts a process on its own**: a pass forks nothing for a process that is FATAL,
    RUNNING, STARTING, STOPPING or UNKNOWN, and for a STOPPED one only the one-time autostart
    (`autostart_once`). -/
theorem nothing_else_starts (cfg : Cfg) (p : Proc) (now mood : Int) (res : SpawnRes) (kr : KillRes)
    (hs : p.state = .fatal ∨ p.state = .running ∨ p.state = .starting ∨ p.state = .stopping ∨ p.state = .unknown ∨
      (p.state = .stopped ∧ (p.laststart ≠ 0 ∨ cfg.autostart = false))) :
    forks (transition cfg now mood res kr { p := p }).outs = [] := by
  obtain ⟨g1, g2, g3, g4, g5⟩ := rollback_pid cfg now p
  have hl : p.state = .stopped → (rollback cfg now p).laststart = p.laststart := by
    intro h; simp [rollback, rollback_g0, rollback_g3, rollback_g5, rollback_g8, h]
  rcases hs with hs | hs | hs | hs | hs | ⟨hs, hx⟩ <;> rw [hs] at g1 <;> cases kr <;>
    simp [transition, autoStart, toRunning, escalate, kill, changeState, assertIn, emit, setP, guard, forks,
      transition_a1, transition_a4, transition_a5, transition_g0, transition_g1, transition_g5, transition_g6, transition_g7,
      transition_g10, transition_g11, transition_g12, transition_g14, transition_g15, transition_c0, transition_c1_0,
      transition_c2_0, kill_g0, kill_g1, kill_g2, kill_g4, kill_a7, kill_a8, kill_a11, kill_a12, kill_a13,
      kill_a14, kill_a19, kill_a20, kill_c1, kill_c2_0, kill_c3_0, kill_c3_1, kill_c4_0,
      change_state_g0, change_state_g1, change_state_a0, change_state_a2, announces_all, hs, g1, hl]
  all_goals (repeat' split)
  all_goals (simp_all [emit, guard, setP, assertIn, changeState, change_state_g0, change_state_g1, change_state_a0, change_state_a2])

/-- **Autostart at most once**: the first start stamps `laststart` with the clock reading, so with
    a clock that does not read 0 a STOPPED process that was ever started is not autostarted again
    (`nothing_else_starts`); the stamp is only ever moved by the rollback adjustment in STARTING and
    RUNNING, never back to 0 for positive readings. -/
theorem autostart_once (cfg : Cfg) (p : Proc) (now mood : Int) (pid : Int) (kr : KillRes)
    (hs : p.state = .stopped) (hpid : p.pid = 0) (hp : pid ≠ 0) :
    forks (transition cfg now mood (.ok pid) kr { p := p }).outs =
      (if moodRESTARTING < mood ∧ p.laststart = 0 ∧ cfg.autostart = true then [.fork pid] else []) ∧
    (forks (transition cfg now mood (.ok pid) kr { p := p }).outs ≠ [] →
      (transition cfg now mood (.ok pid) kr { p := p }).p.laststart = now) := by
  have hr : rollback cfg now p = p := by simp [rollback, rollback_g0, rollback_g3, rollback_g5, rollback_g8, hs]
  by_cases hm : moodRESTARTING < mood <;> by_cases hl : p.laststart = 0 <;> cases ha : cfg.autostart <;>
    simp [transition, autoStart, toRunning, escalate, spawn, changeState, assertIn, emit, setP, guard, forks,
      transition_a1, transition_g0, transition_g1, transition_g5, transition_g6, transition_g7,
      transition_g10, transition_g12, transition_g14, spawn_g0, spawn_g3, spawn_a3, spawn_a6, spawn_a7, spawn_a8, spawn_c0,
      spawn_c1_0, spawn_as_parent_a0, spawn_as_parent_a3,
      change_state_g0, change_state_g1, change_state_a0, change_state_a2, announces_all, hs, hr, hm, ha, hl, hp, hpid]

/-- **The retry counter is reset by success**: reaching RUNNING clears it (so a later failure
    sequence gets the full budget again) -/
theorem counter_reset_on_success (cfg : Cfg) (p : Proc) (now mood : Int) (res : SpawnRes) (kr : KillRes)
    (hs : p.state = .starting) (hd : now - (rollback cfg now p).laststart > cfg.startsecs) :
    let r := transition cfg now mood res kr { p := p }
    r.p.state = .running ∧ r.p.backoff = 0 ∧ r.p.delay = 0 ∧ r.err = none := by
  obtain ⟨g1, g2, g3, g4, g5⟩ := rollback_pid cfg now p
  rw [hs] at g1
  have hd' : cfg.startsecs < now - (rollback cfg now p).laststart := by omega
  simp [transition, autoStart, toRunning, escalate, changeState, assertIn, emit, setP, guard,
      transition_a1, transition_a4, transition_a5, transition_g0, transition_g1, transition_g5, transition_g7, transition_g10,
      transition_g11, transition_g12, transition_g14, transition_c0, transition_c1_0, change_state_g0, change_state_g1,
      change_state_a0, change_state_a2, announces_all, hs, g1, hd']

/-- **Exit after RUNNING**: a RUNNING process whose child is reaped (not being stopped) becomes
    EXITED with the status recorded and `expected` telling whether the status is in exitcodes —
    never BACKOFF, whatever the clock did (the rollback adjustment makes `too quickly` false). -/
theorem running_exit_is_exited (cfg : Cfg) (p : Proc) (now es : Int) (busy : Bool)
    (hs : p.state = .running) (hk : p.killing = false) (hw : 0 ≤ cfg.startsecs) :
    let r := finish cfg now es busy { p := p }
    r.p.state = .exited ∧ r.p.exitstatus = some es ∧ r.p.pid = 0 ∧ r.p.backoff = 0 ∧ r.err = none ∧
      enters .backoff r.outs = false := by
  obtain ⟨g1, g2, g3, g4, g5⟩ := rollback_pid cfg now p
  rw [hs] at g1; rw [hk] at g4
  have hq : (rollback cfg now p).laststart < now → ¬ (now - (rollback cfg now p).laststart < cfg.startsecs) := by
    simp [rollback, rollback_g0, rollback_g3, rollback_g4, rollback_a2, hs]
    repeat' split
    all_goals (intros; (try dsimp only at *); omega)
  by_cases hlt : (rollback cfg now p).laststart < now
  · have hq' := hq hlt
    cases busy <;> by_cases hx : es ∈ cfg.exitcodes <;>
      simp [finish, finishCore, tooQuickly, changeState, assertIn, emit, setP, guard, enters, finish_g0, finish_g1, finish_g2, finish_a7, finish_a8, finish_a9, finish_g4,
        finish_g5, finish_g6, finish_a2, finish_a4, finish_a5, finish_a6, finish_a18, finish_a19, finish_a20, finish_a24,
        finish_c4_0, finish_c5, finish_c6_0, finish_c6_1, finish_c7_0, finish_c7_1, change_state_g0, change_state_g1,
        change_state_a0, change_state_a2, announces_all, g1, g4, hlt, hq', hx]
  · cases busy <;> by_cases hx : es ∈ cfg.exitcodes <;>
      simp [finish, finishCore, tooQuickly, changeState, assertIn, emit, setP, guard, enters, finish_g0, finish_g1, finish_g2, finish_a7, finish_a8, finish_a9, finish_g4,
        finish_g5, finish_g6, finish_a2, finish_a4, finish_a5, finish_a6, finish_a18, finish_a19, finish_a20, finish_a24,
        finish_c4_0, finish_c5, finish_c6_0, finish_c6_1, finish_c7_0, finish_c7_1, change_state_g0, change_state_g1,
        change_state_a0, change_state_a2, announces_all, g1, g4, hlt, hx]

/-! ### the retry budget over whole histories -/

/-- one operation moves the retry counter by a `BStep` (left alone / reset to 0 outside BACKOFF /
    BACKOFF entered with exactly one more), for operations with well-formed answers on a process that
    satisfies the bookkeeping invariant, reaps being for held children -/
theorem step_bstep (cfg : Cfg) (p : Proc) (op : Op) (hw : wfOp op) (hi : Inv p) (hnn : 0 ≤ p.backoff)
    (hreap : ∀ now es busy, op = .reap now es busy → p.pid ≠ 0) : BStep p (stepP cfg p op).p := by
  cases op <;> simp only [stepP, step]
  · exact (transition_bstep [] cfg p _ _ _ _ hnn).1
  · rename_i now es busy
    have hp := hreap now es busy rfl
    exact finish_bstep cfg p now es busy (fun hb => hp (hi.dead (by simp [hb])))
  · exact rpcStart_bstep cfg p _ _ _ hw hi hnn
  · exact rpcStop_bstep ..
  · exact rpcSignal_bstep ..
  · exact groupStop_bstep ..
  · exact stopReport_bstep ..

/-- an *automatic retry*: a main-loop pass forks a child for a process that was in BACKOFF -/
def isRetry (p : Proc) (op : Op) (r : S) : Bool :=
  match op with
  | .transition .. => p.state == .backoff && !(forks r.outs).isEmpty
  | _ => false

/-- run a history counting the automatic retries made since the retry counter was last reset
    (by reaching RUNNING, by FATAL, or by an exit after RUNNING) -/
def runR (cfg : Cfg) : Proc → Nat → List Op → Proc × Nat
  | p, n, [] => (p, n)
  | p, n, op :: ops =>
    let r := stepP cfg p op
    let n' := if r.p.backoff = 0 then 0 else if isRetry p op r then n + 1 else n
    runR cfg r.p n' ops

/-- the invariant behind the budget: the retries made are covered by the failure counter, which a
    pending retry (BACKOFF) has already advanced, and never exceeded `startretries` -/
structure RInv (cfg : Cfg) (p : Proc) (n : Nat) : Prop where
  nn : 0 ≤ p.backoff
  le : (n : Int) ≤ p.backoff
  lt : p.state = .backoff → (n : Int) + 1 ≤ p.backoff
  budget : (n : Int) ≤ max 0 cfg.startretries

/-- every history in which reaps are for held children -/
def Owned (cfg : Cfg) : Proc → List Op → Prop
  | _, [] => True
  | p, op :: ops =>
    (∀ now es busy, op = .reap now es busy → p.pid ≠ 0) ∧ wfOp op ∧ Owned cfg (stepP cfg p op).p ops

theorem rinv_step (cfg : Cfg) (p : Proc) (n : Nat) (op : Op) (hw : wfOp op) (hi : Inv p) (hr : RInv cfg p n)
    (hreap : ∀ now es busy, op = .reap now es busy → p.pid ≠ 0) :
    RInv cfg (stepP cfg p op).p
      (if (stepP cfg p op).p.backoff = 0 then 0 else if isRetry p op (stepP cfg p op) then n + 1 else n) := by
  have hb := step_bstep cfg p op hw hi hr.nn hreap
  have hmax : (0 : Int) ≤ max 0 cfg.startretries := Int.le_max_left 0 _
  have hnn := hr.nn
  have hle := hr.le
  by_cases h0 : (stepP cfg p op).p.backoff = 0
  · simp only [h0, if_true]
    rcases hb with ⟨_, hns⟩ | ⟨h1, h2⟩ | ⟨h1, _⟩
    · exact ⟨by omega, by simp [h0], fun hs => absurd hs hns, by simpa using hmax⟩
    · -- counter unchanged and zero: then n = 0 already and the state is not BACKOFF
      refine ⟨by omega, by simp [h0], fun hs => ?_, by simpa using hmax⟩
      have := hr.lt (h2 hs); omega
    · exfalso; omega
  · simp only [h0, if_false]
    by_cases hret : isRetry p op (stepP cfg p op) = true
    · simp only [hret, if_true]
      -- a retry: it is a pass from BACKOFF that forked, so the counter is unchanged and within the budget
      cases op with
      | transition now mood res kr =>
        simp only [isRetry, Bool.and_eq_true, beq_iff_eq, Bool.not_eq_true', List.isEmpty_eq_false_iff] at hret
        obtain ⟨hs, hf⟩ := hret
        obtain ⟨_, hfk⟩ := transition_bstep [] cfg p now mood res kr hr.nn
        have hf' : forks (transition cfg now mood res kr { p := p }).outs ≠ forks [] := by
          simpa [forks, stepP, step] using hf
        obtain ⟨hle2, hsame, hst⟩ := hfk hs hf'
        have hlt := hr.lt hs
        simp only [stepP, step]
        refine ⟨by rw [hsame]; exact hnn, ?_, ?_, ?_⟩
        · rw [hsame]; push_cast; omega
        · intro hsb; rw [hst] at hsb; simp at hsb
        · push_cast; omega
      | _ => simp [isRetry] at hret
    · have hret' : isRetry p op (stepP cfg p op) = false := by simpa using hret
      simp only [hret', Bool.false_eq_true, if_false]
      rcases hb with ⟨hz, _⟩ | ⟨h1, h2⟩ | ⟨h1, h2⟩
      · exact absurd hz h0
      · exact ⟨by rw [h1]; exact hnn, by rw [h1]; exact hle, fun hs => by rw [h1]; exact hr.lt (h2 hs), hr.budget⟩
      · exact ⟨by rw [h1]; omega, by rw [h1]; omega, fun _ => by rw [h1]; omega, hr.budget⟩

/-- **Retried automatically at most `startretries` times.**  In every history (any passes, reaps,
    start/stop/signal requests, group stops; any clock readings incl. backward jumps; any spawn
    failures and exit statuses), the number of automatic retries made since the retry counter was last
    reset never exceeds `startretries`. -/
theorem retry_budget (cfg : Cfg) (ops : List Op) (p : Proc) (n : Nat) (hi : Inv p) (hr : RInv cfg p n)
    (ho : Owned cfg p ops) : ((runR cfg p n ops).2 : Int) ≤ max 0 cfg.startretries := by
  induction ops generalizing p n with
  | nil => exact hr.budget
  | cons op ops ih =>
    obtain ⟨h1, h2, h3⟩ := ho
    simp only [runR]
    exact ih _ _ (step_inv cfg p op h2 hi) (rinv_step cfg p n op h2 hi hr h1) h3

theorem retry_budget_from_init (cfg : Cfg) (ops : List Op) (ho : Owned cfg {} ops) :
    ((runR cfg {} 0 ops).2 : Int) ≤ max 0 cfg.startretries :=
  retry_budget cfg ops {} 0 inv_init ⟨by simp, by simp, by simp, by simpa using Int.le_max_left 0 _⟩ ho

-- non-vacuity: startretries = 2, three failing attempts: two automatic retries, then FATAL
def cfgR : Cfg where
  startsecs := 1024
  startretries := 2
  autostart := true
  autorestart := .unexpected
  exitcodes := [0]
  stopsignal := 15
  stopwaitsecs := 10240
  stopasgroup := false
  killasgroup := false
def opsR : List Op := [.transition 1024000 1 (.ok 7) .ok, .reap 1024100 1 false, .transition 1026000 1 (.ok 8) .ok,
  .reap 1026100 1 false, .transition 1029000 1 (.ok 9) .ok, .reap 1029100 1 false, .transition 1029200 1 (.ok 10) .ok]
example : (runR cfgR {} 0 (opsR.take 6)).2 = 2 ∧ (runR cfgR {} 0 (opsR.take 6)).1.state = .backoff ∧
    (runR cfgR {} 0 opsR).1.state = .fatal := by decide +kernel

end Sv.Props.C03
