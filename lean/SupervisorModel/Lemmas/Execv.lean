import SupervisorModel.Model.Execv
import SupervisorModel.Lemmas.ProcPid
/-
  Lemmas about the command-file checks (Model/Execv.lean): the execute-bit mask as bits of the mode word, what
  check_execv_args / get_execv_args accept and which class they raise otherwise, which fault startProcess makes of it, and
  that neither startProcess nor a spawn() on its own forks for a command that cannot be executed.
  The statements a reader should compare with the property are repeated in Props/C13.lean.
-/
set_option linter.unusedSimpArgs false
set_option linter.unusedVariables false
namespace Sv.Execv
open Sv Sv.Proc Sv.Gen.Proc Sv.Gen.Execv

/-- some execute bit (owner 0o100, group 0o010, others 0o001) is set in the mode word -/
def hasExecBit (m : Int) : Prop := m.toNat.testBit 6 = true ∨ m.toNat.testBit 3 = true ∨ m.toNat.testBit 0 = true

theorem testBit_73 (i : Nat) : Nat.testBit 73 i = true ↔ i = 0 ∨ i = 3 ∨ i = 6 := by
  by_cases h : i < 7
  · have : ∀ j, j < 7 → (Nat.testBit 73 j = true ↔ j = 0 ∨ j = 3 ∨ j = 6) := by decide
    exact this i h
  · have h7 : 73 < 2 ^ i := Nat.lt_of_lt_of_le (by decide : 73 < 2 ^ 7) (Nat.pow_le_pow_right (by decide) (by omega))
    rw [Nat.testBit_lt_two_pow h7]
    constructor
    · intro h; cases h
    · omega

theorem testBit_4095 (i : Nat) (h : i < 12) : Nat.testBit 4095 i = true := by
  have : ∀ j, j < 12 → Nat.testBit 4095 j = true := by decide
  exact this i h

theorem execBit_iff (m : Int) : (band (sIMode m) 73 != 0) = true ↔ hasExecBit m := by
  simp only [band, sIMode, sIMODEmask, bne_iff_ne, ne_eq, hasExecBit]
  have e1 : (Int.ofNat (m.toNat &&& (4095 : Int).toNat)).toNat = m.toNat &&& 4095 := by simp
  have e2 : (73 : Int).toNat = 73 := by decide
  rw [e1, e2]
  constructor
  · intro h
    have hne : (m.toNat &&& 4095 &&& 73) ≠ 0 := by
      intro h0; apply h; rw [h0]; rfl
    obtain ⟨i, hi⟩ := Nat.exists_testBit_of_ne_zero hne
    simp only [Nat.testBit_and, Bool.and_eq_true] at hi
    obtain ⟨⟨hm, _⟩, h73⟩ := hi
    rcases (testBit_73 i).1 h73 with rfl | rfl | rfl <;> simp [hm]
  · intro h hz
    have hz' : (m.toNat &&& 4095 &&& 73) = 0 := by
      have := congrArg Int.toNat hz
      simpa using this
    have hb : ∀ i, (m.toNat &&& 4095 &&& 73).testBit i = false := by intro i; rw [hz']; simp
    rcases h with h | h | h
    · have := hb 6; rw [Nat.testBit_and, Nat.testBit_and, h] at this; revert this; decide
    · have := hb 3; rw [Nat.testBit_and, Nat.testBit_and, h] at this; revert this; decide
    · have := hb 0; rw [Nat.testBit_and, Nat.testBit_and, h] at this; revert this; decide


/-- the property's "can exist and be executed" for the file the lookup arrives at: stat succeeds, it is not a directory, it has an
    execute bit, and access(X_OK) holds for the user supervisord runs as -/
def Executable (f : File) : Prop := ∃ m, f.st = some m ∧ sIsDir m = false ∧ hasExecBit m ∧ f.acc = true

theorem execBit_zero_iff (m : Int) : band (sIMode m) 73 = 0 ↔ ¬ hasExecBit m := by
  rw [← execBit_iff]; simp

theorem check_none_iff (f : File) : check f = none ↔ Executable f := by
  obtain ⟨st, acc⟩ := f
  cases st with
  | none => simp [check, checkIsRaiseChain, checkChain, firstRaise, Executable]
  | some m =>
    have hb := execBit_zero_iff m
    cases hd : sIsDir m <;> cases acc <;> by_cases hz : band (sIMode m) 73 = 0 <;>
      simp [check, checkIsRaiseChain, checkChain, firstRaise, Executable, modeOf, hd, hz] <;> simp_all

theorem check_some_cases (f : File) (c : String) (h : check f = some c) :
    (c = "NotFound" ∧ f.st = none) ∨
    (c = "NotExecutable" ∧ ∃ m, f.st = some m ∧ (sIsDir m = true ∨ ¬ hasExecBit m)) ∨
    (c = "NoPermission" ∧ ∃ m, f.st = some m ∧ sIsDir m = false ∧ hasExecBit m ∧ f.acc = false) := by
  obtain ⟨st, acc⟩ := f
  cases st with
  | none => simp_all [check, checkIsRaiseChain, checkChain, firstRaise]
  | some m =>
    have hb := execBit_zero_iff m
    cases hd : sIsDir m <;> cases acc <;> by_cases hz : band (sIMode m) 73 = 0 <;>
      simp_all [check, checkIsRaiseChain, checkChain, firstRaise, modeOf]


theorem structure_ok : argsStructureOk = true ∧ startStructureOk = true ∧ spawnStructureOk = true := by decide

/-- a command that names a program: shlex could split it and there is at least one word -/
def Names (cmd : Cmd) : Prop := cmd = .explicit ∨ cmd = .search

instance (cmd : Cmd) : Decidable (Names cmd) := by unfold Names; infer_instance

theorem execvRaises_none_iff (cmd : Cmd) (files : List File) :
    execvRaises cmd files = none ↔ Names cmd ∧ Executable (resolved (cmd == .explicit) files) := by
  have hs := structure_ok.1
  cases cmd <;> simp [execvRaises, hs, Names, check_none_iff, argsEmptyRaises, argsParseRaises]

/-- the $PATH search: candidates whose stat fails are passed over, the first one whose stat succeeds is taken -/
theorem resolved_search (pre post : List File) (f : File) (hpre : ∀ g ∈ pre, g.st = none) (hf : f.st.isSome = true) :
    resolved false (pre ++ f :: post) = f := by
  have h1 : List.find? (fun f => f.st.isSome) pre = none := by
    rw [List.find?_eq_none]; intro g hg; simp [hpre g hg]
  simp [resolved, List.find?_append, h1, List.find?_cons, hf]

theorem resolved_search_nowhere (files : List File) (h : ∀ g ∈ files, g.st = none) : resolved false files = nowhere := by
  have h1 : List.find? (fun f => f.st.isSome) files = none := by
    rw [List.find?_eq_none]; intro g hg; simp [h g hg]
  simp [resolved, h1]

theorem resolved_explicit (f : File) : resolved true [f] = f := by
  simp [resolved]


theorem execvRaises_some (cmd : Cmd) (files : List File) (c : String) (h : execvRaises cmd files = some c) :
    (c = "BadCommand" ∧ ¬ Names cmd) ∨
    (Names cmd ∧ c = "NotFound" ∧ (resolved (cmd == .explicit) files).st = none) ∨
    (Names cmd ∧ (c = "NotExecutable" ∨ c = "NoPermission") ∧ ∃ m, (resolved (cmd == .explicit) files).st = some m) := by
  have hs := structure_ok.1
  cases cmd
  · left; simp_all [execvRaises, Names, argsParseRaises]
  · left; simp_all [execvRaises, Names, argsEmptyRaises]
  all_goals
    right
    simp only [execvRaises, hs, Bool.not_true, Bool.false_eq_true, if_false, args_g0] at h
    simp only [show ((Cmd.explicit != Cmd.empty) = true) from by decide, show ((Cmd.search != Cmd.empty) = true) from by decide,
      Bool.not_true, Bool.false_eq_true, if_false] at h
    rcases check_some_cases _ c h with ⟨hc, hst⟩ | ⟨hc, m, hst, _⟩ | ⟨hc, m, hst, _⟩
    · left; exact ⟨by simp [Names], hc, hst⟩
    · right; exact ⟨by simp [Names], Or.inl hc, m, hst⟩
    · right; exact ⟨by simp [Names], Or.inr hc, m, hst⟩

/-- the fault the property names for a command that cannot be executed: NO_FILE when the command names a program and no
    file is there (stat fails for the program / in every directory of the path), NOT_EXECUTABLE otherwise (a file is
    there but is a directory, has no execute bit or may not be executed by supervisord's user; or the command names no program) -/
def fileFault (cmd : Cmd) (files : List File) : Int :=
  if Names cmd ∧ (resolved (cmd == .explicit) files).st = none then faultNO_FILE else faultNOT_EXECUTABLE

theorem preflight_pass (cmd : Cmd) (files : List File) (h : Names cmd ∧ Executable (resolved (cmd == .explicit) files)) :
    preflight (execvRaises cmd files) = .pass := by
  rw [(execvRaises_none_iff cmd files).2 h]; rfl

theorem preflight_fault (cmd : Cmd) (files : List File) (h : ¬ (Names cmd ∧ Executable (resolved (cmd == .explicit) files))) :
    preflight (execvRaises cmd files) = .fault (fileFault cmd files) := by
  cases hr : execvRaises cmd files with
  | none => exact absurd ((execvRaises_none_iff cmd files).1 hr) h
  | some c =>
    have hNF : handlerFault "NotFound" = some faultNO_FILE := by decide
    have hNE : handlerFault "NotExecutable" = some faultNOT_EXECUTABLE := by decide
    have hNP : handlerFault "NoPermission" = some faultNOT_EXECUTABLE := by decide
    have hBC : handlerFault "BadCommand" = some faultNOT_EXECUTABLE := by decide
    rcases execvRaises_some cmd files c hr with ⟨hc, hn⟩ | ⟨hn, hc, hst⟩ | ⟨hn, hc, m, hst⟩
    · subst hc; simp [preflight, hBC, fileFault, hn]
    · subst hc; simp [preflight, hNF, fileFault, hn, hst]
    · rcases hc with hc | hc <;> subst hc <;> simp [preflight, hNE, hNP, fileFault, hn, hst]

theorem caught_in_spawn (cmd : Cmd) (files : List File) (c : String) (h : execvRaises cmd files = some c) :
    caughtBy c spawnCatches = true := by
  rcases execvRaises_some cmd files c h with ⟨hc, _⟩ | ⟨_, hc, _⟩ | ⟨_, hc | hc, _⟩ <;> subst hc <;> decide


theorem start_unexecutable (cfg : Cfg) (p : Proc) (now mood : Int) (cmd : Cmd) (files : List File) (res : SpawnRes)
    (hm : ¬ mood < moodRUNNING) (hx : ¬ (Names cmd ∧ Executable (resolved (cmd == .explicit) files))) :
    startProcess cfg now mood (execvRaises cmd files) res { p := p } =
      { s := { p := p, outs := [.answer (fileFault cmd files)] } } := by
  have hs := structure_ok
  simp [startProcess, hs.2.1, hs.2.2, hm, preflight_fault cmd files hx, answer, emit, guard]

theorem start_executable (cfg : Cfg) (p : Proc) (now mood : Int) (cmd : Cmd) (files : List File) (res : SpawnRes)
    (hx : Names cmd ∧ Executable (resolved (cmd == .explicit) files)) :
    startProcess cfg now mood (execvRaises cmd files) res { p := p } = { s := rpcStart cfg now mood res { p := p } } := by
  have hs := structure_ok
  by_cases hm : mood < moodRUNNING
  · simp [startProcess, hs.2.1, hs.2.2, hm, rpcStart, guard]
  · simp [startProcess, hs.2.1, hs.2.2, hm, preflight_pass cmd files hx]

theorem start_forks_only_executable (cfg : Cfg) (p : Proc) (now mood : Int) (cmd : Cmd) (files : List File) (res : SpawnRes)
    (hf : forks (startProcess cfg now mood (execvRaises cmd files) res { p := p }).s.outs ≠ []) :
    Names cmd ∧ Executable (resolved (cmd == .explicit) files) := by
  apply Classical.byContradiction
  intro hx
  apply hf
  by_cases hm : mood < moodRUNNING
  · have hs := structure_ok
    simp [startProcess, hs.2.1, hs.2.2, hm, answer, emit, guard, forks]
  · rw [start_unexecutable cfg p now mood cmd files res hm hx]; simp [forks]

theorem transition_unexecutable_noFork (cfg : Cfg) (now mood : Int) (cmd : Cmd) (files : List File) (res : SpawnRes) (kr : KillRes) (s : S)
    (hx : ¬ (Names cmd ∧ Executable (resolved (cmd == .explicit) files))) :
    let r := transitionChecked cfg now mood (execvRaises cmd files) res kr s
    r.esc = none ∧ r.s = transition cfg now mood .badCmd kr s ∧ forks r.s.outs = forks s.outs ∧ r.s.p.pid = s.p.pid := by
  have hs := structure_ok
  cases hr : execvRaises cmd files with
  | none => exact absurd ((execvRaises_none_iff cmd files).1 hr) hx
  | some c =>
    have hc := caught_in_spawn cmd files c hr
    have hp := transition_pstep cfg now mood .badCmd kr s
    simp only [transitionChecked, hs.2.2, spawnRes, hc, Bool.not_true, Bool.false_eq_true, if_false, if_true]
    refine ⟨trivial, trivial, ?_, ?_⟩
    · rcases hp with ⟨_, h2⟩ | ⟨_, pid, h1, _⟩
      · exact h2
      · cases h1
    · rcases hp with ⟨h1, _⟩ | ⟨_, pid, h1, _⟩
      · exact h1
      · cases h1

theorem transition_executable (cfg : Cfg) (now mood : Int) (cmd : Cmd) (files : List File) (res : SpawnRes) (kr : KillRes) (s : S)
    (hx : Names cmd ∧ Executable (resolved (cmd == .explicit) files)) :
    transitionChecked cfg now mood (execvRaises cmd files) res kr s = { s := transition cfg now mood res kr s } := by
  have hs := structure_ok
  simp [transitionChecked, hs.2.2, (execvRaises_none_iff cmd files).2 hx, spawnRes]

end Sv.Execv
