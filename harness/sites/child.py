"""
C18: Subprocess._spawn_as_child / _prepare_child_fds / set_uid (supervisor/process.py),
FastCGISubprocess._prepare_child_fds, ServerOptions.drop_privileges (supervisor/options.py).

TABLES(): the constants the child uses (message format strings, the descriptor written to, the exit
status, the first descriptor closed, the dup2 targets, the environment keys, drop_privileges' return
messages), pulled from the AST so that an edited constant changes the model the theorems are about.
SITES: every `if` test of those functions as a Lean Bool definition.
"""
import ast, os
from extract import Site, REPO, find_func, lean_str

LEAN_MODULE = 'Child'
IMPORTS = []
OPENS = []


def _func(path, qual):
    tree = ast.parse(open(os.path.join(REPO, path)).read())
    return find_func(tree, qual)


def _fmt_of(node):
    """'fmt' % args  ->  (fmt, [arg source texts]) ; plain constant -> (s, [])"""
    if isinstance(node, ast.Constant) and isinstance(node.value, str):
        return node.value, []
    if isinstance(node, ast.BinOp) and isinstance(node.op, ast.Mod) and isinstance(node.left, ast.Constant) \
            and isinstance(node.left.value, str):
        r = node.right
        args = [ast.unparse(x) for x in r.elts] if isinstance(r, ast.Tuple) else [ast.unparse(r)]
        return node.left.value, args
    return None


def _local_of(func, value_src, default=None):
    """name of the local variable assigned from the expression `value_src` (robust against renaming)"""
    for n in ast.walk(func):
        if isinstance(n, ast.Assign) and len(n.targets) == 1 and isinstance(n.targets[0], ast.Name) \
                and ast.unparse(n.value) == value_src:
            return n.targets[0].id
    return default or value_src


def _lean_list(xs):
    return '[' + ', '.join(xs) + ']'


def _fd_table(func, name, out):
    """dup2 targets and the closed range of a _prepare_child_fds"""
    dups = []
    for n in ast.walk(func):
        if isinstance(n, ast.Call) and ast.unparse(n.func) == 'options.dup2':
            dups.append((ast.unparse(n.args[0]), n.args[1].value))
    out.append('-- %s: dup2 calls in source order: %s' % (name, dups))
    out.append('def %s_dup_targets : List Int := %s' % (name, _lean_list(str(t) for _, t in dups)))
    out.append('def %s_dup_sources : List String := %s' % (name, _lean_list(lean_str(s) for s, _ in dups)))
    loops = [n for n in ast.walk(func) if isinstance(n, ast.For)]
    assert len(loops) == 1 and ast.unparse(loops[0].iter.func) == 'range', 'close loop of ' + name
    lo, hi = loops[0].iter.args
    assert ast.unparse(hi) == 'options.minfds', 'upper bound of the close loop'
    body = loops[0].body
    assert len(body) == 1 and ast.unparse(body[0].value.func) == 'options.close_fd'
    out.append('def %s_first_closed : Int := %d' % (name, lo.value))


# ---- ServerOptions.realize: the fallback `self.serverurl` "that process.spawn can use" ----------------------------------
_FAMILIES = ('AF_UNIX', 'AF_INET')
_CFG_KEYS = ('file', 'host', 'port')


class _UrlSite:
    """the translator's view of realize(): the only variable a stage's guard may mention is the url chosen so far"""
    vars = {'self.serverurl': ('serverurl', 'truthy:(serverurl.any (fun s => !s.isEmpty))')}
    consts = {'self.serverurl is None': '(serverurl).isNone', 'self.serverurl is not None': '(serverurl).isSome',
              'self.serverurl == None': '(serverurl).isNone', 'self.serverurl != None': '(serverurl).isSome'}
    const_types = {}
    locals_inline = False
    str_as_bytes = False


def _stage_of(st, sconf):
    """one stage of the choice: [if <guard>:] for config in [c for c in sconfigs if c['family'] is socket.AF_X]: ... -> dict"""
    from extract import Tr, Untranslatable
    guard = None
    if isinstance(st, ast.If):
        if st.orelse or len(st.body) != 1 or not isinstance(st.body[0], ast.For):
            raise ValueError('realize: serverurl fallback: an `if` that is not a guard around one loop: ' + ast.unparse(st.test))
        guard, st = st.test, st.body[0]
    if not isinstance(st, ast.For) or st.orelse or not isinstance(st.target, ast.Name):
        raise ValueError('realize: serverurl fallback: statement not understood: ' + ast.unparse(st)[:100])
    var = st.target.id
    it = st.iter
    ok = (isinstance(it, ast.ListComp) and len(it.generators) == 1 and isinstance(it.elt, ast.Name)
          and isinstance(it.generators[0].target, ast.Name) and it.elt.id == it.generators[0].target.id
          and ast.unparse(it.generators[0].iter) in sconf and len(it.generators[0].ifs) == 1)
    fam = None
    if ok:
        t = it.generators[0].ifs[0]
        cv = it.elt.id
        if (isinstance(t, ast.Compare) and len(t.ops) == 1 and isinstance(t.ops[0], (ast.Is, ast.Eq))
                and ast.unparse(t.left) == "%s['family']" % cv and ast.unparse(t.comparators[0]) in ['socket.' + f for f in _FAMILIES]):
            fam = ast.unparse(t.comparators[0]).split('.')[1]
    if fam is None:
        raise ValueError('realize: serverurl fallback: loop does not select the server configs of one family: ' + ast.unparse(it)[:120])
    bound, defaults, fmt, args, first = {}, [], None, None, False
    def key_of(e):
        if (isinstance(e, ast.BoolOp) and isinstance(e.op, ast.Or) and len(e.values) == 2 and isinstance(e.values[1], ast.Constant)
                and isinstance(e.values[1].value, str)):
            k = key_of(e.values[0])                 # `config['host'] or 'localhost'`
            if k == 'port':
                raise ValueError('realize: serverurl fallback: a default for the port is not something the model knows')
            if (k, e.values[1].value) not in defaults:
                defaults.append((k, e.values[1].value))
            return k
        s = ast.unparse(e)
        if isinstance(e, ast.Name) and e.id in bound:
            return bound[e.id]
        for k in _CFG_KEYS:
            if s == "%s['%s']" % (var, k):
                return k
        raise ValueError('realize: serverurl fallback: %s is not a field of the server config the model knows' % s)
    body = list(st.body)
    for i, b in enumerate(body):
        if isinstance(b, ast.Break) and i == len(body) - 1 and fmt is not None:
            first = True
        elif isinstance(b, ast.Assign) and len(b.targets) == 1 and isinstance(b.targets[0], ast.Name) and fmt is None:
            bound[b.targets[0].id] = key_of(b.value)
        elif (isinstance(b, ast.If) and not b.orelse and fmt is None and isinstance(b.test, ast.UnaryOp) and isinstance(b.test.op, ast.Not)
              and isinstance(b.test.operand, ast.Name) and b.test.operand.id in bound and len(b.body) == 1
              and isinstance(b.body[0], ast.Assign) and ast.unparse(b.body[0].targets[0]) == b.test.operand.id
              and isinstance(b.body[0].value, ast.Constant) and isinstance(b.body[0].value.value, str)
              and bound[b.test.operand.id] != 'port'):
            defaults.append((bound[b.test.operand.id], b.body[0].value.value))
        elif isinstance(b, ast.Assign) and ast.unparse(b.targets[0]) == 'self.serverurl' and fmt is None:
            fa = _fmt_of(b.value)
            if not fa or not isinstance(b.value, ast.BinOp):
                raise ValueError('realize: serverurl fallback: url not a format: ' + ast.unparse(b.value))
            fmt = fa[0]
            r = b.value.right
            args = [key_of(x) for x in (r.elts if isinstance(r, ast.Tuple) else [r])]
            if fmt.count('%s') != len(args) or fmt.count('%') != len(args):
                raise ValueError('realize: serverurl fallback: url format not understood: %r' % fmt)
        else:
            raise ValueError('realize: serverurl fallback: loop statement not understood: ' + ast.unparse(b)[:100])
    if fmt is None:
        raise ValueError('realize: serverurl fallback: the %s loop does not set self.serverurl' % fam)
    g = 'true'
    if guard is not None:
        try:
            g = Tr(_UrlSite, ast.parse('pass')).truth(guard)
        except Untranslatable as ex:
            raise ValueError('realize: serverurl fallback: guard `%s` not understood (%s)' % (ast.unparse(guard), ex))
    return dict(family=fam, guard=g, guard_src=ast.unparse(guard) if guard is not None else None, first=first, fmt=fmt, args=args,
                defaults=defaults, line=st.lineno)


def server_url_stages():
    """ServerOptions.realize(): `self.serverurl = None`, then one loop per address family over the configured servers, each
    possibly guarded by a test of the url chosen so far (statements of another shape: extraction error)"""
    f = _func('supervisor/options.py', 'ServerOptions.realize')
    start = [i for i, st in enumerate(f.body) if isinstance(st, ast.Assign) and ast.unparse(st.targets[0]) == 'self.serverurl']
    if len(start) != 1 or ast.unparse(f.body[start[0]].value) != 'None':
        raise ValueError('realize: `self.serverurl = None` before the fallback loops was not found')
    sconf, stages = set(), []
    for st in f.body[start[0] + 1:]:
        if isinstance(st, ast.Assign) and ast.unparse(st.value) == 'section.server_configs':
            sconf.update(ast.unparse(t) for t in st.targets)
        elif isinstance(st, ast.Expr) and isinstance(st.value, ast.Constant):
            pass                                    # a string used as a comment
        else:
            stages.append(_stage_of(st, sconf))
    if len(stages) != 2:
        raise ValueError('realize: serverurl fallback: %d loops over the server configs; the model knows two' % len(stages))
    return stages


def serverurl_auto():
    """_processes_from_section: `serverurl = get(section, 'serverurl', None)`; `if serverurl and serverurl.strip().upper() == 'AUTO':
    serverurl = None` -> (token, [normalisers applied to the value before the comparison])"""
    f = _func('supervisor/options.py', 'ServerOptions._processes_from_section')
    asg = [n for n in ast.walk(f) if isinstance(n, ast.Assign) and len(n.targets) == 1 and isinstance(n.targets[0], ast.Name)
           and isinstance(n.value, ast.Call) and ast.unparse(n.value.func) == 'get' and len(n.value.args) >= 2
           and isinstance(n.value.args[1], ast.Constant) and n.value.args[1].value == 'serverurl']
    if len(asg) != 1 or len(asg[0].value.args) != 3 or ast.unparse(asg[0].value.args[2]) != 'None' or asg[0].value.keywords:
        raise ValueError("_processes_from_section: `serverurl = get(section, 'serverurl', None)` was not found")
    v = asg[0].targets[0].id
    tests = [n for n in ast.walk(f) if isinstance(n, ast.If) and any(isinstance(x, ast.Name) and x.id == v for x in ast.walk(n.test))]
    others = [n for n in ast.walk(f) if isinstance(n, ast.Assign) and n is not asg[0] and any(ast.unparse(t) == v for t in n.targets)]
    if len(tests) != 1 or len(others) != 1 or tests[0].orelse or tests[0].body != [others[0]] or ast.unparse(others[0].value) != 'None':
        raise ValueError('_processes_from_section: the AUTO test of serverurl is not `if ...: %s = None` (once)' % v)
    t = tests[0].test
    if not (isinstance(t, ast.BoolOp) and isinstance(t.op, ast.And) and len(t.values) == 2 and ast.unparse(t.values[0]) == v):
        raise ValueError('_processes_from_section: AUTO test not `%s and <comparison>`: %s' % (v, ast.unparse(t)))
    c = t.values[1]
    if not (isinstance(c, ast.Compare) and len(c.ops) == 1 and isinstance(c.ops[0], ast.Eq)
            and isinstance(c.comparators[0], ast.Constant) and isinstance(c.comparators[0].value, str)):
        raise ValueError('_processes_from_section: AUTO comparison not understood: ' + ast.unparse(c))
    norm, e = [], c.left
    while isinstance(e, ast.Call) and isinstance(e.func, ast.Attribute) and not e.args and not e.keywords \
            and e.func.attr in ('strip', 'upper', 'lower'):
        norm.append(e.func.attr)
        e = e.func.value
    if ast.unparse(e) != v:
        raise ValueError('_processes_from_section: AUTO comparison not understood: ' + ast.unparse(c))
    return c.comparators[0].value, list(reversed(norm))


def TABLES():
    out = []
    f = _func('supervisor/process.py', 'Subprocess._spawn_as_child')
    # msg = "..." % (...) assignments, in source order
    msgs = []
    for n in ast.walk(f):
        if isinstance(n, ast.Assign) and ast.unparse(n.targets[0]) == 'msg':
            fa = _fmt_of(n.value)
            assert fa, 'msg assignment not a format: ' + ast.unparse(n)
            msgs.append((n.lineno, fa))
    msgs.sort()
    for k, (ln, (fmt, args)) in enumerate(msgs):
        out.append('-- _spawn_as_child:%d  msg = %r %% %s' % (ln, fmt, args))
        out.append('def msg%d_fmt : String := %s' % (k, lean_str(fmt)))
        out.append('def msg%d_args : List String := %s' % (k, _lean_list(lean_str(a) for a in args)))
    out.append('def msg_count : Nat := %d' % len(msgs))
    # error = '%s, %s: file: %s line: %s' % (t, v, file, line)
    for n in ast.walk(f):
        if isinstance(n, ast.Assign) and ast.unparse(n.targets[0]) == 'error':
            fmt, args = _fmt_of(n.value)
            out.append('def error_fmt : String := %s' % lean_str(fmt))
            out.append('def error_args : List String := %s' % _lean_list(lean_str(a) for a in args))
    # options.write(fd, prefix + msg) / options.write(fd, "literal") / options._exit(code)
    writes, exits = [], []
    for n in ast.walk(f):
        if isinstance(n, ast.Call):
            fn = ast.unparse(n.func)
            if fn == 'options.write':
                writes.append((n.lineno, n))
            elif fn == 'options._exit':
                exits.append(n)
    writes.sort(key=lambda x: x[0])
    fds = sorted({w.args[0].value for _, w in writes})
    assert len(fds) == 1, 'all writes of the child go to one descriptor'
    out.append('def write_fd : Int := %d' % fds[0])
    prefixes = sorted({w.args[1].left.value for _, w in writes if isinstance(w.args[1], ast.BinOp)})
    assert len(prefixes) == 1
    out.append('def msg_prefix : String := %s' % lean_str(prefixes[0]))
    out.append('def prefixed_writes : Nat := %d' % sum(1 for _, w in writes if isinstance(w.args[1], ast.BinOp)))
    finals = [w.args[1].value for _, w in writes if isinstance(w.args[1], ast.Constant)]
    assert len(finals) == 1
    out.append('def msg_not_spawned : String := %s' % lean_str(finals[0]))
    assert len(exits) == 1
    out.append('def exit_code : Int := %d' % exits[0].args[0].value)
    # the outermost statement is try/finally whose finalbody is try: write finally: _exit
    top = [s for s in f.body if not isinstance(s, ast.Assign)]
    ok = (len(top) == 1 and isinstance(top[0], ast.Try) and len(top[0].finalbody) == 1
          and isinstance(top[0].finalbody[0], ast.Try) and not top[0].finalbody[0].handlers
          and ast.unparse(top[0].finalbody[0].finalbody[0].value.func) == 'options._exit')
    out.append('def exit_in_innermost_finally : Bool := %s' % ('true' if ok else 'false'))
    # env[...] = ... assignments in source order
    envs = []
    for n in ast.walk(f):
        if isinstance(n, ast.Assign) and isinstance(n.targets[0], ast.Subscript) and ast.unparse(n.targets[0].value) == 'env':
            envs.append((n.lineno, n.targets[0].slice.value, ast.unparse(n.value)))
    envs.sort()
    out.append('-- env[k] = v assignments: %s' % [(k, v) for _, k, v in envs])
    out.append('def env_keys : List String := %s' % _lean_list(lean_str(k) for _, k, _ in envs))
    out.append('def env_values : List String := %s' % _lean_list(lean_str(v) for _, _, v in envs))
    # the same by role (what is stored), so that the order of independent assignments does not matter
    roles = {"'1'": 'enabled', _local_of(f, 'self.config.serverurl'): 'server_url', 'self.config.name': 'process_name',
             'self.group.config.name': 'group_name'}
    for _, k, v in envs:
        if v in roles:
            out.append('def env_key_%s : String := %s' % (roles[v], lean_str(k)))
            if roles[v] == 'enabled':
                out.append('def env_val_enabled : String := %s' % lean_str(ast.literal_eval(v)))
    # descriptor plumbing
    _fd_table(_func('supervisor/process.py', 'Subprocess._prepare_child_fds'), 'fds', out)
    _fd_table(_func('supervisor/process.py', 'FastCGISubprocess._prepare_child_fds'), 'fcgi_fds', out)
    # drop_privileges: the returned messages, in source order
    d = _func('supervisor/options.py', 'ServerOptions.drop_privileges')
    rets = []
    for n in ast.walk(d):
        if isinstance(n, ast.Return) and n.value is not None:
            fa = _fmt_of(n.value)
            assert fa, 'drop_privileges returns a non-literal: ' + ast.unparse(n)
            rets.append((n.lineno, fa))
    rets.sort()
    for k, (ln, (fmt, args)) in enumerate(rets):
        out.append('-- drop_privileges:%d  return %r %% %s' % (ln, fmt, args))
        out.append('def dp_ret%d_fmt : String := %s' % (k, lean_str(fmt)))
        out.append('def dp_ret%d_args : List String := %s' % (k, _lean_list(lean_str(a) for a in args)))
    out.append('def dp_ret_count : Nat := %d' % len(rets))
    # the os-level calls of drop_privileges in source order with the exception class each is guarded by
    calls = []
    def walk(stmts, guard):
        for st in stmts:
            if isinstance(st, ast.Try):
                g = '|'.join(ast.unparse(h.type) if h.type else '*' for h in st.handlers)
                walk(st.body, g)
                for h in st.handlers:
                    walk(h.body, guard)
                walk(st.orelse, guard)
                walk(st.finalbody, guard)
            elif isinstance(st, ast.If):
                walk(st.body, guard); walk(st.orelse, guard)
            else:
                for n in ast.walk(st):
                    if isinstance(n, ast.Call):
                        fn = ast.unparse(n.func)
                        if fn.startswith(('os.', 'pwd.', 'grp.')):
                            calls.append((n.lineno, fn, guard))
    walk(d.body, '')
    calls.sort()
    out.append('-- drop_privileges: system calls and the exception class caught around each')
    out.append('def dp_calls : List (String × String) := %s' % _lean_list('(%s, %s)' % (lean_str(c), lean_str(g)) for _, c, g in calls))
    # options.py read_config: is the [supervisord] environment copied for every process before the program's own is merged in
    from sites.config import env_merge_loop
    out.append("-- read_config: `env = section.environment.copy(); env.update(proc.environment); proc.environment = env` per process")
    out.append('def read_config_env_copied : Bool := %s' % ('true' if env_merge_loop()['copied'] else 'false'))
    # options.py realize(): which configured server the url handed to children (options.serverurl) is built from
    out.append('-- ServerOptions.realize: self.serverurl = None, then per stage: [if <guard>:] for config in <server configs of one family>: '
               'self.serverurl = fmt % fields [break]')
    for k, sg in enumerate(server_url_stages()):
        out.append('-- realize:%d  stage %d: family %s, guard %s, %s' % (sg['line'], k, sg['family'], sg['guard_src'] or '(none)',
                                                                        'first one (break)' if sg['first'] else 'last one (no break)'))
        out.append('def surl_stage%d_family : String := %s' % (k, lean_str(sg['family'])))
        out.append('def surl_stage%d_guard (serverurl : Option String) : Bool := %s' % (k, sg['guard']))
        out.append('def surl_stage%d_first : Bool := %s' % (k, 'true' if sg['first'] else 'false'))
        out.append('def surl_stage%d_fmt : String := %s' % (k, lean_str(sg['fmt'])))
        out.append('def surl_stage%d_args : List String := %s' % (k, _lean_list(lean_str(a) for a in sg['args'])))
        out.append('def surl_stage%d_defaults : List (String × String) := %s' % (
            k, _lean_list('(%s, %s)' % (lean_str(a), lean_str(b)) for a, b in sg['defaults'])))
    tok, norm = serverurl_auto()
    out.append("-- _processes_from_section: serverurl = get(section, 'serverurl', None); if serverurl and serverurl.<norm>() == <token>: serverurl = None")
    out.append('def serverurl_auto_token : String := %s' % lean_str(tok))
    out.append('def serverurl_auto_norm : List String := %s' % _lean_list(lean_str(a) for a in norm))
    return out


_f = _func('supervisor/process.py', 'Subprocess._spawn_as_child')
_su = _local_of(_f, 'self.config.serverurl', 'serverurl')      # assigned twice, so not inlined by the extractor
_spawn_vars = {
    'self.set_uid()': ('setuid_msg', 'truthy:(setuid_msg.any (fun s => !s.isEmpty))'),
    _su: ('serverurl', 'truthy:(serverurl.any (fun s => !s.isEmpty))'),
    'self.group': ('group', 'opt'),
    'self.config.environment': ('environment', 'opt'),
    'self.config.directory': ('cwd', 'opt'),
    'self.config.umask': ('umask', 'opt'),
}
_spawn_consts = {_su + ' is None': '(serverurl).isNone'}

SITES = [
    Site('supervisor/process.py', 'Subprocess._spawn_as_child', 'spawnChild',
         '(setuid_msg serverurl group : Option String) (environment : Option (List (String × String))) (cwd : Option String) (umask : Option Int)',
         _spawn_vars, consts=_spawn_consts,
         want={'spawnChild_g0', 'spawnChild_g1', 'spawnChild_g2', 'spawnChild_g3', 'spawnChild_g4',
               'spawnChild_g5', 'spawnChild_g6'}),
    Site('supervisor/process.py', 'Subprocess._prepare_child_fds', 'prepFds',
         '(redirect_stderr : Bool)', {'self.config.redirect_stderr': ('redirect_stderr', 'bool')},
         want={'prepFds_g0'}),
    Site('supervisor/process.py', 'FastCGISubprocess._prepare_child_fds', 'fcgiPrepFds',
         '(redirect_stderr : Bool)', {'self.config.redirect_stderr': ('redirect_stderr', 'bool')},
         want={'fcgiPrepFds_g0'}),
    Site('supervisor/process.py', 'Subprocess.set_uid', 'setUid',
         '(uid : Option Int)', {'self.config.uid': ('uid', 'opt')}, want={'setUid_g0'}),
    Site('supervisor/options.py', 'ServerOptions.drop_privileges', 'dropPriv',
         '(user : Option Int) (current_uid uid : Int)',
         {'user': ('user', 'opt'), 'current_uid': ('current_uid', 'int'), 'uid': ('uid', 'int')},
         want={'dropPriv_g0', 'dropPriv_g1', 'dropPriv_g2'}),
]
