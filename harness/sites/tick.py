"""supervisord.timeslice and the comparisons of Supervisor.tick.  Time is in model ticks of 1/1024 s; timeslice's
float arithmetic int(when - (when % period)) is translated to exact integer arithmetic on ticks (valid for the
dyadic clock values the harness produces): x % p (p > 0) = emod, int() = truncation toward zero (tdiv)."""
import ast, os
import extract
from extract import Site, find_func, Untranslatable

LEAN_MODULE = 'Tick'
IMPORTS = []
OPENS = []

SITES = [
    Site('supervisor/supervisord.py', 'Supervisor.tick', 'tick', '(now : Int) (lastTick thisTick : Option Int)',
         {'now': ('now', 'time'), 'last_tick': ('lastTick', 'opt'), 'this_tick': ('thisTick', 'opt')}),
]


def _ticks(e):
    """expression in seconds (float) -> Lean Int term in ticks"""
    if isinstance(e, ast.Name) and e.id == 'when':
        return 'whenT'
    if isinstance(e, ast.Name) and e.id == 'period':
        return '(1024 * period)'
    if isinstance(e, ast.BinOp) and isinstance(e.op, ast.Sub):
        return '(%s - %s)' % (_ticks(e.left), _ticks(e.right))
    if isinstance(e, ast.BinOp) and isinstance(e.op, ast.Add):
        return '(%s + %s)' % (_ticks(e.left), _ticks(e.right))
    if isinstance(e, ast.BinOp) and isinstance(e.op, ast.Mod):
        return '(Int.emod %s %s)' % (_ticks(e.left), _ticks(e.right))
    raise Untranslatable('timeslice: ' + ast.unparse(e))


def TABLES():
    src = open(os.path.join(extract.REPO, 'supervisor/supervisord.py')).read()
    f = find_func(ast.parse(src), 'timeslice')
    if [a.arg for a in f.args.args] != ['period', 'when']:
        raise Untranslatable('timeslice signature')
    rets = [n for n in ast.walk(f) if isinstance(n, ast.Return)]
    if len(rets) != 1:
        raise Untranslatable('timeslice: one return expected')
    e = rets[0].value
    if not (isinstance(e, ast.Call) and isinstance(e.func, ast.Name) and e.func.id == 'int' and len(e.args) == 1):
        raise Untranslatable('timeslice: int(...) expected, found ' + ast.unparse(e))
    out = ['-- timeslice:%d  return %s     (whenT in ticks of 1/1024 s, period and result in whole seconds)' % (rets[0].lineno, ast.unparse(e)),
           'def timeslice (period whenT : Int) : Int := Int.tdiv %s 1024' % _ticks(e.args[0])]
    # Supervisor.tick: argument order of the timeslice(...) calls and of the event constructor
    t = find_func(ast.parse(src), 'Supervisor.tick')
    calls = [n for n in ast.walk(t) if isinstance(n, ast.Call) and ast.unparse(n.func) == 'timeslice']
    if not calls or any([ast.unparse(a) for a in c.args] != ['period', 'now'] for c in calls):
        raise Untranslatable('tick: timeslice(period, now) expected')
    ev = [n for n in ast.walk(t) if isinstance(n, ast.Call) and ast.unparse(n.func) == 'event']
    if len(ev) != 1 or ast.unparse(ev[0].args[0]) != 'this_tick':
        raise Untranslatable('tick: event(this_tick, self) expected')
    out.append('-- tick:%d  %s : the event carries this_tick' % (ev[0].lineno, ast.unparse(ev[0])))
    out.append('def tick_eventWhenIsThisTick : Bool := true')
    return out
