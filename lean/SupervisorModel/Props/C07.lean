import SupervisorModel.Props.C08
import SupervisorModel.Lemmas.Strip
import SupervisorModel.Lemmas.CaptureStrip
/-
  C07 — child output reaches the right log, complete and in order (dispatcher level).

  Model: `Sv.OutDisp` / `Sv.Strip`; reference for capture sections: `Sv.CapSpec.refSplit`;
  reference for "minus ANSI escape sequences": `Sv.Strip.stripRef` (Lemmas/Strip.lean).
  The capture-mode refinement itself (`feed_refines`, `run_complete`) is in Props/C08.lean.

  Not provable at this level (simulated kernel / real processes, see the harness): which
  descriptor numbers the kernel hands out, pipe buffering, the main loop's routing of
  readable descriptors to dispatchers.
-/
set_option linter.unusedSimpArgs false
set_option linter.unusedVariables false
namespace Sv.Props.C07
open Sv Sv.OutDisp Sv.Gen.OutDisp Sv.CapSpec Sv.Strip Sv.Props.C08

/-! ### complete, in order, exactly once — independently of the fragmentation -/

/-- `no_capture_concat`: capture off, strip off: after any reads the log holds exactly their
    concatenation (nothing is ever held back) -/
theorem no_capture_concat (c : Cfg) (hc : c.capMax = 0) (hst : c.strip = false) (hl : c.hasLog = true)
    (chunks : List Bytes) :
    (feedAll c chunks init).err = none ∧ loggedOf (feedAll c chunks init).outs = chunks.flatten := by
  obtain ⟨h1, h2, _, _⟩ := capture_off_is_plain c hc hst chunks
  exact ⟨h1, by rw [h2, hl, if_pos rfl]⟩

/-- `complete_at_eof` (fix F3): capture on; once the end-of-file read has happened the log holds
    every byte outside capture sections, whatever the fragmentation was -/
theorem complete_at_eof (c : Cfg) (hc : 0 < c.capMax) (hst : c.strip = false) (hl : c.hasLog = true)
    (hb : c.btok ≠ []) (he : c.etok ≠ []) (chunks : List Bytes) (hne : ∀ x ∈ chunks, x ≠ []) :
    loggedOf (run c chunks).outs = (refSplit c false chunks.flatten).plain ∧ (run c chunks).p.buf = [] := by
  refine ⟨?_, (run_complete c hc hst hb he chunks hne).2.1⟩
  rw [captured_not_logged c hc hst hb he chunks hne, hl, if_pos rfl]


/-- `capture_plain_invariant` (DESIGN.md C07): at every moment, for every fragmentation so far,
    what has been decided (`items`, whose effects are exactly the observed log / events, `Sim`)
    followed by the reference applied to what is still held equals the reference applied to the
    whole stream so far.  ("logged ++ held" would be wrong: a held buffer equal to a whole tag is
    still undecided.) -/
theorem capture_plain_invariant (c : Cfg) (hc : 0 < c.capMax) (hst : c.strip = false) (hb : c.btok ≠ []) (he : c.etok ≠ [])
    (chunks : List Bytes) (hne : ∀ x ∈ chunks, x ≠ []) :
    ∃ items, Sim c (feedAll c chunks init) items ∧
      items ++ spec c (feedAll c chunks init).p.mode (feedAll c chunks init).p.buf = spec c false chunks.flatten := by
  obtain ⟨items, hs, hi⟩ := feedAll_refines c hc hst hb he chunks hne init [] (init_inv c hc)
  exact ⟨items, hs, by simpa using hi []⟩

/-! everything a step does is appended to what was observed before (the log is append-only) -/

/-- `s'` extends the observations of `s` -/
def Ext (s s' : S) : Prop := ∃ delta, s'.outs = s.outs ++ delta
theorem Ext.refl (s : S) : Ext s s := ⟨[], by simp⟩
theorem Ext.trans {a b c : S} (h1 : Ext a b) (h2 : Ext b c) : Ext a c := by
  obtain ⟨d1, h1⟩ := h1; obtain ⟨d2, h2⟩ := h2
  exact ⟨d1 ++ d2, by rw [h2, h1, List.append_assoc]⟩
theorem ext_emit (o : Out) (s : S) : Ext s (emit o s) := by
  unfold emit guard; split
  · exact Ext.refl _
  · exact ⟨[o], rfl⟩
theorem ext_setP (f : D → D) (s : S) : Ext s (setP f s) := by
  unfold setP guard; split <;> exact Ext.refl _
theorem ext_raise (e : Err) (s : S) : Ext s (raise e s) := by
  unfold raise guard; split <;> exact Ext.refl _

theorem ext_ite {s a b : S} {p : Prop} [Decidable p] (ha : Ext s a) (hb : Ext s b) : Ext s (if p then a else b) := by
  split <;> assumption

theorem logData_outs (c : Cfg) (d : Bytes) (s : S) : Ext s (logData c d s) := by
  simp only [logData, mainCopy_id, guard]
  refine ext_ite (Ext.refl _) (ext_ite ?_ (Ext.refl _))
  have hs1 := fun (p : Prop) (q : Prop) (_ : Decidable p) (_ : Decidable q) (f : D → D) (o : Out) =>
    (ext_ite (p := p) (ext_ite (p := q) (ext_setP f s) (ext_emit o s)) (Ext.refl s))
  refine ext_ite (hs1 _ _ _ _ _ _) (ext_ite (ext_ite ((hs1 _ _ _ _ _ _).trans (ext_emit _ _)) (hs1 _ _ _ _ _ _))
    (ext_ite ((hs1 _ _ _ _ _ _).trans (ext_emit _ _)) (hs1 _ _ _ _ _ _)))

theorem toggle_outs (c : Cfg) (s : S) : Ext s (toggle c s) := by
  simp only [toggle, guard]
  exact ext_ite (Ext.refl _) (ext_ite (ext_ite (ext_setP _ _)
    (((ext_setP _ _).trans (ext_emit _ _)).trans (ext_setP _ _))) (ext_setP _ _))

theorem close_outs (s : S) : Ext s (close s) := by
  simp only [close, guard]
  exact ext_ite (Ext.refl _) (ext_ite (Ext.refl _) ((ext_emit _ _).trans (ext_setP _ _)))

theorem performAll_outs (c : Cfg) (acts : List Act) : ∀ s : S, Ext s (performAll c acts s) := by
  induction acts with
  | nil => intro s; exact Ext.refl _
  | cons a r ih =>
    intro s
    have h1 : Ext s (perform c s a) := by
      cases a with
      | data d => exact logData_outs c d s
      | toggle => exact toggle_outs c s
    exact h1.trans (by simpa [performAll] using ih (perform c s a))

theorem recordOutput_outs (c : Cfg) (eof : Bool) (s : S) : Ext s (recordOutput c eof s) := by
  simp only [recordOutput, guard]
  exact ext_ite (Ext.refl _) (ext_ite (ext_raise _ _) ((ext_setP _ _).trans (performAll_outs c _ _)))

theorem readEvent_outs (c : Cfg) (x : Bytes) (s : S) : Ext s (readEvent c x s) := by
  simp only [readEvent, guard]
  exact ext_ite (Ext.refl _) (ext_ite (((ext_setP _ _).trans (recordOutput_outs c _ _)).trans (close_outs _))
    ((ext_setP _ _).trans (recordOutput_outs c _ _)))

/-- `order_and_once`, first half: reads only ever append to what has been logged and emitted —
    nothing already in the log is rewritten, reordered or repeated by later reads -/
theorem log_append_only (c : Cfg) (c1 c2 : List Bytes) (s : S) :
    Ext (feedAll c c1 s) (feedAll c (c1 ++ c2) s) := by
  have hfa : feedAll c (c1 ++ c2) s = feedAll c c2 (feedAll c c1 s) := by simp [feedAll, List.foldl_append]
  rw [hfa]
  have key : ∀ (l : List Bytes) (s1 : S), Ext s1 (feedAll c l s1) := by
    intro l
    induction l with
    | nil => intro s1; exact Ext.refl _
    | cons x r ih => intro s1; exact (readEvent_outs c x s1).trans (by simpa [feedAll] using ih (readEvent c x s1))
  exact key c2 _

/-- `order_and_once`, second half: at the end the log is the reference's plain bytes — each of
    them exactly once and in stream order (a list equality), for every fragmentation -/
theorem order_and_once (c : Cfg) (hst : c.strip = false) (hl : c.hasLog = true)
    (hb : c.btok ≠ []) (he : c.etok ≠ []) (chunks : List Bytes) (hne : ∀ x ∈ chunks, x ≠ []) :
    (c.capMax = 0 → loggedOf (run c chunks).outs = chunks.flatten) ∧
    (0 < c.capMax → loggedOf (run c chunks).outs = (refSplit c false chunks.flatten).plain) := by
  constructor
  · intro hc
    have := (capture_off_is_plain c hc hst (chunks ++ [[]])).2.1
    simpa [run, feedAll, List.foldl_append, hl] using this
  · intro hc
    exact (complete_at_eof c hc hst hl hb he chunks hne).1

/-! ### strip_ansi -/

/-- the escape introducer is ESC `[` and the terminators are the letters H f A B C D R s u J K h l p m -/
theorem ansi_tables_as_documented :
    ANSI_ESCAPE_BEGIN = [27, 91] ∧
    ANSI_TERMINATORS = (ascii ['H', 'f', 'A', 'B', 'C', 'D', 'R', 's', 'u', 'J', 'K', 'h', 'l', 'p', 'm']).map fun b => [b] := by
  decide

/-- `_log` outside capture mode, for either setting of strip_ansi -/
theorem logData_plain' (c : Cfg) (d : Bytes) (s : S) (he : s.err = none) (hm : s.p.mode = false) :
    logData c d s = { s with outs := s.outs ++ (if d = [] then [] else
      (if c.hasLog then [Out.log (if c.strip then stripEscapes d else d)] else []) ++
      (if evOn c then [Out.plog c.isStdout (if c.strip then stripEscapes d else d)] else [])) } := by
  obtain ⟨⟨mode, buf, cap, closed⟩, outs, err⟩ := s
  obtain ⟨capMax, hasLog, strip, isStdout, outEv, errEv, btok, etok⟩ := c
  simp only at he hm
  subst he hm
  cases d with
  | nil => simp [logData, mainCopy_id, guard, log_g0]
  | cons x xs =>
    simp only [logData, mainCopy_id, guard, log_g0, log_g1, log_g2, log_g5, log_g6, log_g7, log_g8, toggle_g0, evOn,
      emit, setP]
    cases hasLog <;> cases isStdout <;> cases outEv <;> cases errEv <;> cases strip <;> simp

/-- one read with capture off: the read's bytes, stripped on their own when strip_ansi is set -/
theorem read_capture_off' (c : Cfg) (hc : c.capMax = 0) (x : Bytes) (s : S)
    (he : s.err = none) (hm : s.p.mode = false) (hb : s.p.buf = []) :
    (readEvent c x s).err = none ∧ (readEvent c x s).p.mode = false ∧ (readEvent c x s).p.buf = [] ∧
    loggedOf (readEvent c x s).outs = loggedOf s.outs ++ (if c.hasLog then (if c.strip then stripEscapes x else x) else []) ∧
    plogOf (readEvent c x s).outs = plogOf s.outs ++ (if evOn c then (if c.strip then stripEscapes x else x) else []) := by
  obtain ⟨⟨mode, buf, cap, closed⟩, outs, err⟩ := s
  simp only at he hm hb
  subst he hm hb
  have hscan : scanGo c x.isEmpty (([] ++ x : Bytes).length + 1) false ([] ++ x) = ⟨[.data x], false, [], false⟩ := by
    unfold scanGo
    simp [record_output_g0, record_output_a0, record_output_a1, hc]
  have hlog := logData_plain' c x ⟨⟨false, [], cap, closed⟩, outs, none⟩ rfl rfl
  have hread : readEvent c x ⟨⟨false, [], cap, closed⟩, outs, none⟩ =
      if x.isEmpty then close (logData c x ⟨⟨false, [], cap, closed⟩, outs, none⟩)
      else logData c x ⟨⟨false, [], cap, closed⟩, outs, none⟩ := by
    simp only [readEvent, guard, hre_a1, hre_c0_0, hre_g0, setP, Bool.not_not, recordOutput,
      Option.isSome_none, Bool.false_eq_true, if_false, hscan, performAll, List.foldl_cons, List.foldl_nil, perform]
  rw [hread, hlog]
  cases x with
  | nil =>
    have : stripEscapes [] = [] := by decide
    simp only [List.isEmpty_nil, if_true, close, guard, emit, setP, Option.isSome_none, Bool.false_eq_true, if_false]
    cases closed <;> cases c.hasLog <;> cases evOn c <;> cases c.strip <;>
      simp [loggedOf_append, plogOf_append, loggedOf, plogOf, this]
  | cons a r =>
    simp only [List.isEmpty_cons, Bool.false_eq_true, if_false]
    cases c.hasLog <;> cases evOn c <;>
      simp [loggedOf_append, plogOf_append, loggedOf, plogOf]

/-- exact description of what strip_ansi does today: every read is stripped on its own -/
theorem strip_per_read (c : Cfg) (hc : c.capMax = 0) (hs : c.strip = true) (hl : c.hasLog = true) (chunks : List Bytes) :
    loggedOf (feedAll c chunks init).outs = (chunks.map (stripRef true)).flatten := by
  suffices h : ∀ (s : S), s.err = none → s.p.mode = false → s.p.buf = [] →
      (feedAll c chunks s).err = none ∧
      loggedOf (feedAll c chunks s).outs = loggedOf s.outs ++ (chunks.map (stripRef true)).flatten by
    simpa [init, loggedOf] using (h init rfl rfl rfl).2
  induction chunks with
  | nil => intro s he _ _; simp [feedAll, he]
  | cons x r ih =>
    intro s he hm hb
    obtain ⟨e1, m1, b1, l1, _⟩ := read_capture_off' c hc x s he hm hb
    obtain ⟨e2, l2⟩ := ih _ e1 m1 b1
    simp only [feedAll, List.foldl_cons] at e2 l2 ⊢
    refine ⟨e2, ?_⟩
    rw [l2, l1, hl, hs, stripEscapes_eq_ref]; simp

/-- `strip_unfragmented`: when the kernel delivers the stream in one read, the log holds the
    stream minus its ANSI escape sequences -/
theorem strip_unfragmented (c : Cfg) (hc : c.capMax = 0) (hs : c.strip = true) (hl : c.hasLog = true) (stream : Bytes) :
    loggedOf (feedAll c [stream] init).outs = stripRef true stream := by
  simpa using strip_per_read c hc hs hl [stream]

/-- a read boundary does no harm if it falls while showing and not between ESC and `[` -/
def CleanCut (a b : Bytes) : Prop :=
  stripRef true (a ++ b) = stripRef true a ++ stripRef true b

/-- `strip_ansi_partial`.  Full statement (FALSE today, F12): for every fragmentation
    `loggedOf (feedAll c chunks init).outs = stripRef true chunks.flatten`.  Proved here under the
    hypothesis that no read boundary cuts an escape sequence (every prefix/next-read pair is a
    `CleanCut`); the excluded case is exhibited by `strip_fragmented_counterexample`. -/
theorem strip_ansi_partial (c : Cfg) (hc : c.capMax = 0) (hs : c.strip = true) (hl : c.hasLog = true)
    (chunks : List Bytes)
    (hclean : ∀ (pre : List Bytes) (x : Bytes) (post : List Bytes), chunks = pre ++ x :: post → CleanCut pre.flatten x) :
    loggedOf (feedAll c chunks init).outs = stripRef true chunks.flatten := by
  rw [strip_per_read c hc hs hl]
  suffices h : ∀ (l : List Bytes) (pre : List Bytes), chunks = pre ++ l →
      stripRef true (pre.flatten ++ l.flatten) = stripRef true pre.flatten ++ (l.map (stripRef true)).flatten by
    have := h chunks [] rfl
    simpa [stripRef] using this.symm
  intro l
  induction l with
  | nil => intro pre _; simp
  | cons x r ih =>
    intro pre hp
    have h1 := hclean pre x r hp
    have h2 := ih (pre ++ [x]) (by simp [hp])
    simp only [List.flatten_append, List.flatten_cons, List.flatten_nil, List.append_nil, List.map_cons] at h2 ⊢
    unfold CleanCut at h1
    rw [← List.append_assoc, h2, h1, List.append_assoc]


/-- a syntactic sufficient condition for `CleanCut`: the reads before the boundary leave the
    stripper showing (every escape sequence begun has been terminated) and the boundary does not
    fall between ESC and `[` -/
theorem cleanCut_of_state (a b : Bytes) (h1 : stripState true a = true) (h2 : NoStraddle a b) : CleanCut a b := by
  unfold CleanCut
  rw [stripRef_append b a true h2, h1]

/-- `strip_ansi_partial` with the syntactic hypothesis -/
theorem strip_ansi_partial' (c : Cfg) (hc : c.capMax = 0) (hs : c.strip = true) (hl : c.hasLog = true)
    (chunks : List Bytes)
    (hclean : ∀ (pre : List Bytes) (x : Bytes) (post : List Bytes), chunks = pre ++ x :: post →
      stripState true pre.flatten = true ∧ NoStraddle pre.flatten x) :
    loggedOf (feedAll c chunks init).outs = stripRef true chunks.flatten :=
  strip_ansi_partial c hc hs hl chunks fun pre x post h =>
    cleanCut_of_state _ _ (hclean pre x post h).1 (hclean pre x post h).2

-- non-vacuity: "hi ESC[31m" | "x" satisfies the syntactic hypothesis; "ESC[3" | "1m" and "ESC" | "[m" do not
example : stripState true [104, 105, 27, 91, 51, 49, 109] = true ∧ NoStraddle [104, 105, 27, 91, 51, 49, 109] [120] := by
  refine ⟨by decide, ?_⟩; unfold NoStraddle; decide
example : stripState true [27, 91, 51] = false := by decide
example : ¬ NoStraddle [97, 27] [91, 109] := by unfold NoStraddle; decide

/-- F12 (open): `ESC [ 3` + `1 m h e l l o` in two reads logs `1mhello`; in one read `hello` -/
theorem strip_fragmented_counterexample :
    let c : Cfg := { capMax := 0, hasLog := true, strip := true, isStdout := true, outEv := false, errEv := false,
                     btok := stdout_BEGIN, etok := stdout_END }
    loggedOf (feedAll c [[27, 91, 51], [49, 109, 104, 101, 108, 108, 111]] init).outs = [49, 109, 104, 101, 108, 108, 111] ∧
    stripRef true ([[27, 91, 51], [49, 109, 104, 101, 108, 108, 111]].flatten) = [104, 101, 108, 108, 111] ∧
    ¬ CleanCut [27, 91, 51] [49, 109, 104, 101, 108, 108, 111] := by
  refine ⟨by decide, by decide, ?_⟩
  unfold CleanCut; decide

-- non-vacuity of `strip_ansi_partial`: a fragmentation with clean cuts, and the theorem's conclusion on it
example : CleanCut [104, 105, 27, 91, 51, 49, 109] [120] ∧ CleanCut [104, 105] [27, 91, 109, 120] := by
  unfold CleanCut; decide
example : stripEscapes [104, 105, 27, 91, 51, 49, 109, 120] = [104, 105, 120] := by decide


/-! ### capture and strip_ansi together

  With strip_ansi every chunk handed to `_log` is stripped on its own, so the observables are a
  function of the *chunks* (`CItem`, Lemmas/CaptureStrip.lean).  The chunks' bytes are exactly the
  reference splitter's per-byte decisions, for every fragmentation; what fragmentation can change
  is only where the chunk boundaries fall — hence the `CleanCut` hypothesis of the corollary. -/

/-- one read, for either setting of strip_ansi (the chunk-level `feed_refines`) -/
theorem feed_refines_chunks (c : Cfg) (hc : 0 < c.capMax) (hb : c.btok ≠ []) (he : c.etok ≠ [])
    (x : Bytes) (s : S) (I : List CItem) (h : SimC c s I) :
    ∃ I', SimC c (readEvent c x s) I' ∧
      (∀ y, (x ≠ [] ∨ y = []) →
        bytesC I' ++ spec c (readEvent c x s).p.mode ((readEvent c x s).p.buf ++ y)
          = bytesC I ++ spec c s.p.mode (s.p.buf ++ (x ++ y))) ∧
      (x = [] → (readEvent c x s).p.buf = []) := by
  have herr := h.err
  obtain ⟨⟨mode, buf, cap, closed⟩, outs, err⟩ := s
  simp only at herr
  subst herr
  have hcne : c.capMax ≠ 0 := by omega
  let s1 : S := { p := { mode := mode, buf := buf ++ x, cap := cap, closed := closed }, outs := outs, err := none }
  have hscan := fun y hy => scan_refines c hcne hb he x.isEmpty y hy ((buf ++ x).length + 1) mode (buf ++ x) (by omega)
  obtain ⟨hf, _, _⟩ := hscan [] (by simp)
  let r := scanGo c x.isEmpty ((buf ++ x).length + 1) mode (buf ++ x)
  let s2 : S := { s1 with p := { s1.p with buf := r.buf } }
  have hs2 : SimC c s2 I := ⟨rfl, h.logged, h.plog, h.comm, h.cap⟩
  obtain ⟨hs3, hm3, hb3, hc3⟩ := simC_performAll c hc r.acts s2 I hs2
  have hro : recordOutput c x.isEmpty s1 = performAll c r.acts s2 := by
    simp only [recordOutput, guard, s1, setP, r, s2, Option.isSome_none, Bool.false_eq_true, if_false, hf]
  have hread : readEvent c x ⟨⟨mode, buf, cap, closed⟩, outs, none⟩ =
      if x.isEmpty then close (performAll c r.acts s2) else performAll c r.acts s2 := by
    simp only [readEvent, guard, hre_a1, hre_c0_0, hre_g0, setP, Bool.not_not]
    simp only [Option.isSome_none, Bool.false_eq_true, if_false]
    rw [show ({ p := { mode := mode, buf := buf ++ x, cap := cap, closed := closed }, outs := outs, err := none } : S) = s1 from rfl, hro]
  -- `close` changes neither the log/event observables nor mode and buffer
  have hclose : ∀ s3 : S, SimC c s3 (I ++ flatC mode r.acts) →
      SimC c (close s3) (I ++ flatC mode r.acts) ∧ (close s3).p.mode = s3.p.mode ∧ (close s3).p.buf = s3.p.buf := by
    intro s3 h3
    have he3 := h3.err
    obtain ⟨p3, outs3, err3⟩ := s3
    simp only at he3; subst he3
    simp only [close, guard, emit, setP]
    simp only [Option.isSome_none, Bool.false_eq_true, if_false]
    split
    · exact ⟨h3, rfl, rfl⟩
    · exact ⟨⟨rfl, by simpa [loggedOf_append, loggedOf] using h3.logged,
        by simpa [plogOf_append, plogOf] using h3.plog,
        by simpa [commOf_append, commOf] using h3.comm, h3.cap⟩, rfl, rfl⟩
  have hfin : SimC c (readEvent c x ⟨⟨mode, buf, cap, closed⟩, outs, none⟩) (I ++ flatC mode r.acts) ∧
      (readEvent c x ⟨⟨mode, buf, cap, closed⟩, outs, none⟩).p.mode = r.mode ∧
      (readEvent c x ⟨⟨mode, buf, cap, closed⟩, outs, none⟩).p.buf = r.buf := by
    rw [hread]
    have hm := (hscan [] (by simp)).2.1
    split
    · obtain ⟨a, b, d⟩ := hclose _ hs3
      exact ⟨a, by rw [b]; exact hm3.trans hm, by rw [d]; exact hb3⟩
    · exact ⟨hs3, hm3.trans hm, hb3⟩
  refine ⟨I ++ flatC mode r.acts, hfin.1, ?_, ?_⟩
  · intro y hy
    have hy' : x.isEmpty = false ∨ y = [] := by
      rcases hy with hy | hy
      · left; cases x <;> simp_all
      · right; exact hy
    obtain ⟨_, _, heq⟩ := hscan y hy'
    rw [hfin.2.1, hfin.2.2, bytesC_append, bytesC_flatC, List.append_assoc, heq, List.append_assoc]
  · intro hx
    subst hx
    rw [hfin.2.2]
    exact scan_eof_empties c hcne ((buf ++ []).length + 1) mode (buf ++ []) (by omega)

/-- `run_complete` for either setting of strip_ansi: after any fragmentation plus end of file the
    observables are those of a chunk list `I` whose bytes are the reference splitter's decisions
    for the whole stream -/
theorem run_complete_chunks (c : Cfg) (hc : 0 < c.capMax) (hb : c.btok ≠ []) (he : c.etok ≠ [])
    (chunks : List Bytes) (hne : ∀ x ∈ chunks, x ≠ []) :
    ∃ I, SimC c (run c chunks) I ∧ bytesC I = spec c false chunks.flatten := by
  have hinit : SimC c init [] :=
    ⟨rfl, by simp [init, loggedOf, plainC], by simp [init, plogOf, plainC], by simp [init, commOf, sectionsGoC, AllOk],
      EvOk_nil _ (by omega)⟩
  have key : ∀ (l : List Bytes), (∀ x ∈ l, x ≠ []) → ∀ (s : S) (stream : Bytes),
      (∃ I, SimC c s I ∧ ∀ y, bytesC I ++ spec c s.p.mode (s.p.buf ++ y) = spec c false (stream ++ y)) →
      (∃ I, SimC c (feedAll c l s) I ∧
        ∀ y, bytesC I ++ spec c (feedAll c l s).p.mode ((feedAll c l s).p.buf ++ y) = spec c false (stream ++ l.flatten ++ y)) := by
    intro l
    induction l with
    | nil => intro _ s stream h; simpa [feedAll] using h
    | cons x r ih =>
      intro hl s stream ⟨I, hs, hi⟩
      obtain ⟨I', hs', hi', _⟩ := feed_refines_chunks c hc hb he x s I hs
      have hx : x ≠ [] := hl x (by simp)
      have := ih (fun z hz => hl z (by simp [hz])) (readEvent c x s) (stream ++ x)
        ⟨I', hs', fun y => by rw [hi' y (Or.inl hx), hi (x ++ y), List.append_assoc]⟩
      simpa [feedAll, List.append_assoc] using this
  obtain ⟨I, hs, hi⟩ := key chunks hne init [] ⟨[], hinit, fun y => by simp [init, bytesC]⟩
  obtain ⟨I', hs', hi', hbuf⟩ := feed_refines_chunks c hc hb he [] _ I hs
  have h1 := hi' [] (Or.inr rfl)
  have h2 := hi []
  simp only [List.append_nil, List.nil_append] at h1 h2
  rw [hbuf rfl, spec_nil, List.append_nil, h2] at h1
  exact ⟨I', hs', h1⟩

/-- the plain chunks of `I`, in order -/
def plainPieces : List CItem → List Bytes
  | [] => []
  | .chunk false d :: r => d :: plainPieces r
  | _ :: r => plainPieces r

theorem plainPieces_flatten (I : List CItem) : (plainPieces I).flatten = plainOf (bytesC I) := by
  induction I with
  | nil => rfl
  | cons x r ih => cases x with
    | chunk cap d => cases cap <;> simp [plainPieces, bytesC, plainOf_append, plainOf_bytes, ih]
    | tag t => simp [plainPieces, bytesC, plainOf, ih]

theorem plainC_pieces (f : Bytes → Bytes) (I : List CItem) : plainC f I = ((plainPieces I).map f).flatten := by
  induction I with
  | nil => rfl
  | cons x r ih => cases x with
    | chunk cap d => cases cap <;> simp [plainPieces, plainC, ih]
    | tag t => simp [plainPieces, plainC, ih]

/-- stripping piecewise equals stripping the whole when every piece boundary is a clean cut -/
theorem strip_pieces_clean (l : List Bytes)
    (hclean : ∀ (pre : List Bytes) (x : Bytes) (post : List Bytes), l = pre ++ x :: post → CleanCut pre.flatten x) :
    (l.map (stripRef true)).flatten = stripRef true l.flatten := by
  suffices h : ∀ (t : List Bytes) (pre : List Bytes), l = pre ++ t →
      stripRef true (pre.flatten ++ t.flatten) = stripRef true pre.flatten ++ (t.map (stripRef true)).flatten by
    have := h l [] rfl
    simpa [stripRef] using this.symm
  intro t
  induction t with
  | nil => intro pre _; simp
  | cons x r ih =>
    intro pre hp
    have h1 := hclean pre x r hp
    have h2 := ih (pre ++ [x]) (by simp [hp])
    simp only [List.flatten_append, List.flatten_cons, List.flatten_nil, List.append_nil, List.map_cons] at h2 ⊢
    unfold CleanCut at h1
    rw [← List.append_assoc, h2, h1, List.append_assoc]

/-- `capture_strip_partial`: capture on and strip_ansi on.  For every fragmentation there are
    pieces — the chunks logged outside capture sections — whose concatenation is exactly the
    reference's plain bytes (so the capture/plain division is fragmentation-independent also with
    strip_ansi), the log is the pieces stripped one by one, and whenever all piece boundaries are
    clean cuts the log is the plain bytes minus their escape sequences.  Without that hypothesis the
    last conclusion is false (F12; the piece boundaries depend on the reads). -/
theorem capture_strip_partial (c : Cfg) (hc : 0 < c.capMax) (hs : c.strip = true) (hl : c.hasLog = true)
    (hb : c.btok ≠ []) (he : c.etok ≠ []) (chunks : List Bytes) (hne : ∀ x ∈ chunks, x ≠ []) :
    ∃ pieces : List Bytes,
      pieces.flatten = (refSplit c false chunks.flatten).plain ∧
      loggedOf (run c chunks).outs = (pieces.map (stripRef true)).flatten ∧
      ((∀ (pre : List Bytes) (x : Bytes) (post : List Bytes), pieces = pre ++ x :: post → CleanCut pre.flatten x) →
        loggedOf (run c chunks).outs = stripRef true (refSplit c false chunks.flatten).plain) := by
  obtain ⟨I, hsim, hbytes⟩ := run_complete_chunks c hc hb he chunks hne
  have hp : (plainPieces I).flatten = (refSplit c false chunks.flatten).plain := by
    rw [plainPieces_flatten, hbytes, plainOf_spec]
  have hlog : loggedOf (run c chunks).outs = ((plainPieces I).map (stripRef true)).flatten := by
    rw [hsim.logged, hl, if_pos rfl, plainC_pieces]
    congr 2
    funext d
    simp [tr, hs, stripEscapes_eq_ref]
  refine ⟨plainPieces I, hp, hlog, fun hclean => ?_⟩
  rw [hlog, strip_pieces_clean _ hclean, hp]

/-- the number of PROCESS_COMMUNICATION events does not depend on strip_ansi or the fragmentation:
    one per closed section of the reference -/
theorem one_event_per_section_any_strip (c : Cfg) (hc : 0 < c.capMax) (hb : c.btok ≠ []) (he : c.etok ≠ [])
    (chunks : List Bytes) (hne : ∀ x ∈ chunks, x ≠ []) :
    (commOf (run c chunks).outs).length = (refSplit c false chunks.flatten).sections.length := by
  obtain ⟨I, hsim, hbytes⟩ := run_complete_chunks c hc hb he chunks hne
  rw [AllOk_length hsim.comm, ← sections_spec, ← hbytes]
  -- the number of closed sections is the number of END tags, whatever the transform
  have : ∀ (f : Bytes → Bytes) (cur cur' : Bytes) (J : List CItem),
      (sectionsGoC f cur J).length = (sectionsGo cur' (bytesC J)).length := by
    intro f cur cur' J
    induction J generalizing cur cur' with
    | nil => rfl
    | cons x r ih => cases x with
      | chunk cap d =>
        cases cap
        · simp only [sectionsGoC, bytesC, sectionsGo_append, sectionsGo_bytes, List.nil_append, openOf_bytes]
          exact ih _ _
        · simp only [sectionsGoC, bytesC, sectionsGo_append, sectionsGo_bytes, List.nil_append, openOf_bytes]
          exact ih _ _
      | tag t => cases t <;> simp [sectionsGoC, bytesC, sectionsGo, ih _ _] <;> exact ih _ _
  exact this _ _ _ _


-- non-vacuity: capture and strip together, `ESC[31m r e d` BEGIN `x` END `ESC[0m .` cut inside the BEGIN tag (clean cuts)
example :
    let c : Cfg := { exCfg with strip := true }
    loggedOf (run c [[27, 91, 51, 49, 109, 114, 101, 100] ++ stdout_BEGIN.take 7, stdout_BEGIN.drop 7 ++ [120] ++ stdout_END ++ [27, 91, 48, 109, 46]]).outs
      = [114, 101, 100, 46] ∧
    commOf (run c [[27, 91, 51, 49, 109, 114, 101, 100] ++ stdout_BEGIN.take 7, stdout_BEGIN.drop 7 ++ [120] ++ stdout_END ++ [27, 91, 48, 109, 46]]).outs
      = [[120]] := by decide

/-! ### PROCESS_LOG events carry the same bytes, chunk for chunk, with the dispatcher's channel -/

/-- the writes to the log file, one entry per write -/
def logChunks : List Out → List Bytes
  | [] => []
  | .log d :: r => d :: logChunks r
  | _ :: r => logChunks r

/-- the PROCESS_LOG events: (is the STDOUT class, data) -/
def plogChunks : List Out → List (Bool × Bytes)
  | [] => []
  | .plog ch d :: r => (ch, d) :: plogChunks r
  | _ :: r => plogChunks r

theorem logChunks_append (a b : List Out) : logChunks (a ++ b) = logChunks a ++ logChunks b := by
  induction a with
  | nil => rfl
  | cons x r ih => cases x <;> simp [logChunks, ih]
theorem plogChunks_append (a b : List Out) : plogChunks (a ++ b) = plogChunks a ++ plogChunks b := by
  induction a with
  | nil => rfl
  | cons x r ih => cases x <;> simp [plogChunks, ih]

/-- every log write has its PROCESS_LOG event with the same data and this dispatcher's channel, in the same order -/
def Match (c : Cfg) (outs : List Out) : Prop := plogChunks outs = (logChunks outs).map fun d => (c.isStdout, d)

/-- invariant: capture mode is never entered without a capture logger; log writes and events match -/
def PInv (c : Cfg) (s : S) : Prop := (c.capMax = 0 → s.p.mode = false) ∧ Match c s.outs

theorem pinv_logData (c : Cfg) (hl : c.hasLog = true) (hev : evOn c = true) (d : Bytes) (s : S) (h : PInv c s) :
    PInv c (logData c d s) := by
  obtain ⟨⟨mode, buf, cap, closed⟩, outs, err⟩ := s
  obtain ⟨capMax, hasLog, strip, isStdout, outEv, errEv, btok, etok⟩ := c
  obtain ⟨h1, h2⟩ := h
  simp only [PInv, Match, evOn] at *
  subst hl
  cases err with
  | some e => simpa [logData, mainCopy_id, guard] using ⟨h1, h2⟩
  | none =>
    cases d with
    | nil => simpa [logData, mainCopy_id, guard, log_g0] using ⟨h1, h2⟩
    | cons x xs =>
      simp only [logData, mainCopy_id, guard, log_g0, log_g1, log_g2, log_g5, log_g6, log_g7, log_g8, toggle_g0, emit, setP]
      cases mode
      · cases isStdout <;> simp_all [plogChunks_append, logChunks_append, plogChunks, logChunks]
      · have hcm : capMax ≠ 0 := fun h0 => by simpa using h1 h0
        simp [hcm, h2]

theorem pinv_toggle (c : Cfg) (hc : c.capMax ≠ 0) (s : S) (h : PInv c s) : PInv c (toggle c s) := by
  obtain ⟨p, outs, err⟩ := s
  obtain ⟨h1, h2⟩ := h
  refine ⟨fun h0 => absurd h0 hc, ?_⟩
  simp only [Match] at *
  cases err with
  | some e => simpa [toggle, guard] using h2
  | none =>
    simp only [toggle, guard, emit, setP, Option.isSome_none, Bool.false_eq_true, if_false]
    repeat' split
    all_goals simp_all [plogChunks_append, logChunks_append, plogChunks, logChunks]

theorem scan_capture_off (c : Cfg) (hc : c.capMax = 0) (eof : Bool) (n : Nat) (m : Bool) (buf : Bytes) :
    (scanGo c eof (n + 1) m buf).acts = [.data buf] := by
  unfold scanGo
  simp [record_output_g0, record_output_a0, hc]

theorem pinv_performAll (c : Cfg) (hl : c.hasLog = true) (hev : evOn c = true) (hc : c.capMax ≠ 0) (acts : List Act) :
    ∀ s, PInv c s → PInv c (performAll c acts s) := by
  induction acts with
  | nil => intro s h; exact h
  | cons a r ih =>
    intro s h
    have : PInv c (perform c s a) := by
      cases a with
      | data d => exact pinv_logData c hl hev d s h
      | toggle => exact pinv_toggle c hc s h
    simpa [performAll] using ih _ this

theorem pinv_of_outs_mode {c : Cfg} {s s' : S} (h : PInv c s) (ho : s'.outs = s.outs) (hm : s'.p.mode = s.p.mode) : PInv c s' := by
  unfold PInv at *; rw [ho, hm]; exact h

theorem pinv_readEvent (c : Cfg) (hl : c.hasLog = true) (hev : evOn c = true) (x : Bytes) (s : S) (h : PInv c s) :
    PInv c (readEvent c x s) := by
  have hclose : ∀ s : S, PInv c s → PInv c (close s) := by
    intro s h
    obtain ⟨p, outs, err⟩ := s
    cases err with
    | some e => simpa [close, guard] using h
    | none =>
      simp only [close, guard, emit, setP, Option.isSome_none, Bool.false_eq_true, if_false]
      split
      · exact h
      · obtain ⟨h1, h2⟩ := h
        exact ⟨h1, by simp_all [Match, plogChunks_append, logChunks_append, plogChunks, logChunks]⟩
  have hro : ∀ (eof : Bool) (s : S), PInv c s → PInv c (recordOutput c eof s) := by
    intro eof s h
    simp only [recordOutput, guard]
    split
    · exact h
    · split
      · exact pinv_of_outs_mode h (by simp only [raise, guard]; split <;> rfl) (by simp only [raise, guard]; split <;> rfl)
      · have hs1 : PInv c (setP (fun p => { p with buf := (scanGo c eof (s.p.buf.length + 1) s.p.mode s.p.buf).buf }) s) :=
          pinv_of_outs_mode h (by simp only [setP, guard]; split <;> rfl) (by simp only [setP, guard]; split <;> rfl)
        by_cases hc : c.capMax = 0
        · rw [scan_capture_off c hc]
          exact pinv_logData c hl hev _ _ hs1
        · exact pinv_performAll c hl hev hc _ _ hs1
  simp only [readEvent, guard]
  split
  · exact h
  · have hs1 : PInv c (setP (fun p => { p with buf := hre_a1 p.buf x }) s) :=
      pinv_of_outs_mode h (by simp only [setP, guard]; split <;> rfl) (by simp only [setP, guard]; split <;> rfl)
    split
    · exact hclose _ (hro _ _ hs1)
    · exact hro _ _ hs1

/-- `plog_events_match`: with a log file and PROCESS_LOG events enabled for the channel, for every
    configuration (capture on or off, strip on or off) and every sequence of reads, the events
    are — one for one, in order — the writes to the log file, each with this dispatcher's
    channel class (the harness checks name and pid on the real event objects) -/
theorem plog_events_match (c : Cfg) (hl : c.hasLog = true) (hev : evOn c = true) (chunks : List Bytes) :
    plogChunks (feedAll c chunks init).outs = (logChunks (feedAll c chunks init).outs).map fun d => (c.isStdout, d) := by
  suffices h : ∀ s, PInv c s → PInv c (feedAll c chunks s) from
    (h init ⟨fun _ => rfl, by simp [Match, init, plogChunks, logChunks]⟩).2
  induction chunks with
  | nil => intro s h; exact h
  | cons x r ih => intro s h; simpa [feedAll] using ih _ (pinv_readEvent c hl hev x s h)

/-- and when events are disabled for the channel there are none -/
theorem no_plog_when_disabled (c : Cfg) (hev : evOn c = false) (chunks : List Bytes) :
    plogChunks (feedAll c chunks init).outs = [] := by
  suffices h : ∀ (l : List Bytes) (s : S), plogChunks s.outs = [] → plogChunks (feedAll c l s).outs = [] from
    h chunks init rfl
  have hlog : ∀ (d : Bytes) (s : S), plogChunks s.outs = [] → plogChunks (logData c d s).outs = [] := by
    intro d s h
    obtain ⟨⟨mode, buf, cap, closed⟩, outs, err⟩ := s
    obtain ⟨capMax, hasLog, strip, isStdout, outEv, errEv, btok, etok⟩ := c
    simp only [evOn] at hev
    cases err with
    | some e => simpa [logData, mainCopy_id, guard] using h
    | none =>
      simp only [logData, mainCopy_id, guard, log_g0, log_g1, log_g2, log_g5, log_g6, log_g7, log_g8, toggle_g0, emit, setP]
      cases hasLog <;> cases isStdout <;> cases outEv <;> cases errEv <;> cases mode <;>
        simp_all [plogChunks_append, plogChunks] <;> (repeat' split) <;> simp_all [plogChunks_append, plogChunks]
  have htog : ∀ (s : S), plogChunks s.outs = [] → plogChunks (toggle c s).outs = [] := by
    intro s h
    obtain ⟨p, outs, err⟩ := s
    cases err with
    | some e => simpa [toggle, guard] using h
    | none =>
      simp only [toggle, guard, emit, setP, Option.isSome_none, Bool.false_eq_true, if_false]
      repeat' split
      all_goals simp_all [plogChunks_append, plogChunks]
  have hperf : ∀ (acts : List Act) (s : S), plogChunks s.outs = [] → plogChunks (performAll c acts s).outs = [] := by
    intro acts
    induction acts with
    | nil => intro s h; exact h
    | cons a r ih =>
      intro s h
      have : plogChunks (perform c s a).outs = [] := by
        cases a with
        | data d => exact hlog d s h
        | toggle => exact htog s h
      simpa [performAll] using ih _ this
  have hread : ∀ (x : Bytes) (s : S), plogChunks s.outs = [] → plogChunks (readEvent c x s).outs = [] := by
    intro x s h
    obtain ⟨p, outs, err⟩ := s
    cases err with
    | some e => simpa [readEvent, guard] using h
    | none =>
      simp only [readEvent, guard, recordOutput, setP, Option.isSome_none, Bool.false_eq_true, if_false]
      have h2 : ∀ s2 : S, plogChunks s2.outs = [] → plogChunks (close s2).outs = [] := by
        intro s2 h2
        obtain ⟨p2, outs2, err2⟩ := s2
        cases err2 with
        | some e => simpa [close, guard] using h2
        | none =>
          simp only [close, guard, emit, setP, Option.isSome_none, Bool.false_eq_true, if_false]
          split <;> simp_all [plogChunks_append, plogChunks]
      repeat' split
      all_goals first
        | (apply h2; first | (simp only [raise, guard]; split <;> exact h) | (apply hperf; exact h))
        | (simp only [raise, guard]; split <;> exact h)
        | (apply hperf; exact h)
  intro l
  induction l with
  | nil => intro s h; exact h
  | cons x r ih => intro s h; simpa [feedAll] using ih _ (hread x s h)

/-! ### attribution at dispatcher level: a read on a descriptor reaches only that descriptor's dispatcher -/

/-- the main loop's combined map: descriptor number ↦ (configuration, dispatcher state) -/
abbrev Sys := List (Nat × Cfg × S)

def sysLookup (fd : Nat) : Sys → Option (Cfg × S)
  | [] => none
  | (k, c, s) :: r => if k = fd then some (c, s) else sysLookup fd r

/-- `combined_map[fd].handle_read_event()` with the kernel handing out `x` -/
def sysRead (fd : Nat) (x : Bytes) : Sys → Sys
  | [] => []
  | (k, c, s) :: r => if k = fd then (k, c, readEvent c x s) :: r else (k, c, s) :: sysRead fd x r

def sysRun (ops : List (Nat × Bytes)) (sys : Sys) : Sys := ops.foldl (fun sy op => sysRead op.1 op.2 sy) sys

theorem sysLookup_sysRead (fd fd' : Nat) (x : Bytes) (sys : Sys) :
    sysLookup fd (sysRead fd' x sys) =
      if fd = fd' then (sysLookup fd sys).map (fun cs => (cs.1, readEvent cs.1 x cs.2)) else sysLookup fd sys := by
  induction sys with
  | nil => simp [sysRead, sysLookup]
  | cons e r ih =>
    obtain ⟨k, c, s⟩ := e
    by_cases h1 : k = fd' <;> by_cases h2 : k = fd <;> by_cases h3 : fd = fd' <;>
      simp_all [sysRead, sysLookup] <;> omega

/-- `attribution` (dispatcher level): after any interleaving of reads on any descriptors, the
    dispatcher registered for `fd` is in exactly the state it reaches by being fed, in order, the
    reads addressed to `fd` — bytes read from another descriptor never reach its log, its capture
    buffer or its events, and none of its own are lost to another dispatcher -/
theorem attribution (ops : List (Nat × Bytes)) : ∀ (sys : Sys) (fd : Nat) (c : Cfg) (s : S),
    sysLookup fd sys = some (c, s) →
    sysLookup fd (sysRun ops sys) = some (c, feedAll c ((ops.filter fun op => op.1 = fd).map (·.2)) s) := by
  induction ops with
  | nil => intro sys fd c s h; simpa [sysRun, feedAll] using h
  | cons op r ih =>
    intro sys fd c s h
    have h1 := sysLookup_sysRead fd op.1 op.2 sys
    by_cases hfd : op.1 = fd
    · have hfd' : fd = op.1 := hfd.symm
      rw [if_pos hfd', h] at h1
      have := ih _ fd c _ h1
      simpa [sysRun, feedAll, hfd] using this
    · have hfd' : ¬ fd = op.1 := fun e => hfd e.symm
      rw [if_neg hfd', h] at h1
      have := ih _ fd c s h1
      simpa [sysRun, feedAll, hfd] using this

-- non-vacuity: two dispatchers, interleaved reads
example :
    let c : Cfg := { capMax := 0, hasLog := true, strip := false, isStdout := true, outEv := false, errEv := false,
                     btok := stdout_BEGIN, etok := stdout_END }
    (sysLookup 5 (sysRun [(5, [1]), (7, [2]), (5, [3])] [(5, c, init), (7, c, init)])).map (fun cs => loggedOf cs.2.outs)
      = some [1, 3] := by decide

/-! ### the daemon's own log level -/

/-- every strict conversion of a chunk to text in `_log` (the copy into supervisord's own log when
    `loglevel <= DEBG`) sits in a `try` whose handlers catch UnicodeDecodeError -/
theorem debug_copy_decodes_guarded : ∀ site ∈ logDecodeSites, Py.catchesDecodeError site.2 = true := by
  have h := log_decode_sites_guarded
  rw [List.all_eq_true] at h
  exact h

/-- **the debug-level copy never raises and changes nothing observable**: for every configuration
    (any log level), capture mode, chunk (valid UTF-8 or not) and state -/
theorem debug_copy_is_silent (c : Cfg) (m : Bool) (d : Bytes) (s : S) : mainCopy c m d s = s := mainCopy_id c m d s

/-- **`_log` does the same at every daemon log level** — to the log, the capture buffer and the event
    stream, for every chunk.  (All theorems of this file are stated for every `c : Cfg`, hence for
    `mainlog = true` as well as `false`.) -/
theorem log_level_irrelevant (c : Cfg) (b : Bool) (d : Bytes) (s : S) :
    logData { c with mainlog := b } d s = logData c d s := by
  simp only [logData, mainCopy_id]

theorem performAll_err (c : Cfg) (acts : List Act) : ∀ s : S, s.err = none → (performAll c acts s).err = none := by
  induction acts with
  | nil => intro s h; exact h
  | cons a as ih =>
    intro s h
    simp only [performAll, List.foldl_cons]
    apply ih
    cases a with
    | data d => simpa [perform, h] using (logData_keeps c d s).1
    | toggle => exact (toggle_keeps c s h).1

/-- **no read ever lets an exception out of the dispatcher**, at any daemon log level, for any bytes
    (valid UTF-8 or not), in any dispatcher state: neither the decode of the debug-level copy nor
    the recursion of `record_output` -/
theorem read_never_raises (c : Cfg) (x : Bytes) (s : S) (he : s.err = none) : (readEvent c x s).err = none := by
  have hs1 : (setP (fun p => { p with buf := hre_a1 p.buf x }) s).err = none := by simp [setP, guard, he]
  have hrec : ∀ (eof : Bool) (t : S), t.err = none → (recordOutput c eof t).err = none := by
    intro eof t ht
    simp only [recordOutput, guard, ht, Option.isSome_none, Bool.false_eq_true, if_false,
      scan_fuel c eof _ t.p.mode t.p.buf (Nat.lt_succ_self _)]
    exact performAll_err c _ _ (by simp [setP, guard, ht])
  have hclose : ∀ t : S, t.err = none → (close t).err = none := by
    intro t ht
    simp only [close, guard, ht, Option.isSome_none, Bool.false_eq_true, if_false]
    split <;> simp [emit, setP, guard, ht]
  simp only [readEvent, guard, he, Option.isSome_none, Bool.false_eq_true, if_false]
  split
  · exact hclose _ (hrec _ _ hs1)
  · exact hrec _ _ hs1

-- why the guard matters: with a handler for the wrong class an undecodable chunk raises at debug
-- level (after the chunk went to the child log, before its PROCESS_LOG event), not at info level
example : (mainCopyWith [("data.decode('utf-8')", ["UnicodeEncodeError"])] { exCfg with mainlog := true } false [0x63, 0xC3] init).err
    = some .decode := by decide
example : (mainCopyWith [("data.decode('utf-8')", ["UnicodeEncodeError"])] { exCfg with mainlog := false } false [0x63, 0xC3] init).err
    = none := by decide
example : (mainCopyWith [("data.decode('utf-8')", ["UnicodeEncodeError"])] { exCfg with mainlog := true } false [0x63, 0xC3, 0xA9] init).err
    = none := by decide
-- the decoder: "é", a cut "é", a lone continuation byte, 0xFF, an overlong NUL, a surrogate, U+10FFFF, above it
example : Py.utf8Valid [0xC3, 0xA9] = true ∧ Py.utf8Valid [0x63, 0xC3] = false ∧ Py.utf8Valid [0xA9] = false ∧
    Py.utf8Valid [0xFF] = false ∧ Py.utf8Valid [0xC0, 0x80] = false ∧ Py.utf8Valid [0xED, 0xA0, 0x80] = false ∧
    Py.utf8Valid [0xF4, 0x8F, 0xBF, 0xBF] = true ∧ Py.utf8Valid [0xF4, 0x90, 0x80, 0x80] = false ∧
    Py.utf8Valid [0xE2, 0x82, 0xAC, 0x41] = true ∧ Py.utf8Valid [0xE2, 0x82] = false := by decide

/-! ### what one read takes out of a pipe; nothing is missing after the reap -/

/-- `os.read(fd, n)` on a pipe holding `pending`: at most `n` bytes, the rest stays in the pipe -/
def pipeRead (n : Nat) (pending : Bytes) : Bytes × Bytes := (pending.take n, pending.drop n)

/-- what a Linux pipe holds (16 pages, the default; a child that enlarges its pipe with
    F_SETPIPE_SZ is outside the claim): the most that can be unread when the child is reaped -/
def pipeCapacity : Nat := 65536

/-- `options.readfd(fd)`: one `os.read` of the regenerated size -/
def readfd (pending : Bytes) : Bytes × Bytes := pipeRead readfdSize pending

/-- the size `readfd` asks for is at least what a pipe holds -/
theorem read_size_covers_pipe : pipeCapacity ≤ readfdSize := by decide

/-- **one read empties the pipe**: whatever a child left in its pipe, the single
    `handle_read_event()` that `finish()` → `drain()` performs returns all of it -/
theorem readfd_drains (pending : Bytes) (h : pending.length ≤ pipeCapacity) : readfd pending = (pending, []) := by
  have hle : pending.length ≤ readfdSize := Nat.le_trans h read_size_covers_pipe
  simp [readfd, pipeRead, List.take_of_length_le hle, List.drop_eq_nil_of_le hle]

/-- what `Subprocess.finish()` does with an output dispatcher: `drain()` (one `handle_read_event`,
    i.e. one `readfd`), then `record_output(eof=True)` -/
def reap (c : Cfg) (pending : Bytes) (s : S) : S := recordOutput c true (readEvent c (readfd pending).1 s)

theorem feed_capture_off_state (c : Cfg) (hc : c.capMax = 0) (chunks : List Bytes) : ∀ (s : S),
    s.err = none → s.p.mode = false → s.p.buf = [] →
    (feedAll c chunks s).err = none ∧ (feedAll c chunks s).p.mode = false ∧ (feedAll c chunks s).p.buf = [] := by
  induction chunks with
  | nil => intro s h1 h2 h3; exact ⟨h1, h2, h3⟩
  | cons x xs ih =>
    intro s h1 h2 h3
    obtain ⟨a, b, d, _, _⟩ := read_capture_off' c hc x s h1 h2 h3
    simpa [feedAll] using ih _ a b d

/-- the final flush finds nothing when capture is off -/
theorem flush_capture_off (c : Cfg) (hc : c.capMax = 0) (s : S) (he : s.err = none) (hb : s.p.buf = []) :
    (recordOutput c true s).outs = s.outs := by
  obtain ⟨⟨mode, buf, cap, closed⟩, outs, err⟩ := s
  simp only at he hb
  subst he hb
  have hscan : scanGo c true 1 mode [] = ⟨[.data []], mode, [], false⟩ := by
    unfold scanGo
    simp [record_output_g0, record_output_a0, record_output_a1, hc]
  simp [recordOutput, guard, hscan, performAll, perform, logData, log_g0, setP]

/-- **nothing is missing after the reap** (capture and strip off): whatever the fragmentation of
    what was read while the child lived, and whatever it left in the pipe (up to what a pipe
    holds), after `finish()` the log holds exactly everything the child wrote, in order. -/
theorem reap_complete (c : Cfg) (hc : c.capMax = 0) (hst : c.strip = false) (hl : c.hasLog = true)
    (chunks : List Bytes) (pending : Bytes) (hp : pending.length ≤ pipeCapacity) :
    loggedOf (reap c pending (feedAll c chunks init)).outs = chunks.flatten ++ pending := by
  have hfeed : readEvent c pending (feedAll c chunks init) = feedAll c (chunks ++ [pending]) init := by
    simp [feedAll, List.foldl_append]
  obtain ⟨e1, _, e3⟩ := feed_capture_off_state c hc (chunks ++ [pending]) init rfl rfl rfl
  simp only [reap, readfd_drains pending hp, hfeed]
  rw [flush_capture_off c hc _ e1 e3, (no_capture_concat c hc hst hl (chunks ++ [pending])).2]
  simp

-- non-vacuity: 3 bytes read while alive, 70000 > 65536 cannot be pending, 40000 can
example : (readfd (List.replicate 40000 0x61)).2 = [] := by
  rw [readfd_drains _ (by rw [List.length_replicate]; decide)]

/-- a smaller read size would lose output at reap time: with 8K reads, 8193 pending bytes are not drained -/
example : (pipeRead 8192 (List.replicate 8193 0x61)).2 ≠ [] := by
  intro h
  have := congrArg List.length h
  simp only [pipeRead, List.length_drop, List.length_replicate, List.length_nil] at this
  omega


/-! ### redirect_stderr -/

/-- `redirect_merges`: with redirect_stderr the child's descriptors 1 and 2 are the same pipe
    (so the kernel orders the two streams by write order), no stderr pipe exists, and exactly one
    output dispatcher — a stdout one — reads it; every theorem above then applies to the merged
    stream.  Without it there are two pipes and one dispatcher per channel. -/
theorem redirect_merges (a b c d e f : Nat) (i o er : Int) :
    (outputDispatchers true a b c d e f = [(c, true)] ∧
     (makePipes (mkdisp_a0 true none none none) a b c d e f).stderr = none ∧
     childDups true i o er = [(i, 0), (o, 1), (o, 2)]) ∧
    (outputDispatchers false a b c d e f = [(c, true), (e, false)] ∧
     childDups false i o er = [(i, 0), (o, 1), (er, 2)]) := by
  simp [outputDispatchers, makePipes, childDups, mkdisp_a0, mkdisp_g0, mkdisp_g1, mkpipes_g0,
    childfds_c0_0, childfds_c0_1, childfds_c1_0, childfds_c1_1, childfds_c2_0, childfds_c2_1, childfds_c3_0, childfds_c3_1,
    childfds_g0]

end Sv.Props.C07
