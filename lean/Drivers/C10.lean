import SupervisorModel.Basic.DriverKit
import SupervisorModel.Model.Listener
import SupervisorModel.Model.Pool
def main : IO Unit := Sv.driverMain [("listener", Sv.Listener.runCase), ("pool", Sv.Pool.runCase)]
