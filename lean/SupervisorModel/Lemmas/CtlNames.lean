import SupervisorModel.Lemmas.CtlSpec
/-
  Helper lemmas for the "a name was unknown" clauses of C20 (names the *client* resolves: `update <groups>`,
  `status <names>`).
  `Mono f`  : `f` never takes back a line that was written.
  `clean_protect` : onecmd's exception net never turns an unclean end of the action clean.
-/
set_option linter.unusedSimpArgs false
set_option linter.unusedVariables false
namespace Sv.Ctl
open Sv.Gen.Ctl Sv.Ctl.Spec

/-- `f` never takes back a line that was written with `ctl.output` -/
def Mono (f : S → S) : Prop := ∀ s l, l ∈ s.outs → l ∈ (f s).outs

theorem mono_id : Mono id := fun _ _ h => h

theorem mono_comp {f g : S → S} (hf : Mono f) (hg : Mono g) : Mono (fun s => g (f s)) :=
  fun s l h => hg _ l (hf s l h)

theorem mono_out (x : String) : Mono (out x) := by
  intro s l h; unfold out emit guard; split <;> simp_all

theorem mono_outs (xs : List String) : Mono (outs xs) := by
  unfold outs
  induction xs with
  | nil => exact fun _ _ h => h
  | cons x xs ih =>
    intro s l h
    simp only [List.foldl_cons]
    exact ih _ l (mono_out x s l h)

theorem mono_setExit (n : Int) : Mono (setExit n) := by
  intro s l h; unfold setExit setP guard; split <;> simp_all

theorem mono_raise (e : Exc) : Mono (raise e) := by
  intro s l h; unfold raise guard; split <;> simp_all

theorem mono_raiseFault (c : Int) (t : String) : Mono (raiseFault c t) := mono_raise _
theorem mono_raiseSock (e : Int) : Mono (raiseSock e) := mono_raise _
theorem mono_badScript : Mono badScript := mono_raise _

theorem mono_foldl {α : Type} (f : α → S → S) (h : ∀ a, Mono (f a)) (l : List α) :
    Mono (fun s => l.foldl (fun s a => f a s) s) := by
  induction l with
  | nil => exact fun _ _ h => h
  | cons a l ih =>
    intro s x hx
    simp only [List.foldl_cons]
    exact ih _ x (h a s x hx)

theorem mono_rpc {m : String} {a : List String} {kOk : Val → S → S} {kFault : Int → String → S → S}
    {kSock : Int → S → S} (h1 : ∀ v, Mono (kOk v)) (h2 : ∀ c t, Mono (kFault c t)) (h3 : ∀ e, Mono (kSock e)) :
    Mono (rpc m a kOk kFault kSock) := by
  intro s l h
  unfold rpc guard
  split
  · exact h
  · dsimp only
    split
    · exact mono_badScript s l h
    · rename_i ans rest _
      cases ans with
      | ok v => exact h1 v _ l h
      | fault c t => exact h2 c t _ l h
      | proto c => exact mono_raise _ _ l h
      | sock e => exact h3 e _ l h

theorem mono_expectUnit {k : S → S} (hk : Mono k) : ∀ v, Mono (expectUnit k v) := by
  intro v; cases v <;> first | exact hk | exact mono_badScript

theorem mono_expectResults {k : List Res → S → S} (hk : ∀ rs, Mono (k rs)) : ∀ v, Mono (expectResults k v) := by
  intro v; cases v <;> first | exact hk _ | exact mono_badScript

theorem mono_rpcUnit (m : String) (args : List String) {k : S → S} (hk : Mono k) :
    Mono (rpc m args (expectUnit k) raiseFault raiseSock) :=
  mono_rpc (mono_expectUnit hk) mono_raiseFault mono_raiseSock

/-! ### update -/
theorem mono_updRemoved (valid : List String) (g : String) : Mono (updRemoved valid g) := by
  unfold updRemoved
  split
  · exact mono_id
  · refine mono_rpc (mono_expectResults fun rs => ?_) mono_raiseFault mono_raiseSock
    intro s l h
    dsimp only
    split
    · exact mono_setExit _ _ l (mono_out _ _ l (mono_out _ s l h))
    · exact mono_rpcUnit _ _ (mono_out _) _ l (mono_out _ s l h)

theorem mono_updChanged (valid : List String) (g : String) : Mono (updChanged valid g) := by
  unfold updChanged
  split
  · exact mono_id
  · refine mono_rpc (mono_expectResults fun rs => ?_) mono_raiseFault mono_raiseSock
    intro s l h
    dsimp only
    split
    · exact mono_setExit _ _ l (mono_out _ _ l (mono_out _ s l h))
    · exact mono_rpcUnit _ _ (mono_rpcUnit _ _ (mono_out _)) _ l (mono_out _ s l h)

theorem mono_updAdded (valid : List String) (g : String) : Mono (updAdded valid g) := by
  unfold updAdded
  split
  · exact mono_id
  · exact mono_rpcUnit _ _ (mono_out _)

theorem mono_updApply (valid x y z : List String) : Mono (updApply valid x y z) := by
  unfold updApply
  exact mono_comp (mono_comp (mono_foldl (updRemoved valid) (mono_updRemoved valid) z)
    (mono_foldl (updChanged valid) (mono_updChanged valid) y)) (mono_foldl (updAdded valid) (mono_updAdded valid) x)

theorem mono_updNoSuch (groups : List String) (g : String) : Mono (updNoSuch groups g) := by
  intro s l h
  unfold updNoSuch
  split
  · exact h
  · exact mono_setExit _ _ l (mono_out _ s l h)

theorem mono_updChecked (valid x y z : List String) : Mono (updChecked valid x y z) := by
  unfold updChecked
  split
  · exact mono_updApply _ _ _ _
  · refine mono_rpc (fun v => ?_) mono_raiseFault mono_raiseSock
    cases v <;> first | exact mono_badScript | skip
    exact mono_comp (mono_foldl (updNoSuch _) (mono_updNoSuch _) valid) (mono_updApply _ _ _ _)

theorem mono_doUpdate (arg : String) : Mono (doUpdate arg) := by
  unfold doUpdate
  refine mono_rpc (fun v => ?_) (fun c t => ?_) mono_raiseSock
  · cases v <;> first | exact mono_badScript | skip
    exact mono_updChecked _ _ _ _
  · intro s l h
    dsimp only
    split
    · exact mono_out _ _ l (mono_setExit _ s l h)
    · exact mono_raiseFault _ _ _ l (mono_setExit _ s l h)

/-! ### the exception net of onecmd -/
theorem mono_net : Mono net := by
  intro s l h
  unfold net
  split
  · exact h
  · split
    · exact h
    · exact mono_setExit _ _ l (mono_out _ _ l h)

theorem mono_protect {f : S → S} (hf : Mono f) : Mono (protect f) := by
  intro s l h
  have h1 := hf s l h
  unfold protect
  dsimp only
  split
  · split
    · exact mono_net _ l (hf _ l (mono_setExit _ _ l (mono_out _ _ l h1)))
    · exact mono_net _ l (mono_raise _ _ l (mono_setExit _ _ l h1))
  · exact mono_net _ l h1

/-- a line the action has written is still there after the net -/
theorem outs_protect {f : S → S} (hf : Mono f) (s : S) (l : String) (h : l ∈ (f s).outs) : l ∈ (protect f s).outs := by
  unfold protect
  dsimp only
  split
  · split
    · exact mono_net _ l (hf _ l (mono_setExit _ _ l (mono_out _ _ l h)))
    · exact mono_net _ l (mono_raise _ _ l (mono_setExit _ _ l h))
  · exact mono_net _ l h

/-- the net never turns an unclean end of the action clean -/
theorem clean_protect {ok : Call → Bool} {f : S → S} (hf : Safe ok f) (s : S) (hc : Clean (protect f s)) : Clean (f s) := by
  unfold protect at hc
  dsimp only at hc
  split at hc
  · split at hc
    · exfalso
      have h1 := clean_net _ hc
      have h2 := (hf _ h1).1
      revert h2; simp (disch := nz) [clean_setExit]
    · exfalso
      have h1 := clean_net _ hc
      revert h1; simp
  · exact clean_net _ hc

/-- the loop `for gname in valid_gnames: if gname not in groups: output(...); exitstatus = GENERIC` reports every
    unknown name, whatever else is in the list -/
theorem updNoSuch_fold (groups valid : List String) (g : String) (hg : g ∈ valid) (hk : g ∉ groups) (s : S)
    (he : s.err = none) :
    ("ERROR: no such group: " ++ g) ∈ (valid.foldl (fun s v => updNoSuch groups v s) s).outs ∧
    ¬ Clean (valid.foldl (fun s v => updNoSuch groups v s) s) := by
  induction valid generalizing s with
  | nil => cases hg
  | cons v vs ih =>
    simp only [List.foldl_cons]
    have herr : (updNoSuch groups v s).err = none := by
      unfold updNoSuch
      split
      · exact he
      · simp [out, emit, setExit, setP, guard, he]
    rcases List.mem_cons.1 hg with rfl | hin
    · have hstep : ("ERROR: no such group: " ++ g) ∈ (updNoSuch groups g s).outs ∧ ¬ Clean (updNoSuch groups g s) := by
        unfold updNoSuch
        have : groups.contains g = false := by simpa using hk
        simp only [this, Bool.false_eq_true, if_false]
        constructor
        · simp [out, emit, setExit, setP, guard, he]
        · simp (disch := nz) [clean_setExit]
      refine ⟨mono_foldl (updNoSuch groups) (mono_updNoSuch groups) vs _ _ hstep.1, fun hc => hstep.2 ?_⟩
      exact (safe_foldl (updNoSuch groups) (safe_updNoSuch groups) vs _ hc).1
    · exact ih hin _ herr

end Sv.Ctl
