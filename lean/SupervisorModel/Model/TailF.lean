import SupervisorModel.Basic.Bytes
import SupervisorModel.Generated.TailF
/-
  Model of `tail_f_producer` (supervisor/http.py), the producer behind /logtail and
  /mainlogtail.  The producer is a state machine `(ino, sz)` over *observations* of the file
  system made at each `more()` call:

    pathIno : what `os.stat(filename)` answers (none = the path is unlinked right now)
    content : the bytes of the file that is open after `_follow()` (the newly opened file when
              the inode differs, the already open file otherwise)

  Every comparison, the offset updates, the arguments of `seek`/`read` and the truncation
  marker are the definitions regenerated from the source (`Sv.Gen.TailF.*`).
-/
namespace Sv.TailF
open Sv.Gen.TailF

structure TF where
  ino : Int
  sz : Int
deriving DecidableEq, Repr

structure Obs where
  pathIno : Option Int
  content : Bytes
deriving DecidableEq, Repr

/-- what `more()` returns: bytes read from the file, the (text) truncation marker, or NOT_DONE_YET -/
inductive Out
  | data (b : Bytes)
  | marker (b : Bytes)
  | notDone
deriving DecidableEq, Repr

/-- `self.file.seek(off, whence); self.file.read(n)` on a regular file (whence 2 = from the end) -/
def seekRead (f : Bytes) (off whence n : Int) : Bytes :=
  let pos : Int := if whence == 2 then f.length + off else off
  (f.drop pos.toNat).take n.toNat

/-- `__init__`: `_open()` (sz = 0), then `sz = fsize; if sz >= head: self.sz = sz - head` -/
def init (ino : Int) (content : Bytes) (head : Int) : TF :=
  let sz : Int := content.length
  if tfInit_g0 sz head then { ino := ino, sz := tfInit_a4 sz head }
  else { ino := ino, sz := tfOpen_a2 () }

/-- `_follow()`: reopen (ino of the new file, sz = 0) when the path now names another inode -/
def follow (t : TF) (o : Obs) : TF :=
  match o.pathIno with
  | none => t
  | some i => if tfFollow_g0 t.ino i then { ino := i, sz := tfOpen_a2 () } else t

def more (t : TF) (o : Obs) : TF × Out :=
  let t := follow t o
  let newsz : Int := o.content.length
  if tfMore_g0 t.sz newsz then
    ({ t with sz := tfMore_a3 t.sz newsz }, .marker (tfMore_a4 t.sz newsz))
  else if tfMore_g1 t.sz newsz then
    ({ t with sz := tfMore_a6 t.sz newsz },
     .data (seekRead o.content (tfMore_c0_0 t.sz newsz) (tfMore_c0_1 t.sz newsz) (tfMore_c1_0 t.sz newsz)))
  else (t, .notDone)

/-- successive `more()` calls -/
def run (t : TF) : List Obs → List Out
  | [] => []
  | o :: rest => (more t o).2 :: run (more t o).1 rest

def finalState (t : TF) : List Obs → TF
  | [] => t
  | o :: rest => finalState (more t o).1 rest

/-- the log bytes delivered (the marker is framing, not log content) -/
def outBytes : List Out → Bytes
  | [] => []
  | .data b :: r => b ++ outBytes r
  | _ :: r => outBytes r

def hasMarker : List Out → Bool
  | [] => false
  | .marker _ :: _ => true
  | _ :: r => hasMarker r

/-! line protocol:  case tailf ino=<i> head=<h> content=<hex>;  op: more <ino|-> <hex> -/
def showOut : Out → String
  | .data b => s!"data {hexOfBytes b}"
  | .marker b => s!"marker {hexOfBytes b}"
  | .notDone => "notdone"

def runOps (t : TF) : List String → List String
  | [] => []
  | l :: rest =>
    match words l with
    | ["more", i, c] =>
      let pi : Option (Option Int) := if i = "-" then some none else i.toInt?.map some
      match pi, bytesOfHex c with
      | some pi, some c =>
        let r := more t { pathIno := pi, content := c }
        showOut r.2 :: runOps r.1 rest
      | _, _ => "bad-op" :: runOps t rest
    | _ => "bad-op" :: runOps t rest

def runCase (cfg : List String) (ops : List String) : List String :=
  match kvInt cfg "ino", kvInt cfg "head", kvGet cfg "content" >>= bytesOfHex with
  | some ino, some head, some c => runOps (init ino c head) ops
  | _, _, _ => ops.map fun _ => "bad-config"

end Sv.TailF
