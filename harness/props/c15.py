"""
C15 -- reread reports exactly the difference, update converges to the file.

Implementation side: pairs of generated files through the real ServerOptions.process_config(do_usage=False), the real
Supervisor.diff_to_active and the real SupervisorNamespaceRPCInterface.reloadConfig (the daemon's group table holds
the old file's config objects), and the real DefaultControllerPlugin.do_update against a proxy that forwards
reloadConfig to that interface and records the stop/remove/add calls it receives.
Model side: Model/Reread.lean on the two parser views.
Monitors: added/removed by name; changed = "some option differs" decided attribute by attribute on two independent
parses (group kind, priority, number of processes, every process option with AUTO log files as wildcards, a pool's buffer
size / set of subscribed event types / result handler, an fcgi group's socket url / backlog / mode / owner); nothing
reported for an unchanged file; CANT_REREAD leaves the file configuration and the group table untouched; update's call
sequence, its restriction to named groups, and convergence: after update every active group has the file's options, and
(histories, real EventListenerPool objects) each active pool is subscribed in supervisor.events to exactly the file's
event types, no removed pool stays subscribed, and a reread after a converged update reports nothing.
Daemon with children (props/_c15_daemon.py): the unmodified Supervisor.run()/runforever() over the simulated kernel,
the real supervisorctl do_update / do_reread / do_stop / do_remove / do_add as the client, every request dispatched
inside a main-loop pass; monitors over the kernel's child table, the reported pids, fork/kill/wait records and the
RPC answers (no fork for a removed group, no live child outside the process table, convergence to the file with the
file's options, unreported groups keep their pids, reread by itself touches nothing).
The working directory: the old file (and the monitors' reference parse of the new one) is read in one directory, every
reread happens in another (what daemonize() does with [supervisord] directory=); path-valued options are given relative.
Unparsable files: every class of rejected file (config_l1.corruptions, %-expressions that fail with a TypeError /
ValueError / KeyError in every option of every section kind, breakage below the option level) must be answered with
CANT_REREAD by reloadConfig, by supervisorctl reread / update, and by the daemon (real files through the real parser),
nothing changed.
"""
import copy, io, os, re
import config_l1 as L
from props import c14 as C14
from props import _c15_daemon as DAEMON

ID = 'C15'
LEAN_PROPS = 'SupervisorModel.Props.C15'
DRIVER = 'drv_c15'
GENERATED = ['Config', 'Reread']
TRUSTED = C14.TRUSTED + [
    "stopProcessGroup is modelled under 'stops complete' (every process of the group ends in a stopped state); the proxy used for do_update "
    "applies add/remove/stop by their documented preconditions instead of running a daemon",
    "pool_events are compared as a set by the model and by the monitors; options.py compares the list built by iterating a set of the listed names, "
    "whose order for the same names written in a different order / case / with repetitions depends on string hashing: such mutations are generated, "
    "whether reread lists the pool is then not prescribed (counted as events-respelt:*), convergence of update is still demanded, and the "
    "correspondence skips the case when the two lists came out in different orders",
    "an fcgi group's socket owner derived from user= (no socket_owner= option; that option is outside the modelled subset) is represented in the model "
    "by the uid: SocketConfig.__eq__ only compares owners, and two derived owners are equal exactly when the uids are",
]
TRUSTED = TRUSTED + [
    "Model/Reread.lean `pyBases` / `formatRaises`: the fragment of CPython's exception hierarchy and the classes `str % dict` raises are written by hand; "
    "`absIn` (a relative name made absolute) does not normalise `.` / `..`; the model's text for a failed %-expression does not tell `%Y` (ValueError) "
    "from `+%d` (TypeError): both count as the TypeError",
    "the change of directory of daemonize() is represented by os.chdir around the real parse calls (pairs, histories) and by a daemonize seam doing "
    "os.chdir(options.directory) (daemon population with real files: every file version rendered as an ini file and read by the real "
    "ServerOptions.process_config; command=/sim/<name> is how the simulated kernel recognises a program; options.mktempfile is replaced by a function "
    "returning a name)",
    "daemon population (props/_c15_daemon.py): harness/simkernel.py stands for the kernel (fork/waitpid/kill/pipes, virtual clock); the configuration "
    "file is represented by lists of program descriptions, and options.process_config of the daemon's real ServerOptions object is replaced by a "
    "function that installs the config objects (real ProcessConfig / ProcessGroupConfig) of the current file version, which is what reading the file "
    "does; supervisorctl runs in a second thread under strict hand-over, its requests are executed by the simulated kernel's RPC dispatcher inside "
    "the main loop (the HTTP transport is not part of this population)",
    "Model/UpdateLoop.lean follows one pass of runforever as far as the group table is concerned (list taken before poll, requests, guarded "
    "transition loop); whether a transition forks is a flag of the group, process state machines are C02/C06's",
]
ASSUMPTIONS = ["group names within one file are unique (the daemon's group table is keyed by name)"]
RULE = ("(a) histories: one daemon (real ServerOptions/Supervisor/rpcinterface/do_update, no child ever started) taken through 2-4 file versions with "
        "reread, update (all / named groups), supervisorctl-style remove and add between them; half of the versions are targeted at a group that is in "
        "the file but not active (removed by hand, skipped by a restricted update, or only seen by a reread) whose only change is a log file switching "
        "between AUTO and an explicit name, the rest are random mutations incl. unparsable files; after every reread/update the configuration list "
        "that addProcessGroup will use and the active groups' configurations are compared option by option with an independent parse of the file on "
        "disk.  (b) cases = (old file, new file) pairs: new = old with one mutation of a class (one option of one process changed - every option in turn -, "
        "an option dropped, numprocs grown/shrunk, group/program/listener added, removed, renamed, sections reordered, program moved "
        "into or out of a [group:x], section kind changed, file made unparsable, unchanged).  (c) single-attribute mutations of everything that "
        "distinguishes group configurations, over small files holding every group kind (programs, a [group:x], two listener pools, a tcp and a unix "
        "fcgi program) and over the random files of (b): events= gains / loses (each element, all but one) / replaces (one, all) / reorders / repeats / "
        "re-cases an event; buffer_size up, down, dropped, written with its default; result_handler replaced, dropped, written with its default; "
        "priority of a program, listener, fcgi program and [group:x] changed, dropped, written with its default; programs= of a [group:x] gains, loses, "
        "replaces, reorders a member; fcgi socket port / host / host case / path / kind, socket_backlog, socket_mode, socket_owner gained, changed, "
        "dropped -- each as the pair (old, new) AND (new, old), and a sample of them (without fcgi sections) as write/reread/update/reread histories.  "
        "Distinct by the two parser views; non-trivial when the mutation is not 'unchanged'.  (d) a daemon WITH children (unmodified main loop over "
        "the simulated kernel, real supervisorctl commands as the client): old file / new file(s) = groups removed, added, unchanged or changed (one "
        "option of a member, a member added / dropped, the group priority), groups of equal (999 for everybody) and of different priorities, 1-3 "
        "processes per group that are daemons, batch jobs kept in a loop by autorestart (exit 1-3 passes after every start: EXITED with a restart "
        "pending at every other dispatch), never started (STOPPED), one-shot (EXITED), crashing (BACKOFF / FATAL), slow starters (STARTING) or "
        "ignore the stop signal (STOPPING until SIGKILL), plus scripted exits; sessions: update (all / named groups), reread then update, stop + "
        "remove by hand then update, two file versions in a row, an unparsable version in between; the update starts at a random pass and every "
        "request is issued 0-3 passes after the previous answer.  Small-scope exhaustive part: seven structured worlds x every latency in 0..3 before "
        "stopProcessGroup, removeProcessGroup (and addProcessGroup) x every phase of the batch job, so that each request is dispatched in every "
        "state of the group's members, in particular the removal in the pass right after a member exited with its restart pending.  "
        "(e) the working directory: in (a)-(c) the old file is parsed in one directory and every reread happens in another one holding the same relative "
        "sub-directories; files whose stdout_logfile / stderr_logfile / directory / command (and [supervisord] childlogdir / logfile / pidfile / directory, "
        "sections moved into an included file) are relative: unchanged, sections reordered, one relative path respelt / made absolute / dropped, every "
        "single-attribute mutation, both directions, and histories reread / reread / update / reread / change / reread / update; (d) has the same with "
        "real files read by the real parser before and after the daemon changed directory (update with an unchanged file touches no pid).  "
        "(f) files that cannot be parsed, every class: config_l1.corruptions with must_reject (malformed value of every typed option, malformed expansions, "
        "cross-option constraints, names, environment, events, sockets, [supervisord] values), %-expressions failing with a TypeError (unkeyed numeric "
        "conversions such as the unescaped strftime percent of `/bin/date +%d`, numeric conversions of string expansions such as %(program_name)d) / "
        "ValueError / KeyError in every option of program, eventlistener, fcgi-program, group, supervisord and include sections, and breakage below the "
        "option level (no section header, a line that is no option, unterminated header, leading continuation line, empty file, no file, bytes that are "
        "not UTF-8, [include] without files=): as pairs (reloadConfig, supervisorctl reread, supervisorctl update), as histories (unparsable version, "
        "reread, update, parsable version again) and in (d) as real files")

VALUE_POOL = {
    'command': ['/bin/other', '/bin/cat --new'], 'priority': ['7', '998'], 'autostart': ['false', 'true'], 'autorestart': ['true', 'false', 'unexpected'],
    'startsecs': ['5', '0'], 'startretries': ['9', '1'], 'stopsignal': ['HUP', 'KILL', 'USR1'], 'stopwaitsecs': ['33', '3'],
    'stopasgroup': ['true'], 'killasgroup': ['true'], 'exitcodes': ['0,3', '4'], 'redirect_stderr': ['true', 'false'],
    'stdout_logfile': ['/tmp/changed.log', 'NONE', 'AUTO', 'syslog'], 'stderr_logfile': ['/tmp/changed.err', 'NONE', 'AUTO'],
    'stdout_capture_maxbytes': ['7', '1KB'], 'stderr_capture_maxbytes': ['9', '2KB'], 'stdout_events_enabled': ['true', 'false'],
    'stderr_events_enabled': ['true', 'false'], 'stdout_logfile_maxbytes': ['7MB', '3'], 'stderr_logfile_maxbytes': ['8MB', '5'],
    'stdout_logfile_backups': ['3', '0'], 'stderr_logfile_backups': ['4', '1'], 'stdout_syslog': ['true', 'false'], 'stderr_syslog': ['true', 'false'],
    'environment': ['CHANGED="1"', 'A="9",ZZ=1'], 'directory': ['/var', '/tmp/x'], 'umask': ['027', '002'], 'serverurl': ['http://h:1', 'AUTO'],
    'user': ['root'], 'process_name': ['%(program_name)s_n%(process_num)d'],
}


# ---------------------------------------------------------------------------------------------------------
# the working directory.  supervisord reads its file for the first time from the directory it was launched in and,
# once daemonize() has done os.chdir([supervisord] directory=), every later time from there.  Every case parses the
# old file (and the monitors' independent reference parse of the new one) in LAUNCH and lets the daemon reread in RUN;
# both hold the same relative sub-directories, so that a relative log file name is acceptable in either.
# ---------------------------------------------------------------------------------------------------------
REL_DIRS = ['logs', 'rel', 'run.d']


def cwd_dirs(scratch):
    out = []
    for n in ('cwd_launch', 'cwd_run'):
        d = os.path.join(scratch, n)
        for s in REL_DIRS:
            os.makedirs(os.path.join(d, s), exist_ok=True)
        out.append(d)
    return out


class at_cwd:
    """chdir for the duration of one real parse only (the model driver and the worker threads never see it)"""
    def __init__(self, d):
        self.d = d
    def __enter__(self):
        self.saved = os.getcwd()
        if self.d:
            os.chdir(self.d)
    def __exit__(self, *a):
        os.chdir(self.saved)


def model_dirs(scratch):
    """the directories the model is told exist: absolute ones, and the relative ones both working directories hold
    (as the generators spell them)"""
    return L.known_dirs([scratch]) + list(REL_DIRS) + ['.', './logs', 'logs/..', './run.d', 'rel/..']


# ---------------------------------------------------------------------------------------------------------
# file versions that are not a list of sections: [('__raw__', [('text', ...)])] is written byte for byte,
# [('__raw__', [('hex', ...)])] likewise (bytes), [('__raw__', [('deleted', '1')])] removes the file
# ---------------------------------------------------------------------------------------------------------
def is_raw(secs):
    return bool(secs) and secs[0][0] == '__raw__'


def write_version(secs, scratch, tag, include=()):
    if not is_raw(secs):
        return L.write_config({'sections': secs, 'include': list(include)}, scratch, tag)
    path = os.path.join(scratch, 'sv_%s.conf' % tag)
    d = dict(secs[0][1])
    if 'deleted' in d:
        if os.path.exists(path):
            os.unlink(path)
    elif 'hex' in d:
        with open(path, 'wb') as f:
            f.write(bytes.fromhex(d['hex']))
    else:
        with open(path, 'w', encoding='utf-8') as f:
            f.write(d['text'])
    return path


# ---------------------------------------------------------------------------------------------------------
# files that cannot be parsed, EVERY class of them:
#   (1) config_l1.corruptions: malformed value of every typed option, malformed expansions in every expanded option,
#       cross-option constraints, names, environment, events, sockets, [supervisord] values (labels with must_reject);
#   (2) %-expressions that CPython rejects with a TypeError rather than a ValueError / KeyError (the unescaped strftime
#       percent of `command=/bin/date +%d`, a numeric conversion of a string expansion ...), in every option of every
#       section kind -- every option value is passed through expand();
#   (3) breakage below the option level: no section header, a line that is no option, an unterminated header, a leading
#       continuation line, an empty file, no file, bytes that are not UTF-8, an [include] section without files=.
# Whether a version really is unparsable is decided by the monitors' independent parse, never by the label.
# ---------------------------------------------------------------------------------------------------------
TYPEERROR_UNKEYED = ['%d', '%i', '%x', '%X', '%o', '%e', '%E', '%f', '%g', '%c', '%5d', '%-3x', '%03d', '%.2f', '%*d']
TYPEERROR_KEYED = ['%(here)d', '%(here)x', '%(here)c', '%(host_node_name)i', '%(ENV_VERIF_A)d', '%(ENV_VERIF_A)f', '%(ENV_VERIF_N)d', '%(ENV_VERIF_B)e']
TYPEERROR_KEYED_PROGRAM = ['%(program_name)d', '%(group_name)i', '%(program_name)e', '%(group_name)x', '%(program_name)c']
STRFTIME = ['/bin/date +%d', 'sh -c "date +%e"', '/usr/bin/logger -t %c', 'date +%d.%m.%Y', '/bin/date "+%x"', 'backup --stamp=%d-%H%M', 'run --at %I:%M']
VALUEERROR_FORMATS = ['%H:%M', '%Y', '%', 'x%(here', '%(here)', '%(here)z', '%(nosuch)s', '%(ENV_NOSUCH)s']
SECTION_OPTS = {
    'program': ['command', 'directory', 'stdout_logfile', 'stderr_logfile', 'process_name', 'environment', 'priority', 'startsecs', 'user', 'umask',
                'serverurl', 'stopsignal', 'exitcodes', 'autostart', 'autorestart', 'numprocs', 'stdout_logfile_maxbytes', 'stderr_logfile_backups'],
    'group': ['programs', 'priority'],
    'supervisord': ['environment', 'identifier', 'directory', 'childlogdir', 'logfile', 'pidfile', 'minfds', 'umask', 'user', 'nodaemon', 'loglevel',
                    'logfile_maxbytes', 'logfile_backups', 'nocleanup', 'strip_ansi'],
}
SECTION_OPTS['eventlistener'] = SECTION_OPTS['program'] + ['events', 'buffer_size', 'result_handler']
SECTION_OPTS['fcgi-program'] = SECTION_OPTS['program'] + ['socket', 'socket_owner', 'socket_mode', 'socket_backlog']


def format_corruptions(rng, secs, everything):
    """[(label, sections)]: one option of one section holds a %-expression that `value % expansions` rejects"""
    out = []
    for si, (sname, opts) in enumerate(secs):
        kind = sname.split(':')[0]
        if kind not in SECTION_OPTS:
            continue
        d = dict(opts)
        cand = list(dict.fromkeys([k for k, _ in opts] + SECTION_OPTS[kind]))
        for k in (cand if everything else rng_pick(rng, cand, 3)):
            keyed = TYPEERROR_KEYED + (TYPEERROR_KEYED_PROGRAM if kind in ('program', 'eventlistener', 'fcgi-program') else [])
            fams = [('typeerror-unkeyed', TYPEERROR_UNKEYED), ('typeerror-keyed', keyed), ('valueerror', VALUEERROR_FORMATS)]
            if k == 'command':
                fams.append(('typeerror-strftime', STRFTIME))
            for fam, pool in (fams if everything else [rng.choice(fams[:2] + fams)]):
                bad = rng.choice(pool)
                cur = d.get(k)
                if fam == 'typeerror-strftime':
                    val = bad
                elif k == 'environment':
                    val = rng.choice(['E="%s"' % bad, 'E=%s' % bad, (cur + ',' if cur else '') + 'STAMP="%s"' % bad])
                elif cur and rng.random() < 0.6:
                    val = rng.choice([cur + ' ' + bad, cur + bad, bad + cur])
                else:
                    val = bad
                s2 = list(secs); s2[si] = (sname, [(a, b) for a, b in opts if a != k] + [(k, val)])
                out.append(('unparsable/format-%s:%s.%s=%r' % (fam, kind, k, val), s2))
    if everything or rng.random() < 0.3:
        bad = rng.choice(TYPEERROR_UNKEYED + TYPEERROR_KEYED + VALUEERROR_FORMATS)
        out.append(('unparsable/format-include:files=%r' % bad, secs + [('include', [('files', bad + '/*.conf')])]))
    return out


def syntax_corruptions(rng, secs):
    """[(label, raw version)]: breakage below the option level"""
    text = L.render(secs)
    lines = text.split('\n')
    heads = [i for i, l in enumerate(lines) if l.startswith('[')]
    out = []
    def raw(label, t):
        out.append(('unparsable/syntax-' + label, [('__raw__', [('text', t)])]))
    raw('no-section-header', 'command=/bin/stray\n' + text)
    i = rng.randrange(1, len(lines))
    raw('line-is-no-option', '\n'.join(lines[:i] + [rng.choice(['this is not an option line', '/bin/cat', '[[', ']'])] + lines[i:]))
    if heads:
        h = rng.choice(heads)
        raw('unterminated-header', '\n'.join(lines[:h] + [lines[h].rstrip(']')] + lines[h + 1:]))
    raw('leading-continuation', '   continued\n' + text)
    raw('empty-file', rng.choice(['', '\n\n', '; nothing but a comment\n']))
    raw('include-without-files', text + '\n[include]\n')
    out.append(('unparsable/syntax-file-deleted', [('__raw__', [('deleted', '1')])]))
    out.append(('unparsable/syntax-not-utf8', [('__raw__', [('hex', (b'\xff\xfe' + text.encode('utf-8')).hex())])]))
    out.append(('unparsable/syntax-not-utf8', [('__raw__', [('hex', text.replace('command=', 'command=café ', 1).encode('latin-1', 'replace').hex())])]))
    return out


def unparsable_versions(rng, secs, everything):
    out = [('unparsable/' + lab, s) for lab, must, s in L.corruptions(rng, {'sections': secs}, per_class=(3 if everything else 1), everything=everything) if must]
    out += format_corruptions(rng, secs, everything)
    out += syntax_corruptions(rng, secs)
    return out


def mutations(rng, cfg, everything):
    secs = cfg['sections']
    prog = [i for i, (s, _) in enumerate(secs) if s.split(':')[0] in ('program', 'eventlistener', 'fcgi-program')]
    out = [('unchanged', list(secs))]
    def setopt(si, k, v):
        s = list(secs); o = [(a, b) for a, b in secs[si][1] if a != k] + [(k, v)]; s[si] = (secs[si][0], o); return s
    opts = sorted(VALUE_POOL)
    for si in (prog if everything else rng.sample(prog, min(2, len(prog)))):
        for k in (opts if everything else rng.sample(opts, 8)):
            if k == 'redirect_stderr' and secs[si][0].startswith('eventlistener'):
                continue
            v = rng.choice(VALUE_POOL[k])
            if k == 'stopasgroup':
                out.append(('option:stopasgroup', setopt(si, 'stopasgroup', 'true') if True else None))
                continue
            out.append(('option:' + k, setopt(si, k, v)))
        d = dict(secs[si][1])
        n = int(d.get('numprocs', '1'))
        pn = d.get('process_name', '%(program_name)s')
        if '%(process_num)' not in pn:
            pn = '%(program_name)s_%(process_num)d'
        grown = list(secs); grown[si] = (secs[si][0], [(a, b) for a, b in secs[si][1] if a not in ('numprocs', 'process_name')] + [('numprocs', str(n + rng.choice([1, 2, 5]))), ('process_name', pn)])
        out.append(('numprocs-grown', grown))
        if n > 1:
            out.append(('numprocs-shrunk', setopt(si, 'numprocs', str(n - 1))))
        out.append(('numprocs_start', setopt(si, 'numprocs_start', str(int(d.get('numprocs_start', '0')) + 1))) if '%(process_num)' in d.get('process_name', '') else ('option:startsecs', setopt(si, 'startsecs', '44')))
    if prog:
        si = rng.choice(prog)
        grouped = {p.strip() for s, o in secs if s.startswith('group:') for p in dict(o).get('programs', '').split(',')}
        nm = secs[si][0].split(':', 1)[1]
        if nm not in grouped:
            out.append(('section-removed', [s for i, s in enumerate(secs) if i != si]))
            ren = list(secs); ren[si] = (secs[si][0].split(':')[0] + ':renamed_x', secs[si][1]); out.append(('section-renamed', ren))
            if secs[si][0].startswith('program:'):
                out.append(('moved-into-group', secs + [('group:newgrp', [('programs', nm)])]))
                k2 = list(secs); k2[si] = ('fcgi-program:' + nm, secs[si][1] + [('socket', 'tcp://localhost:9000')]); out.append(('kind:program->fcgi', k2))
            if secs[si][0].startswith('fcgi-program:'):
                k2 = list(secs); k2[si] = ('program:' + nm, [(a, b) for a, b in secs[si][1] if not a.startswith('socket')]); out.append(('kind:fcgi->program', k2))
                out.append(('fcgi-socket-changed', setopt(si, 'socket', 'tcp://localhost:9999')))
    out.append(('section-added', secs + [('program:added_y', [('command', '/bin/new')])]))
    out.append(('listener-added', secs + [('eventlistener:added_l', [('command', '/bin/l'), ('events', 'TICK_60')])]))
    sh = list(secs); rng.shuffle(sh); out.append(('sections-reordered', sh))
    for si in [i for i, (s, _) in enumerate(secs) if s.startswith('eventlistener:')][:1]:
        cur = [e.strip().upper() for e in dict(secs[si][1])['events'].split(',')]
        extra = next(e for e in L.event_names() if e not in cur)
        out.append(('pool-events-added', setopt(si, 'events', dict(secs[si][1])['events'] + ',' + extra)))
        out.append(('pool-events-replaced', setopt(si, 'events', extra)))
        out.append(('pool-buffer', setopt(si, 'buffer_size', str(int(dict(secs[si][1]).get('buffer_size', '10')) + 1))))
        out.append(('pool-priority', setopt(si, 'priority', '3')))
    for si in [i for i, (s, _) in enumerate(secs) if s.startswith('group:')][:1]:
        out.append(('group-priority', setopt(si, 'priority', '42')))
        out.append(('group-dissolved', [s for i, s in enumerate(secs) if i != si]))
        ren = list(secs); ren[si] = ('group:regrouped', secs[si][1]); out.append(('group-renamed', ren))
    # loss of an option that is present (the value falls back to its default)
    present = [(si, k) for si in prog for k, _ in secs[si][1] if k in VALUE_POOL and k != 'process_name']
    for si, k in (present if everything else rng_pick(rng, present, 3)):
        s2 = list(secs); s2[si] = (secs[si][0], [(a, b) for a, b in secs[si][1] if a != k]); out.append(('option-dropped:' + k, s2))
    # every attribute that distinguishes group configurations, one at a time (gain, loss, replacement, reorder)
    am = attr_mutations(rng, secs)
    out.extend(am if everything else rng_pick(rng, am, 6))
    if prog:
        out.append(('unparsable', setopt(prog[0], 'startsecs', 'soon')))
    out.append(('unparsable-no-supervisord', [s for s in secs if s[0] != 'supervisord']))
    # every other class of unparsable file (a sample; unparsable_population() takes all of them over small files)
    out.extend(rng_pick(rng, unparsable_versions(rng, secs, False), 12 if everything else 4))
    # path-valued options given relative to the working directory (which differs between the first parse and a reread)
    for si in (prog if everything else rng_pick(rng, prog, 1)):
        for k, vals in sorted(REL_VALUES.items()):
            out.append(('option-relative:' + k, setopt(si, k, rng.choice(vals))))
    return out


REL_VALUES = {
    'stdout_logfile': ['web.log', 'logs/web.log', './web.log', 'logs/../web.log', 'run.d/%(program_name)s.out'],
    'stderr_logfile': ['web.err', 'logs/web.err', './logs/web.err', 'rel/%(program_name)s.err'],
    'directory': ['rel', '.', 'rel/..', './run.d'],
    'command': ['bin/run --fg', './run.sh', '../bin/tool -x', 'rel/run %(process_num)d'],
}


def relativise(rng, secs, sup=False, rundir=None, p=0.75):
    """the same file with the path-valued options of its programs given relative to the working directory; sup: so are the
    [supervisord] options that name files, and directory= names the directory daemonize() changes to"""
    out = []
    for sname, opts in secs:
        kind = sname.split(':')[0]
        if kind in ('program', 'eventlistener', 'fcgi-program'):
            d = dict(opts)
            for k, vals in sorted(REL_VALUES.items()):
                if rng.random() < p:
                    d[k] = rng.choice(vals)
            opts = [(k, d[k]) for k, _ in opts if k in d] + [(k, v) for k, v in sorted(d.items()) if k not in dict(opts)]
        elif kind == 'supervisord' and sup:
            d = dict(opts)
            d.update(directory=rundir, childlogdir='logs', logfile=rng.choice(['logs/supervisord.log', 'supervisord.log']), pidfile=rng.choice(['sup.pid', 'run.d/sup.pid']))
            opts = sorted(d.items())
        out.append((sname, opts))
    return out


def relative_mutations(rng, secs):
    """[(label, sections)]: one relative path of one section is spelt differently, made absolute, or dropped"""
    out = []
    for si, (sname, opts) in enumerate(secs):
        if sname.split(':')[0] not in ('program', 'eventlistener', 'fcgi-program'):
            continue
        d = dict(opts)
        for k, vals in sorted(REL_VALUES.items()):
            def setv(v):
                s2 = list(secs); s2[si] = (sname, [(a, b) for a, b in opts if a != k] + ([(k, v)] if v is not None else [])); return s2
            others = [v for v in vals if v != d.get(k)]
            out.append(('path-other-relative:' + k, setv(rng.choice(others))))
            out.append(('path-absolute:' + k, setv('/tmp/' + rng.choice(vals).replace('../', '').replace('./', ''))))
            if k in d and k != 'command':
                out.append(('path-dropped:' + k, setv(None)))
    return out


# ---------------------------------------------------------------------------------------------------------
# variables of `[supervisord] environment=` used as %(ENV_x)s in the options of the other sections.
# The reference for such a file is its LITERAL TWIN: the same file with every %(ENV_x)s whose x the file's own
# [supervisord] section defines written out as the defined value.  The twin is parsed by a ServerOptions that never
# saw another file, so "the file's options" do not depend on how (or when) the implementation looks its variables up.
# ---------------------------------------------------------------------------------------------------------
_ENV_PAIR = re.compile(r'^([A-Za-z_][A-Za-z0-9_]*)="([A-Za-z0-9_./-]*)"$')


def sup_variables(secs):
    """{name: value} of a [supervisord] environment= made of plain NAME="value" items only; None otherwise"""
    if is_raw(secs):
        return None
    sup = [opts for s, opts in secs if s == 'supervisord']
    if len(sup) != 1 or [k for k, _ in sup[0]].count('environment') != 1:
        return None
    pairs = {}
    for item in dict(sup[0])['environment'].split(','):
        m = _ENV_PAIR.match(item.strip())
        if not m:
            return None
        pairs[m.group(1)] = m.group(2)
    return pairs


def literal_twin(secs):
    """-> the sections with the file's own variables written out, or None (no such variable is used, or a section
    redefines one of the names in its own environment=)"""
    pairs = sup_variables(secs)
    if not pairs:
        return None
    out, n = [], 0
    for s, opts in secs:
        if s in ('supervisord', 'include'):
            out.append((s, opts)); continue
        new = []
        for k, v in opts:
            if k == 'environment' and any(re.search(r'(^|[\s,])%s\s*=' % re.escape(name), v) for name in pairs):
                return None
            for name, val in pairs.items():
                ref = '%%(ENV_%s)s' % name
                if ref in v:
                    v = v.replace(ref, val); n += 1
            new.append((k, v))
        out.append((s, new))
    return out if n else None


def twin_reference(ctx, secs, scratch, tag, include, launch, got, where, inp):
    """parse the literal twin of `secs` (None when there is none); `got` = the independent parse of the file itself
    (an Outcome, or None): both must agree -- status and every option of every group"""
    tw = literal_twin(secs)
    if tw is None:
        return None
    if include:
        # sections spread over an included file see %(here)s = that file's directory, so the twin is parsed at the very same
        # paths and the file itself (what is written under `tag` is `secs`) is put back afterwards
        tpath = write_version(tw, scratch, tag, include)
        try:
            with at_cwd(launch):
                ref = L.parse_with(L.make_options(L.ENV_VARS), tpath, reread=True)
        finally:
            write_version(secs, scratch, tag, include)
    else:
        tpath = write_version(tw, scratch, tag + 't', include)
        with at_cwd(launch):
            ref = L.parse_with(L.make_options(L.ENV_VARS), tpath, reread=True)
    ctx.count('literal-twin:' + ref.status.split(' ')[0])
    if got is not None:
        if (got.status == 'ok') != (ref.status == 'ok'):
            if ref.status == 'ok':
                ctx.violation('parsable-file-not-reread:variables-of-the-file', '%s: the file is rejected (%s: %s) although it is accepted with its own '
                              '[supervisord] environment variables written out' % (where, got.status, got.message[:160]), inp)
            else:
                ctx.violation('unparsable-file-not-CANT_REREAD:variables-of-the-file', '%s: the file is accepted although it is rejected (%s) with its own '
                              '[supervisord] environment variables written out' % (where, ref.message[:160]), inp)
        elif ref.status == 'ok':
            a, b = got.options.process_group_configs, ref.options.process_group_configs
            if [g.name for g in a] != [g.name for g in b] or any(exact_differs(x, y) for x, y in zip(a, b)):
                bad = [y.name for x, y in zip(a, b) if x.name == y.name and exact_differs(x, y)]
                ctx.violation('options-not-the-files:variables-of-the-file', '%s: read by a fresh daemon, the groups %r do not have the options the file gives them '
                              'through its [supervisord] environment variables: %r' % (
                                  where, bad or [g.name for g in a], {y.name: differing(x, y)[:4] for x, y in zip(a, b) if y.name in bad}), inp)
    return ref


ENV_OS_NUM, ENV_OS_STR = 'VERIF_N', 'VERIF_A'          # also in the daemon's own environment (config_l1.ENV_VARS)
ENV_NUM_VALUES = ['1', '2', '3', '5', '10', '30']
ENV_STR_VALUES = ['blue', 'green', 'v1.2', 'a-b', 'alpha']
ENV_NUM_SITES = {'program': ['stopwaitsecs', 'startretries', 'startsecs', 'priority', 'stdout_logfile_backups', 'stderr_logfile_backups'],
                 'eventlistener': ['stopwaitsecs', 'startretries', 'priority', 'buffer_size', 'stderr_logfile_backups'],
                 'fcgi-program': ['stopwaitsecs', 'startsecs', 'priority', 'socket_backlog'],
                 'group': ['priority']}
ENV_STR_SITES = {'program': ['command', 'environment', 'stdout_logfile', 'stderr_logfile'], 'eventlistener': ['command', 'environment', 'stderr_logfile'],
                 'fcgi-program': ['command', 'environment', 'stderr_logfile'], 'group': []}


def set_opt(opts, k, v):
    opts = list(opts)
    for i, (kk, _) in enumerate(opts):
        if kk == k:
            opts[i] = (k, v)
            return opts
    return opts + [(k, v)]


def env_apply(base, edits, variables, used=None):
    """base + the edits whose variable is in `used` (default: in `variables`) + [supervisord] environment= defining `variables`"""
    secs = [(s, list(o)) for s, o in base]
    for si, k, v, var in edits:
        if var in (variables if used is None else used):
            secs[si] = (secs[si][0], set_opt(secs[si][1], k, v))
    for si, (s, o) in enumerate(secs):
        if s == 'supervisord':
            o = [(k, v) for k, v in o if k != 'environment']
            if variables:
                o.append(('environment', ','.join('%s="%s"' % kv for kv in variables.items())))
            secs[si] = (s, o)
    return secs


def envify(rng, base, nsites=6):
    """-> (variables {name: value}, edits [(section index, option, value using %(ENV_name)s, name)]): two to four variables
    (one numeric and one textual also exist in the daemon's environment with another value) used in section-level options
    (numbers, numprocs) and in command / environment / log file names of sections of every kind"""
    variables = {ENV_OS_NUM: rng.choice(ENV_NUM_VALUES), 'VERIF_GRACE': rng.choice(ENV_NUM_VALUES), 'VERIF_TAG': rng.choice(ENV_STR_VALUES)}
    if rng.random() < 0.6:
        variables[ENV_OS_STR] = rng.choice(ENV_STR_VALUES)
    nums = [v for v in variables if v in (ENV_OS_NUM, 'VERIF_GRACE')]
    strs = [v for v in variables if v not in nums]
    cand = []
    for si, (s, opts) in enumerate(base):
        kind = s.split(':')[0]
        for k in ENV_NUM_SITES.get(kind, []):
            cand.append((si, k, 'num'))
        for k in ENV_STR_SITES.get(kind, []):
            cand.append((si, k, 'str'))
    edits, used = [], set()
    rng.shuffle(cand)
    # every variable is used at least once
    for var in nums + strs:
        for c in cand:
            if c[2] == ('num' if var in nums else 'str') and (c[0], c[1]) not in used:
                used.add((c[0], c[1])); edits.append((c, var)); break
    for c in cand:
        if len(edits) >= nsites:
            break
        if (c[0], c[1]) not in used:
            used.add((c[0], c[1])); edits.append((c, rng.choice(nums if c[2] == 'num' else strs)))
    out = []
    for (si, k, _), var in edits:
        ref = '%%(ENV_%s)s' % var
        d = dict(base[si][1])
        if k == 'command':
            v = d.get('command', '/bin/cat') + ' --tag=' + ref
        elif k == 'environment':
            v = 'VTAG="%s",VMODE="x-%s"' % (ref, ref)
        elif k.endswith('_logfile'):
            v = '/tmp/verif_%s_%s.log' % (ref, k[:6])
        else:
            v = ref
        out.append((si, k, v, var))
    # numprocs through a variable of its own (sections whose process names already carry the number)
    for si, (s, opts) in enumerate(base):
        d = dict(opts)
        if s.split(':')[0] in ('program', 'eventlistener') and 'process_num' in d.get('process_name', '') and 'VERIF_NP' not in variables:
            variables['VERIF_NP'] = rng.choice(['1', '2'])
            out.append((si, 'numprocs', '%(ENV_VERIF_NP)s', 'VERIF_NP'))
    return variables, out


def other_value(rng, var, cur):
    pool = ['1', '2'] if var == 'VERIF_NP' else (ENV_NUM_VALUES if cur.isdigit() else ENV_STR_VALUES)
    return rng.choice([x for x in pool if x != cur])


def envvar_population(ctx, st, rng, nbases, nhist):
    """[supervisord] environment= variables used as %(ENV_x)s in the other sections, over small files holding every group
    kind: the unchanged file, a use added, literal value <-> variable, the value of each variable changed, a variable added
    together with its uses / removed together with them (file pairs, both directions); histories against one daemon:
    defined but unused -> used -> value changed -> another variable introduced and used, each followed by repeated
    rereads, update, reread; then a definition removed while still referred to (the file's own variable: CANT_REREAD and nothing
    changes; an override of a variable of the daemon's environment: the environment's value).  (Found in round 6, repaired in
    /repo f9f97a7: the names of one read used to survive into the next.)"""
    for b in range(nbases):
        base = attr_base(rng, ctx.scratch)
        if b % 2:
            base = [x for x in base if not x[0].startswith('fcgi-program:')]
        variables, edits = envify(rng, base, nsites=rng.choice([4, 6, 9]))
        own = {k: v for k, v in variables.items() if k not in (ENV_OS_NUM, ENV_OS_STR)}
        used = env_apply(base, edits, variables)
        pairs = [('env/unchanged', used, used),
                 ('env/use-added', env_apply(base, [], variables), used),
                 ('env/literal-to-variable', literal_twin(used) or used, used)]
        for var in variables:
            v2 = dict(variables); v2[var] = other_value(rng, var, variables[var])
            pairs.append(('env/value-changed:' + ','.join(sorted({k for _, k, _, x in edits if x == var})), used, env_apply(base, edits, v2)))
        for var in own:
            less = {k: v for k, v in variables.items() if k != var}
            pairs.append(('env/variable-added:' + ','.join(sorted({k for _, k, _, x in edits if x == var})), env_apply(base, edits, less), used))
        # a definition disappears from [supervisord] while the other sections still refer to it: a variable of the file's own
        # (the file can no longer be parsed), an override of a variable of the daemon's environment (the environment's value counts)
        for var in variables:
            less = {k: v for k, v in variables.items() if k != var}
            what = 'env/os-override-removed:' if var in (ENV_OS_NUM, ENV_OS_STR) else 'env/variable-removed-still-used:'
            pairs.append((what + ','.join(sorted({k for _, k, _, x in edits if x == var})), used, env_apply(base, edits, less, used=variables)))
        inc = ()
        if b % 3 == 2:
            candi = [i for i, (sn, _) in enumerate(base) if sn != 'supervisord']
            inc = sorted(rng.sample(candi, rng.randrange(1, len(candi))))
        for label, a, c in pairs:
            one_pair(ctx, st, {'sections': a}, label, c, 'e', include=inc)
            if _done(ctx):
                return
            if a is not c:
                one_pair(ctx, st, {'sections': c}, label + '~rev', a, 'e', include=inc)
                if _done(ctx):
                    return
        hbase = [x for x in base if not x[0].startswith('fcgi-program:')]
        for _ in range(nhist):
            hv, he = envify(rng, hbase, nsites=rng.choice([3, 5]))
            late = rng.choice([k for k in hv if k not in (ENV_OS_NUM, ENV_OS_STR)])
            early = {k: v for k, v in hv.items() if k != late}
            var = rng.choice(sorted(early))
            ch = dict(early); ch[var] = other_value(rng, var, early[var])
            full = dict(ch); full[late] = hv[late]
            ctx.count('history-mutation:env/variables')
            run_history(ctx, st, env_apply(hbase, [], early),
                        [('reread',), ('write', env_apply(hbase, he, early)), ('reread',), ('reread',),
                         ('write', env_apply(hbase, he, ch)), ('reread',), ('update', []), ('reread',), ('reread',),
                         ('write', env_apply(hbase, he, full)), ('reread',), ('reread',), ('update', ['all']), ('reread',),
                         ('write', env_apply(hbase, he, ch, used=full)), ('reread',), ('update', []), ('reread',),
                         ('write', env_apply(hbase, he, {k: v for k, v in full.items() if k not in (ENV_OS_NUM, ENV_OS_STR)}, used=full)),
                         ('reread',), ('reread',), ('update', []), ('reread',)], 'h')
            if _done(ctx):
                return


def cap_numprocs(secs, cap=8):
    """C14 explores large numprocs; here a parse happens 4-8 times per case, so the random files keep at most `cap` processes per section"""
    return [(s, [(k, str(min(int(v), cap)) if k == 'numprocs' and v.strip().isdigit() else v) for k, v in o]) for s, o in secs]


def rng_pick(rng, seq, k):
    seq = list(seq)
    return seq if len(seq) <= k else rng.sample(seq, k)


# ---------------------------------------------------------------------------------------------------------
# single-attribute mutations of everything that distinguishes group configurations (all three group kinds):
# list-valued options gain / lose / replace / reorder / repeat an element; scalar options change up and down, are
# dropped (back to the default) or written out with their default value (no difference).  The monitors decide from an
# independent parse whether a mutation is a difference at all.
# ---------------------------------------------------------------------------------------------------------
def list_variants(rng, cur, universe, dup=True):
    out = []
    free = [x for x in universe if x not in cur]
    distinct = list(dict.fromkeys(cur))
    if free:
        x, y = rng.choice(free), rng.choice(free)
        i = rng.randrange(len(cur))
        out.append(('gain', cur + [x]))
        out.append(('gain', [y] + cur))
        out.append(('replace-one', cur[:i] + [x] + cur[i + 1:]))
        out.append(('replace-all', [y]))
    if len(distinct) >= 2:
        for i in range(len(cur)):
            out.append(('loss', cur[:i] + cur[i + 1:]))
        out.append(('loss-all-but-one', [rng.choice(distinct)]))
        out.append(('reorder', cur[::-1]))
        if len(distinct) >= 3:
            out.append(('reorder', cur[1:] + cur[:1]))
    if dup:
        out.append(('repeat', cur + [cur[0]]))
    return out


def attr_mutations(rng, secs):
    """[(label, sections)]: exactly one option of one section differs from `secs`"""
    out = []
    def setopt(si, k, v):
        s = list(secs); s[si] = (secs[si][0], [(a, b) for a, b in secs[si][1] if a != k] + [(k, v)]); return s
    def delopt(si, k):
        s = list(secs); s[si] = (secs[si][0], [(a, b) for a, b in secs[si][1] if a != k]); return s
    grouped = {p.strip() for s, o in secs if s.startswith('group:') for p in dict(o).get('programs', '').split(',')}
    free_programs = [s.split(':', 1)[1] for s, _ in secs if s.startswith('program:') and s.split(':', 1)[1] not in grouped]
    for si, (sname, opts) in enumerate(secs):
        kind = sname.split(':')[0]
        d = dict(opts)
        if kind == 'eventlistener' and d.get('events'):
            cur = [e.strip() for e in d['events'].split(',') if e.strip()]
            up = [e.upper() for e in cur]
            for tag, items in list_variants(rng, up, L.event_names()):
                out.append(('attr/pool-events-' + tag, setopt(si, 'events', ','.join(items))))
            out.append(('attr/pool-events-case', setopt(si, 'events', ', '.join(e.swapcase() if i == 0 else e for i, e in enumerate(cur)))))
            b = int(d.get('buffer_size', '10'))
            out.append(('attr/pool-buffer-up', setopt(si, 'buffer_size', str(b + rng.choice([1, 1, 90])))))
            if b > 1:
                out.append(('attr/pool-buffer-down', setopt(si, 'buffer_size', str(b - 1))))
            if 'buffer_size' in d:
                out.append(('attr/pool-buffer-dropped', delopt(si, 'buffer_size')))
            else:
                out.append(('attr/pool-buffer-explicit-default', setopt(si, 'buffer_size', '10')))
            h = d.get('result_handler', L.HANDLER_SPECS[0])
            out.append(('attr/pool-handler-replaced', setopt(si, 'result_handler', next(x for x in L.HANDLER_SPECS if x != h))))
            if 'result_handler' in d:
                out.append(('attr/pool-handler-dropped', delopt(si, 'result_handler')))
            else:
                out.append(('attr/pool-handler-explicit-default', setopt(si, 'result_handler', L.HANDLER_SPECS[0])))
        if kind == 'fcgi-program' and d.get('socket'):
            sock = d['socket']
            m = re.match(r'tcp://([^:]+):(\d+)$', sock)
            if m:
                port = int(m.group(2))
                out.append(('attr/fcgi-socket-port', setopt(si, 'socket', 'tcp://%s:%d' % (m.group(1), port + 1 if port < 65535 else port - 1))))
                out.append(('attr/fcgi-socket-host-case', setopt(si, 'socket', 'tcp://%s:%d' % (m.group(1).swapcase(), port))))
                out.append(('attr/fcgi-socket-host', setopt(si, 'socket', 'tcp://other.%s:%d' % (m.group(1), port))))
                out.append(('attr/fcgi-socket-kind', setopt(si, 'socket', 'unix:///tmp/verif_k.sock')))
            else:
                out.append(('attr/fcgi-socket-path', setopt(si, 'socket', sock + 'x')))
                if 'socket_mode' not in d and 'socket_owner' not in d:
                    out.append(('attr/fcgi-socket-kind', setopt(si, 'socket', 'tcp://localhost:9123')))
                if 'socket_mode' in d:
                    out.append(('attr/fcgi-mode-changed', setopt(si, 'socket_mode', '0777' if d['socket_mode'].strip() != '0777' else '0750')))
                    out.append(('attr/fcgi-mode-dropped', delopt(si, 'socket_mode')))
                else:
                    out.append(('attr/fcgi-mode-gain', setopt(si, 'socket_mode', rng.choice(['0770', '0600']))))
                    out.append(('attr/fcgi-mode-explicit-default', setopt(si, 'socket_mode', '0700')))
                if 'socket_owner' in d:
                    out.append(('attr/fcgi-owner-changed', setopt(si, 'socket_owner', 'nobody' if d['socket_owner'].strip() != 'nobody' else 'root')))
                    out.append(('attr/fcgi-owner-dropped', delopt(si, 'socket_owner')))
                else:
                    out.append(('attr/fcgi-owner-gain', setopt(si, 'socket_owner', rng.choice(['root', 'nobody']))))
            if 'socket_backlog' in d:
                bl = int(d['socket_backlog'])
                out.append(('attr/fcgi-backlog-changed', setopt(si, 'socket_backlog', str(bl + 1 if bl < 65535 else bl - 1))))
                out.append(('attr/fcgi-backlog-dropped', delopt(si, 'socket_backlog')))
            else:
                out.append(('attr/fcgi-backlog-gain', setopt(si, 'socket_backlog', str(rng.choice([1, 5, 4096])))))
        if kind in ('program', 'eventlistener', 'fcgi-program', 'group'):
            p = d.get('priority')
            base = int(p) if p is not None else 999
            out.append(('attr/%s-priority-changed' % kind, setopt(si, 'priority', str(base + rng.choice([-1, 1, 7])))))
            if p is None:
                out.append(('attr/%s-priority-explicit-default' % kind, setopt(si, 'priority', '999')))
            else:
                out.append(('attr/%s-priority-dropped' % kind, delopt(si, 'priority')))
        if kind == 'group' and d.get('programs'):
            members = [x.strip() for x in d['programs'].split(',') if x.strip()]
            for tag, items in list_variants(rng, members, members + free_programs, dup=False):
                out.append(('attr/group-programs-' + tag, setopt(si, 'programs', ','.join(items))))
    return out


def owner_pairs(secs):
    """socket_owner= is outside the modelled subset, so the small files never carry it; its change (both files have one)
    is produced here as a pair of its own: [(label, old, new)]"""
    out = []
    for si, (sname, opts) in enumerate(secs):
        if sname.startswith('fcgi-program:') and dict(opts).get('socket', '').startswith('unix://') and 'socket_owner' not in dict(opts):
            a = list(secs); a[si] = (sname, opts + [('socket_owner', 'root')])
            b = list(secs); b[si] = (sname, opts + [('socket_owner', 'nobody')])
            out.append(('attr/fcgi-owner-changed', a, b))
    return out


def attr_base(rng, scratch, fcgi=True):
    """a small file with every kind of group: three programs (two of them in a [group:x]), two listener pools, two
    fcgi programs (tcp and unix socket); numprocs <= 2 so that one parse stays cheap"""
    names = rng.sample([n for n in L.NAMES if n.isascii() or rng.random() < 0.2], 8)     # (non-ASCII names: mostly outside the model)
    def sec(nm, kind):
        opts, _ = L.gen_program_opts(rng, nm, scratch, kind=kind, rich=rng.random() < 0.3)
        return [(k, str(min(int(v), 2)) if k == 'numprocs' else v) for k, v in opts]
    pa, pb, pc, g, l1, l2, f1, f2 = names
    secs = [('program:' + n, sec(n, 'program')) for n in (pa, pb, pc)]
    secs.append(('group:' + g, [('programs', pa + ',' + pb)] + ([('priority', str(rng.choice([1, 5, 999, 1000])))] if rng.random() < 0.5 else [])))
    for nm, nev in ((l1, rng.choice([2, 3, 3, 4])), (l2, 1)):
        o = sec(nm, 'eventlistener') + [('events', rng.choice([',', ', ']).join(rng.sample(L.event_names(), nev)))]
        if rng.random() < 0.5:
            o.append(('buffer_size', str(rng.choice([1, 2, 10, 50]))))
        if rng.random() < 0.4:
            o.append(('result_handler', rng.choice(L.HANDLER_SPECS)))
        rng.shuffle(o)
        secs.append(('eventlistener:' + nm, o))
    if fcgi:
        o = sec(f1, 'fcgi') + [('socket', rng.choice(['tcp://localhost:9%03d' % rng.randrange(1000), 'tcp://Host.Example:80']))]
        if rng.random() < 0.5:
            o.append(('socket_backlog', str(rng.choice([1, 128, 65535]))))
        secs.append(('fcgi-program:' + f1, o))
        o = sec(f2, 'fcgi') + [('socket', 'unix:///tmp/verif_%d.sock' % rng.randrange(10))]
        if rng.random() < 0.5:
            o.append(('socket_mode', rng.choice(['0700', '0770', '0777'])))
        if rng.random() < 0.3:
            o.append(('socket_backlog', str(rng.choice([2, 1024]))))
        secs.append(('fcgi-program:' + f2, o))
    rng.shuffle(secs)
    return [('supervisord', [])] + secs


NUMERIC_CONV = set('diouxXeEfFgGc')


def certain_format_error(v):
    """does `v % <dict>` certainly fail at an UNKEYED numeric conversion (`+%d`, `%x`, `%c` ...: a TypeError whatever the
    dict holds), everything in front of it being in the model's subset?  The model rejects the value at the same place."""
    i, n = 0, len(v)
    while i < n:
        if v[i] != '%':
            i += 1; continue
        i += 1
        if i >= n:
            return False
        c = v[i]
        if c == '%':
            i += 1; continue
        if c != '(':
            return c in NUMERIC_CONV
        depth, i = 1, i + 1
        while i < n and depth:
            depth += {'(': 1, ')': -1}.get(v[i], 0)
            i += 1
        while i < n and v[i] in '0123456789':
            i += 1
        if i >= n or v[i] not in 'sd':
            return False
        i += 1
    return False


class _SubsetView:
    """the parser as C14.in_model_subset reads it, a value that certainly fails in expand() replaced by '%' (which does too)"""
    def __init__(self, parser):
        self.p = parser
    def sections(self):
        return self.p.sections()
    def has_option(self, s, o):
        return self.p.has_option(s, o)
    def items(self, s):
        prog = s.split(':')[0] in ('program', 'eventlistener', 'fcgi-program')
        return [(k, '%' if prog and k in MODEL_EXPANDED and certain_format_error(v) else v) for k, v in self.p.items(s)]


MODEL_EXPANDED = set(L.EXPANDED_OPTS) | set(L.OPT_CLASS) | {'user', 'serverurl', 'events', 'buffer_size', 'result_handler', 'socket', 'socket_backlog', 'socket_mode'}


# the [supervisord] options Model/Config.lean readConfig reads (any other one, e.g. user=, is read and expanded by options.py only)
MODEL_SUPERVISORD = {'minfds', 'minprocs', 'umask', 'logfile_maxbytes', 'logfile_backups', 'identifier', 'nodaemon', 'silent', 'nocleanup', 'strip_ansi', 'environment'}


def in_subset(parser):
    if parser.has_section('supervisord') and any(k not in MODEL_SUPERVISORD for k, _ in parser.items('supervisord')):
        return False
    return C14.in_model_subset(_SubsetView(parser))


class G:            # stand-in for a running process group: diff_to_active only reads .config
    def __init__(self, config):
        self.config = config


SOCKET_EXTRA = {'socket.backlog', 'socket.mode', 'socket.owner'}


def group_attrs(g):
    """the group's own options, read off the configuration object (independent of the model and of group_line)"""
    kind = type(g).__name__
    d = {'kind': kind, 'name': g.name, 'priority': g.priority, 'nprocs': len(g.process_configs)}
    if kind == 'EventListenerPoolConfig':
        d['buffer_size'] = g.buffer_size
        d['pool_events'] = tuple(sorted({e.__name__ for e in g.pool_events}))     # a pool is subscribed to a *set* of event types
        d['result_handler'] = L.handler_spec(g.result_handler)
    if kind == 'FastCGIGroupConfig':
        sc = g.socket_config
        d['socket.url'] = sc.url
        d['socket.backlog'] = sc.backlog
        d['socket.mode'] = getattr(sc, 'mode', None)
        d['socket.owner'] = getattr(sc, 'owner', None)
    return d


def proc_attrs(p):
    toks = L.proc_line(p).split(' ')
    return [('name', toks[1])] + [tuple(t.split('=', 1)) for t in toks[2:]]


def differing(old, new):
    """names of the options in which two group configurations differ (a log file set to AUTO matches any file name)"""
    a, b = group_attrs(old), group_attrs(new)
    out = [k for k in sorted(set(a) | set(b)) if a.get(k, '<absent>') != b.get(k, '<absent>')]
    if a['nprocs'] == b['nprocs']:
        for i, (x, y) in enumerate(zip(old.process_configs, new.process_configs)):
            for (k, u), (k2, v) in zip(proc_attrs(x), proc_attrs(y)):
                if u != v and not (k in ('out', 'err') and 'AUTO' in (u, v)):
                    out.append('process[%d].%s' % (i, k))
    return out


def differs(old, new):
    return bool(differing(old, new))


def only_event_order(old, new):
    """options.py compares pool_events as the list it built by iterating a set of the listed names: for the same names
    written in another order (or repeated, or in another case) that list may or may not come out in the same order
    (string hashing).  Such a pair has no differing option; whether reread lists it is not prescribed."""
    return (type(old).__name__ == type(new).__name__ == 'EventListenerPoolConfig' and not differing(old, new)
            and [e.__name__ for e in old.pool_events] != [e.__name__ for e in new.pool_events])


def sock_extra(g):
    if type(g).__name__ != 'FastCGIGroupConfig':
        return ''
    sc = g.socket_config
    f = lambda v: 'None' if v is None else '%d' % v
    return ' backlog=%s mode=%s' % (f(sc.backlog), f(getattr(sc, 'mode', None)))


def cfg_digest(g):
    return L.group_line(g) + sock_extra(g) + ';' + ';'.join(L.proc_line(p) for p in g.process_configs)


def list_digest(gs):
    return '#'.join(cfg_digest(g) for g in gs) or '-'


class Proxy:
    """what supervisorctl talks to: reloadConfig is the real interface, the rest is recorded and applied by precondition"""
    def __init__(self, rpc, active, fails=(), cache=None):
        self.rpc, self.active, self.calls, self.file_names = rpc, list(active), [], None
        self.fails = set(fails)   # groups one of whose processes cannot be stopped
        self.stopped = set()      # every group of the old file is running until it is stopped
        self.cache = cache if cache is not None else {}
    def reloadConfig(self):
        # the proxies of one file pair stand for the same daemon state and the same file: the real interface is asked by
        # the first of them, the others are handed a copy of its answer (the histories go through the real one every time)
        if 'answer' not in self.cache:
            with at_cwd(self.cache.get('cwd')):
                self.cache['answer'] = self.rpc.reloadConfig()
            self.cache['file_names'] = [g.name for g in self.rpc.supervisord.options.process_group_configs]
        self.file_names = list(self.cache['file_names'])
        return copy.deepcopy(self.cache['answer'])
    def getAllProcessInfo(self):
        return [{'group': n, 'name': n} for n in self.active]
    def stopProcessGroup(self, n):
        from supervisor.xmlrpc import Faults
        self.calls.append('stop:' + L.hx(n))
        if n in self.fails:
            return [{'name': n, 'group': n, 'status': Faults.SUCCESS, 'description': 'OK'},
                    {'name': n + '_x', 'group': n, 'status': Faults.FAILED, 'description': 'FAILED'}]
        self.stopped.add(n)
        return [{'name': n, 'group': n, 'status': Faults.SUCCESS, 'description': 'OK'},
                {'name': n + '_y', 'group': n, 'status': Faults.NOT_RUNNING, 'description': 'NOT_RUNNING'}]
    def removeProcessGroup(self, n):
        from supervisor.compat import xmlrpclib
        from supervisor.xmlrpc import Faults
        self.calls.append('remove:' + L.hx(n))
        if n not in self.active:
            raise xmlrpclib.Fault(Faults.BAD_NAME, 'BAD_NAME: ' + n)
        if n not in self.stopped:      # remove_process_group refuses while a process is not stopped
            raise xmlrpclib.Fault(Faults.STILL_RUNNING, 'STILL_RUNNING: ' + n)
        self.active.remove(n)
        return True
    def addProcessGroup(self, n):
        self.calls.append('add:' + L.hx(n))
        if n not in self.active and n in self.file_names: self.active.append(n)
        return True


class Ctl:
    def __init__(self, proxy):
        self.proxy, self.stdout, self.exitstatus = proxy, io.StringIO(), 0
    def get_supervisor(self): return self.proxy
    def output(self, s): self.stdout.write(s + '\n')


def names(l):
    return ','.join(L.hx(n) for n in l) or '-'


def one_pair(ctx, st, cfg, label, newsecs, tag, include=()):
    from supervisor.supervisord import Supervisor
    from supervisor.rpcinterface import SupervisorNamespaceRPCInterface
    from supervisor.xmlrpc import RPCError, Faults
    from supervisor.compat import xmlrpclib
    from supervisor.supervisorctl import DefaultControllerPlugin
    inp = {'label': label, 'old': cfg['sections'], 'new': newsecs}
    if include:
        inp['include'] = list(include)
    launch, rundir = cwd_dirs(ctx.scratch)
    dirs = model_dirs(ctx.scratch)
    if include:      # %(here)s of a section in the included file is the directory of that file: it exists, the model is told so
        dirs = dirs + [os.path.join(ctx.scratch, 'inc_%s' % tag)]
    path = write_version(cfg['sections'], ctx.scratch, tag, include)
    o = L.make_options(L.ENV_VARS)
    base_env = dict(o.environ_expansions)      # the daemon's own environment: what every read of the file starts with
    with at_cwd(launch):
        a = L.parse_with(o, path, reread=True)
    # (a file using its own [supervisord] variables: what a daemon reads at its start is what the literal twin says)
    twin_reference(ctx, cfg['sections'], ctx.scratch, tag, include, launch, a, 'first read', {'label': label + '/first-read', 'old': cfg['sections'], 'new': cfg['sections']})
    if a.status != 'ok':
        ctx.count('old-file-rejected'); return
    old_toks = L.model_tokens(a, dirs)
    old_groups = list(o.process_group_configs)
    if len({g.name for g in old_groups}) != len(old_groups):
        ctx.count('skipped:duplicate-group-names'); return
    sup = Supervisor(o)
    for g in old_groups:
        sup.process_groups[g.name] = G(g)
    rpc = SupervisorNamespaceRPCInterface(sup)
    # the file changes
    write_version(newsecs, ctx.scratch, tag, include)
    with at_cwd(launch):
        fresh = L.parse_with(L.make_options(L.ENV_VARS), path, reread=True)      # independent parse of the new file, where the old one was parsed
    ref = twin_reference(ctx, newsecs, ctx.scratch, tag, include, launch, fresh, 'new file', inp)
    if ref is not None:
        fresh = ref                  # the reference of every monitor below: the file's variables written out
    pre_env2 = base_env
    st_cls = L._classes()

    def reread():
        """-> (result or None, answer text); the daemon has changed its working directory since it started"""
        st_cls['RecParser'].instances.clear()
        o.include_done = False
        st_cls['so'].UnhosedConfigParser = st_cls['RecParser']
        try:
            try:
                r = rpc.reloadConfig()[0]
                return r, 'added=%s changed=%s removed=%s' % tuple(names(x) for x in r)
            except RPCError as e:
                return None, ('CANT_REREAD' if e.code == Faults.CANT_REREAD else 'fault %s' % e.code)
            except Exception as e:
                return None, 'exc ' + type(e).__name__
        finally:
            st_cls['so'].UnhosedConfigParser = st_cls['real_parser']

    before_cfgs = list(o.process_group_configs)
    with at_cwd(rundir):
        res, impl_diff = reread()
    inst = list(st_cls['RecParser'].instances) if o.include_done else []      # (no parser state for the model when the file broke below the option level)
    after_cfgs = list(o.process_group_configs)
    ctx.count('mutation:' + label.split(':')[0].split('~')[0]); ctx.count('direction:reverse' if label.endswith('~rev') else 'direction:forward'); ctx.count('answer:' + impl_diff.split('=')[0].split(' ')[0])
    cwd_memo = {}

    def chdir_suffix():
        """':after-chdir' when the answer is another one in the directory the daemon was started in (asked afterwards,
        when everything else has been judged: a reread changes nothing but the configuration last read)"""
        if 'v' not in cwd_memo:
            with at_cwd(launch):
                r2, d2 = reread()
            cwd_memo['v'] = ':after-chdir' if d2 != impl_diff else ''
            with at_cwd(rundir):
                reread()
        return cwd_memo['v']
    # ---- monitors ---------------------------------------------------------------------------------------
    oldg = {g.name: g for g in old_groups}
    newg = {g.name: g for g in fresh.options.process_group_configs} if fresh.status == 'ok' else {}
    if [g.config for g in sup.process_groups.values()] != old_groups:
        ctx.violation('reread-touched-active-groups', 'the group table changed during reloadConfig', inp)
    if fresh.status != 'ok':
        ctx.count('unparsable-class:' + (label.split(':')[0] if label.startswith('unparsable') else 'other'))
        ctx.count('unparsable-rejected-with:' + fresh.status)
        if impl_diff != 'CANT_REREAD':
            how = impl_diff[4:] if impl_diff.startswith('exc ') else (impl_diff.replace(' ', '-') if res is None else 'accepted')
            ctx.violation('unparsable-file-not-CANT_REREAD:' + how, 'answer %s for a file rejected with %s: %s' % (impl_diff, fresh.status, fresh.message[:160]), inp)
        if after_cfgs != before_cfgs or any(x is not y for x, y in zip(after_cfgs, before_cfgs)):
            ctx.violation('cant-reread-changed-configuration', 'process_group_configs changed although the file could not be read', inp)
        # the same through supervisorctl: reread prints the refusal, update gives up before touching anything
        class FaultProxy(Proxy):
            def reloadConfig(self):
                self.calls.append('reloadConfig')
                try:
                    with at_cwd(rundir):
                        return self.rpc.reloadConfig()
                except RPCError as e:                       # what the XML-RPC layer does with an RPCError
                    raise xmlrpclib.Fault(e.code, e.text)
        # (each of the two commands on every third unparsable file: the classes are those of the direct call above)
        st['nunparsable'] = st.get('nunparsable', 0) + 1
        for cmd in (('reread', 'update') if st['nunparsable'] % 3 == 1 or tag in ('c', 'r') else ()):
            px = FaultProxy(rpc, [g.name for g in old_groups]); ctl = Ctl(px)
            out = 'returned'
            try:
                getattr(DefaultControllerPlugin(ctl), 'do_' + cmd)('')
            except xmlrpclib.Fault as e:
                out = 'fault %s' % ('CANT_REREAD' if e.faultCode == Faults.CANT_REREAD else e.faultCode)
            except Exception as e:
                out = 'exc ' + type(e).__name__
            printed = ctl.stdout.getvalue()
            ctx.count('supervisorctl-%s-unparsable:%s' % (cmd, out.replace(' ', '-')))
            ok = ((cmd == 'reread' and out == 'returned' and 'ERROR: CANT_REREAD' in printed) or (cmd == 'update' and out == 'fault CANT_REREAD')) and ctl.exitstatus != 0
            if not ok:
                ctx.violation('unparsable-file-not-CANT_REREAD:supervisorctl-%s:%s' % (cmd, out[4:] if out.startswith('exc ') else out.replace(' ', '-')),
                              'supervisorctl %s with an unparsable file (%s: %s): %s, exit status %s, printed %r' % (cmd, fresh.status, fresh.message[:100], out, ctl.exitstatus, printed[:200]), inp)
            if px.calls != ['reloadConfig'] or px.active != [g.name for g in old_groups]:
                ctx.violation('cant-reread-changed-something:supervisorctl-' + cmd, 'calls %r' % (px.calls,), inp)
            if list(o.process_group_configs) != before_cfgs or [g.config for g in sup.process_groups.values()] != old_groups:
                ctx.violation('cant-reread-changed-configuration', 'after supervisorctl %s: the configuration last read or the group table changed' % cmd, inp)
    elif res is None:
        ctx.violation('parsable-file-not-reread' + chdir_suffix(), 'answer %s' % impl_diff, inp)
    else:
        newg = {g.name: g for g in fresh.options.process_group_configs}
        oldg = {g.name: g for g in old_groups}
        if len(newg) == len(fresh.options.process_group_configs):
            want_added = [n for n in (g.name for g in fresh.options.process_group_configs) if n not in oldg]
            want_removed = [n for n in oldg if n not in newg]
            diffs = {g.name: differing(oldg[g.name], g) for g in fresh.options.process_group_configs if g.name in oldg}
            want_changed = [n for n in diffs if diffs[n]]
            # same subscriptions written differently: no option differs, but options.py compares hash-ordered lists
            respelt = {n for n in diffs if only_event_order(oldg[n], newg[n])}
            for n in respelt:
                ctx.count('events-respelt:' + ('listed' if n in res[1] else 'not-listed'))
            if sorted(res[0]) != sorted(want_added):
                ctx.violation('added-not-exact' + chdir_suffix(), 'added %r, expected %r' % (res[0], want_added), inp)
            if sorted(res[2]) != sorted(want_removed):
                ctx.violation('removed-not-exact' + chdir_suffix(), 'removed %r, expected %r' % (res[2], want_removed), inp)
            if sorted(set(res[1]) - respelt) != sorted(want_changed) or len(set(res[1])) != len(res[1]):
                missed = sorted(set(want_changed) - set(res[1])); extra = sorted(set(res[1]) - set(want_changed) - respelt)
                kind = 'changed-not-reported'
                if missed and all(type(oldg[n]).__name__ == 'FastCGIGroupConfig' and type(newg[n]).__name__ == 'ProcessGroupConfig' for n in missed) and not extra:
                    kind = 'changed-not-reported:fcgi-program-became-program'
                elif missed and all(set(diffs[n]) <= SOCKET_EXTRA for n in missed) and not extra:
                    kind = 'changed-not-reported:fcgi-socket-backlog-mode-owner'
                elif extra and not missed:
                    kind = 'unchanged-reported-as-changed'
                ctx.violation(kind + chdir_suffix(), 'changed %r, but the groups whose options differ are %r (differing options: %r)' % (
                    res[1], want_changed, {n: diffs[n][:6] for n in missed + extra}), inp)
            if label.split('~')[0] in ('unchanged', 'relative/unchanged', 'env/unchanged') and (res[0] or res[1] or res[2]):
                ctx.violation('unchanged-file-reports-difference' + chdir_suffix(), impl_diff, inp)
            if not (res[0] or res[1] or res[2]) and label.split('~')[0] in ('unchanged', 'relative/unchanged', 'relative/sections-reordered', 'sections-reordered', 'env/unchanged', 'env/literal-to-variable'):
                # nothing reported: it stays that way however often the daemon is asked
                with at_cwd(rundir):
                    r2, d2 = reread()
                if d2 != impl_diff:
                    ctx.violation('repeated-reread-answers-differ', 'first %s, then %s' % (impl_diff, d2), inp)
            if set(res[0]) & set(res[1]) or set(res[2]) & (set(res[0]) | set(res[1])):
                ctx.violation('diff-not-disjoint', impl_diff, inp)
    # ---- supervisorctl update over the same daemon state --------------------------------------------------
    ops, lines = ['diff'], [impl_diff]
    if res is not None:
        allnames = sorted(set(res[0]) | set(res[1]) | set(res[2]) | set(oldg))
        argsets = [[]] + [[n] for n in rng_sample(ctx, allnames, 2)] + ([['all']] if allnames else [])
        cache = {'cwd': rundir}
        if label.startswith('attr/'):
            # (the same mutations also run as histories, where every update rereads through the real interface)
            cache = {'cwd': rundir, 'answer': copy.deepcopy([res]), 'file_names': [g.name for g in o.process_group_configs]}
        for args in argsets:
            px = Proxy(rpc, [g.name for g in old_groups], cache=cache)
            ctl = Ctl(px)
            try:
                DefaultControllerPlugin(ctl).do_update(' '.join(args))
            except Exception as e:
                ctx.violation('update-aborted:' + type(e).__name__ + (':remove-before-stop' if 'STILL_RUNNING' in str(e) else ''),
                              'update %s aborted after %r: %s' % (args, px.calls, str(e)[:120]), inp)
            ops.append(('calls ' + ' '.join(L.hx(x) for x in args)).strip()); lines.append(' '.join(px.calls))
            ops.append(('after ' + ' '.join(L.hx(x) for x in args)).strip()); lines.append(names(px.active))
            valid = [] if (not args or 'all' in args) else args
            for c in px.calls:
                g = bytes.fromhex(c.split(':')[1]).decode() if c.split(':')[1] != '-' else ''
                if valid and g not in valid:
                    ctx.violation('restricted-update-touched-other-group', 'update %s issued %s' % (args, c), inp)
            if not valid:
                if sorted(px.active) != sorted(px.file_names):
                    ctx.violation('update-does-not-converge', 'active %r, file %r' % (sorted(px.active), sorted(px.file_names)), inp)
                touched = {bytes.fromhex(c.split(':')[1]).decode() for c in px.calls if c.split(':')[1] != '-'}
                if touched - (set(res[0]) | set(res[1]) | set(res[2])):
                    ctx.violation('update-touched-unreported-group', 'calls %r for diff %s' % (px.calls, impl_diff), inp)
                # ... with the file's options: a group that update (re)added got them from the configuration just read,
                # every other active group still runs with the options it had -- those must already be the file's
                readded = {bytes.fromhex(c.split(':')[1]).decode() for c in px.calls if c.startswith('add:') and c.split(':')[1] != '-'}
                if fresh.status == 'ok' and len(newg) == len(fresh.options.process_group_configs):
                    for n in px.active:
                        if n in newg and n in oldg and n not in readded:
                            dd = differing(oldg[n], newg[n])
                            if dd:
                                ctx.violation('update-does-not-converge', 'after update %s the group %s still runs with the old file\'s options; it differs from '
                                              'the file in %r (update issued %r)' % (args, n, dd[:6], px.calls), inp)
        # a stop that reports a failure: the group is neither removed nor re-added (and nothing else is affected)
        cand = sorted(set(res[1]) | set(res[2]))
        if cand:
            fl = rng_sample(ctx, cand, 1)
            px = Proxy(rpc, [g.name for g in old_groups], fails=fl, cache=cache)
            ctl = Ctl(px)
            try:
                DefaultControllerPlugin(ctl).do_update('')
            except Exception as e:
                ctx.violation('update-aborted:' + type(e).__name__, 'update with a failing stop of %r aborted after %r: %s' % (fl, px.calls, str(e)[:120]), inp)
            ops.append('callsf %s' % ','.join(L.hx(x) for x in fl)); lines.append(' '.join(px.calls))
            ctx.count('update:with-stop-failure')
            for f in fl:
                if 'remove:' + L.hx(f) in px.calls or ('add:' + L.hx(f) in px.calls and f not in res[0]):
                    ctx.violation('update-removed-group-that-did-not-stop', 'stop of %s failed, calls %r' % (f, px.calls), inp)
                if f not in px.active:
                    ctx.violation('update-removed-group-that-did-not-stop', '%s no longer active' % f, inp)
            if ctl.exitstatus == 0:
                ctx.violation('update-failure-not-reported', 'exit status 0 although the stop of %r failed' % (fl,), inp)
    # ---- correspondence ---------------------------------------------------------------------------------
    ctx.case_done((label, repr(cfg['sections']), repr(newsecs)), label != 'unchanged')
    if not inst or old_toks is None or not in_subset(a.parser) or not in_subset(inst[0]):
        ctx.count('not-modelled'); ctx.count('not-modelled:' + {'a': 'attribute-files', 'p': 'random-files', 'n': 'search'}.get(tag, 'corpus')); return
    if any(label.startswith(x) for x in ('unparsable-no',)) and False:
        return
    if res is not None and fresh.status == 'ok' and any(only_event_order(oldg[n], newg[n]) for n in newg if n in oldg):
        ctx.count('not-modelled:events-hash-order'); return      # the model compares the subscriptions as a set
    fake = L.Outcome(); fake.parser, fake.include_done, fake.pre_env, fake.here = inst[0], True, pre_env2, o.here
    new_toks = L.model_tokens(fake, dirs)
    # (C=: the working directory of each parse -- the model's parse takes it as a parameter)
    st['cases'].append(('case reread C=%s ' % L.hx(launch) + ' '.join(old_toks) + ' -- C=%s ' % L.hx(rundir) + ' '.join(new_toks), ops))
    st['impls'].append(lines)
    st.setdefault('origin', {})[st['cases'][-1][0]] = [(cfg['sections'], newsecs)]
    if len(ctx.samples) < 5 and label != 'unchanged':
        ctx.sample({'mutation': label, 'impl': lines[:3]})


def rng_sample(ctx, seq, k):
    seq = list(seq)
    return seq if len(seq) <= k else ctx.rng.sample(seq, k)


# ---------------------------------------------------------------------------------------------------------
# histories: several file versions with reread / update / manual remove+add between them, against ONE daemon
# (real ServerOptions, real Supervisor.add_process_group / remove_process_group, real rpcinterface, real do_update)
# ---------------------------------------------------------------------------------------------------------
def toggle_logfile(secs, si, rng):
    """the only difference: one log file option switches between AUTO and an explicit name"""
    k = rng.choice(['stdout_logfile', 'stderr_logfile'])
    d = dict(secs[si][1])
    cur = d.get(k, 'AUTO')
    new = '/tmp/h_%s.log' % rng.choice('abc') if cur.strip().lower() == 'auto' else 'AUTO'
    o = [(a, b) for a, b in secs[si][1] if a != k] + [(k, new)]
    if k == 'stderr_logfile':
        o = [(a, b) for a, b in o if a != 'redirect_stderr']
    s2 = list(secs); s2[si] = (secs[si][0], o)
    return s2


def gen_history(rng, scratch):
    cfg = L.gen_config(rng, scratch, small=True)
    secs = cap_numprocs([s for s in cfg['sections'] if not s[0].startswith('fcgi-program:')], 13)
    if rng.random() < 0.3:
        secs = relativise(rng, secs, p=0.5)
    steps = []
    if rng.random() < 0.3:          # the file the daemon started with, untouched
        steps.extend([('reread',)] * rng.choice([1, 2]))
        if rng.random() < 0.5:
            steps.append(('update', []))
    def homog(secs):
        grouped = {p.strip() for s, o in secs if s.startswith('group:') for p in dict(o).get('programs', '').split(',')}
        return [(i, s.split(':', 1)[1]) for i, (s, _) in enumerate(secs)
                if s.startswith(('program:', 'eventlistener:')) and s.split(':', 1)[1] not in grouped]
    cur = secs
    nver = rng.choice([1, 2, 2, 3])
    for v in range(nver):
        hs = homog(cur)
        targeted = hs and rng.random() < 0.5
        if targeted:
            si, g = rng.choice(hs)
            how = rng.choice(['removed-by-hand', 'skipped-by-restricted-update', 'seen-by-reread-only'])
            if how == 'removed-by-hand':
                steps.append(('remove', g))
                cur = toggle_logfile(cur, si, rng)
            elif how == 'skipped-by-restricted-update':
                # a new group appears, update names only another group, then its log file is toggled
                nm = 'late_%d' % v
                cur = cur + [('program:' + nm, [('command', '/bin/late'), ('stdout_logfile', rng.choice(['AUTO', '/tmp/late.log']))])]
                steps.append(('write', cur)); steps.append(('update', [g]))
                cur = toggle_logfile(cur, len(cur) - 1, rng)
                g = nm
            else:
                nm = 'seen_%d' % v
                cur = cur + [('program:' + nm, [('command', '/bin/seen'), ('stderr_logfile', rng.choice(['AUTO', '/tmp/seen.err']))])]
                steps.append(('write', cur)); steps.append(('reread',))
                cur = toggle_logfile(cur, len(cur) - 1, rng)
                g = nm
            steps.append(('write', cur)); steps.append(('reread',))
            steps.append(rng.choice([('add', g), ('update', []), ('update', [g]), ('update', ['all'])]))
        else:
            muts = [m for m in mutations(rng, {'sections': cur}, everything=False) if not m[0].startswith('kind:')]
            label, nxt = rng.choice(muts)
            if any(s[0].startswith('fcgi-program:') for s in nxt):
                nxt = cur
            hs2 = homog(cur)
            if hs2 and rng.random() < 0.3:
                steps.append(('remove', rng.choice(hs2)[1]))
            steps.append(('write', nxt))
            r = rng.random()
            if r < 0.35:
                steps.append(('reread',)); steps.append(('update', []))
            elif r < 0.55:
                steps.append(('update', []))
            elif r < 0.75:
                names_ = [n for _, n in homog(nxt)]
                steps.append(('reread',)); steps.append(('update', rng.sample(names_, min(len(names_), 1))))
            else:
                steps.append(('reread',)); steps.append(('reread',))
                if hs2:
                    steps.append(('add', rng.choice(hs2)[1]))
            if not label.startswith('unparsable'):
                cur = nxt
            else:
                steps.append(('write', cur))
    steps.append(('reread',)); steps.append(('update', []))
    return secs, steps


def exact_differs(a, b):
    return cfg_digest(a) != cfg_digest(b) or group_attrs(a) != group_attrs(b)


def run_history(ctx, st, secs0, steps, tag='h'):
    from supervisor.supervisord import Supervisor
    from supervisor.rpcinterface import SupervisorNamespaceRPCInterface
    from supervisor.xmlrpc import RPCError, Faults
    from supervisor.compat import xmlrpclib
    from supervisor.supervisorctl import DefaultControllerPlugin
    from supervisor import events
    inp = {'history': True, 'start': secs0, 'steps': [list(x) for x in steps]}
    dirs = model_dirs(ctx.scratch)
    launch, rundir = cwd_dirs(ctx.scratch)
    events.clear()
    path = write_version(secs0, ctx.scratch, tag)
    o = L.make_options(L.ENV_VARS)
    base_env = dict(o.environ_expansions)      # the daemon's own environment: what every read of the file starts with
    o.configfile = path
    with at_cwd(launch):             # the daemon starts here ...
        (kind, r0), toks0, p0 = L.capture_tokens(o, lambda: o.process_config(do_usage=False), dirs, base_env)
    if kind != 'ok':
        got0 = L.Outcome(); got0.status, got0.message = 'err', str(r0)
        twin_reference(ctx, secs0, ctx.scratch, tag, (), launch, got0, 'first read', inp)
    if kind != 'ok' or toks0 is None:
        ctx.count('history:start-rejected'); return
    if len({g.name for g in o.process_group_configs}) != len(o.process_group_configs):
        ctx.count('history:duplicate-names'); return
    sup = Supervisor(o)
    for g in o.process_group_configs:
        sup.add_process_group(g)
    rpc = SupervisorNamespaceRPCInterface(sup)

    def rpc_reload():                # ... and has changed to [supervisord] directory= by the time anybody asks it to reread
        with at_cwd(rundir):
            return rpc.reloadConfig()
    modelled = in_subset(p0)
    ops, lines = [], []
    synced = True       # options.process_group_configs was read from the file now on disk
    fault_names = {Faults.BAD_NAME: 'BAD_NAME', Faults.ALREADY_ADDED: 'ALREADY_ADDED', Faults.STILL_RUNNING: 'STILL_RUNNING',
                   Faults.CANT_REREAD: 'CANT_REREAD'}

    def state_line(ans):
        return '%s | file=%s | active=%s' % (ans, list_digest(o.process_group_configs),
                                             list_digest([g.config for g in sup.process_groups.values()]))

    fresh_cache = {}
    current = {'secs': secs0, 'n': 0}

    def fresh():
        """independent parse of the file now on disk (one per written version)"""
        if 'f' not in fresh_cache:
            with at_cwd(launch):
                f = L.parse_with(L.make_options(L.ENV_VARS), path, reread=True)
            # (a file using its own [supervisord] variables: the reference is the file with them written out)
            f = twin_reference(ctx, current['secs'], ctx.scratch, tag, (), launch, f, 'file version %d' % current['n'], inp) or f
            fresh_cache['f'] = f if f.status == 'ok' else None
            fresh_cache['status'] = f.status
        return fresh_cache['f']

    def table():
        return ([id(g) for g in o.process_group_configs], [(n, id(g), id(g.config)) for n, g in sup.process_groups.items()])

    def check_unparsable(where, ans, before):
        """the file on disk cannot be parsed: answered with CANT_REREAD, every active group and option left as it was"""
        if fresh() is not None:
            return
        ctx.count('history:unparsable-' + where)
        if ans != 'CANT_REREAD':
            ctx.violation('unparsable-file-not-CANT_REREAD:' + (ans[4:] if ans.startswith('exc ') else ans.replace(' ', '-').split('=')[0]),
                          '%s answered %s for a file rejected with %s' % (where, ans, fresh_cache.get('status')), inp)
        if table() != before:
            ctx.violation('cant-reread-changed-configuration', '%s: the configuration last read or the group table changed although the file could not be read' % where, inp)

    def check_file_list(where):
        f = fresh()
        if f is None:
            return
        want = f.options.process_group_configs
        got = o.process_group_configs
        if [g.name for g in got] != [g.name for g in want] or any(exact_differs(x, y) for x, y in zip(got, want)):
            bad = [y.name for x, y in zip(got, want) if x.name == y.name and exact_differs(x, y)]
            with at_cwd(rundir):
                f2 = L.parse_with(L.make_options(L.ENV_VARS), path, reread=True)
            if f2.status == 'ok' and [g.name for g in got] == [g.name for g in f2.options.process_group_configs] and \
                    not any(exact_differs(x, y) for x, y in zip(got, f2.options.process_group_configs)):
                ctx.violation('parsed-options-depend-on-working-directory',
                              '%s: the groups %r read in the directory the daemon changed to differ from the same file read where it was started: %s / %s' % (
                                  where, bad, ' '.join(cfg_digest(x)[:200] for x in got if x.name in bad), ' '.join(cfg_digest(y)[:200] for y in want if y.name in bad)), inp)
                return
            ctx.violation('config-list-stale-after-reread',
                          '%s: options.process_group_configs is not the file on disk (groups with other options: %r; names %r vs file %r)' % (
                              where, bad, [g.name for g in got], [g.name for g in want]), inp)

    def hash_order_listed(answer):
        """reread listed a pool whose subscriptions are merely written differently (see only_event_order)"""
        byname = {g.name: g for g in o.process_group_configs}
        return any(n in byname and n in sup.process_groups and only_event_order(sup.process_groups[n].config, byname[n]) for n in answer[0][1])

    def check_subscriptions(where, want=None):
        """what the event system will really deliver: every subscribed pool is an active group, and (after a converged
        update, `want` = the file's groups) each active pool is subscribed to exactly the file's event types"""
        from supervisor.process import EventListenerPool
        subs = {}
        for etype, cb in list(events.callbacks):
            owner = getattr(cb, '__self__', None)
            if isinstance(owner, EventListenerPool) and getattr(cb, '__func__', None) is not EventListenerPool.handle_rejected:
                subs.setdefault(id(owner), (owner, set()))[1].add(etype.__name__)
        active_ids = {id(g): n for n, g in sup.process_groups.items()}
        for oid, (owner, types) in subs.items():
            if oid not in active_ids:
                ctx.violation('removed-pool-still-subscribed', '%s: a pool %r that is not an active group is still subscribed to %r' % (
                    where, owner.config.name, sorted(types)), inp)
        if want is not None:
            for n, g in sup.process_groups.items():
                if isinstance(g, EventListenerPool) and n in want and type(want[n]).__name__ == 'EventListenerPoolConfig':
                    file_types = {e.__name__ for e in want[n].pool_events}
                    got = subs.get(id(g), (g, set()))[1]
                    if got != file_types:
                        ctx.violation('pool-subscriptions-not-the-files', '%s: the active pool %s is subscribed to %r, the file says %r' % (
                            where, n, sorted(got), sorted(file_types)), inp)

    class HProxy:
        def __init__(self):
            self.calls, self.added_now, self.toks, self.parser, self.hash_order = [], set(), None, None, False
        def reloadConfig(self):
            (k, r), self.toks, self.parser = L.capture_tokens(o, rpc_reload, dirs, base_env)
            if k == 'ok' and hash_order_listed(r):
                self.hash_order = True
            if k == 'exc':
                if isinstance(r, RPCError):
                    raise xmlrpclib.Fault(r.code, r.text)
                raise r
            return r
        def getAllProcessInfo(self):
            return [{'group': n, 'name': n} for n in sup.process_groups]
        def stopProcessGroup(self, n):
            self.calls.append('stop:' + n); return []
        def _rpc(self, fn, n):
            try:
                return fn(n)
            except RPCError as e:
                raise xmlrpclib.Fault(e.code, e.text)
        def removeProcessGroup(self, n):
            self.calls.append('remove:' + n); return self._rpc(rpc.removeProcessGroup, n)
        def addProcessGroup(self, n):
            self.calls.append('add:' + n); self.added_now.add(n); return self._rpc(rpc.addProcessGroup, n)

    # the active groups are those of the file with the file's options and the file has not changed since: at the start,
    # and after a successful unrestricted update
    converged = True
    after_update = False
    for step in steps:
        if step[0] == 'write':
            write_version(step[1], ctx.scratch, tag)
            fresh_cache.clear()
            current['secs'] = step[1]; current['n'] += 1
            synced = False
            converged = False
            continue
        ctx.count('history-op:' + step[0])
        was_converged, converged = converged, False
        before = table()
        if step[0] == 'reread':
            (k, r), toks, prs = L.capture_tokens(o, rpc_reload, dirs, base_env)
            if k == 'ok':
                ans = 'added=%s changed=%s removed=%s' % tuple(names(x) for x in r[0])
                synced = True
                check_file_list('after reread')
                if hash_order_listed(r):
                    ctx.count('history:events-hash-order'); modelled = False
                elif was_converged and (r[0][0] or r[0][1] or r[0][2]):
                    # is it the working directory?  (asked where the daemon was started; a reread changes nothing but the list last read)
                    with at_cwd(launch):
                        try:
                            r2 = rpc.reloadConfig()
                        except Exception:
                            r2 = None
                    rpc_reload()
                    sfx = ':after-chdir' if r2 is not None and not (r2[0][0] or r2[0][1] or r2[0][2]) else ''
                    if after_update:
                        ctx.violation('reread-after-update-reports-difference' + sfx, 'update converged and the file did not change, yet reread answers %s' % ans, inp)
                    else:
                        ctx.violation('unchanged-file-reports-difference' + sfx, 'the file is the one the daemon started with, yet reread answers %s' % ans, inp)
                converged = was_converged
            elif isinstance(r, RPCError):
                ans = fault_names.get(r.code, 'fault %s' % r.code)
            else:
                ans = 'exc ' + type(r).__name__
                if fresh() is not None:
                    ctx.violation('reread-raised:' + type(r).__name__, str(r)[:160], inp)
            check_unparsable('reread', ans, before)
            if toks is None or not in_subset(prs):
                modelled = False
            else:
                ops.append('reread T C=%s ' % L.hx(rundir) + ' '.join(toks))
        elif step[0] == 'update':
            px = HProxy()
            ctl = Ctl(px)
            try:
                DefaultControllerPlugin(ctl).do_update(' '.join(step[1]))
                ans = 'ok'
                synced = True
            except xmlrpclib.Fault as e:
                ans = fault_names.get(e.faultCode, 'fault %s' % e.faultCode)
                if e.faultCode != Faults.CANT_REREAD:
                    ctx.violation('update-aborted:Fault', 'update %r: %s after %r' % (step[1], e, px.calls), inp)
            except Exception as e:
                ans = 'exc ' + type(e).__name__
                if fresh() is not None:
                    ctx.violation('update-aborted:' + type(e).__name__, 'update %r: %s after %r' % (step[1], str(e)[:120], px.calls), inp)
            check_unparsable('update', ans, before)
            if ans == 'ok':
                check_file_list('after update')
                f = fresh()
                if f is not None:
                    want = {g.name: g for g in f.options.process_group_configs}
                    active = {n: g.config for n, g in sup.process_groups.items()}
                    unrestricted = not step[1] or 'all' in step[1]
                    if unrestricted and sorted(active) != sorted(want):
                        ctx.violation('update-does-not-converge', 'active groups %r, file %r' % (sorted(active), sorted(want)), inp)
                    for n in sorted(set(active) & set(want)):
                        if n in px.added_now:
                            if exact_differs(active[n], want[n]):      # a group update just (re)added has the file's options, exactly
                                ctx.violation('update-does-not-converge', 'update %r activated %s with options other than the file\'s: %s / file %s' % (
                                    step[1], n, cfg_digest(active[n])[:300], cfg_digest(want[n])[:300]), inp)
                        elif unrestricted and differs(active[n], want[n]):   # untouched groups: equal up to the AUTO wildcard
                            ctx.violation('update-does-not-converge', 'after update %s still differs from the file in %r' % (n, differing(active[n], want[n])[:6]), inp)
                    if unrestricted:
                        check_subscriptions('after update %r' % (step[1],), want)
                        converged = after_update = True
            if px.hash_order:
                ctx.count('history:events-hash-order'); modelled = False
            if px.toks is None or not in_subset(px.parser):
                modelled = False
            else:
                ops.append('update %s T C=%s %s' % (','.join(L.hx(x) for x in step[1]) or '-', L.hx(rundir), ' '.join(px.toks)))
        elif step[0] in ('remove', 'add'):
            g = step[1]
            try:
                (rpc.removeProcessGroup if step[0] == 'remove' else rpc.addProcessGroup)(g)
                ans = 'ok'
            except RPCError as e:
                ans = fault_names.get(e.code, 'fault %s' % e.code)
            if step[0] == 'add' and ans == 'ok' and synced:
                f = fresh()
                if f is not None:
                    want = {x.name: x for x in f.options.process_group_configs}
                    if g in want and exact_differs(sup.process_groups[g].config, want[g]):
                        ctx.violation('added-group-has-stale-options', 'add %s after a reread of the current file: %s / file %s' % (
                            g, cfg_digest(sup.process_groups[g].config)[:300], cfg_digest(want[g])[:300]), inp)
            ops.append('%s %s' % (step[0], L.hx(g)))
        lines.append(state_line(ans))
        check_subscriptions('after %s' % step[0])
        ctx.count('history-answer:' + ans.split('=')[0].split(' ')[0])
    events.clear()
    ctx.case_done(('history', repr(secs0), repr(steps)), True)
    if modelled and len(ops) == len(lines):
        st['hcases'].append(('case history C=%s ' % L.hx(launch) + ' '.join(toks0), ops))
        st['himpls'].append(lines)
        files = [secs0] + [x[1] for x in steps if x[0] == 'write']
        st.setdefault('origin', {}).setdefault(st['hcases'][-1][0], []).extend(zip(files, files[1:]))
        if len(ctx.samples) < 6:
            ctx.sample({'history': [x[0] if x[0] == 'write' else list(x) for x in steps], 'impl_answers': [l.split(' | ')[0] for l in lines]})
    else:
        ctx.count('history:not-modelled')


HISTORY_CORPUS = [
    # an ACTIVE group's AUTO log file has its generated name: switching the file to an explicit name is a change,
    # switching an explicit name to AUTO is not (AUTO matches any name)
    ([('supervisord', []), ('program:a', [('command', '/bin/a')]), ('program:b', [('command', '/bin/b'), ('stdout_logfile', '/tmp/b.log')])],
     [('write', [('supervisord', []), ('program:a', [('command', '/bin/a'), ('stdout_logfile', '/tmp/a.log')]), ('program:b', [('command', '/bin/b'), ('stdout_logfile', 'AUTO')])]),
      ('reread',), ('update', []), ('reread',)]),
    # the stale-list scenario: group removed by hand, its log file switches AUTO -> explicit, reread, add
    ([('supervisord', []), ('program:a', [('command', '/bin/a')]), ('program:b', [('command', '/bin/b')])],
     [('remove', 'a'), ('write', [('supervisord', []), ('program:a', [('command', '/bin/a'), ('stdout_logfile', '/tmp/h_a.log')]), ('program:b', [('command', '/bin/b')])]),
      ('reread',), ('add', 'a'), ('reread',), ('update', [])]),
    ([('supervisord', []), ('program:a', [('command', '/bin/a'), ('stderr_logfile', '/tmp/h_a.err')])],
     [('write', [('supervisord', []), ('program:a', [('command', '/bin/a'), ('stderr_logfile', '/tmp/h_a.err')]), ('program:n', [('command', '/bin/n'), ('stdout_logfile', '/tmp/n.log')])]),
      ('reread',), ('write', [('supervisord', []), ('program:a', [('command', '/bin/a'), ('stderr_logfile', '/tmp/h_a.err')]), ('program:n', [('command', '/bin/n'), ('stdout_logfile', 'AUTO')])]),
      ('reread',), ('update', [])]),
]


_SUP = ('supervisord', [])


def _fcgi(sock, *extra):
    return [_SUP, ('fcgi-program:f', [('command', '/bin/cat'), ('socket', sock)] + list(extra))]


def _pool(events, *extra):
    return [_SUP, ('program:web', [('command', '/bin/cat'), ('autostart', 'false')]),
            ('eventlistener:listener', [('command', '/bin/cat'), ('autostart', 'false'), ('buffer_size', '20'), ('events', events)] + list(extra))]


CORPUS = [
    ('kind:fcgi->program', [('supervisord', []), ('fcgi-program:a', [('command', '/bin/a'), ('socket', 'tcp://localhost:9000')])],
     [('supervisord', []), ('program:a', [('command', '/bin/a')])]),
    ('option:stdout_logfile', [('supervisord', []), ('program:a', [('command', '/bin/a'), ('stdout_logfile', 'AUTO')])],
     [('supervisord', []), ('program:a', [('command', '/bin/a'), ('stdout_logfile', '/tmp/x.log')])]),
    # F44 (fixed a91c18a): the socket options beside the url are part of an fcgi group's configuration
    ('attr/fcgi-backlog-changed', _fcgi('tcp://localhost:9000', ('socket_backlog', '10')), _fcgi('tcp://localhost:9000', ('socket_backlog', '999'))),
    ('attr/fcgi-mode-changed', _fcgi('unix:///tmp/f.sock', ('socket_mode', '0700')), _fcgi('unix:///tmp/f.sock', ('socket_mode', '0777'))),
    ('attr/fcgi-owner-changed', _fcgi('unix:///tmp/f.sock', ('socket_owner', 'root')), _fcgi('unix:///tmp/f.sock', ('socket_owner', 'nobody'))),
    ('attr/fcgi-backlog-gain', _fcgi('unix:///tmp/f.sock'), _fcgi('unix:///tmp/f.sock', ('socket_backlog', '5'))),
    # subscriptions of a listener pool: replaced, lost (one, two), gained, reordered (seeded C15-4: one-sided containment)
    ('attr/pool-events-replace-one', _pool('PROCESS_STATE_RUNNING,PROCESS_STATE_EXITED'), _pool('PROCESS_STATE_RUNNING,PROCESS_STATE_FATAL')),
    ('attr/pool-events-loss', _pool('PROCESS_STATE_RUNNING,PROCESS_STATE_EXITED'), _pool('PROCESS_STATE_RUNNING')),
    ('attr/pool-events-loss', _pool('TICK_5,TICK_60,PROCESS_LOG'), _pool('TICK_60')),
    ('attr/pool-events-gain', _pool('PROCESS_STATE_RUNNING'), _pool('PROCESS_STATE_RUNNING,PROCESS_STATE_EXITED')),
    ('attr/pool-events-reorder', _pool('TICK_5,TICK_60,PROCESS_LOG'), _pool('PROCESS_LOG,TICK_60,TICK_5')),
    ('attr/pool-buffer-down', _pool('TICK_5'), _pool('TICK_5', ('buffer_size', '19'))),
    ('attr/pool-handler-replaced', _pool('TICK_5'), _pool('TICK_5', ('result_handler', L.HANDLER_SPECS[1]))),
]

_UPD = [('reread',), ('update', []), ('reread',)]
HISTORY_CORPUS += [
    (_pool('PROCESS_STATE_RUNNING,PROCESS_STATE_EXITED'), [('write', _pool('PROCESS_STATE_RUNNING'))] + _UPD),
    (_pool('TICK_5,TICK_60,PROCESS_LOG'), [('write', _pool('TICK_60'))] + _UPD),
    (_pool('PROCESS_STATE_RUNNING'), [('write', _pool('PROCESS_STATE_RUNNING,PROCESS_STATE_EXITED'))] + _UPD),
    (_pool('TICK_5,TICK_60'), [('write', _pool('TICK_60,TICK_5'))] + _UPD),
    (_pool('TICK_5'), [('write', _pool('TICK_5', ('buffer_size', '3')))] + _UPD + [('write', _pool('TICK_5')), ('update', ['listener']), ('reread',)]),
]


def _done(ctx):
    """while searching for a failing input: stop at the first one"""
    return ctx.searching and bool(ctx.violations)


def attr_population(ctx, st, rng, nbases, per_base_histories):
    """every single-attribute mutation of every group kind, in both directions, as file pairs; a sample of them (no
    fcgi sections: activating one binds its socket) as write / reread / update / reread histories against one daemon"""
    for _ in range(nbases):
        base = attr_base(rng, ctx.scratch)
        muts = attr_mutations(rng, base)
        for label, new in muts:
            one_pair(ctx, st, {'sections': base}, label, new, 'a')
            one_pair(ctx, st, {'sections': new}, label + '~rev', base, 'a')
            if _done(ctx):
                return
        for label, a, b in owner_pairs(base):
            one_pair(ctx, st, {'sections': a}, label, b, 'a')
            one_pair(ctx, st, {'sections': b}, label + '~rev', a, 'a')
        hbase = [x for x in base if not x[0].startswith('fcgi-program:')]
        hm = attr_mutations(rng, hbase)
        for label, new in rng_pick(rng, hm, per_base_histories):
            a, b = (hbase, new) if rng.random() < 0.5 else (new, hbase)
            ctx.count('history-mutation:' + label)
            run_history(ctx, st, a, [('write', b)] + _UPD, 'h')
            if _done(ctx):
                return


def _stamp(cmd, *extra):
    return [_SUP, ('program:stamp', [('command', cmd), ('autostart', 'false')] + list(extra)), ('program:web', [('command', '/bin/cat')])]


def _rel(web_log='web.log', lst_err='logs/listener.err'):
    return [_SUP, ('program:web', [('command', 'bin/web --fg'), ('stdout_logfile', web_log), ('stderr_logfile', 'web.err'), ('directory', 'rel')]),
            ('eventlistener:listener', [('command', './listener'), ('events', 'TICK_5'), ('stderr_logfile', lst_err)]),
            ('program:abs', [('command', '/bin/abs'), ('stdout_logfile', '/tmp/abs.log'), ('stderr_logfile', 'AUTO')])]


CORPUS += [
    # seeded C15-7: a %-expression whose failure is a TypeError (the unescaped strftime percent, a numeric conversion of a
    # string expansion) is a file that cannot be parsed like any other
    ('unparsable/format-typeerror-strftime', _stamp('/bin/date +%%d'), _stamp('/bin/date +%d')),
    ('unparsable/format-typeerror-keyed', _stamp('/bin/date'), _stamp('/bin/date', ('process_name', '%(program_name)d'))),
    ('unparsable/format-typeerror-unkeyed', _stamp('/bin/date'), _stamp('/bin/date', ('environment', 'STAMP="%c"'))),
    ('unparsable/format-valueerror', _stamp('/bin/date'), _stamp('/bin/date +%Y')),
    ('unparsable/format-typeerror-unkeyed', _stamp('/bin/date'), [('supervisord', [('identifier', 'sv%d')])] + _stamp('/bin/date')[1:]),
    ('unparsable/format-typeerror-unkeyed', _pool('TICK_5'), _pool('TICK_5%x')),
    # seeded C15-8: relative log file names; the daemon rereads in another directory than the one it started in
    ('relative/unchanged', _rel(), _rel()),
    ('relative/path-other-relative:stdout_logfile', _rel(), _rel(web_log='logs/web.log')),
    ('relative/path-absolute:stderr_logfile', _rel(), _rel(lst_err='/tmp/listener.err')),
]
HISTORY_CORPUS += [
    (_stamp('/bin/date +%%d'), [('reread',), ('write', _stamp('/bin/date +%d')), ('reread',), ('update', []), ('reread',), ('write', _stamp('/bin/date +%%e')), ('reread',), ('update', [])]),
    (_rel(), [('reread',), ('reread',), ('update', []), ('reread',), ('write', _rel(web_log='logs/web.log')), ('reread',), ('update', []), ('reread',)]),
]


def _grace(env, stopwaitsecs='%(ENV_GRACE)s', startretries='3'):
    return [('supervisord', [('environment', env)] if env else []),
            ('program:worker', [('command', '/bin/cat'), ('autostart', 'false'), ('stopwaitsecs', stopwaitsecs), ('startretries', startretries)]),
            ('program:other', [('command', '/bin/cat'), ('autostart', 'false')])]


# seeded C15-9: the parser kept a snapshot of the %(ENV_x)s names taken before `[supervisord] environment=` was merged in, so
# section-level options saw the variables of the previous read of the file
ENV_CORPUS = [
    ('env/unchanged', _grace('GRACE="10"'), _grace('GRACE="10"')),
    ('env/use-added', _grace('GRACE="10"', '10'), _grace('GRACE="10"')),
    ('env/value-changed:stopwaitsecs', _grace('GRACE="10"'), _grace('GRACE="30"')),
    ('env/variable-added:startretries', _grace('GRACE="30"'), _grace('GRACE="30",RETRIES="7"', startretries='%(ENV_RETRIES)s')),
    ('env/value-changed:stopwaitsecs', _grace('VERIF_N="10"', '%(ENV_VERIF_N)s'), _grace('VERIF_N="30"', '%(ENV_VERIF_N)s')),
    ('env/unchanged', _grace('VERIF_N="10"', '%(ENV_VERIF_N)s'), _grace('VERIF_N="10"', '%(ENV_VERIF_N)s')),
]
# found in round 6 (repaired f9f97a7): read_config never forgot the ENV_ names of the previous read
ENV_CORPUS += [
    ('env/variable-removed-still-used:stopwaitsecs', _grace('GRACE="10"'), _grace('')),
    ('env/os-override-removed:stopwaitsecs', _grace('VERIF_N="10"', '%(ENV_VERIF_N)s'), _grace('', '%(ENV_VERIF_N)s')),
]
CORPUS += ENV_CORPUS
HISTORY_CORPUS += [
    (_grace('GRACE="10",VERIF_N="3"', startretries='%(ENV_VERIF_N)s'),
     [('reread',), ('write', _grace('VERIF_N="3"', startretries='%(ENV_VERIF_N)s')), ('reread',), ('update', []), ('reread',),
      ('write', _grace('GRACE="10"', startretries='%(ENV_VERIF_N)s')), ('reread',), ('reread',), ('update', []), ('reread',)]),
]
HISTORY_CORPUS += [
    (_grace('GRACE="10"', '10'), [('reread',), ('write', _grace('GRACE="10"')), ('reread',), ('write', _grace('GRACE="30"')), ('update', []), ('reread',), ('reread',),
                                  ('write', _grace('GRACE="30",RETRIES="7"', startretries='%(ENV_RETRIES)s')), ('reread',), ('reread',), ('update', []), ('reread',)]),
    (_grace('VERIF_N="10"', '%(ENV_VERIF_N)s'), [('reread',), ('reread',), ('write', _grace('VERIF_N="30"', '%(ENV_VERIF_N)s'))] + _UPD + [('reread',)]),
]


def unparsable_population(ctx, st, rng, nbases, nfull, per_base_histories):
    """every class of file that cannot be parsed, over small files holding every group kind: as file pairs (answer of
    reloadConfig, of supervisorctl reread and update; nothing changed) and a sample as histories (unparsable version,
    reread, update, then a parsable version again)"""
    for b in range(nbases):
        base = attr_base(rng, ctx.scratch)
        if b % 2:
            base = relativise(rng, base, p=0.4)
        for label, bad in unparsable_versions(rng, base, everything=(b < nfull)):
            one_pair(ctx, st, {'sections': base}, label, bad, 'u')
            if _done(ctx):
                return
        hbase = [x for x in base if not x[0].startswith('fcgi-program:')]
        vers = unparsable_versions(rng, hbase, False)
        good = attr_mutations(rng, hbase)
        for label, bad in rng_pick(rng, vers, per_base_histories):
            ctx.count('history-mutation:' + label.split(':')[0])
            run_history(ctx, st, hbase, [('write', bad), ('reread',), ('update', []), ('reread',), ('write', rng.choice(good)[1]), ('reread',), ('update', [])], 'h')
            if _done(ctx):
                return


def relpath_population(ctx, st, rng, nbases, per_base):
    """relative paths in every path-valued option x a reread in another working directory than the first parse: the
    unchanged file (also spread over an included file), single changes of a path or of any group attribute in both
    directions, and histories reread / reread / update / reread / change / reread / update / reread"""
    launch, rundir = cwd_dirs(ctx.scratch)
    for b in range(nbases):
        base = relativise(rng, attr_base(rng, ctx.scratch), sup=(b % 3 == 1), rundir=rundir)
        inc = ()
        if b % 3 == 2:
            cand = [i for i, (sn, _) in enumerate(base) if sn != 'supervisord']
            inc = sorted(rng.sample(cand, rng.randrange(1, len(cand))))
        one_pair(ctx, st, {'sections': base}, 'relative/unchanged', base, 'a', include=inc)
        sh = list(base); rng.shuffle(sh)
        one_pair(ctx, st, {'sections': base}, 'relative/sections-reordered', sh, 'a')
        muts = relative_mutations(rng, base)
        for label, new in rng_pick(rng, muts, per_base) + rng_pick(rng, attr_mutations(rng, base), per_base):
            one_pair(ctx, st, {'sections': base}, 'relative/' + label, new, 'a')
            one_pair(ctx, st, {'sections': new}, 'relative/' + label + '~rev', base, 'a')
            if _done(ctx):
                return
        hbase = [x for x in base if not x[0].startswith('fcgi-program:')]
        hm = relative_mutations(rng, hbase) + attr_mutations(rng, hbase)
        for label, new in rng_pick(rng, hm, max(2, per_base // 2)):
            ctx.count('history-mutation:relative/' + label.split(':')[0])
            run_history(ctx, st, hbase, [('reread',), ('reread',), ('update', []), ('reread',), ('write', new)] + _UPD + [('update', ['all']), ('reread',)], 'h')
            if _done(ctx):
                return


class Background:
    """the model side of ctx.correspond, run over chunks of the cases in worker threads (the driver is a subprocess, so
    the chunks run in parallel with each other and with the implementation side); wait() then compares chunk by chunk
    in submission order through ctx.correspond itself"""
    def __init__(self, ctx):
        import threading
        self.ctx, self.jobs, self.T, self.real_drive = ctx, [], threading, ctx.drive

    def submit(self, name, cases, impls, chunk=150):
        for i in range(0, len(cases), chunk):
            job = {'name': name, 'cases': cases[i:i + chunk], 'impls': impls[i:i + chunk], 'model': None, 'error': None}
            job['thread'] = self.T.Thread(target=self._work, args=(job,))
            job['thread'].start()
            self.jobs.append(job)

    def _work(self, job):
        try:
            job['model'] = self.real_drive(job['cases'])
        except BaseException as e:
            job['error'] = e

    def wait(self):
        jobs, self.jobs = self.jobs, []
        for job in jobs:
            job['thread'].join()
        for job in jobs:
            if job['error'] is not None:
                raise job['error']
            self.ctx.drive = lambda _cases, m=job['model']: m
            try:
                self.ctx.correspond(job['name'], job['cases'], job['impls'])
            finally:
                del self.ctx.drive


_LAST = {}


def run(ctx):
    rng = ctx.rng
    st = {'cases': [], 'impls': [], 'hcases': [], 'himpls': [], 'origin': {}}
    # (d) update / reread / remove against a daemon WITH children: the unmodified main loop over the simulated kernel
    DAEMON.run_population(ctx)
    for label, old, new in CORPUS:
        one_pair(ctx, st, {'sections': old}, label, new, 'c')
        one_pair(ctx, st, {'sections': new}, label + '~rev', old, 'c')
    for secs0, steps in HISTORY_CORPUS:
        run_history(ctx, st, secs0, steps)
    attr_population(ctx, st, rng, ctx.n(2, 16), 30 if ctx.tier == 'quick' else 60)
    unparsable_population(ctx, st, rng, ctx.n(2, 12), 0 if ctx.tier == 'quick' else 2, 5)
    relpath_population(ctx, st, rng, ctx.n(2, 18), 6)
    envvar_population(ctx, st, rng, ctx.n(2, 14), 2)
    for i in range(ctx.n(8, 80)):
        cfg = L.gen_config(rng, ctx.scratch, small=True)
        cfg['include'] = []
        cfg['sections'] = cap_numprocs(cfg['sections'])
        for label, newsecs in mutations(rng, cfg, everything=(i % 8 == 0)):
            one_pair(ctx, st, cfg, label, newsecs, 'p')
    bg = Background(ctx)
    if ctx.driver_path:
        bg.submit('reread', st['cases'], st['impls'])
    try:
        for i in range(ctx.n(50, 450)):
            secs0, steps = gen_history(rng, ctx.scratch)
            run_history(ctx, st, secs0, steps)
        if ctx.driver_path:
            bg.submit('history', st['hcases'], st['himpls'], chunk=40)
    finally:
        bg.wait()
    _LAST['origin'] = st['origin']


def search(ctx):
    """failing-input search after a broken proof / correspondence (monitors only, stops at the first failing input):
    (1) the neighbourhood of every file pair on which model and implementation disagreed: each section that differs
        between the two files gets every single-attribute / single-option mutation, applied to either file, in both
        directions (a disagreement on 'one event replaced' leads to 'one event lost', 'one gained', 'reordered' ...);
    (2) a bounded sweep of all single-attribute mutations over fresh small files of every group kind."""
    rng = ctx.rng
    st = {'cases': [], 'impls': [], 'hcases': [], 'himpls': [], 'origin': {}}
    origin = _LAST.get('origin', {})
    seen = set()
    DAEMON.run_population(ctx)
    if _done(ctx):
        return
    for b in ctx.broken:
        if b.get('kind') != 'correspondence' or not isinstance(b.get('input'), dict):
            continue
        for old, new in origin.get(b['input'].get('case'), [])[:4]:
            od, nd = dict((s, o) for s, o in old), dict((s, o) for s, o in new)
            hot = [s for s in od if s in nd and sorted(od[s]) != sorted(nd[s]) and s != 'supervisord']
            for secs in (old, new):
                cands = []
                for label, m in attr_mutations(rng, secs) + mutations(rng, {'sections': secs}, everything=True):
                    md = dict((s, o) for s, o in m)
                    sd = dict((s, o) for s, o in secs)
                    if any(s in md and sorted(md[s]) != sorted(sd[s]) for s in hot) and len(md) == len(sd):
                        cands.append((label, m))
                for label, m in cands:
                    key = repr((secs, m))
                    if key in seen:
                        continue
                    seen.add(key)
                    ctx.count('search:neighbourhood')
                    one_pair(ctx, st, {'sections': secs}, label, m, 'n')
                    one_pair(ctx, st, {'sections': m}, label + '~rev', secs, 'n')
                    if _done(ctx):
                        return
    for label, a, c in ENV_CORPUS:
        one_pair(ctx, st, {'sections': a}, label, c, 'c')
        if _done(ctx):
            return
    envvar_population(ctx, st, rng, 3 if ctx.tier == 'quick' else 10, 2)
    if _done(ctx):
        return
    attr_population(ctx, st, rng, 3 if ctx.tier == 'quick' else 12, 20 if ctx.tier == 'quick' else 40)
    if _done(ctx):
        return
    unparsable_population(ctx, st, rng, 3 if ctx.tier == 'quick' else 10, 0 if ctx.tier == 'quick' else 2, 6)
    if _done(ctx):
        return
    relpath_population(ctx, st, rng, 3 if ctx.tier == 'quick' else 12, 8)
    if _done(ctx):
        return
    for i in range(3 if ctx.tier == 'quick' else 20):
        cfg = L.gen_config(rng, ctx.scratch, small=True)
        cfg['include'] = []
        cfg['sections'] = cap_numprocs(cfg['sections'])
        for label, newsecs in mutations(rng, cfg, everything=True):
            one_pair(ctx, st, cfg, label, newsecs, 'p')
            if _done(ctx):
                return


def replay(ctx, data):
    inp = data['input']
    if inp.get('daemon'):
        DAEMON.replay(ctx, inp)
        return
    st = {'cases': [], 'impls': [], 'hcases': [], 'himpls': []}
    tup = lambda secs: [(s, [tuple(o) for o in opts]) for s, opts in secs]
    if inp.get('history'):
        steps = [('write', tup(x[1])) if x[0] == 'write' else tuple(x) for x in inp['steps']]
        run_history(ctx, st, tup(inp['start']), steps, 'r')
        ctx.correspond('history', st['hcases'], st['himpls'])
        return
    one_pair(ctx, st, {'sections': tup(inp['old'])}, inp['label'], tup(inp['new']), 'r', include=inp.get('include') or ())
    ctx.correspond('reread', st['cases'], st['impls'])


TECHNIQUE = ("Lean 4 theorems over a model of config equality (compared attribute lists, comparison operands, statement shapes and class facts of the "
             "four group-level __eq__ methods and of ProcessConfig.__eq__ regenerated from options.py / datatypes.py), diff_to_active, "
             "reloadConfig, add/remove preconditions and do_update's call sequence; differential correspondence of file pairs against the real "
             "ServerOptions + Supervisor.diff_to_active + reloadConfig + DefaultControllerPlugin.do_update; the guard in front of group.transition() in "
             "runforever and the attributes ProcessGroupBase.__eq__ compares are regenerated from supervisord.py / process.py and a one-pass model of "
             "the group table proves that a group removed by a request of the pass is not transitioned; schedule exploration of supervisorctl "
             "update / reread / remove against the unmodified main loop over a simulated kernel with children; the except clauses around `s % expansions` in "
             "expand() and around process_config() in reloadConfig, the functions applied to a child log file name and the working-directory dependent calls "
             "of the functions that build configurations are regenerated from options.py / rpcinterface.py")
LEVEL_TEXT = ("equality is characterised field by field for every pair of process configurations (eq_characterised, eq_refl) and of group configurations of "
              "each kind (group_/pool_/fcgi_/socket_eq_characterised; ne_characterised / changed_exact: a group is listed as changed exactly when its kind, "
              "priority, a process, buffer size, event subscriptions, result handler or a socket option differs), the shape of the coded comparisons is "
              "checked (eq_shape_understood, eq_compares_paired), the three lists of the diff are "
              "characterised and disjoint for all group lists, reread provably leaves the group table alone and CANT_REREAD the whole state, "
              "update's call sequence, its restriction to named groups and the convergence of the whole update (active = file, unreported groups "
              "untouched incl. pids, changed/added groups fresh, removed groups gone) are proved for all states and files under 'stops complete'; for every "
              "group list taken at the top of a main-loop pass and every table the requests of that pass leave, a group object that is no longer in the "
              "table is not transitioned, so nothing is forked for it (removed_group_not_transitioned, nothing_forked_for_removed_group, with the decided "
              "counterexample equality_guard_transitions_removed_group for a guard decided by ProcessGroupBase.__eq__), and active groups still are "
              "(active_group_still_transitioned); whatever class a failing %-expression has in CPython a ValueError leaves expand() and every failure of the "
              "model's parse is answered CANT_REREAD with the state untouched (format_failure_is_value_error, unparsable_answered_cant_reread, counterexample "
              "narrowed_handler_lets_type_error_escape); the parse does not depend on the working directory and an unchanged file read after a change of "
              "directory reports nothing (config_builders_cwd_free, parse_independent_of_cwd, unchanged_file_reports_nothing_after_chdir, counterexample "
              "normalized_logfile_depends_on_cwd)")
LEVEL_NOTE = "stops are assumed to complete (stopProcessGroup of the model); the daemon side of add/remove is applied by precondition in the harness proxy"
DESIGN_REF = "DESIGN.md section 6, C15"
