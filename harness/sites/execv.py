"""
"May this command be executed": ServerOptions.check_execv_args (supervisor/options.py), Subprocess.get_execv_args and the try
around it in Subprocess.spawn (supervisor/process.py), and the pre-flight test of startProcess (supervisor/rpcinterface.py).

guards  -- every test of check_execv_args (`st is None`, S_ISDIR, the execute-bit mask, os.access(filename, os.X_OK)) and of
           get_execv_args (`commandargs`, `'/' in program`, `st is None`), translated over (st : Option Int) (acc : Bool) resp.
           (cmdNonEmpty hasSlash : Bool) (st : Option Int); stat.S_ISDIR / stat.S_IMODE and `&` are translated with the constants of
           Python's stat module.
tables  -- what the translator does not carry as expressions: the if/elif chain of check_execv_args as a list (guard, exception
           class raised in that branch); the exception classes of supervisor.options with their ancestors; the except clauses
           around `process.get_execv_args()` in startProcess with the fault each raises, and the order of startProcess's
           statements up to `process.spawn()`; which classes Subprocess.spawn catches around get_execv_args() and that the
           handler returns before the fork; the shape of get_execv_args's $PATH search (first directory whose stat succeeds
           wins), which exceptions its two early exits raise, and what it hands to check_execv_args; the test under which
           startProcess hands back a deferred callback.

The guards are produced by extract.site_defs (same naming / baseline alignment as every other site) but emitted from TABLES(),
because the chain table must come after them in the generated file; SITES is therefore empty.
"""
import ast, os, stat as _stat, sys
import extract as _extract_module

# extract.py run as a script is the module `__main__`, not `extract`: take the copy that is actually running, so that
# site_defs called from TABLES() below sees the baseline main() loaded and records the new one where main() writes it
_m = sys.modules.get('__main__')
extract = _m if all(hasattr(_m, a) for a in ('site_defs', 'NEWBASE', 'BASELINE', 'Site', 'Tr', 'Untranslatable')) else _extract_module
Site, Tr, Untranslatable, find_func, lean_str = extract.Site, extract.Tr, extract.Untranslatable, extract.find_func, extract.lean_str

LEAN_MODULE = 'Execv'
IMPORTS = ['SupervisorModel.Model.ExecvTypes', 'SupervisorModel.Generated.Proc']
OPENS = ['Sv.Proc', 'Sv.Gen.Proc']

STAT_CONSTS = {'stat.' + k: getattr(_stat, k) for k in ('S_IXUSR', 'S_IXGRP', 'S_IXOTH', 'S_IEXEC', 'S_IRWXU', 'S_IRWXG', 'S_IRWXO',
                                                        'S_IFMT', 'S_IFDIR', 'S_IFREG')}


class ExecvTr(Tr):
    """+ `a & b`, `a | b` on mode words, stat.S_ISDIR(x), stat.S_IMODE(x), stat.S_IX* constants"""
    def _const(self, e):
        if isinstance(e, ast.Constant) and isinstance(e.value, int) and not isinstance(e.value, bool):
            return e.value
        s = ast.unparse(e)
        if s in STAT_CONSTS:
            return STAT_CONSTS[s]
        if isinstance(e, ast.BinOp) and isinstance(e.op, (ast.BitAnd, ast.BitOr)):
            l, r = self._const(e.left), self._const(e.right)
            if l is not None and r is not None:
                return (l & r) if isinstance(e.op, ast.BitAnd) else (l | r)
        return None

    def _statcall(self, e):
        if isinstance(e, ast.Call) and len(e.args) == 1 and not e.keywords:
            f = ast.unparse(e.func)
            if f in ('stat.S_ISDIR', 'S_ISDIR'):
                return 'sIsDir'
            if f in ('stat.S_IMODE', 'S_IMODE'):
                return 'sIMode'
        return None

    def typ(self, e):
        if ast.unparse(e) in self.site.vars:
            return Tr.typ(self, e)
        if self._const(e) is not None:
            return 'int'
        if isinstance(e, ast.BinOp) and isinstance(e.op, (ast.BitAnd, ast.BitOr)):
            return 'int'
        c = self._statcall(e)
        if c == 'sIsDir':
            return 'bool'
        if c == 'sIMode':
            return 'int'
        return Tr.typ(self, e)

    def expr(self, e):
        if ast.unparse(e) in self.site.vars:
            return Tr.expr(self, e)
        k = self._const(e)
        if k is not None:
            return '(%d : Int)' % k
        if isinstance(e, ast.BinOp) and isinstance(e.op, ast.BitAnd):
            return '(Sv.Execv.band %s %s)' % (self.expr(e.left), self.expr(e.right))
        c = self._statcall(e)
        if c:
            return '(%s %s)' % (c, self.expr(e.args[0]))
        return Tr.expr(self, e)


_cvars = {
    'st': ('st', 'opt'),
    'st[stat.ST_MODE]': ('(Sv.Execv.modeOf st)', 'int'),
    'st.st_mode': ('(Sv.Execv.modeOf st)', 'int'),
    'os.access(filename, os.X_OK)': ('acc', 'bool'),
}
CHECK = Site('supervisor/options.py', 'ServerOptions.check_execv_args', 'check', '(st : Option Int) (acc : Bool)', _cvars)
CHECK.tr_class = ExecvTr

_avars = {
    'commandargs': ('cmdNonEmpty', 'bool'),
    "'/' in program": ('hasSlash', 'bool'),
    'st': ('st', 'opt'),
}
ARGS = Site('supervisor/process.py', 'Subprocess.get_execv_args', 'args', '(cmdNonEmpty hasSlash : Bool) (st : Option Int)', _avars)

SITES = []          # see the module docstring


def _body(func):
    b = list(func.body)
    if b and isinstance(b[0], ast.Expr) and isinstance(b[0].value, ast.Constant) and isinstance(b[0].value.value, str):
        b = b[1:]
    return b


def _raised_class(stmts):
    """the class raised by a body that is exactly one `raise Cls(...)` / `raise Cls`"""
    if len(stmts) == 1 and isinstance(stmts[0], ast.Raise) and stmts[0].exc is not None and stmts[0].cause is None:
        x = stmts[0].exc
        if isinstance(x, ast.Call):
            x = x.func
        if isinstance(x, ast.Name):
            return x.id
    return None


def _site(site, out):
    """emit the site's definitions (guards marked @[simp] so that proofs over the chain do not name them); returns the guard idents"""
    defs, fp = extract.site_defs(site)
    out.append('-- site %s (%s:%s) skeleton fingerprint %s' % (site.name, site.file, site.qual, fp))
    for d in defs:
        out.append(d.replace('\ndef %s_g' % site.name, '\n@[simp] def %s_g' % site.name))
    ok = set()
    for d in defs:
        for line in d.split('\n'):
            if line.startswith('def '):
                ok.add(line.split()[1])
    return [i for i, t in extract.NEWBASE.get(site.name, []) if t.startswith('g:')], ok


def _handler_names(h):
    t = h.type
    if t is None:
        return ['BaseException']
    if isinstance(t, ast.Tuple):
        return [ast.unparse(x) for x in t.elts]
    return [ast.unparse(t)]


def _calls(node, suffix):
    return [n for n in ast.walk(node) if isinstance(n, ast.Call) and ast.unparse(n.func).endswith(suffix)]


def TABLES():
    out = []
    B = lambda b: 'true' if b else 'false'
    L = lambda xs: '[' + ', '.join(lean_str(x) for x in xs) + ']'
    out.append("/-- Python's stat module: S_IFMT, S_IFDIR and the mask of S_IMODE -/")
    out.append('def sIFMT : Int := %d' % _stat.S_IFMT(0o7777777))
    out.append('def sIFDIR : Int := %d' % _stat.S_IFDIR)
    out.append('def sIMODEmask : Int := %d' % _stat.S_IMODE(0o7777777))
    out.append('/-- stat.S_ISDIR(mode) -/')
    out.append('def sIsDir (m : Int) : Bool := Sv.Execv.band m sIFMT == sIFDIR')
    out.append('/-- stat.S_IMODE(mode) -/')
    out.append('def sIMode (m : Int) : Int := Sv.Execv.band m sIMODEmask')
    out.append('')

    # ------------------------------------------------------------------ check_execv_args
    otree = ast.parse(open(os.path.join(extract.REPO, 'supervisor/options.py')).read())
    guards, defined = _site(CHECK, out)
    f = find_func(otree, 'ServerOptions.check_execv_args')
    chain, shape = [], [a.arg for a in f.args.args] == ['self', 'filename', 'argv', 'st']
    # the body: if/elif chains without else whose every branch is one raise, one after another (equivalent to one chain, as
    # every branch leaves the function), with assignments of locals in between (inlined into the tests by the translator)
    for stmt in _body(f):
        if isinstance(stmt, ast.If):
            node = stmt
            while True:
                chain.append(_raised_class(node.body))
                if len(node.orelse) == 1 and isinstance(node.orelse[0], ast.If):
                    node = node.orelse[0]
                    continue
                shape = shape and not node.orelse
                break
        elif isinstance(stmt, ast.Assign) and len(stmt.targets) == 1 and isinstance(stmt.targets[0], ast.Name) \
                and not any(isinstance(n, ast.Call) and not ExecvTr(CHECK, f)._statcall(n) for n in ast.walk(stmt.value)):
            continue
        elif isinstance(stmt, ast.Return) and stmt.value is None:
            break
        else:
            shape = False
    shape = shape and len(chain) == len(guards) and all(c is not None for c in chain) and all(g in defined for g in guards)
    # the access question is about the file that was handed in and about execute permission (anything else is untranslated
    # above and shows as a missing guard); nothing else in the function calls os.access
    acc_calls = [ast.unparse(n) for n in _calls(f, 'access')]
    out.append('')
    out.append('/-- the body of check_execv_args is a sequence of if/elif chains without else, every branch is one `raise <Class>(...)`, and falling')
    out.append('    through the chain returns None: (test, class raised), in source order -/')
    out.append('def checkChain : List ((Option Int → Bool → Bool) × String) := [' +
               (', '.join('(%s, %s)' % (g, lean_str(c)) for g, c in zip(guards, chain)) if shape else '') + ']')
    out.append('def checkIsRaiseChain : Bool := %s' % B(shape))
    out.append('/-- every os.access call of the function -/')
    out.append('def checkAccessCalls : List String := %s' % L(acc_calls))
    out.append('')

    # ------------------------------------------------------------------ exception classes of supervisor.options
    bases = {}
    for n in otree.body:
        if isinstance(n, ast.ClassDef):
            bases[n.name] = [ast.unparse(b) for b in n.bases]
    def ancestors(c, seen=()):
        r = [c]
        for b in bases.get(c, []):
            if b not in seen:
                r += [x for x in ancestors(b, seen + (c,)) if x not in r]
        return r
    names = sorted(c for c in bases if 'ProcessException' in ancestors(c))
    out.append('/-- supervisor.options: every class derived from ProcessException with itself and its ancestors -/')
    out.append('def excAncestors : List (String × List String) := [' + ', '.join('(%s, %s)' % (lean_str(c), L(ancestors(c))) for c in names) + ']')
    out.append('')

    # ------------------------------------------------------------------ get_execv_args
    ptree = ast.parse(open(os.path.join(extract.REPO, 'supervisor/process.py')).read())
    aguards, adefined = _site(ARGS, out)
    g = find_func(ptree, 'Subprocess.get_execv_args')
    gb = _body(g)
    # 1. try: commandargs = shlex.split(self.config.command)  except ValueError: raise BadCommand
    parse_raises, empty_raises = None, None
    first_hit = abs_none = False
    check_args, filename_rule = [], False
    try:
        t0 = gb[0]
        if isinstance(t0, ast.Try) and len(t0.handlers) == 1 and _handler_names(t0.handlers[0]) == ['ValueError'] \
                and 'shlex.split(self.config.command)' in ast.unparse(t0.body):
            parse_raises = _raised_class(t0.handlers[0].body)
        i1 = gb[1]
        if isinstance(i1, ast.If) and ast.unparse(i1.test) == 'commandargs' and ast.unparse(i1.body[0]) == 'program = commandargs[0]':
            empty_raises = _raised_class(i1.orelse)
        i2 = gb[2]
        if isinstance(i2, ast.If) and ast.unparse(i2.test) == "'/' in program":
            # absolute / explicit: stat(filename) in a try whose OSError handler sets st = None
            trys = [s for s in i2.body if isinstance(s, ast.Try)]
            abs_none = (len(trys) == 1 and ast.unparse(i2.body[0]) == 'filename = program'
                        and ast.unparse(trys[0].body) == 'st = self.config.options.stat(filename)'
                        and len(trys[0].handlers) == 1 and _handler_names(trys[0].handlers[0]) == ['OSError']
                        and ast.unparse(trys[0].handlers[0].body) == 'st = None' and not trys[0].orelse and not trys[0].finalbody)
            # $PATH: st = None; for dir in path: found = join(dir, program); try: st = stat(found) except OSError: pass else: break
            fors = [s for s in i2.orelse if isinstance(s, ast.For)]
            pre = [ast.unparse(s) for s in i2.orelse if isinstance(s, ast.Assign)]
            if len(fors) == 1:
                fr = fors[0]
                ft = [s for s in fr.body if isinstance(s, ast.Try)]
                first_hit = ('st = None' in pre and 'path = self.config.get_path()' in pre and ast.unparse(fr.iter) == 'path'
                             and not fr.orelse and len(ft) == 1 and ast.unparse(fr.body[0]) == 'found = os.path.join(%s, program)' % ast.unparse(fr.target)
                             and ast.unparse(ft[0].body) == 'st = self.config.options.stat(found)'
                             and len(ft[0].handlers) == 1 and _handler_names(ft[0].handlers[0]) == ['OSError']
                             and ast.unparse(ft[0].handlers[0].body) in ('pass', 'continue')
                             and ast.unparse(ft[0].orelse) == 'break' and len(fr.body) == 2)
            tail = [s for s in i2.orelse if isinstance(s, ast.If)]
            filename_rule = (len(tail) == 1 and ast.unparse(tail[0].test) == 'st is None'
                             and ast.unparse(tail[0].body) == 'filename = program' and ast.unparse(tail[0].orelse) == 'filename = found')
        cc = _calls(g, 'check_execv_args')
        if len(cc) == 1:
            check_args = [ast.unparse(a) for a in cc[0].args]
        rest = gb[3:]
        rest_ok = (len(rest) == 2 and isinstance(rest[0], ast.Expr) and rest[0].value is cc[0]
                   and ast.unparse(rest[1]) == 'return (filename, commandargs)')
    except (IndexError, AttributeError):
        rest_ok = False
    out.append('')
    out.append('/-- get_execv_args: what is raised when shlex cannot split the command / when the command is empty -/')
    out.append('def argsParseRaises : String := %s' % lean_str(parse_raises or '?'))
    out.append('def argsEmptyRaises : String := %s' % lean_str(empty_raises or '?'))
    out.append("/-- a program with a '/' is stat-ed as it is, an OSError leaves st = None -/")
    out.append('def argsExplicitStatErrIsNone : Bool := %s' % B(abs_none))
    out.append('/-- otherwise the directories of the path are tried in order, an OSError goes on to the next directory, the first')
    out.append('    directory in which stat succeeds ends the search -/')
    out.append('def argsSearchStopsAtFirstHit : Bool := %s' % B(first_hit))
    out.append('/-- after the search the file name is the one found, or the bare program name when nothing was found -/')
    out.append('def argsFilenameIsFound : Bool := %s' % B(filename_rule))
    out.append('/-- the one call of check_execv_args, then `return filename, commandargs` -/')
    out.append('def argsCheckCall : List String := %s' % L(check_args))
    out.append('def argsEndsWithCheckAndReturn : Bool := %s' % B(rest_ok))
    out.append('def argsGuards : List String := %s' % L([x for x in aguards if x in adefined]))
    out.append('')

    # ------------------------------------------------------------------ Subprocess.spawn
    sp = find_func(ptree, 'Subprocess.spawn')
    strys = [s for s in sp.body if isinstance(s, ast.Try) and _calls(ast.Module(body=s.body, type_ignores=[]), 'get_execv_args')]
    catches, returns, before_fork = [], False, False
    if len(strys) == 1 and len(_calls(sp, 'get_execv_args')) == 1:
        t = strys[0]
        catches = [x for h in t.handlers for x in _handler_names(h)]
        returns = all(h.body and isinstance(h.body[-1], ast.Return) and h.body[-1].value is None for h in t.handlers) and not t.finalbody
        forks = _calls(sp, '.fork')
        before_fork = bool(forks) and all(fk.lineno > t.end_lineno for fk in forks)
    out.append('/-- Subprocess.spawn: the classes caught around its get_execv_args() call; every such handler ends in a bare `return`;')
    out.append('    the try statement comes before every fork() call of the method -/')
    out.append('def spawnCatches : List String := %s' % L(catches))
    out.append('def spawnHandlerReturns : Bool := %s' % B(returns))
    out.append('def spawnChecksBeforeFork : Bool := %s' % B(before_fork))
    out.append('')

    # ------------------------------------------------------------------ startProcess
    rtree = ast.parse(open(os.path.join(extract.REPO, 'supervisor/rpcinterface.py')).read())
    import importlib
    import supervisor.xmlrpc as xr
    importlib.reload(xr)
    faults = {k for k in vars(xr.Faults) if not k.startswith('_')}
    s = find_func(rtree, 'SupervisorNamespaceRPCInterface.startProcess')
    order, handlers = [], []
    def tag(st):
        src = ast.unparse(st)
        if isinstance(st, ast.Expr) and ast.unparse(st.value).startswith('self._update('):
            return 'update'
        if isinstance(st, ast.Assign) and 'self._getGroupAndProcess(name)' in src:
            return 'lookup'
        if isinstance(st, ast.If) and ast.unparse(st.test) == 'process is None':
            return 'group-form'
        if isinstance(st, ast.Try) and _calls(st, 'get_execv_args'):
            return 'execv-check'
        if isinstance(st, ast.If) and 'process.get_state()' in ast.unparse(st.test) and _raised_class(st.body) == 'RPCError':
            return 'state-test'
        if isinstance(st, ast.Expr) and src == 'process.spawn()':
            return 'spawn'
        return 'other: ' + src.split('\n')[0][:60]
    for st in _body(s):
        t = tag(st)
        if not (order and order[-1] == t == 'state-test'):
            order.append(t)
        if t == 'spawn':
            break
    for st in _body(s):
        if isinstance(st, ast.Try) and _calls(st, 'get_execv_args'):
            simple = (len(st.body) == 1 and not st.orelse and not st.finalbody)
            for h in st.handlers:
                fault = None
                if len(h.body) == 1 and isinstance(h.body[0], ast.Raise) and isinstance(h.body[0].exc, ast.Call) \
                        and ast.unparse(h.body[0].exc.func) == 'RPCError' and h.body[0].exc.args:
                    a0 = h.body[0].exc.args[0]
                    if isinstance(a0, ast.Attribute) and ast.unparse(a0.value) == 'Faults' and a0.attr in faults:
                        fault = 'fault' + a0.attr
                handlers.append((_handler_names(h), fault if simple else None))
    hs_ok = bool(handlers) and all(fl is not None for _, fl in handlers)
    out.append('/-- startProcess: the except clauses of the try around `process.get_execv_args()`, in source order: (classes caught, fault')
    out.append('    of the RPCError raised instead) -/')
    out.append('def startHandlers : List (List String × Int) := [' +
               (', '.join('(%s, %s)' % (L(ns), fl) for ns, fl in handlers) if hs_ok else '') + ']')
    out.append('def startHandlersTranslated : Bool := %s' % B(hs_ok))
    out.append('/-- the statements of startProcess up to `process.spawn()`, in source order (consecutive state tests as one) -/')
    out.append('def startStatementOrder : List String := %s' % L(order))
    out.append('/-- spawn() is called at one place in startProcess -/')
    out.append('def startSpawnCalls : Nat := %d' % len([n for n in _calls(s, 'process.spawn')]))
    # the test under which the immediate answer is a deferred callback instead of True
    defer = [st for st in _body(s) if isinstance(st, ast.If) and any(isinstance(x, ast.FunctionDef) for x in st.body)]
    dsite = Site('supervisor/rpcinterface.py', 'SupervisorNamespaceRPCInterface.startProcess', 'start', '(wait : Bool) (p : Proc)',
                 {'wait': ('wait', 'bool'), 'process.get_state()': ('p.state', 'lean:PS')},
                 {'ProcessStates.' + n: 'PS.' + n.lower() for n in ('STOPPED', 'STARTING', 'RUNNING', 'BACKOFF', 'STOPPING', 'EXITED', 'FATAL', 'UNKNOWN')},
                 const_types={'ProcessStates': 'lean:PS'})
    if len(defer) == 1:
        try:
            out.append('-- startProcess:%d  %s   (then: def onwait ...; return onwait)' % (defer[0].lineno, ast.unparse(defer[0].test)))
            out.append('def start_deferWhen (wait : Bool) (p : Proc) : Bool := %s' % Tr(dsite, s).truth(defer[0].test))
        except Untranslatable as ex:
            out.append('-- start_deferWhen  UNTRANSLATED (%s)' % ex)
    else:
        out.append('-- start_deferWhen  UNTRANSLATED (%d if-statements define a callback)' % len(defer))
    return out
