"""
L2 scenarios (random scripts for harness/simkernel.py) and the daemon-level monitors for
C02 (tracking/reaping), C05 (shutdown), C06 (survival), C13 (RPC answers).  Monitors read only
the kernel's own table and log, the notifications, the reported states sampled at every
main-loop boundary and the RPC answers.
"""
import errno, signal
from simkernel import SimKernel, TICK

ST = {0: 'STOPPED', 10: 'STARTING', 20: 'RUNNING', 30: 'BACKOFF', 40: 'STOPPING', 100: 'EXITED', 200: 'FATAL', 1000: 'UNKNOWN'}
LIVE = (10, 20, 40)
STOPPED_STATES = (0, 100, 200, 1000)
RUNNING_STATES = (20, 30, 10)
FAULT = dict(UNKNOWN_METHOD=1, INCORRECT_PARAMETERS=2, BAD_ARGUMENTS=3, SIGNATURE_UNSUPPORTED=4, SHUTDOWN_STATE=6, BAD_NAME=10,
             BAD_SIGNAL=11, NO_FILE=20, NOT_EXECUTABLE=21, FAILED=30, ABNORMAL_TERMINATION=40, SPAWN_ERROR=50,
             ALREADY_STARTED=60, NOT_RUNNING=70, SUCCESS=80, ALREADY_ADDED=90, STILL_RUNNING=91, CANT_REREAD=92)


def gen_programs(rng, nmax=5, pools=False):
    n = rng.randrange(1, nmax + 1)
    ngroups = rng.randrange(1, n + 1)
    prios = [rng.choice([1, 5, 5, 10, 999]) for _ in range(ngroups)]
    progs = []
    for i in range(n):
        g = i % ngroups
        progs.append(dict(
            name='p%d' % i, group='g%d' % g, gprio=prios[g], prio=rng.choice([1, 5, 999]),
            autostart=rng.random() < 0.8, autorestart=rng.choice(['false', 'unexpected', 'unexpected', 'true']),
            startsecs=rng.choice([0, 1, 1, 2]), startretries=rng.choice([0, 1, 3]), exitcodes=rng.choice([[0], [0, 2]]),
            stopsignal=rng.choice([signal.SIGTERM, signal.SIGINT, signal.SIGHUP]), stopwaitsecs=rng.choice([1, 2, 3]),
            stopasgroup=rng.random() < 0.2, killasgroup=rng.random() < 0.3,
            dies_on=rng.choice(['any', 'any', 'kill']), die_delay=rng.choice([0, 0, 1]),
            leaves_pipes_open=rng.random() < 0.15))
    for p in progs:
        if p['stopasgroup']:
            p['killasgroup'] = True
    # sometimes one whole group is configured but not active at start: it is added (and maybe removed) at run time
    groups = sorted({p['group'] for p in progs})
    if len(groups) >= 2 and rng.random() < 0.35:
        lg = rng.choice(groups)
        for p in progs:
            if p['group'] == lg:
                p['late'] = True
    return progs


def gen_script(rng, progs, npass, shutdown=None, faults=False, rpcs=True, group_forms=True):
    """shutdown: None | pass index at which a shutdown/restart request arrives"""
    names = [p['name'] for p in progs]
    ns = {p['name']: '%s:%s' % (p['group'], p['name']) for p in progs}
    script = []
    rid = [0]
    late = sorted({p['group'] for p in progs if p.get('late')})
    add_at = rng.randrange(0, max(1, npass // 2)) if late else None
    for i in range(npass):
        dt = rng.choice([256, 512, 1024, 1024, 1024, 2048, 3072])
        if rng.random() < 0.03:
            dt = -rng.choice([1024, 4096])
        acts = []
        if rng.random() < 0.25:
            acts.append(('exit', rng.choice(names), rng.choice([0, 0, 1, 2, 3, -9, -15, -35, -64, -33])))
        if rng.random() < 0.05:
            for _ in range(rng.randrange(2, 5)):
                acts.append(('exit', rng.choice(names), rng.choice([0, 1])))
        if rng.random() < 0.04:
            acts.append(('foreign', 9000 + i, rng.choice([0, 1])))
        if rng.random() < 0.06:
            # the kernel recycles pids: an unrelated process that was given the pid of an earlier, reaped child
            acts.append(('foreign', rng.randrange(100, 100 + 3 * len(names)), rng.choice([0, 1])))
        if rpcs and rng.random() < 0.2:
            rid[0] += 1
            nm = rng.choice(names)
            tgt = rng.choice([ns[nm], ns[nm], '%s:*' % ns[nm].split(':')[0], 'nosuch']) if group_forms else rng.choice([ns[nm], ns[nm], ns[nm], 'nosuch:x'])
            m = rng.random()
            if m < 0.4:
                acts.append(('rpc', rid[0], 'supervisor.startProcess', (tgt, rng.random() < 0.6)))
            elif m < 0.8:
                acts.append(('rpc', rid[0], 'supervisor.stopProcess', (tgt, rng.random() < 0.6)))
            elif m < 0.9:
                acts.append(('rpc', rid[0], 'supervisor.signalProcess', (tgt, rng.choice(['HUP', 'USR1', '15', 'BOGUS', 'STOP', 'STOP', 'CONT']))))
            elif not group_forms:
                acts.append(('rpc', rid[0], 'supervisor.stopProcess', (tgt, True)))
            elif m < 0.86:
                acts.append(('rpc', rid[0], rng.choice(['supervisor.signalAllProcesses', 'supervisor.signalAllProcesses']), (rng.choice(['USR1', 'HUP', '15']),)))
            elif m < 0.90:
                g = ns[nm].split(':')[0]
                acts.append(('rpc', rid[0], rng.choice(['supervisor.signalProcessGroup']), (g, rng.choice(['USR1', 'HUP']))))
            elif m < 0.93:
                g = ns[nm].split(':')[0]
                acts.append(('rpc', rid[0], rng.choice(['supervisor.startProcessGroup', 'supervisor.stopProcessGroup']), (g, rng.random() < 0.5)))
            elif m < 0.95:
                acts.append(('rpc', rid[0], 'supervisor.stopAllProcesses', (rng.random() < 0.5,)))
            else:
                acts.append(('rpc', rid[0], 'supervisor.startAllProcesses', (rng.random() < 0.5,)))
        if faults and rng.random() < 0.15:
            call = rng.choice(['fork', 'pipe', 'kill', 'waitpid', 'read', 'write'])
            en = {'fork': [errno.EAGAIN, errno.ENOMEM], 'pipe': [errno.EMFILE, errno.ENFILE], 'kill': [errno.EPERM, errno.ESRCH],
                  'waitpid': [errno.EINTR, errno.ECHILD], 'read': [errno.EINTR, errno.EBADF, errno.EAGAIN],
                  'write': [errno.EPIPE, errno.EAGAIN]}[call]
            acts.append(('fault', call, rng.choice(en), rng.choice([1, 1, 2])))
        if rng.random() < 0.03:
            acts.append(('missing', rng.choice(names), rng.random() < 0.7))
        if rng.random() < 0.03:
            acts.append(('sig', rng.choice([signal.SIGCHLD, signal.SIGUSR2])))
        if late and i == add_at:
            rid[0] += 1
            acts.append(('addgroup', rid[0], late[0]))
        if late and rng.random() < 0.05:
            rid[0] += 1
            acts.append((rng.choice(['addgroup', 'removegroup', 'removegroup']), rid[0], rng.choice(sorted({p['group'] for p in progs}))))
        if shutdown is not None and i == shutdown:
            if rng.random() < 0.7:
                acts.append(('sig', rng.choice([signal.SIGTERM, signal.SIGINT, signal.SIGQUIT, signal.SIGHUP])))
            else:
                rid[0] += 1
                acts.append(('rpc', rid[0], rng.choice(['supervisor.shutdown', 'supervisor.restart']), ()))
        if shutdown is not None and i > shutdown and rng.random() < 0.15:
            acts.append(('sig', rng.choice([signal.SIGHUP, signal.SIGTERM, signal.SIGHUP])))
        script.append((dt, acts))
    return script


def unknown_scenario(rng):
    """signalling-failure stories: a process is driven into UNKNOWN by a failed delivery (EPERM) of a stop signal, of an
    API signal -- possibly while a stop is already pending -- or of the SIGKILL escalation; then its child exits (or not),
    and the daemon goes on: more passes, start/stop/signal requests for it, a shutdown"""
    progs = [dict(name='p0', group='g0', gprio=5, prio=999, autostart=True, autorestart=rng.choice(['false', 'unexpected', 'true']),
                  startsecs=rng.choice([0, 1]), startretries=3, exitcodes=[0], stopsignal=signal.SIGTERM, stopwaitsecs=rng.choice([1, 2]),
                  stopasgroup=False, killasgroup=rng.random() < 0.3, dies_on='kill', die_delay=0, leaves_pipes_open=False),
             dict(name='p1', group='g1', gprio=rng.choice([1, 5, 10]), prio=999, autostart=True, autorestart='unexpected', startsecs=1, startretries=3,
                  exitcodes=[0], stopsignal=signal.SIGTERM, stopwaitsecs=1, stopasgroup=False, killasgroup=False, dies_on='any', die_delay=0,
                  leaves_pipes_open=False)]
    rid = [0]
    def rpc(m, *a):
        rid[0] += 1
        return ('rpc', rid[0], 'supervisor.' + m, a)
    script = [(1024, [])] * rng.choice([1, 2, 3])
    story = rng.choice(['stop-fails', 'signal-fails', 'stop-then-signal-fails', 'escalation-fails', 'stop-then-stop-fails'])
    fail = ('fault', 'kill', errno.EPERM, 1)
    # (an RPC queued during one poll() is executed at the next one: the fault is armed in the pass that executes it)
    if story == 'stop-fails':
        script += [(1024, [rpc('stopProcess', 'g0:p0', rng.random() < 0.5)]), (256, [fail])]
    elif story == 'signal-fails':
        script += [(1024, [rpc('signalProcess', 'g0:p0', 'USR1')]), (256, [fail])]
    elif story == 'stop-then-signal-fails':
        script += [(512, [rpc('stopProcess', 'g0:p0', rng.random() < 0.5)]), (256, []),
                   (256, [rpc('signalProcess', 'g0:p0', rng.choice(['USR1', 'HUP']))]), (128, [fail])]
    elif story == 'stop-then-stop-fails':
        script += [(512, [rpc('stopProcess', 'g0:p0', False)]), (256, []), (256, [rpc('signalProcess', 'g0:p0', '15')]), (128, [fail]),
                   (128, [rpc('stopProcess', 'g0:p0', False)]), (128, [])]
    else:
        script += [(512, [rpc('stopProcess', 'g0:p0', rng.random() < 0.5)]), (256, []), (1024 * 3, [fail])]
    for _ in range(rng.choice([0, 1, 2])):
        script.append((rng.choice([256, 1024]), []))
    if rng.random() < 0.8:
        script.append((1024, [('exit', 'p0', rng.choice([0, 1, -9, -15]))]))
    for _ in range(rng.choice([1, 3])):
        script.append((1024, []))
    tail = rng.choice(['start', 'stop', 'signal', 'shutdown', 'none', 'start'])
    if tail == 'start':
        script.append((1024, [rpc('startProcess', 'g0:p0', rng.random() < 0.5)]))
    elif tail == 'stop':
        script.append((1024, [rpc('stopProcess', 'g0:p0', rng.random() < 0.5)]))
    elif tail == 'signal':
        script.append((1024, [rpc('signalProcess', 'g0:p0', 'USR1')]))
    elif tail == 'shutdown':
        script.append((1024, [('sig', signal.SIGTERM)]))
    if rng.random() < 0.5:
        script.append((1024, [('exit', 'p0', rng.choice([0, 1]))]))
    return progs, script + [(1024, [])] * 8


def run_scenario(progs, script, **kw):
    k = SimKernel(progs, script, **kw)
    outcome = k.run()
    return k, outcome


# ---------------------------------------------------------------------------------------------- monitors

def passes(log):
    """split the log at boundaries: [(records of the pass, boundary record)]"""
    out, cur = [], []
    for r in log:
        if r['kind'] == 'boundary':
            out.append((cur, r))
            cur = []
        else:
            cur.append(r)
    return out, cur


def mon_c02(ctx, k, inp):
    """tracked and reaped once; reported state agrees with the kernel's child table"""
    ps, _ = passes(k.log)
    name_of = {}
    zombie_age = {}
    unreaped = {}     # name -> set of pids (kernel truth, maintained from the log)
    waited = set()
    if k.outcome.startswith('exception') or k.outcome == 'blocked':
        ps = ps[:-1]          # the snapshot taken after the loop died is not a main-loop boundary
    group_of = {p['name']: p.get('group', p['name']) for p in k.programs.values()}
    inactive = {p.get('group', p['name']) for p in k.programs.values() if p.get('late')}   # groups not in the process table
    orphans = set()     # children of process objects whose group has been removed (only an UNKNOWN process can still have
                        # one: removal requires stopped states); they belong to no current process object any more
    for recs, b in ps:
        for i, r in enumerate(recs):
            if r['kind'] == 'rpc-answer' and r.get('method') == 'supervisor.removeProcessGroup' and r.get('value') is True:
                rb = next((q for q in recs[:i][::-1] if q['kind'] == 'rpc-begin' and q.get('id') == r.get('id')), None)
                g = rb['args'][0] if rb and rb.get('args') else None
                for nm, pids in unreaped.items():
                    if group_of.get(nm) == g:
                        orphans |= pids
                        for pid in pids:
                            name_of.pop(pid, None)
                        unreaped[nm] = set()
            if r['kind'] == 'wait' and r.get('pid') in orphans:
                orphans.discard(r['pid'])
                ctx.count('orphan-of-removed-group-reaped')
                continue
            if r['kind'] == 'rpc-answer' and r.get('method') in ('supervisor.removeProcessGroup', 'supervisor.addProcessGroup') and r.get('value') is True:
                rb2 = next((q for q in recs[:i][::-1] if q['kind'] == 'rpc-begin' and q.get('id') == r.get('id')), None)
                g2 = rb2['args'][0] if rb2 and rb2.get('args') else None
                (inactive.add if r['method'].endswith('removeProcessGroup') else inactive.discard)(g2)
            if r['kind'] == 'fork' and group_of.get(r['name']) in inactive:
                ctx.violation('fork-for-removed-group', 'child %d forked for %s although its group %s has been removed from the process table' % (
                    r['pid'], r['name'], group_of.get(r['name'])), inp)
            if r['kind'] == 'fork':
                if unreaped.get(r['name']):
                    ctx.violation('second-child-forked', 'fork for %s while child(ren) %s not yet reaped' % (r['name'], sorted(unreaped[r['name']])), inp)
                unreaped.setdefault(r['name'], set()).add(r['pid'])
                name_of[r['pid']] = r['name']
                waited.discard(r['pid'])
            elif r['kind'] == 'wait' and r.get('pid') and r.get('stopped'):
                ctx.violation('stopped-child-treated-as-exited', 'waitpid was asked for stopped children and reported pid %d, which is alive' % r['pid'], inp)
            elif r['kind'] == 'wait' and r.get('pid'):
                pid = r['pid']
                nm = name_of.pop(pid, None)
                if nm is not None:
                    if pid in waited:
                        ctx.violation('waited-twice', 'pid %d returned by wait twice for one fork' % pid, inp)
                    waited.add(pid)
                nxt = recs[i + 1] if i + 1 < len(recs) else None
                if nm is None:
                    if nxt and nxt['kind'] == 'event' and nxt['name'].startswith('PROCESS_STATE'):
                        ctx.violation('foreign-pid-affected-process', 'unknown pid %d reaped, then %s for %s' % (pid, nxt['name'], nxt.get('process')), inp)
                    ctx.count('foreign-reaped')
                else:
                    unreaped[nm].discard(pid)
                    if nxt and nxt['kind'] == 'event' and nxt['name'].startswith('PROCESS_STATE') and nxt.get('process') != nm:
                        ctx.violation('exit-misattributed', 'pid %d of %s reaped, then %s for %s' % (pid, nm, nxt['name'], nxt.get('process')), inp)
                    ctx.count('reaped')
        # ---- boundary agreement
        kern = b['kernel']
        for full, (st, pid) in b['procs'].items():
            nm = full.split(':')[1]
            kids = [kd for kd in kern.get(nm, []) if kd[0] not in orphans]
            if st == 1000:
                continue
            if st in LIVE:
                if len(kids) != 1 or kids[0][0] != pid or pid == 0:
                    ctx.violation('state-child-disagree', '%s reported %s pid %d but the kernel holds %r for it (pass %d)' % (full, ST[st], pid, kids, b['passno']), inp)
            else:
                if pid != 0 or kids:
                    ctx.violation('state-child-disagree', '%s reported %s pid %d but the kernel holds %r for it (pass %d)' % (full, ST.get(st, st), pid, kids, b['passno']), inp)
        # ---- what the API reports is the process's state and the pid of its child
        rep = b.get('reported')
        if rep is not None:
            if '__error__' in rep:
                ctx.violation('api-report-raised', 'getAllProcessInfo raised %s (pass %d)' % (rep['__error__'][0], b['passno']), inp)
            else:
                for full, (st, pid) in b['procs'].items():
                    if full in rep and (rep[full][0] != st or rep[full][1] != pid):
                        ctx.violation('api-report-differs', '%s: getAllProcessInfo reports state %s pid %d but the process is %s with child pid %d (pass %d)' % (
                            full, ST.get(rep[full][0], rep[full][0]), rep[full][1], ST.get(st, st), pid, b['passno']), inp)
                ctx.count('api-reports-compared', len(rep))
        # ---- zombies are reaped within the passes the 100-per-pass limit allows
        zs = [pid for kids in kern.values() for pid, s in kids if s == 'zombie']
        for pid in zs:
            zombie_age[pid] = zombie_age.get(pid, 0) + 1
        if len(zs) <= 100:
            old = [pid for pid in zs if zombie_age[pid] >= 3]
            if old and k.outcome == 'stopsim' and not any(r['kind'] == 'fault' and r['call'] == 'waitpid' for r in recs):
                ctx.violation('zombie-not-reaped', 'exited child(ren) %s not reaped for 3 passes' % old, inp)


def mon_c05(ctx, k, inp):
    """shutdown: no fork, one STOPPING notification, ordered stop, exit only when done, SIGHUP ignored, RPCs refused"""
    ps, tail = passes(k.log)
    gprio = {p.get('group', p['name']): p.get('gprio', 999) for p in k.programs.values()}
    gof = {p['name']: p.get('group', p['name']) for p in k.programs.values()}
    requested = False
    nstopping = 0
    signalled = []       # groups in the order they received their first stop signal during shutdown
    prev_procs = None
    shutdown_seen = False
    for recs, b in ps:
        cur = dict(prev_procs or {})
        for r in recs:
            if r['kind'] == 'event' and r['name'].startswith('PROCESS_STATE'):
                key = '%s:%s' % (r['group'], r['process'])
                to = r['name'][len('PROCESS_STATE_'):]
                cur[key] = ({v: k2 for k2, v in ST.items()}[to], cur.get(key, (0, 0))[1])
                if requested and to == 'STOPPING' and r.get('rpc') is None:
                    g = r['group']
                    if g not in signalled:
                        for g2 in signalled:
                            bad = [n for n, (s, _) in cur.items() if n.split(':')[0] == g2 and s not in STOPPED_STATES]
                            if bad:
                                ctx.violation('group-signalled-before-previous-stopped', 'group %s signalled while %s of group %s not stopped' % (g, bad, g2), inp)
                        higher = [n for n, (s, _) in cur.items() if gprio[n.split(':')[0]] > gprio[g] and s not in STOPPED_STATES]
                        if higher:
                            ctx.violation('group-order-wrong', 'group %s (priority %d) signalled while %s (higher priority) not stopped' % (g, gprio[g], higher), inp)
                        signalled.append(g)
            if r['kind'] == 'fork' and requested:
                ctx.violation('fork-after-shutdown-request', 'child forked for %s after the shutdown/restart request was observed' % r['name'], inp)
            if r['kind'] == 'event' and r['name'] == 'SUPERVISOR_STATE_CHANGE_STOPPING':
                nstopping += 1
                requested = True      # the request has been observed: ordered stop starts right after this notification
            if r['kind'] == 'rpc-answer' and requested and r.get('method', '').split('.')[-1] in (
                    'startProcess', 'stopProcess', 'signalProcess', 'startAllProcesses', 'stopAllProcesses', 'restart', 'shutdown'):
                if r.get('fault') != FAULT['SHUTDOWN_STATE'] and not r.get('deferred'):
                    ctx.violation('rpc-not-refused-during-shutdown', '%s answered %r during shutdown' % (r['method'], r.get('fault', r.get('value'))), inp)
        if b['mood'] < 1:
            if not requested:
                ctx.count('shutdown-observed')
            requested = True
            if b['mood'] == -1:
                shutdown_seen = True
            if shutdown_seen and b['mood'] != -1:
                ctx.violation('shutdown-turned-into-restart', 'mood %d after SHUTDOWN had been requested' % b['mood'], inp)
        prev_procs = b['procs']
    if nstopping > 1:
        ctx.violation('stopping-announced-twice', 'SUPERVISOR_STATE_CHANGE_STOPPING emitted %d times' % nstopping, inp)
    if k.outcome == 'exitnow':
        last = ps[-1][1]
        if not requested:
            ctx.violation('exit-without-request', 'main loop exited without a shutdown/restart request', inp)
        for full, (st, pid) in last['procs'].items():
            nm = full.split(':')[1]
            kids = [x for x in last['kernel'].get(nm, []) if x[1] == 'alive']
            if st != 1000 and (st not in STOPPED_STATES or kids):
                ctx.violation('exit-with-live-child', 'main loop exited while %s is %s with live children %r' % (full, ST.get(st, st), kids), inp)
        if nstopping != 1:
            ctx.violation('stopping-not-announced', 'exit with %d STOPPING notifications' % nstopping, inp)
        ctx.count('exit')


def mon_c06(ctx, k, inp):
    if k.outcome == 'blocked':
        ctx.violation('main-loop-blocked', 'the main loop hangs in a system call: %s' % getattr(k, 'exc', ''), inp)
    if k.outcome.startswith('exception'):
        tb = getattr(k, 'exc', '')
        last = tb.strip().split('\n')[-1]
        where = [l.strip() for l in tb.split('\n') if 'supervisor/' in l]
        ctx.violation('main-loop-died:' + k.outcome.split(':')[1] + ':' + (where[-1].split(',')[-1].strip() if where else '?'),
                      'runforever() terminated with %s' % last, dict(inp, traceback=tb[-1500:]))
    for r in k.log:
        if r['kind'] == 'rpc-error':
            ctx.violation('rpc-internal-error', 'a well-formed API request raised: %s' % r['exc'], inp)


def mon_c13(ctx, k, inp):
    """start/stop/signal answers vs what happened (single-process forms)"""
    calls = {}
    last_b = None
    cur = {}
    inv = {v: k2 for k2, v in ST.items()}
    for r in k.log:
        kind = r['kind']
        if kind == 'boundary':
            last_b = r
            cur = {kk: v[0] for kk, v in r['procs'].items()}
        elif kind == 'rpc-begin' and r['method'].split('.')[1] in ('startProcess', 'stopProcess', 'signalProcess'):
            tgt = r['args'][0]
            calls[r['id']] = dict(method=r['method'].split('.')[1], args=r['args'], target=tgt,
                                  state_at_call=r['procs'].get(tgt, (None, None))[0], mood_at_call=r['mood'],
                                  forks=0, kills=[], events=[])
        elif kind == 'event' and r['name'].startswith('PROCESS_STATE'):
            key = '%s:%s' % (r['group'], r['process'])
            cur[key] = inv[r['name'][len('PROCESS_STATE_'):]]
            for c in calls.values():
                if c['target'] == key and 'answer' not in c:
                    c['events'].append(r['name'][len('PROCESS_STATE_'):])
        cid = r.get('rpc') if kind in ('fork', 'kill') else (r.get('id') if kind == 'rpc-answer' else None)
        if cid in calls:
            c = calls[cid]
            if kind == 'fork':
                c['forks'] += 1
            elif kind == 'kill':
                c['kills'].append((r['pid'], r['sig']))
            elif kind == 'rpc-answer':
                c['answer'] = r.get('fault', 'ok' if r.get('value') is True else r.get('value'))
                c['state_at_answer'] = cur.get(c['target'])
                check_call(ctx, k, c, last_b, inp)
    return calls


SCOPE_PRED = {
    'startAllProcesses': ('all', lambda st: st not in RUNNING_STATES), 'startProcessGroup': ('group', lambda st: st not in RUNNING_STATES),
    'stopAllProcesses': ('all', lambda st: st in RUNNING_STATES), 'stopProcessGroup': ('group', lambda st: st in RUNNING_STATES),
    'signalAllProcesses': ('all', lambda st: st in (10, 20, 40)), 'signalProcessGroup': ('group', lambda st: st in (10, 20, 40)),
}


def mon_c13_groups(ctx, k, inp):
    """group and all forms: exactly one entry per eligible process of the scope, none for others.  Eligibility is
    evaluated process by process while the call runs (each single call reaps), so only processes whose state did not
    change during the call are compared"""
    calls = {}
    for r in k.log:
        kind = r['kind']
        if kind == 'rpc-begin':
            m = r['method'].split('.')[1]
            if m in SCOPE_PRED:
                calls[r['id']] = dict(method=m, args=r['args'], procs=r['procs'], scope=set(r['procs']), mood=r['mood'], kills=[], unstable=set(),
                                      window=m.startswith('signal'))
        elif kind == 'rpc-first-poll' and r['id'] in calls and not calls[r['id']]['method'].startswith('signal'):
            c = calls[r['id']]
            c['procs'] = r['procs']; c['window'] = True; c['unstable'] = set()
        elif kind == 'event' and r['name'].startswith('PROCESS_STATE') and r.get('rpc') in calls and calls[r['rpc']]['window']:
            calls[r['rpc']]['unstable'].add('%s:%s' % (r['group'], r['process']))
        elif kind == 'kill' and r.get('rpc') in calls:
            calls[r['rpc']]['kills'].append((r['pid'], r['sig'], r.get('name')))
        elif kind == 'rpc-answer' and r.get('id') in calls:
            c = calls.pop(r['id'])
            if 'fault' in r or not isinstance(r.get('value'), list):
                continue            # refused as a whole (SHUTDOWN_STATE, BAD_NAME, BAD_SIGNAL): nothing per process to compare
            scope, pred = SCOPE_PRED[c['method']]
            grp = c['args'][0] if scope == 'group' else None
            # the process list is taken when the call is made, the predicate is evaluated when the deferred function first runs
            inscope = [full for full in c['scope'] if grp is None or full.split(':')[0] == grp]
            stable = [f for f in inscope if f not in c['unstable'] and f in c['procs']]   # removed meanwhile = not stable
            eligible = sorted(f for f in stable if pred(c['procs'][f][0]))
            got_all = ['%s:%s' % (e.get('group'), e.get('name')) for e in r['value'] if isinstance(e, dict)]
            got = sorted(f for f in got_all if f in stable)
            ctx.count('rpc-group-form:' + c['method'])
            bad = None
            if len(set(got_all)) != len(got_all):
                bad = 'duplicate entries %r' % got_all
            elif any(f not in inscope for f in got_all):
                bad = 'entries %r outside the scope %r' % (got_all, inscope)
            elif got != eligible:
                bad = 'entries for %r, eligible (state unchanged during the call) were %r' % (got, eligible)
            if bad:
                ctx.violation('group-form-entries-wrong:' + c['method'], '%s%r: %s' % (c['method'], tuple(c['args']), bad),
                              dict(inp, call=dict(method=c['method'], args=list(c['args']))))
            if c['method'].startswith('signal'):
                want = sorted(pid for full, (st, pid) in c['procs'].items() if full in eligible)
                gotk = sorted(pid for pid, sig, nm in c['kills'] if any(c['procs'][f][1] == pid for f in stable))
                if gotk != want:
                    ctx.violation('group-form-signals-wrong:' + c['method'], 'signals delivered to %r, eligible children %r' % (gotk, want),
                                  dict(inp, call=dict(method=c['method'], args=list(c['args']))))


def check_call(ctx, k, c, b, inp):
    m, ans, st = c['method'], c['answer'], c['state_at_call']
    inp = dict(inp, call=dict(method=m, args=list(c['args']), state_at_call=ST.get(st), answer=ans, forks=c['forks'], kills=c['kills'], events=c['events']))
    if ':*' in c['target'] or c['target'].endswith(':') or st is None:
        return
    if c['mood_at_call'] < 1:
        if ans != FAULT['SHUTDOWN_STATE'] or c['forks'] or c['kills']:
            ctx.violation('rpc-served-during-shutdown', '%s answered %r' % (m, ans), inp)
        return
    wait = bool(c['args'][1]) if m != 'signalProcess' and len(c['args']) > 1 else False
    ctx.count('rpc:%s:%s' % (m, ans if not isinstance(ans, int) else [n for n, v in FAULT.items() if v == ans][0]))
    if m == 'startProcess':
        if st in RUNNING_STATES:
            if ans not in (FAULT['ALREADY_STARTED'], FAULT['NO_FILE'], FAULT['NOT_EXECUTABLE']) or c['forks']:
                ctx.violation('start-already-started-wrong', 'startProcess on %s answered %r, forks=%d' % (ST[st], ans, c['forks']), inp)
        elif ans == 'ok':
            if c['forks'] != 1:
                ctx.violation('start-true-without-fork', 'startProcess answered true but %d children were forked by the call' % c['forks'], inp)
            if wait and 'RUNNING' not in c['events']:
                ctx.violation('start-true-before-running', 'startProcess(wait=true) answered true without a RUNNING notification', inp)
        elif ans not in (FAULT['SPAWN_ERROR'], FAULT['ABNORMAL_TERMINATION'], FAULT['NO_FILE'], FAULT['NOT_EXECUTABLE'], FAULT['FAILED']):
            ctx.violation('start-undocumented-answer', 'startProcess answered %r' % ans, inp)
        if c['forks'] > 1:
            ctx.violation('start-forked-twice', 'startProcess forked %d children' % c['forks'], inp)
    elif m == 'stopProcess':
        if st not in RUNNING_STATES:
            if ans != FAULT['NOT_RUNNING'] or c['kills']:
                ctx.violation('stop-not-running-wrong', 'stopProcess on %s answered %r kills=%r' % (ST[st], ans, c['kills']), inp)
        elif ans == 'ok' and wait:
            nm = c['target'].split(':')[1]
            s2, pid2 = b['procs'].get(c['target'], (None, None))
            if c['state_at_answer'] not in STOPPED_STATES:
                ctx.violation('stop-true-before-stopped', 'stopProcess(wait=true) answered true while the process is %s' % ST.get(c['state_at_answer']), inp)
    elif m == 'signalProcess':
        if c['args'][1] == 'BOGUS':
            if ans != FAULT['BAD_SIGNAL'] or c['kills']:
                ctx.violation('bad-signal-wrong', 'signalProcess(BOGUS) answered %r' % ans, inp)
        elif st in (20, 10, 40) and ans == 'ok':
            if len(c['kills']) != 1 or c['kills'][0][0] <= 0:
                ctx.violation('signal-delivery-wrong', 'signalProcess delivered %r' % c['kills'], inp)
        elif st not in (20, 10, 40):
            if ans != FAULT['NOT_RUNNING'] or c['kills']:
                ctx.violation('signal-not-running-wrong', 'signalProcess on %s answered %r kills=%r' % (ST[st], ans, c['kills']), inp)


def scenario_input(progs, script, **kw):
    def enc(a):
        return [x.hex() if isinstance(x, (bytes, bytearray)) else (list(x) if isinstance(x, tuple) else x) for x in a]
    return {'programs': progs, 'script': [[dt, [enc(a) for a in acts]] for dt, acts in script], 'opts': kw}


def scenario_from_input(inp):
    def dec(a):
        a = list(a)
        if a[0] == 'write':
            a[3] = bytes.fromhex(a[3])
        if a[0] == 'rpc':
            a[3] = tuple(a[3])
        return tuple(a)
    return inp['programs'], [(dt, [dec(a) for a in acts]) for dt, acts in inp['script']]


# ---------------------------------------------------------------------------------------------- model lines

def sup_case_line(k):
    """configuration line for the Lean `sup` model, in process_groups insertion order"""
    gidx, pidx, toks = {}, {}, []
    for cfg in k.options.process_group_configs:
        gidx[cfg.name] = len(gidx)
        for pc in cfg.process_configs:
            pidx[pc.name] = len(pidx)
            p = k.programs[pc.name]
            toks.append('prog=%d/%d/%d/%d/%d/%d/%d/%s/%s/%d/%d/%d/%d/%d' % (
                gidx[cfg.name], cfg.priority, pidx[pc.name], pc.priority, pc.startsecs * TICK, pc.startretries,
                int(pc.autostart), p.get('autorestart', 'unexpected'), '.'.join(str(x) for x in pc.exitcodes) or '-',
                int(pc.stopsignal), pc.stopwaitsecs * TICK, int(pc.stopasgroup), int(pc.killasgroup), int(bool(p.get('late')))))
    return 'case sup ' + ' '.join(toks), gidx, pidx


def decode_es(sts):
    if sts & 0x7f == 0:
        return (sts >> 8) & 0xff
    return -1


def sup_lines(k):
    """(case line, [pass op lines], [impl canonical lines]) from a finished SimKernel run"""
    case, gidx, pidx = sup_case_line(k)
    gof = {p['name']: p.get('group', p['name']) for p in k.programs.values()}
    def pn(name):
        return '%d' % pidx[name]
    # split at poll records: a pass = records from one 'poll' up to (not including) the next 'poll'
    segs, cur, started = [], None, False
    for r in k.log:
        if r['kind'] == 'poll':
            if cur is not None:
                segs.append(cur)
            cur = [r]
        elif cur is not None:
            cur.append(r)
    if cur is not None:
        segs.append(cur)
    sigq = []
    ops, lines = [], []
    deferred_group = {}      # id of a pending deferred call -> group of its target
    begin_group = {}
    orphaned = False
    for r in k.log:
        if r['kind'] == 'rpc-begin' and r['args']:
            begin_group[r['id']] = str(r['args'][0]).split(':')[0]
            if r['method'].endswith('removeProcessGroup'):
                begin_group[r['id']] = ('remove', r['args'][0])
        elif r['kind'] == 'rpc-deferred':
            deferred_group[r['id']] = begin_group.get(r['id'])
        elif r['kind'] == 'rpc-answer':
            if r.get('deferred'):
                deferred_group.pop(r['id'], None)
            bg = begin_group.get(r['id'])
            if isinstance(bg, tuple) and r.get('value') is True and bg[1] in deferred_group.values():
                orphaned = True      # a deferred answer now refers to a process object outside the process table
    for si, recs in enumerate(segs):
        poll = recs[0]
        for a in k.script[poll['passno'] - 1][1]:
            if a[0] == 'sig' and int(a[1]) not in sigq:      # SignalReceiver.receive ignores a signal that is already pending
                sigq.append(int(a[1]))
        spawns, kills, waits, rpcs, outs = [], [], [], [], []
        seg, nseg = [], 0
        boundary = None
        reached_signal = True
        i = 0
        while i < len(recs):
            r = recs[i]
            kd = r['kind']
            if kd == 'event' and r['name'].startswith('PROCESS_STATE_'):
                to = r['name'][len('PROCESS_STATE_'):]
                outs.append('%s:ev:%s<%s:pid=%d:tries=%d:exp=%d' % (pn(r['process']), to, ST[r['frm']], r['pid'], r['tries'], r['expected']))
                if to == 'STARTING':
                    # outcome of this spawn attempt: look ahead
                    res = None
                    for q in recs[i + 1:]:
                        if q['kind'] == 'event' and q['name'] == 'PROCESS_STATE_STARTING':
                            break
                        if q['kind'] == 'stat-missing' and q['name'] == r['process']:
                            res = 'badcmd'; break
                        if q['kind'] == 'fault' and q['call'] in ('pipe', 'fcntl'):     # both fail make_pipes()
                            res = 'pipeerr'; break
                        if q['kind'] == 'fault' and q['call'] == 'fork':
                            res = 'forkerr'; break
                        if q['kind'] == 'fork':
                            res = 'ok=%d' % q['pid']; break
                    spawns.append(res or 'UNRESOLVED')
            elif kd == 'event' and r['name'] == 'SUPERVISOR_STATE_CHANGE_STOPPING':
                outs.append('STOPPING')
            elif kd == 'fork':
                outs.append('%s:fork:%d' % (pn(r['name']), r['pid']))
            elif kd == 'kill':
                kills.append(r.get('result', 'fail'))
                outs.append('%s:kill:%d:%d' % (pn(r['name']) if r.get('name') else '?', r['pid'], r['sig']))
            elif kd == 'wait':
                if r.get('pid'):
                    seg.append('%d:%d' % (r['pid'], decode_es(r['sts'])))
                    if r.get('foreign'):
                        outs.append('reaped-unknown:%d' % r['pid'])
                    if len(seg) == 100:
                        waits.append(seg); seg = []
                else:
                    waits.append(seg); seg = []
            elif kd == 'fault' and r['call'] == 'waitpid':
                waits.append(seg); seg = []
            elif kd == 'rpc-begin':
                m = r['method'].split('.')[1]
                a = r['args']
                tgt = a[0] if a else ''
                if m in ('startProcess', 'stopProcess', 'signalProcess'):
                    g, _, n = tgt.partition(':')
                    gi = gidx.get(g, 99)
                    ni = pidx.get(n, 99) if gof.get(n) == g else 99
                    if m == 'startProcess':
                        rpcs.append('start:%d:%d:%d:%d:%d' % (r['id'], gi, ni, int(bool(a[1])), int(n in r['missing'])))
                    elif m == 'stopProcess':
                        rpcs.append('stop:%d:%d:%d:%d' % (r['id'], gi, ni, int(bool(a[1]))))
                    else:
                        from supervisor.datatypes import signal_number
                        try:
                            sn = int(signal_number(a[1]))
                        except ValueError:
                            sn = -1
                        rpcs.append('signal:%d:%d:%d:%d' % (r['id'], gi, ni, sn))
                elif m in ('shutdown', 'restart'):
                    rpcs.append('%s:%d' % (m, r['id']))
                elif m in ('addProcessGroup', 'removeProcessGroup'):
                    rpcs.append('%s:%d:%d' % ('addgroup' if m == 'addProcessGroup' else 'removegroup', r['id'], gidx.get(a[0], 99)))
                else:
                    rpcs.append('unsupported:%d' % r['id'])
            elif kd == 'rpc-answer':
                code = r['fault'] if 'fault' in r else (FAULT['SUCCESS'] if r.get('value') is True else -1)
                outs.append('answer:%d:%d:%d' % (r['id'], code, 1 if r.get('deferred') else 0))
            elif kd == 'rpc-deferred':
                outs.append('deferred:%d' % r['id'])
            elif kd == 'rpc-error':
                outs.append('rpc-error:%s' % r['id'])
            elif kd == 'boundary':
                boundary = r
            i += 1
        if seg:
            waits.append(seg)
        last = si == len(segs) - 1
        status = 'ok'
        if last and k.outcome == 'exitnow':
            outs.append('EXITNOW'); status = 'exit'
        elif last and k.outcome.startswith('exception'):
            status = 'err:' + k.outcome.split(':')[1]
        # handle_signal runs once per pass (after reap) unless the pass ended before it
        sig = '-'
        ended_early = last and k.outcome.startswith('exception')
        if sigq and not ended_early:
            sig = str(sigq.pop(0))
        if boundary is None:
            continue        # the run was cut (StopSim) inside this pass: nothing to compare
        st = ' '.join('%s=%s:%d' % (pn(full.split(':')[1]), ST.get(s, s), pid)
                      for full, (s, pid) in boundary['procs'].items())      # process_groups insertion order
        def j(xs, sep):
            return sep.join(xs) if xs else '-'
        ops.append('pass now=%d sig=%s spawns=%s kills=%s waits=%s rpcs=%s' % (
            poll['t'], sig, j(spawns, ','), j(kills, ','), j([j(s, ',') if s else 'e' for s in waits], '/') if waits else '-', j(rpcs, ';')))
        lines.append('%s | %s mood=%d | %s' % (j(outs, ';'), st, boundary['mood'], status))
    if orphaned:
        ops = ops + ['unsupported: deferred call outlives the removal of its group']
    return case, ops, lines
