import SupervisorModel.Lemmas.Rotate
import SupervisorModel.Model.LogFan
/-
  Lemmas about the clear / reopen fan-out (Model/LogFan.lean):
  what a write does to a file handler in *any* configuration and any well-formed state, and what
  a loop without early exits does to every element.
-/
set_option linter.unusedSimpArgs false
namespace Sv.LogFan
open Sv Sv.Rotate Sv.Gen.Rotate

/-- the file at the configured path, if there is one, was created by the handler itself at or
    after history offset `h0` -/
def FreshAt (h0 : Nat) (s : S) : Prop :=
  ∀ f, s.dir.get 0 = some f → f.own = true ∧ h0 ≤ f.start

/-- bound to the configured path: no escaped exception, the stream is on the file at name 0 -/
structure Bound (s : S) : Prop where
  ok : s.err = none
  att : s.stream = .attached 0
  present : (s.dir.get 0).isSome = true

theorem Bound.wf {s : S} (h : Bound s) : WF s := ⟨h.ok, Or.inl ⟨h.att, h.present⟩⟩

theorem emit_off_detached (c : Cfg) (hoff : c.rotating = false ∨ c.maxBytes ≤ 0) (s : S) (h : s.err = none)
    (f : File) (hs : s.stream = .detached f) (b : Bytes) :
    emit c b s = ⟨s.dir, .detached ⟨f.start, f.own, f.data ++ b⟩, s.hist + b.length, none⟩ := by
  unfold emit
  rw [okThen_ok _ _ h]
  have hs1 : ({ streamWrite b s with hist := s.hist + b.length } : S) =
      ⟨s.dir, .detached ⟨f.start, f.own, f.data ++ b⟩, s.hist + b.length, none⟩ := by
    simp [streamWrite, hs, h]
  rw [hs1]
  rcases hoff with hr | hm
  · simp [hr]
  · rw [doRollover_off c _ hm]; simp

theorem emit_off_attached (c : Cfg) (hoff : c.rotating = false ∨ c.maxBytes ≤ 0) (s : S) (h : s.err = none)
    (hs : s.stream = .attached 0) (f : File) (hf : s.dir.get 0 = some f) (b : Bytes) :
    emit c b s = ⟨dirSet s.dir 0 ⟨f.start, f.own, f.data ++ b⟩, .attached 0, s.hist + b.length, none⟩ := by
  unfold emit
  rw [okThen_ok _ _ h]
  have hs1 : ({ streamWrite b s with hist := s.hist + b.length } : S) =
      ⟨dirSet s.dir 0 ⟨f.start, f.own, f.data ++ b⟩, .attached 0, s.hist + b.length, none⟩ := by
    simp [streamWrite, hs, hf, h]
  rw [hs1]
  rcases hoff with hr | hm
  · simp [hr]
  · rw [doRollover_off c _ hm]; simp

theorem cfg_cases (c : Cfg) : (c.rotating = true ∧ 0 < c.maxBytes) ∨ (c.rotating = false ∨ c.maxBytes ≤ 0) := by
  by_cases hr : c.rotating = true
  · by_cases hm : 0 < c.maxBytes
    · exact Or.inl ⟨hr, hm⟩
    · exact Or.inr (Or.inr (by omega))
  · exact Or.inr (Or.inl (by simpa using hr))

/-- one write through a file handler of any configuration, in any well-formed state (also one
    whose file was removed behind its back): no exception, the handler stays well-formed, a
    handler bound to the configured path stays bound to it, and a file that appears at the
    configured path is a new one. -/
theorem emit_any (c : Cfg) (s : S) (w : WF s) (b : Bytes) :
    WF (emit c b s) ∧ (emit c b s).hist = s.hist + b.length ∧
    (Bound s → Bound (emit c b s)) ∧
    (∀ h0, h0 ≤ s.hist → FreshAt h0 s → FreshAt h0 (emit c b s)) := by
  rcases cfg_cases c with ⟨hr, hm⟩ | hoff
  · rcases w.open_ with ⟨ha, hp⟩ | ⟨f, hd⟩
    · cases h0 : s.dir.get 0 with
      | none => rw [h0] at hp; simp at hp
      | some f =>
        obtain ⟨e, st, hi, g⟩ := emit_attached_gen c hr hm s w.ok ha f h0 b
        have hp' : ((emit c b s).dir.get 0).isSome = true := by
          rw [g 0]; split <;> simp [rollSpec]
        refine ⟨⟨e, Or.inl ⟨st, hp'⟩⟩, hi, fun _ => ⟨e, st, hp'⟩, ?_⟩
        intro k hk fr x hx
        rw [g 0] at hx
        split at hx
        · simp at hx; subst hx; exact fr f h0
        · simp [rollSpec] at hx; subst hx; exact ⟨rfl, by simp; omega⟩
    · obtain ⟨e, hi, g⟩ := emit_detached_gen c hr hm s w.ok f hd b
      refine ⟨?_, hi, ?_, ?_⟩
      · by_cases hl : ((f.data ++ b).length : Int) < c.maxBytes
        · rw [if_pos hl] at g; exact ⟨e, Or.inr ⟨_, g.1⟩⟩
        · rw [if_neg hl] at g
          exact ⟨e, Or.inl ⟨g.1, by rw [g.2 0]; simp [rollSpec]⟩⟩
      · intro bd; have := bd.att; rw [hd] at this; simp at this
      · intro k hk fr x hx
        by_cases hl : ((f.data ++ b).length : Int) < c.maxBytes
        · rw [if_pos hl] at g; rw [g.2 0] at hx; exact fr x hx
        · rw [if_neg hl] at g; rw [g.2 0] at hx
          simp [rollSpec] at hx; subst hx; exact ⟨rfl, by simp; omega⟩
  · rcases w.open_ with ⟨ha, hp⟩ | ⟨f, hd⟩
    · cases h0 : s.dir.get 0 with
      | none => rw [h0] at hp; simp at hp
      | some f =>
        rw [emit_off_attached c hoff s w.ok ha f h0 b]
        refine ⟨⟨rfl, Or.inl ⟨rfl, by simp⟩⟩, rfl, fun _ => ⟨rfl, rfl, by simp⟩, ?_⟩
        intro k hk fr x hx
        simp at hx; subst hx; exact fr f h0
    · rw [emit_off_detached c hoff s w.ok f hd b]
      refine ⟨⟨rfl, Or.inr ⟨_, rfl⟩⟩, rfl, ?_, ?_⟩
      · intro bd; have := bd.att; rw [hd] at this; simp at this
      · intro k hk fr x hx; exact fr x hx

/-- `reopen()` in any state without an escaped exception binds the handler to the configured
    path; a file it has to create there is a new one -/
theorem reopen_any (c : Cfg) (s : S) (h : s.err = none) :
    Bound (fhReopen c s) ∧ (fhReopen c s).hist = s.hist ∧
    (∀ h0, h0 ≤ s.hist → FreshAt h0 s → FreshAt h0 (fhReopen c s)) := by
  obtain ⟨e, st, hi, g⟩ := fhReopen_spec c s h
  refine ⟨⟨e, st, ?_⟩, hi, ?_⟩
  · rw [g 0]; cases h0 : s.dir.get 0 <;> simp
  · intro k hk fr x hx
    rw [g 0] at hx
    cases h0 : s.dir.get 0 with
    | none => simp [h0] at hx; subst hx; exact ⟨rfl, hk⟩
    | some f => simp [h0] at hx; subst hx; exact fr f h0

/-- the file at the configured path is unlinked behind the handler's back -/
theorem unlink_any (s : S) (w : WF s) :
    WF (extRemove 0 s) ∧ (extRemove 0 s).hist = s.hist ∧ FreshAt s.hist (extRemove 0 s) := by
  obtain ⟨ws, e, hi, hd, _⟩ := ext_spec 0 s w (fun d => dirRemove d 0) (extRemove 0) rfl
  have h0 : (extRemove 0 s).dir.get 0 = none := by rw [hd]; simp
  refine ⟨⟨e, ?_⟩, hi, ?_⟩
  · rcases ws with ha | hf
    · -- cannot stay attached to a name that was removed
      obtain ⟨_, hn⟩ := (ext_spec 0 s w (fun d => dirRemove d 0) (extRemove 0) rfl).2.2.2.2 ha
      exact absurd rfl hn
    · exact Or.inr hf
  · intro f hf; rw [h0] at hf; simp at hf

end Sv.LogFan
