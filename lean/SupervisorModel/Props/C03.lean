import SupervisorModel.Model.ProcOps
import SupervisorModel.Lemmas.ProcDefs
/-
  C03 — automatic start, retry and restart policy is exactly the configured one.
  Theorems about `Sv.Proc` (guards/timers regenerated from supervisor/process.py).
-/
set_option linter.unusedSimpArgs false
set_option linter.unusedVariables false
namespace Sv.Props.C03
open Sv Sv.Proc Sv.Gen.Proc

def forks (outs : List Out) : List Out := outs.filter (fun o => match o with | .fork .. => true | _ => false)
def enters (st : PS) (outs : List Out) : Bool := outs.any (fun o => match o with | .ev to .. => to == st | _ => false)

theorem rollback_pid (cfg : Cfg) (now : Int) (p : Proc) :
    (rollback cfg now p).state = p.state ∧ (rollback cfg now p).pid = p.pid ∧
    (rollback cfg now p).backoff = p.backoff ∧ (rollback cfg now p).killing = p.killing ∧
    (rollback cfg now p).exitstatus = p.exitstatus := by
  simp only [rollback]
  repeat' split
  all_goals simp

/-- **RUNNING only after startsecs** (main-loop path): a pass announces RUNNING for a STARTING
    process exactly when the clock reads more than startsecs past the (rollback-adjusted) start. -/
theorem running_only_after_startsecs (cfg : Cfg) (p : Proc) (now mood : Int) (res : SpawnRes) (kr : KillRes)
    (hs : p.state = .starting) :
    enters .running (transition cfg now mood res kr { p := p }).outs = true ↔
      now - (rollback cfg now p).laststart > cfg.startsecs := by
  obtain ⟨h1, h2, h3, h4, h5⟩ := rollback_pid cfg now p
  rw [hs] at h1
  by_cases hd : cfg.startsecs < now - (rollback cfg now p).laststart <;>
    simp [transition, autoStart, toRunning, escalate, changeState, assertIn, emit, setP, guard, enters,
      transition_a1, transition_a4, transition_a5, transition_g0, transition_g1, transition_g5, transition_g7, transition_g10,
      transition_g11, transition_g12, transition_g14, transition_c0, transition_c1_0, change_state_g0, change_state_g1,
      change_state_a0, change_state_a2, announces_all, hs, h1, hd]

/-- the adjusted start time is never later than the recorded one and never in the future, so
    under a clock that did not go backwards "RUNNING" means the child really stayed up longer than
    startsecs; after a backward jump the start is re-based at the first pass after the jump -/
theorem rollback_laststart_starting (cfg : Cfg) (now : Int) (p : Proc) (hs : p.state = .starting) :
    (rollback cfg now p).laststart = min p.laststart now := by
  simp [rollback, rollback_g0, rollback_g1, rollback_g2, rollback_a0, rollback_a1, hs]
  repeat' split
  all_goals ((try dsimp only); omega)

/-- **Early exit ⇒ BACKOFF, whatever the exit status**: a child of a STARTING process (not being
    stopped) reaped before startsecs have passed puts the process in BACKOFF. -/
theorem early_exit_is_backoff (cfg : Cfg) (p : Proc) (now es : Int) (busy : Bool)
    (hs : p.state = .starting) (hk : p.killing = false)
    (h1 : p.laststart < now) (h2 : now - p.laststart < cfg.startsecs) :
    let r := finish cfg now es busy { p := p }
    r.p.state = .backoff ∧ r.p.pid = 0 ∧ r.p.backoff = p.backoff + 1 ∧
      r.p.delay = now + 1024 * (p.backoff + 1) ∧ r.err = none := by
  obtain ⟨g1, g2, g3, g4, g5⟩ := rollback_pid cfg now p
  rw [hs] at g1; rw [hk] at g4
  have hl : (rollback cfg now p).laststart = p.laststart := by
    rw [rollback_laststart_starting cfg now p hs]; omega
  cases busy <;>
    simp [finish, finishCore, tooQuickly, changeState, assertIn, emit, setP, guard, finish_g0, finish_g1, finish_g2, finish_a7, finish_a8, finish_a9, finish_g4, finish_a2,
      finish_a4, finish_a5, finish_a24, finish_c2, finish_c3_0, change_state_g0, change_state_g1, change_state_a0, change_state_a2,
      change_state_a4, change_state_a5, announces_all, g1, g3, g4, hl, h1, h2]

/-- **A start attempt that cannot be spawned ⇒ BACKOFF** (command lookup, pipe creation, fork) -/
theorem spawn_failure_is_backoff (cfg : Cfg) (p : Proc) (now : Int) (res : SpawnRes)
    (hs : p.state = .stopped ∨ p.state = .exited ∨ p.state = .fatal ∨ p.state = .backoff) (hpid : p.pid = 0)
    (hres : res = .badCmd ∨ res = .pipeErr ∨ res = .forkErr) :
    let r := spawn cfg now res { p := p }
    r.p.state = .backoff ∧ r.p.backoff = p.backoff + 1 ∧ r.p.delay = now + 1024 * (p.backoff + 1) ∧
      forks r.outs = [] ∧ r.err = none ∧ r.p.pid = 0 := by
  rcases hs with hs | hs | hs | hs <;> rcases hres with hr | hr | hr <;>
    simp [procdefs, hs, hr, hpid, forks]

/-- **Retry gate.**  From BACKOFF a pass starts the process again exactly when the daemon is running,
    the retries are not used up (`backoff ≤ startretries`) and the clock is past the retry time; the
    retry time of the k-th failure is k seconds after it (`early_exit_is_backoff`,
    `spawn_failure_is_backoff`: delay = t_fail + k). -/
theorem retry_gate (cfg : Cfg) (p : Proc) (now mood : Int) (pid : Int) (kr : KillRes)
    (hs : p.state = .backoff) (hpid : p.pid = 0) (hp : pid ≠ 0) :
    forks (transition cfg now mood (.ok pid) kr { p := p }).outs =
      if moodRESTARTING < mood ∧ p.backoff ≤ cfg.startretries ∧ (rollback cfg now p).delay < now
      then [.fork pid] else [] := by
  obtain ⟨g1, g2, g3, g4, g5⟩ := rollback_pid cfg now p
  rw [hs] at g1; rw [hpid] at g2
  by_cases hm : moodRESTARTING < mood <;> by_cases hb : p.backoff ≤ cfg.startretries <;>
    by_cases hd : (rollback cfg now p).delay < now <;>
    simp [transition, autoStart, toRunning, escalate, spawn, giveUp, changeState, assertIn, emit, setP, guard, forks,
      transition_a1, transition_g0, transition_g1, transition_g5, transition_g7, transition_g8, transition_g9, transition_g10,
      transition_g12, transition_g13, transition_g14, spawn_g0, spawn_g3, spawn_a3, spawn_a6, spawn_a7, spawn_a8, spawn_c0,
      spawn_c1_0, spawn_as_parent_a0, spawn_as_parent_a3, give_up_a0, give_up_a1, give_up_a2, give_up_c0, give_up_c1_0,
      change_state_g0, change_state_g1, change_state_a0, change_state_a2, announces_all, hs, g1, g2, g3, hm, hb, hd, hp]
  all_goals (try (split <;> simp_all))

/-- a backward clock jump never brings a retry forward in real time, and never postpones it by
    more than the k seconds of its back-off: the adjusted retry time is min(delay, now + k) -/
theorem rollback_delay_backoff (cfg : Cfg) (now : Int) (p : Proc) (hs : p.state = .backoff) (hd : 0 < p.delay) :
    (rollback cfg now p).delay = min p.delay (now + 1024 * p.backoff) := by
  simp [rollback, rollback_g0, rollback_g3, rollback_g5, rollback_g8, rollback_g9, rollback_a5, hs]
  split <;> (try dsimp only) <;> omega

/-- **FATAL after the last failure**: in BACKOFF with the retries used up, the next pass gives up —
    whatever the daemon's mood — and forks nothing. -/
theorem fatal_after_budget (cfg : Cfg) (p : Proc) (now mood : Int) (res : SpawnRes) (kr : KillRes)
    (hs : p.state = .backoff) (hb : cfg.startretries < p.backoff) :
    let r := transition cfg now mood res kr { p := p }
    r.p.state = .fatal ∧ forks r.outs = [] ∧ r.p.backoff = 0 ∧ r.err = none := by
  obtain ⟨g1, g2, g3, g4, g5⟩ := rollback_pid cfg now p
  rw [hs] at g1
  have hb' : ¬ p.backoff ≤ cfg.startretries := by omega
  simp [transition, autoStart, toRunning, escalate, giveUp, changeState, assertIn, emit, setP, guard, forks,
      transition_a1, transition_g0, transition_g1, transition_g5, transition_g7, transition_g8, transition_g9, transition_g10,
      transition_g12, transition_g13, transition_g14, give_up_a0, give_up_a1, give_up_a2, give_up_c0, give_up_c1_0,
      change_state_g0, change_state_g1, change_state_a0, change_state_a2, announces_all, hs, g1, g3, hb, hb']

/-- the documented restart rule -/
def wantsRestart (cfg : Cfg) (exitstatus : Option Int) : Bool :=
  match cfg.autorestart with
  | .always => true
  | .unexpected => !(match exitstatus with | some e => cfg.exitcodes.contains e | none => false)
  | .never => false

/-- **Automatic restart, exactly.**  A pass forks a new child for an EXITED process if and only if
    the daemon is running and autorestart is true, or is `unexpected` and the exit status is not one
    of exitcodes (death by signal is recorded as status -1, see `signal_death_unexpected`). -/
theorem autorestart_exact (cfg : Cfg) (p : Proc) (now mood : Int) (pid : Int) (kr : KillRes)
    (hs : p.state = .exited) (hpid : p.pid = 0) (hp : pid ≠ 0) :
    forks (transition cfg now mood (.ok pid) kr { p := p }).outs =
      if moodRESTARTING < mood ∧ wantsRestart cfg p.exitstatus = true then [.fork pid] else [] := by
  have hr : rollback cfg now p = p := by simp [rollback, rollback_g0, rollback_g3, rollback_g5, rollback_g8, hs]
  by_cases hm : moodRESTARTING < mood <;> cases ha : cfg.autorestart <;> cases he : p.exitstatus <;>
    simp [transition, autoStart, toRunning, escalate, spawn, changeState, assertIn, emit, setP, guard, forks, wantsRestart,
      transition_a1, transition_g0, transition_g1, transition_g2, transition_g3, transition_g4, transition_g5, transition_g7,
      transition_g10, transition_g12, transition_g14, spawn_g0, spawn_g3, spawn_a3, spawn_a6, spawn_a7, spawn_a8, spawn_c0,
      spawn_c1_0, spawn_as_parent_a0, spawn_as_parent_a3,
      change_state_g0, change_state_g1, change_state_a0, change_state_a2, announces_all, hs, hr, hm, ha, he, hp, hpid]
  all_goals (try (split <;> simp_all))

/-- a child killed by a signal has exit status -1, which no configurable exit code (0…255) equals -/
theorem signal_death_unexpected (cfg : Cfg) (h : ∀ c ∈ cfg.exitcodes, 0 ≤ c) (ha : cfg.autorestart = .unexpected) :
    wantsRestart cfg (some (-1)) = true := by
  simp only [wantsRestart, ha]
  simp
  intro hc
  have := h _ hc
  omega

/-- **Nothing else starts a process on its own**: a pass forks nothing for a process that is FATAL,
    RUNNING, STARTING, STOPPING or UNKNOWN, and for a STOPPED one only the one-time autostart
    (`autostart_once`). -/
theorem nothing_else_starts (cfg : Cfg) (p : Proc) (now mood : Int) (res : SpawnRes) (kr : KillRes)
    (hs : p.state = .fatal ∨ p.state = .running ∨ p.state = .starting ∨ p.state = .stopping ∨ p.state = .unknown ∨
      (p.state = .stopped ∧ (p.laststart ≠ 0 ∨ cfg.autostart = false))) :
    forks (transition cfg now mood res kr { p := p }).outs = [] := by
  obtain ⟨g1, g2, g3, g4, g5⟩ := rollback_pid cfg now p
  have hl : p.state = .stopped → (rollback cfg now p).laststart = p.laststart := by
    intro h; simp [rollback, rollback_g0, rollback_g3, rollback_g5, rollback_g8, h]
  rcases hs with hs | hs | hs | hs | hs | ⟨hs, hx⟩ <;> rw [hs] at g1 <;> cases kr <;>
    simp [transition, autoStart, toRunning, escalate, kill, changeState, assertIn, emit, setP, guard, forks,
      transition_a1, transition_a4, transition_a5, transition_g0, transition_g1, transition_g5, transition_g6, transition_g7,
      transition_g10, transition_g11, transition_g12, transition_g14, transition_g15, transition_c0, transition_c1_0,
      transition_c2_0, kill_g0, kill_g1, kill_g2, kill_g4, kill_a7, kill_a8, kill_a11, kill_a12, kill_a13,
      kill_a14, kill_a19, kill_a20, kill_c1, kill_c2_0, kill_c3_0, kill_c3_1, kill_c4_0,
      change_state_g0, change_state_g1, change_state_a0, change_state_a2, announces_all, hs, g1, hl]
  all_goals (repeat' split)
  all_goals (simp_all [emit, guard, setP, assertIn, changeState, change_state_g0, change_state_g1, change_state_a0, change_state_a2])

/-- **Autostart at most once**: the first start stamps `laststart` with the clock reading, so with
    a clock that does not read 0 a STOPPED process that was ever started is not autostarted again
    (`nothing_else_starts`); the stamp is only ever moved by the rollback adjustment in STARTING and
    RUNNING, never back to 0 for positive readings. -/
theorem autostart_once (cfg : Cfg) (p : Proc) (now mood : Int) (pid : Int) (kr : KillRes)
    (hs : p.state = .stopped) (hpid : p.pid = 0) (hp : pid ≠ 0) :
    forks (transition cfg now mood (.ok pid) kr { p := p }).outs =
      (if moodRESTARTING < mood ∧ p.laststart = 0 ∧ cfg.autostart = true then [.fork pid] else []) ∧
    (forks (transition cfg now mood (.ok pid) kr { p := p }).outs ≠ [] →
      (transition cfg now mood (.ok pid) kr { p := p }).p.laststart = now) := by
  have hr : rollback cfg now p = p := by simp [rollback, rollback_g0, rollback_g3, rollback_g5, rollback_g8, hs]
  by_cases hm : moodRESTARTING < mood <;> by_cases hl : p.laststart = 0 <;> cases ha : cfg.autostart <;>
    simp [transition, autoStart, toRunning, escalate, spawn, changeState, assertIn, emit, setP, guard, forks,
      transition_a1, transition_g0, transition_g1, transition_g5, transition_g6, transition_g7,
      transition_g10, transition_g12, transition_g14, spawn_g0, spawn_g3, spawn_a3, spawn_a6, spawn_a7, spawn_a8, spawn_c0,
      spawn_c1_0, spawn_as_parent_a0, spawn_as_parent_a3,
      change_state_g0, change_state_g1, change_state_a0, change_state_a2, announces_all, hs, hr, hm, ha, hl, hp, hpid]

/-- **The retry counter is reset by success**: reaching RUNNING clears it (so a later failure
    sequence gets the full budget again) -/
theorem counter_reset_on_success (cfg : Cfg) (p : Proc) (now mood : Int) (res : SpawnRes) (kr : KillRes)
    (hs : p.state = .starting) (hd : now - (rollback cfg now p).laststart > cfg.startsecs) :
    let r := transition cfg now mood res kr { p := p }
    r.p.state = .running ∧ r.p.backoff = 0 ∧ r.p.delay = 0 ∧ r.err = none := by
  obtain ⟨g1, g2, g3, g4, g5⟩ := rollback_pid cfg now p
  rw [hs] at g1
  have hd' : cfg.startsecs < now - (rollback cfg now p).laststart := by omega
  simp [transition, autoStart, toRunning, escalate, changeState, assertIn, emit, setP, guard,
      transition_a1, transition_a4, transition_a5, transition_g0, transition_g1, transition_g5, transition_g7, transition_g10,
      transition_g11, transition_g12, transition_g14, transition_c0, transition_c1_0, change_state_g0, change_state_g1,
      change_state_a0, change_state_a2, announces_all, hs, g1, hd']

/-- **Exit after RUNNING**: a RUNNING process whose child is reaped (not being stopped) becomes
    EXITED with the status recorded and `expected` telling whether the status is in exitcodes —
    never BACKOFF, whatever the clock did (the rollback adjustment makes `too quickly` false). -/
theorem running_exit_is_exited (cfg : Cfg) (p : Proc) (now es : Int) (busy : Bool)
    (hs : p.state = .running) (hk : p.killing = false) (hw : 0 ≤ cfg.startsecs) :
    let r := finish cfg now es busy { p := p }
    r.p.state = .exited ∧ r.p.exitstatus = some es ∧ r.p.pid = 0 ∧ r.p.backoff = 0 ∧ r.err = none ∧
      enters .backoff r.outs = false := by
  obtain ⟨g1, g2, g3, g4, g5⟩ := rollback_pid cfg now p
  rw [hs] at g1; rw [hk] at g4
  have hq : (rollback cfg now p).laststart < now → ¬ (now - (rollback cfg now p).laststart < cfg.startsecs) := by
    simp [rollback, rollback_g0, rollback_g3, rollback_g4, rollback_a2, hs]
    repeat' split
    all_goals (intros; (try dsimp only at *); omega)
  by_cases hlt : (rollback cfg now p).laststart < now
  · have hq' := hq hlt
    cases busy <;> by_cases hx : es ∈ cfg.exitcodes <;>
      simp [finish, finishCore, tooQuickly, changeState, assertIn, emit, setP, guard, enters, finish_g0, finish_g1, finish_g2, finish_a7, finish_a8, finish_a9, finish_g4,
        finish_g5, finish_g6, finish_a2, finish_a4, finish_a5, finish_a6, finish_a18, finish_a19, finish_a20, finish_a24,
        finish_c4_0, finish_c5, finish_c6_0, finish_c6_1, finish_c7_0, finish_c7_1, change_state_g0, change_state_g1,
        change_state_a0, change_state_a2, announces_all, g1, g4, hlt, hq', hx]
  · cases busy <;> by_cases hx : es ∈ cfg.exitcodes <;>
      simp [finish, finishCore, tooQuickly, changeState, assertIn, emit, setP, guard, enters, finish_g0, finish_g1, finish_g2, finish_a7, finish_a8, finish_a9, finish_g4,
        finish_g5, finish_g6, finish_a2, finish_a4, finish_a5, finish_a6, finish_a18, finish_a19, finish_a20, finish_a24,
        finish_c4_0, finish_c5, finish_c6_0, finish_c6_1, finish_c7_0, finish_c7_1, change_state_g0, change_state_g1,
        change_state_a0, change_state_a2, announces_all, g1, g4, hlt, hx]

end Sv.Props.C03
