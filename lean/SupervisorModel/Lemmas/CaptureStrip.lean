import SupervisorModel.Lemmas.Capture
import SupervisorModel.Lemmas.Strip
/-
  Chunk-level version of the simulation relation of Lemmas/Capture.lean, valid for either
  setting of strip_ansi: `_log` transforms each chunk it is handed (`tr c`), so the observables
  are functions of the *chunks* (`CItem`), whose bytes are the per-byte decisions of the
  reference splitter (`bytesC`).
-/
set_option linter.unusedSimpArgs false
namespace Sv.CapSpec
open Sv Sv.OutDisp Sv.Gen.OutDisp Sv.Strip

/-- what `_log` does to a chunk before logging it -/
def tr (c : Cfg) (d : Bytes) : Bytes := if c.strip then stripEscapes d else d

/-- one `_log(d)` call made outside (false) / inside (true) a capture section, or a recognised tag -/
inductive CItem
  | chunk (cap : Bool) (d : Bytes)
  | tag (nowCap : Bool)
deriving DecidableEq, Repr

def flatC (m : Bool) : List Act → List CItem
  | [] => []
  | .data d :: r => .chunk m d :: flatC m r
  | .toggle :: r => .tag (!m) :: flatC (!m) r

/-- the per-byte decisions a chunk list stands for -/
def bytesC : List CItem → List Item
  | [] => []
  | .chunk m d :: r => d.map (.byte m) ++ bytesC r
  | .tag t :: r => .tag t :: bytesC r

theorem bytesC_append (a b : List CItem) : bytesC (a ++ b) = bytesC a ++ bytesC b := by
  induction a with
  | nil => rfl
  | cons x r ih => cases x <;> simp [bytesC, ih]

theorem bytesC_flatC (m : Bool) (acts : List Act) : bytesC (flatC m acts) = flat m acts := by
  induction acts generalizing m with
  | nil => rfl
  | cons a r ih => cases a <;> simp [flatC, bytesC, flat, ih]

/-- the chunks logged outside capture sections, each transformed by `f` -/
def plainC (f : Bytes → Bytes) : List CItem → Bytes
  | [] => []
  | .chunk false d :: r => f d ++ plainC f r
  | _ :: r => plainC f r

/-- per closed section: the concatenation of its transformed chunks -/
def sectionsGoC (f : Bytes → Bytes) : Bytes → List CItem → List Bytes
  | _, [] => []
  | cur, .chunk true d :: r => sectionsGoC f (cur ++ f d) r
  | cur, .chunk false _ :: r => sectionsGoC f cur r
  | cur, .tag true :: r => sectionsGoC f cur r
  | cur, .tag false :: r => cur :: sectionsGoC f [] r

def openC (f : Bytes → Bytes) : Bytes → List CItem → Bytes
  | cur, [] => cur
  | cur, .chunk true d :: r => openC f (cur ++ f d) r
  | cur, .chunk false _ :: r => openC f cur r
  | cur, .tag true :: r => openC f cur r
  | _, .tag false :: r => openC f [] r

theorem plainC_append (f : Bytes → Bytes) (a b : List CItem) : plainC f (a ++ b) = plainC f a ++ plainC f b := by
  induction a with
  | nil => rfl
  | cons x r ih => cases x with
    | chunk cap d => cases cap <;> simp [plainC, ih]
    | tag t => simp [plainC, ih]

theorem sectionsGoC_append (f : Bytes → Bytes) (cur : Bytes) (a b : List CItem) :
    sectionsGoC f cur (a ++ b) = sectionsGoC f cur a ++ sectionsGoC f (openC f cur a) b := by
  induction a generalizing cur with
  | nil => rfl
  | cons x r ih => cases x with
    | chunk cap d => cases cap <;> simp [sectionsGoC, openC, ih]
    | tag t => cases t <;> simp [sectionsGoC, openC, ih]

theorem openC_append (f : Bytes → Bytes) (cur : Bytes) (a b : List CItem) :
    openC f cur (a ++ b) = openC f (openC f cur a) b := by
  induction a generalizing cur with
  | nil => rfl
  | cons x r ih => cases x with
    | chunk cap d => cases cap <;> simp [openC, ih]
    | tag t => cases t <;> simp [openC, ih]

/-- with the identity transform the chunk-level observables are the byte-level ones -/
theorem plainC_id (I : List CItem) : plainC id I = plainOf (bytesC I) := by
  induction I with
  | nil => rfl
  | cons x r ih => cases x with
    | chunk cap d => cases cap <;> simp [plainC, bytesC, plainOf_append, plainOf_bytes, ih]
    | tag t => simp [plainC, bytesC, plainOf, ih]

structure SimC (c : Cfg) (s : S) (I : List CItem) : Prop where
  err : s.err = none
  logged : loggedOf s.outs = if c.hasLog then plainC (tr c) I else []
  plog : plogOf s.outs = if evOn c then plainC (tr c) I else []
  comm : AllOk c.capMax (commOf s.outs) (sectionsGoC (tr c) [] I)
  cap : EvOk c.capMax s.p.cap (openC (tr c) [] I)

theorem tr_nil (c : Cfg) : tr c [] = [] := by
  unfold tr; split
  · decide
  · rfl

theorem logData_plainC (c : Cfg) (d : Bytes) (s : S) (he : s.err = none) (hm : s.p.mode = false) :
    logData c d s = { s with outs := s.outs ++ (if d = [] then [] else
      (if c.hasLog then [Out.log (tr c d)] else []) ++ (if evOn c then [Out.plog c.isStdout (tr c d)] else [])) } := by
  obtain ⟨⟨mode, buf, cap, closed⟩, outs, err⟩ := s
  obtain ⟨capMax, hasLog, strip, isStdout, outEv, errEv, btok, etok⟩ := c
  simp only at he hm
  subst he hm
  cases d with
  | nil => simp [logData, mainCopy_id, guard, log_g0]
  | cons x xs =>
    simp only [logData, mainCopy_id, guard, log_g0, log_g1, log_g2, log_g5, log_g6, log_g7, log_g8, toggle_g0, evOn, tr,
      emit, setP]
    cases hasLog <;> cases isStdout <;> cases outEv <;> cases errEv <;> cases strip <;> simp

theorem logData_capC (c : Cfg) (d : Bytes) (s : S) (he : s.err = none) (hm : s.p.mode = true) (hc : c.capMax ≠ 0) :
    logData c d s = if d = [] then s else { s with p := { s.p with cap := boundWrite s.p.cap (tr c d) c.capMax } } := by
  obtain ⟨⟨mode, buf, cap, closed⟩, outs, err⟩ := s
  obtain ⟨capMax, hasLog, strip, isStdout, outEv, errEv, btok, etok⟩ := c
  simp only at he hm hc
  subst he hm
  cases d with
  | nil => simp [logData, mainCopy_id, guard, log_g0]
  | cons x xs =>
    simp only [logData, mainCopy_id, guard, log_g0, log_g1, log_g2, log_g5, log_g6, log_g7, log_g8, toggle_g0, evOn, tr,
      emit, setP]
    cases strip <;> simp [hc]

theorem simC_data (c : Cfg) (hc : c.capMax ≠ 0) (d : Bytes) (s : S) (I : List CItem) (h : SimC c s I) :
    SimC c (logData c d s) (I ++ [.chunk s.p.mode d]) ∧
    (logData c d s).p.mode = s.p.mode ∧ (logData c d s).p.buf = s.p.buf ∧ (logData c d s).p.closed = s.p.closed := by
  cases hm : s.p.mode
  · rw [logData_plainC c d s h.err hm]
    refine ⟨⟨h.err, ?_, ?_, ?_, ?_⟩, hm, (by first | rfl | trivial), (by first | rfl | trivial)⟩
    · simp only [loggedOf_append, h.logged, plainC_append, plainC]
      by_cases hd : d = []
      · subst hd; cases c.hasLog <;> simp [loggedOf, tr_nil]
      · cases c.hasLog <;> cases evOn c <;> simp [loggedOf, hd]
    · simp only [plogOf_append, h.plog, plainC_append, plainC]
      by_cases hd : d = []
      · subst hd; cases evOn c <;> simp [plogOf, tr_nil]
      · cases c.hasLog <;> cases evOn c <;> simp [plogOf, hd]
    · simp only [commOf_append, sectionsGoC_append, sectionsGoC, List.append_nil]
      have : commOf (if d = [] then [] else
          (if c.hasLog then [Out.log (tr c d)] else []) ++ (if evOn c then [Out.plog c.isStdout (tr c d)] else [])) = [] := by
        by_cases hd : d = []
        · simp [hd, commOf]
        · cases c.hasLog <;> cases evOn c <;> simp [commOf, hd]
      rw [this, List.append_nil]; exact h.comm
    · simp only [openC_append, openC]; exact h.cap
  · rw [logData_capC c d s h.err hm hc]
    by_cases hd : d = []
    · subst hd
      simp only [if_true]
      refine ⟨⟨h.err, ?_, ?_, ?_, ?_⟩, hm, (by first | rfl | trivial), (by first | rfl | trivial)⟩
      · simpa [plainC_append, plainC] using h.logged
      · simpa [plainC_append, plainC] using h.plog
      · simpa [sectionsGoC_append, sectionsGoC] using h.comm
      · simpa [openC_append, openC, tr_nil] using h.cap
    · simp only [hd, if_false]
      refine ⟨⟨h.err, ?_, ?_, ?_, ?_⟩, hm, (by first | rfl | trivial), (by first | rfl | trivial)⟩
      · simp [h.logged, plainC_append, plainC]
      · simp [h.plog, plainC_append, plainC]
      · simp only [sectionsGoC_append, sectionsGoC, List.append_nil]; exact h.comm
      · simp only [openC_append, openC]
        exact boundWrite_inv _ _ _ _ h.cap

theorem simC_toggle (c : Cfg) (hc : 0 < c.capMax) (s : S) (I : List CItem) (h : SimC c s I) :
    SimC c (toggle c s) (I ++ [.tag (!s.p.mode)]) ∧
    (toggle c s).p.mode = (!s.p.mode) ∧ (toggle c s).p.buf = s.p.buf ∧ (toggle c s).p.closed = s.p.closed := by
  obtain ⟨p, outs, err⟩ := s
  have he := h.err
  simp only at he
  subst he
  have hne : (c.capMax != 0) = true := by simp; omega
  cases hm : p.mode
  · simp only [toggle, guard, toggle_a0, toggle_g0, toggle_g1, hm, hne, setP, emit]
    simp only [Option.isSome_none, Bool.false_eq_true, if_false, Bool.not_false, if_true]
    refine ⟨⟨(by first | rfl | trivial), ?_, ?_, ?_, ?_⟩, (by first | rfl | trivial), (by first | rfl | trivial), (by first | rfl | trivial)⟩
    · simpa [plainC_append, plainC] using h.logged
    · simpa [plainC_append, plainC] using h.plog
    · simpa [sectionsGoC_append, sectionsGoC] using h.comm
    · simpa [openC_append, openC] using h.cap
  · simp only [toggle, guard, toggle_a0, toggle_g0, toggle_g1, hm, hne, setP, emit]
    simp only [Option.isSome_none, Bool.false_eq_true, if_false, Bool.not_true, if_true]
    refine ⟨⟨(by first | rfl | trivial), ?_, ?_, ?_, ?_⟩, (by first | rfl | trivial), (by first | rfl | trivial), (by first | rfl | trivial)⟩
    · simpa [plainC_append, plainC, loggedOf_append, loggedOf] using h.logged
    · simpa [plainC_append, plainC, plogOf_append, plogOf] using h.plog
    · simp only [commOf_append, commOf, sectionsGoC_append, sectionsGoC]
      exact AllOk_append h.comm ⟨h.cap, trivial⟩
    · simp only [openC_append, openC]
      exact EvOk_nil _ (by omega)

theorem simC_performAll (c : Cfg) (hc : 0 < c.capMax) (acts : List Act) :
    ∀ (s : S) (I : List CItem), SimC c s I →
      SimC c (performAll c acts s) (I ++ flatC s.p.mode acts) ∧
      (performAll c acts s).p.mode = endMode s.p.mode acts ∧
      (performAll c acts s).p.buf = s.p.buf ∧ (performAll c acts s).p.closed = s.p.closed := by
  induction acts with
  | nil => intro s I h; simpa [performAll, flatC, endMode] using h
  | cons a r ih =>
    intro s I h
    cases a with
    | data d =>
      obtain ⟨h1, m1, b1, c1⟩ := simC_data c (by omega) d s I h
      obtain ⟨h2, m2, b2, c2⟩ := ih _ _ h1
      simp only [performAll, List.foldl_cons, perform] at h2 m2 b2 c2 ⊢
      rw [m1] at h2 m2
      refine ⟨?_, ?_, by rw [b2, b1], by rw [c2, c1]⟩
      · simpa [flatC, List.append_assoc] using h2
      · simpa [endMode] using m2
    | toggle =>
      obtain ⟨h1, m1, b1, c1⟩ := simC_toggle c hc s I h
      obtain ⟨h2, m2, b2, c2⟩ := ih _ _ h1
      simp only [performAll, List.foldl_cons, perform] at h2 m2 b2 c2 ⊢
      rw [m1] at h2 m2
      refine ⟨?_, ?_, by rw [b2, b1], by rw [c2, c1]⟩
      · simpa [flatC, List.append_assoc] using h2
      · simpa [endMode] using m2

end Sv.CapSpec
