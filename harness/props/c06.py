"""
C06 -- the main loop survives anything its children, listeners or the kernel do.
L2 with fault injection at the os level (every realistic errno of fork/pipe/kill/waitpid/read/write, singly at every call index of a
base scenario, and random combinations), plus hostile child output and listener protocol streams.
"""
import errno, os
from props import l2common
import l2

ID = 'C06'
LEAN_PROPS = 'SupervisorModel.Props.C06'
DRIVER = 'drv_c06'          # the `sup` model of drv_c02 plus `mkpipes` (Model/Robust.lean)
GENERATED = ['Proc', 'Sup', 'Robust']
TRUSTED = l2common.TRUSTED
ASSUMPTIONS = ["realistic errno table per call: fork {EAGAIN, ENOMEM}, pipe {EMFILE, ENFILE}, fcntl {EBADF, EINVAL}, kill {EPERM, ESRCH}, waitpid {EINTR, ECHILD}, "
               "read {EINTR, EBADF, EAGAIN}, write {EPIPE, EAGAIN}; errnos outside it (e.g. EIO on a pipe read) are not claimed"]
RULE = ("fault enumeration: for a base scenario, every (call kind, call index, errno) single fault is injected and the scenario re-run "
        "(call kinds fork, pipe, fcntl, kill, waitpid, read, write, counted at the os-level seam, i.e. inside the real make_pipes/readfd/...); "
        "every pipe()/fcntl()/fork() call of a spawn-path base scenario (three-pipe, two-pipe, loop- and API-driven spawns); plus random "
        "scenarios with random faults, hostile output (capture tags, ANSI, invalid UTF-8) and listener streams (garbage, negative/huge RESULT "
        "lengths, READY/RESULT lines with a byte >= 0x80 at every position, read by the guarded loop and by finish()'s drain()); "
        "non-trivial = at least one fault hit or hostile byte consumed; distinct = distinct trace")

ERRNOS = {'fork': [errno.EAGAIN, errno.ENOMEM], 'pipe': [errno.EMFILE, errno.ENFILE], 'kill': [errno.EPERM, errno.ESRCH],
          'waitpid': [errno.EINTR, errno.ECHILD], 'read': [errno.EINTR, errno.EBADF, errno.EAGAIN], 'write': [errno.EPIPE, errno.EAGAIN],
          'fcntl': [errno.EBADF, errno.EINVAL]}


# ---- listener protocol lines with bytes >= 0x80 at every position ---------------------------------------------------

HIGH = [b'\xff', b'\xc3', b'\x80', b'\xfe', b'\xe2\x82', b'\xc3\xa9']      # invalid alone, truncated sequences, one valid non-ASCII char
LINES = [b'READY\n', b'RESULT 2\n', b'RESULT 0\n', b'RESULT 12\n', b'RESULT -1\n', b'RESULT \n', b'RESULT 2']


def mutants(line, highs=HIGH):
    """every way of putting a byte >= 0x80 (or a short non-ASCII sequence) at a position of a protocol line: replacing the
    byte there, or inserted in front of it (position len(line) = appended)"""
    out = []
    for i in range(len(line) + 1):
        for h in highs:
            out.append(line[:i] + h + line[i:])
            if i < len(line):
                out.append(line[:i] + h + line[i + 1:])
    return out


def mutant(rng):
    line = rng.choice(LINES)
    i = rng.randrange(len(line) + 1)
    h = rng.choice(HIGH)
    return line[:i] + h + (line[i:] if rng.random() < 0.5 else line[i + 1:])

HOSTILE = [b'RESULT -1\nx', b'RESULT 99999999999999999999\n', b'READY\nREADY\n', b'\xff\xfe\x00garbage', b'RESULT 2\nOKREADY\n',
           b'<!--XSUPERVISOR:BEGIN-->abc', b'\x1b[31mred\x1b[0m', b'RESULT 0\n', b'RESULT x\n', b'GARBAGE2\nOK']


def hostile_scenario(rng):
    progs = [dict(name='w0', group='g', startsecs=0, autorestart='true', capture=rng.choice([0, 10]), events=True),
             dict(name='l0', group='pool', gprio=1, startsecs=0, autorestart='true', listener=dict(events=['PROCESS_STATE', 'TICK_5'], buffer_size=2)),
             dict(name='w1', group='g2', startsecs=1, autorestart='unexpected', leaves_pipes_open=True)]
    script = []
    for i in range(rng.choice([12, 25])):
        acts = []
        if i == 0 and rng.random() < 0.6:
            acts.append(('lateio', rng.randrange(1, 1 << 30)))
        r = rng.random()
        if r < 0.5:
            acts.append(('write', rng.choice(['w0', 'l0', 'w1']), rng.choice(['stdout', 'stderr']),
                         rng.choice(HOSTILE) if rng.random() < 0.7 else mutant(rng) + rng.choice([b'', b'OK', b'READY\n'])))
        if rng.random() < 0.2:
            acts.append(('exit', rng.choice(['w0', 'l0', 'w1']), rng.choice([0, 1, -9])))
        if rng.random() < 0.2:
            acts.append(('write', 'l0', 'stdout', rng.choice([b'READY\n', b'RESULT 2\nOK', b'RESULT 4\nFAIL', b'REA', b'DY\n'])))
        if rng.random() < 0.25:
            # a listener that follows the protocol up to a point: answers (legal boundary cases included) glued to what it
            # writes next, and -- a third of the time -- exits in the same pass, so that the bytes are read by the
            # unguarded drain() of finish() instead of the guarded dispatcher loop
            acts.append(('write', 'l0', 'stdout', rng.choice([b'READY\n', b'READY\n', b'RESULT 0\nREADY\n', b'RESULT 0\n' + rng.choice(HOSTILE),
                                                             b'RESULT 2\nOKREADY\n', b'RESULT 2\nOK' + rng.choice(HOSTILE), b'RESULT 00\nREADY\n',
                                                             b'RESULT 1\nxREADY\nRESULT 0\nREADY\n'])))
            if rng.random() < 0.33:
                acts.append(('exit', 'l0', rng.choice([0, 1])))
        if rng.random() < 0.15:
            # a large write to a child that does not read its stdin: the pipe fills up
            acts.append(('rpc', 5000 + i, 'supervisor.sendProcessStdin', ('g:w0' if rng.random() < 0.5 else 'g2:w1', 'x' * rng.choice([1000, 70000, 140000]))))
        script.append((rng.choice([512, 1024, 2048, 5 * 1024]), acts))
    return progs, script


ANSWERS = [b'RESULT 2\nOK', b'RESULT 2\nOKREADY\n', b'RESULT 0\nREADY\n', b'RESULT 0\n', b'RESULT 00\nREADY\n', b'RESULT 4\nFAILREADY\n',
           b'RESULT 1\nxREADY\nRESULT 0\nREADY\n', b'RESULT -1\nREADY\n', b'RESULT 2\nOKRESULT 2\nOK', b'RESULT 3\nOK', b'READY\n', b'RESULT \n',
           b'RESULT 2\n\xff\xfeREADY\n', b'RESULT 99999999999999999999\nREADY\n']


def listener_scenario(rng):
    """a listener that follows the protocol (READY, gets an event, answers) with boundary-case answers glued to what it writes
    next, often exiting in the same pass; half of its output is only seen after poll() has returned (lateio), so that it is
    read by the guarded dispatcher loop in some passes and by the unguarded drain() of finish() in others"""
    progs = [dict(name='w0', group='g', startsecs=0, autorestart='true'),
             dict(name='l0', group='pool', gprio=1, startsecs=0, autorestart='true', listener=dict(events=['PROCESS_STATE', 'TICK_5'], buffer_size=3))]
    script = [(1024, [('lateio', rng.randrange(1, 1 << 30), rng.choice([0.5, 0.5, 0.8, 1.0]))]), (1024, [])]
    for _ in range(rng.choice([4, 8])):
        script.append((1024, [('write', 'l0', 'stdout', b'READY\n' if rng.random() < 0.9 else mutant(rng)), ('exit', 'w0', rng.choice([0, 1]))]))
        for _ in range(rng.choice([1, 2])):
            script.append((rng.choice([512, 1024]), []))
        ans = rng.choice(ANSWERS) if rng.random() < 0.6 else mutant(rng) + rng.choice([b'', b'OK', b'OKREADY\n', b'READY\n', b'\n'])
        acts = [('write', 'l0', 'stdout', ans)]
        if rng.random() < 0.5:
            acts.append(('exit', 'l0', rng.choice([0, 1])))
        script.append((1024, acts))
        script.append((1024, []))
    return progs, script + [(1024, [])] * 3


def listener_line_cases():
    """deterministic: a listener that has been sent an event (BUSY) -- or is still awaiting READY (ACKNOWLEDGED) -- writes
    one mutated protocol line (a byte >= 0x80 at every position in turn) and exits; the line is read either by the guarded
    dispatcher loop (every readable pipe reported by poll) or, written after poll() returned, by the unguarded drain() of finish()"""
    progs = [dict(name='w0', group='g', startsecs=0, autorestart='true'),
             dict(name='l0', group='pool', gprio=1, startsecs=0, autorestart='true', listener=dict(events=['PROCESS_STATE'], buffer_size=3))]
    for busy in (True, False):
        for line in ([b'RESULT 2\n', b'RESULT 0\n', b'RESULT 12\n'] if busy else [b'READY\n']):
            for m in mutants(line, [b'\xff', b'\xc3', b'\xc3\xa9']):
                for tail in ((b'', b'OKREADY\n') if busy else (b'',)):
                    for late in (True, False):
                        script = [(1024, []), (1024, [])]
                        if busy:
                            script += [(1024, [('write', 'l0', 'stdout', b'READY\n'), ('exit', 'w0', 0)]), (1024, []), (1024, [])]
                        acts = [('write', 'l0', 'stdout', m + tail), ('exit', 'l0', 0)]
                        if late:
                            acts.insert(0, ('lateio', 1, 0.0))        # nothing is reported readable any more: read at reap
                        script += [(1024, acts), (1024, [('lateio', 1, 1.0)]), (1024, [('write', 'l0', 'stdout', b'READY\n'), ('exit', 'w0', 1)]),
                                   (1024, []), (1024, [])]
                        yield progs, script


def fault_points(ctx, base, calls=None, all_indices=False):
    """every (call, index, errno) of the base scenario: the base is run once to count the invocations of each fallible call"""
    progs, script = base
    k, _ = l2.run_scenario(progs, script)
    out = []
    for call, n in sorted(k.calls.items()):
        if calls is not None and call not in calls:
            continue
        if ctx.tier == 'thorough' or all_indices:
            idxs = range(n)
        else:
            idxs = sorted(set([0, 1, n // 2, n - 1]) & set(range(n)))
        for i in idxs:
            for en in ERRNOS[call]:
                out.append((progs, script, {call: {i: en}}))
    return out


def single_faults(ctx, base):
    return fault_points(ctx, base)


def spawn_path_base(rng):
    """spawns of every shape: three pipes, two pipes (redirect_stderr), by the loop (autostart, autorestart, backoff retry)
    and by an API request, interleaved with another process that must stay supervised"""
    progs = [dict(name='a', group='ga', startsecs=0, autorestart='true', startretries=3),
             dict(name='b', group='gb', startsecs=rng.choice([0, 1]), autorestart='unexpected', redirect_stderr=True),
             dict(name='c', group='gc', autostart=False, startsecs=0, autorestart='false')]
    script = [(1024, []), (1024, [('rpc', 1, 'supervisor.startProcess', ('gc:c', rng.random() < 0.5))]), (1024, []),
              (1024, [('exit', 'a', 1)]), (1024, []), (1024, [('exit', 'b', 2), ('exit', 'c', 0)]), (1024, []),
              (1024, [('rpc', 2, 'supervisor.startProcess', ('gc:c', False))]), (1024, []), (2048, []),
              (1024, [('rpc', 3, 'supervisor.stopProcess', ('ga:a', False))]), (1024, []), (1024, [])]
    return progs, script


def run_faulted(ctx, mons, progs2, script2, fault_at, tag):
    k = l2.SimKernel(progs2, script2)
    k.fault_at = fault_at
    k.run()
    inp = dict(l2.scenario_input(progs2, script2), fault_at={c: {str(i): e for i, e in d.items()} for c, d in fault_at.items()})
    for m in mons:
        m(ctx, k, inp)
    ctx.count(tag + ':' + list(fault_at)[0])
    if any(r['kind'] == 'fault' for r in k.log):
        ctx.count(tag + '-hit')
    ctx.case_done((tag, repr(fault_at), tuple(repr(x) for x in k.log if x['kind'] in ('event', 'fork', 'kill', 'wait'))), True)
    return k


def with_fcntl(rng, scs):
    """random scenarios: four in ten of the injected pipe() failures become failures of the fcntl() calls that follow the pipes"""
    for progs, script in scs:
        script = [(dt, [('fault', 'fcntl', rng.choice(ERRNOS['fcntl']), a[3] if len(a) > 3 else 1)
                        if a[0] == 'fault' and a[1] == 'pipe' and rng.random() < 0.4 else a for a in acts]) for dt, acts in script]
        yield progs, script


def make_pipes_cases(ctx):
    """the real Subprocess.spawn -> ProcessConfig.make_dispatchers -> ServerOptions.make_pipes over the simulated kernel, with the
    i-th pipe()/fcntl() call failing (every i, with and without a stderr pipe): what leaves make_pipes, how many descriptors
    are open at that moment, whether spawn() returns.  Correspondence with Model/Robust.lean (`case mkpipes`), and monitors."""
    from simkernel import SimKernel

    class MPKernel(SimKernel):
        order = None
        fail_index = None
        def fault(self, call):
            if self.order is not None and call in ('pipe', 'fcntl'):
                self.order.append(call)
                if self.fail_index == len(self.order) - 1:
                    en = errno.EMFILE if call == 'pipe' else errno.EBADF
                    self.rec('fault', call=call, errno=en)
                    raise OSError(en, 'injected ' + call)
            return SimKernel.fault(self, call)

    cases, impls = [], []
    for redirect in (False, True):
        ops, lines = [], []
        for i in [None] + list(range(0, 11)):
            k = MPKernel([dict(name='a', group='ga', autostart=False, startsecs=0, redirect_stderr=redirect)], [])
            try:
                k.order, k.fail_index = [], i
                seen = []
                orig = k.options.make_pipes
                def recorder(*a, **kw):
                    try:
                        r = orig(*a, **kw)
                    except BaseException as e:
                        seen.append(('raised:' + type(e).__name__, len(k.fds), len(k.order), '-'))
                        raise
                    nb = ' '.join(str(fd) for fd in sorted(k.fdflags, key=list(k.fdflags).index) if k.fdflags[fd] & os.O_NONBLOCK)
                    seen.append(('ok ' + ' '.join('%s=%s' % (key, '-' if v is None else v) for key, v in r.items()) if isinstance(r, dict) else 'ok %r' % (r,),
                                 len(k.fds), len(k.order), nb))
                    if isinstance(r, dict):
                        for key in ('stdin', 'stdout', 'stderr'):
                            if r.get(key) is not None and not k.fdflags.get(r[key], 0) & os.O_NONBLOCK:
                                ctx.violation('parent-pipe-end-left-blocking:' + key, 'make_pipes() returned a blocking %s descriptor: the main loop can hang on it' % key,
                                              {'level': 'make_pipes', 'redirect_stderr': redirect, 'fail_index': i})
                    return r
                k.options.make_pipes = recorder
                proc = k.options.process_group_configs[0].make_group().processes['a']
                try:
                    proc.spawn()
                    survived = 'handled'
                except Exception as e:
                    survived = 'escapes'
                    ctx.violation('spawn-raised:' + type(e).__name__, 'spawn() raised %r when the %s call (index %s) of make_pipes failed' % (
                        e, k.order[-1] if k.order else '?', i), {'level': 'make_pipes', 'redirect_stderr': redirect, 'fail_index': i})
                what, nopen, ncalls, nb = seen[0] if seen else ('not-called', 0, 0, '-')
                inp = {'level': 'make_pipes', 'redirect_stderr': redirect, 'fail_index': i}
                if what.startswith('raised:') and what != 'raised:OSError':
                    ctx.violation('make-pipes-raised:' + what.split(':')[1], 'make_pipes() raised %s instead of the OSError of the failing %s call' % (
                        what.split(':')[1], k.order[-1] if k.order else '?'), inp)
                if what.startswith('raised:') and nopen:
                    ctx.violation('descriptors-leaked-by-failed-make-pipes', '%d descriptors still open after make_pipes() failed at call %s' % (nopen, i), inp)
                ops.append('fail %s' % ('-' if i is None else i))
                lines.append('%s | open:%d | calls:%d | nonblocking:%s | spawn:%s' % (what, nopen, ncalls, nb, survived))
                ctx.count('make_pipes:' + what.split(' ')[0])
                ctx.case_done(('make_pipes', redirect, i), True)
            finally:
                k.restore()
        cases.append(('case mkpipes stderr=%d base=5' % (0 if redirect else 1), ops)); impls.append(lines)
    ctx.correspond('mkpipes', cases, impls)


def corpus():
    """inputs of defects found or seeded earlier, as (programs, script, fault_at)"""
    two = [dict(name='victim', group='victim', startsecs=0, autorestart='true'), dict(name='other', group='other', startsecs=0, autorestart='true')]
    lst = [dict(name='other', group='other', startsecs=0, autorestart='true'),
           dict(name='lst', group='lst', gprio=1, startsecs=0, autorestart='true', listener=dict(events=['PROCESS_STATE'], buffer_size=3))]
    idle = [(1024, [])] * 4
    out = []
    # EMFILE at the second pipe() of the first spawn (seeded C06-5); the same at the first and third, and at an fcntl()
    for call, idx, en in (('pipe', 1, errno.EMFILE), ('pipe', 0, errno.ENFILE), ('pipe', 2, errno.EMFILE), ('fcntl', 0, errno.EBADF), ('fcntl', 5, errno.EINVAL)):
        out.append((two, [(1024, [])] * 6, {call: {idx: en}}))
    # a BUSY listener answers with a result line that is not valid UTF-8 and exits after poll() returned: read by finish() (seeded C06-6)
    for line in (b'RESULT \xff\xfe2\nOK', b'RESULT caf\xe9\n', b'RESULT 2\xc3\n', b'\xff\xfeRESULT 2\nOK'):
        for late in (True, False):
            out.append((lst, [(1024, []), (1024, []), (1024, [('write', 'lst', 'stdout', b'READY\n'), ('exit', 'other', 0)]), (1024, []), (1024, []),
                              (1024, ([('lateio', 1, 0.0)] if late else []) + [('write', 'lst', 'stdout', line), ('exit', 'lst', 0)]),
                              (1024, [('lateio', 1, 1.0)])] + idle, None))
    return out


def run(ctx):
    rng = ctx.rng
    mons = [l2.mon_c06, l2.mon_c02]
    make_pipes_cases(ctx)
    for progs, script, fault_at in corpus():
        if fault_at:
            run_faulted(ctx, mons, progs, script, fault_at, 'corpus-fault')
        else:
            l2common.run_all(ctx, [(progs, script)], mons, correspond=False)
        ctx.count('corpus')
    # 1. random scenarios with random faults (model correspondence included)
    l2common.run_all(ctx, with_fcntl(rng, l2common.scenarios(ctx, 600, 12000, faults_p=1.0)), mons)
    l2common.run_all(ctx, [l2.unknown_scenario(rng) for _ in range(ctx.n(150, 3000))], mons)
    # 2. hostile streams through real dispatchers and a real listener pool (no model correspondence: output is not in Model/Sup)
    l2common.run_all(ctx, [hostile_scenario(rng) for _ in range(ctx.n(300, 6000))], mons, correspond=False)
    l2common.run_all(ctx, [listener_scenario(rng) for _ in range(ctx.n(150, 3000))], mons, correspond=False)
    l2common.run_all(ctx, listener_line_cases(), mons, correspond=False)
    # 3. exhaustive single faults over base scenarios
    for b in range(ctx.n(2, 12)):
        progs = l2.gen_programs(rng, 3)
        script = l2.gen_script(rng, progs, 14, shutdown=rng.choice([None, 8]), rpcs=True, group_forms=False) + [(1024, [])] * 6
        for progs2, script2, fault_at in single_faults(ctx, (progs, script)):
            run_faulted(ctx, mons, progs2, script2, fault_at, 'single-fault')
    # 4. the spawn path: a fault at every pipe() (first, second, third of every spawn) and every fcntl() call inside the real
    #    make_pipes(), and at every fork(), of a base scenario with loop-driven and API-driven spawns (all indices, both tiers)
    for b in range(ctx.n(1, 4)):
        base = spawn_path_base(rng)
        for progs2, script2, fault_at in fault_points(ctx, base, calls=('pipe', 'fcntl', 'fork'), all_indices=True):
            run_faulted(ctx, mons, progs2, script2, fault_at, 'spawn-fault')


def replay(ctx, data):
    inp = data['input']
    if inp.get('level') == 'make_pipes':
        return make_pipes_cases(ctx)
    progs, script = l2.scenario_from_input(inp)
    k = l2.SimKernel(progs, script)
    if inp.get('fault_at'):
        k.fault_at = {c: {int(i): e for i, e in d.items()} for c, d in inp['fault_at'].items()}
    k.run()
    for m in (l2.mon_c06, l2.mon_c02):
        m(ctx, k, inp)


TECHNIQUE = "Lean 4: make_pipes interpreted from its regenerated statement table over a kernel where any pipe()/fcntl() fails and None descriptors are TypeErrors (fails cleanly, spawn handles it); every decode in dispatchers.py guarded (regenerated handler table); under the per-process bookkeeping invariant no operation the main loop performs raises (transition_ok, finish_ok incl. UNKNOWN, group stop, RPCs), RPC exceptions are contained; fault enumeration over the os-level seam under the unmodified runforever()"
LEVEL_TEXT = ("no_assertion_in_pass_ops: for every process state satisfying the invariant (which every history preserves), every clock reading, "
              "mood and environment answer, transition/finish/stop_all/start/stop/signal complete without the AssertionError of _assertInState; "
              "daemon_never_asserts: no sequence of main-loop passes, under any environment and any RPCs, ends with an AssertionError escaping the loop "
              "(induction over passes with the daemon invariant SInv); combined with exhaustive single-fault injection at every call index of "
              "base scenarios, hostile output/listener streams, protocol-following listeners with late I/O and signalling-failure stories")
LEVEL_NOTE = ("the theorems cover the Subprocess/daemon logic, make_pipes/close_fd/spawn exception classes (make_pipes_fails_cleanly, spawn_survives_pipe_failure) and the "
              "decode sites of dispatchers.py (dispatcher_decodes_guarded); dispatcher parsing robustness is C07/C08/C10's models; errnos outside the realistic table are not claimed")
DESIGN_REF = "DESIGN.md section 6, C06"
