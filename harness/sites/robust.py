"""Exception containment on the paths the main loop runs unguarded (C06: the main loop survives anything ...).

What decides whether a transient kernel error or hostile bytes end supervisord is not a comparison or a constant but
*which exception class reaches which handler*.  This module regenerates, as plain Lean tables,
  * ServerOptions.make_pipes (options.py): the keys of the (all-None) pipes dict, the statements of the try body in order
    (pipe() calls with the keys they fill, the optional stderr pipe, the loop that makes the parent ends non-blocking and
    whether it skips None entries), the classes its handler catches, whether the clean-up loop over pipes.values() skips
    None entries before close_fd(), whether it re-raises;
  * ServerOptions.close_fd: the classes swallowed around os.close;
  * ServerOptions.readfd: the classes caught around os.read and the errno names mapped to "no data";
  * Subprocess.spawn (process.py): the classes handled around config.make_dispatchers() and options.fork();
  * every strict bytes->text conversion in supervisor/dispatchers.py (x.decode(...), as_string(x)) with the handler classes
    of the try statements around it (dispatcher code runs from finish() -> drain() without the loop's per-dispatcher guard).
Model/Robust.lean interprets the make_pipes tables over a kernel in which any one pipe()/fcntl() call fails and in which
os.close(None) / fcntl(None) raise TypeError; Props/C06.lean proves that every failure leaves make_pipes as an OSError with
every descriptor it opened closed again, that spawn() handles that OSError, and that no decode in a dispatcher is unguarded.
Statements of the try body that are none of the recognised forms are kept as opaque `other` steps (harmless additions such
as logging do not disturb the proofs); an unrecognised *shape* of the handler or of the loops is an extraction error."""
import ast, os
import extract
from extract import find_func, Untranslatable, lean_str
from sites.outdisp import decode_sites, _handler_names

LEAN_MODULE = 'Robust'
IMPORTS = []
OPENS = []


def _tree(file):
    return ast.parse(open(os.path.join(extract.REPO, file)).read())


def _src(n):
    return ast.unparse(n)


def _strs(xs):
    return '[' + ', '.join(lean_str(x) for x in xs) + ']'


def _bool(b):
    return 'true' if b else 'false'


def _is_not_none_test(test, var):
    return isinstance(test, ast.Compare) and len(test.ops) == 1 and isinstance(test.ops[0], ast.IsNot) \
        and _src(test.left) == var and isinstance(test.comparators[0], ast.Constant) and test.comparators[0].value is None


def _loop_skips_none(loop, callee_pred):
    """for <v> in ...: [if <v> is not None:] <statements containing the call>  ->  does the guard exist?"""
    var = _src(loop.target)
    body = loop.body
    def is_none_test(test):
        return isinstance(test, ast.Compare) and len(test.ops) == 1 and isinstance(test.ops[0], ast.Is) and _src(test.left) == var \
            and isinstance(test.comparators[0], ast.Constant) and test.comparators[0].value is None
    if len(body) == 1 and isinstance(body[0], ast.If) and not body[0].orelse and _is_not_none_test(body[0].test, var):
        inner = body[0].body
        guarded = True
    elif body and isinstance(body[0], ast.If) and not body[0].orelse and is_none_test(body[0].test) \
            and len(body[0].body) == 1 and isinstance(body[0].body[0], ast.Continue):
        inner = body[1:]                # `if fd is None: continue`
        guarded = True
    else:
        inner = body
        guarded = False
    if not any(callee_pred(n) for st in inner for n in ast.walk(st)):
        raise Untranslatable('loop at line %d does not contain the expected call' % loop.lineno)
    return guarded


def _make_pipes():
    out = ['-- supervisor/options.py ServerOptions.make_pipes']
    f = find_func(_tree('supervisor/options.py'), 'ServerOptions.make_pipes')
    args = [a.arg for a in f.args.args]
    flag = args[1] if len(args) > 1 else 'stderr'
    dict_assign = next((st for st in f.body if isinstance(st, ast.Assign) and isinstance(st.value, ast.Dict)), None)
    if dict_assign is None:
        raise Untranslatable('make_pipes: no dict of pipes')
    dname = _src(dict_assign.targets[0])
    keys = []
    for k, v in zip(dict_assign.value.keys, dict_assign.value.values):
        if not (isinstance(v, ast.Constant) and v.value is None):
            raise Untranslatable('make_pipes: initial entry %s is not None' % _src(k))
        keys.append(k.value)
    out.append('def mkPipesKeys : List String := %s' % _strs(keys))
    tr = next((st for st in f.body if isinstance(st, ast.Try)), None)
    if tr is None or len(tr.handlers) != 1 or tr.orelse or tr.finalbody:
        raise Untranslatable('make_pipes: expected one try/except')

    def pipe_step(st):
        # a, b = os.pipe() followed (anywhere later) by pipes[k1], pipes[k2] = a, b  -- or the direct form
        if isinstance(st, ast.Assign) and isinstance(st.value, ast.Call) and _src(st.value.func) == 'os.pipe':
            t = st.targets[0]
            if isinstance(t, ast.Tuple) and len(t.elts) == 2:
                return [_src(e) for e in t.elts]
        return None

    def store_step(st):
        if isinstance(st, ast.Assign) and isinstance(st.targets[0], ast.Tuple) and isinstance(st.value, ast.Tuple):
            ts, vs = st.targets[0].elts, st.value.elts
            if len(ts) == len(vs) and all(isinstance(t, ast.Subscript) and _src(t.value) == dname and isinstance(t.slice, ast.Constant) for t in ts):
                return [(t.slice.value, _src(v)) for t, v in zip(ts, vs)]
        return None

    steps = []

    def walk(stmts, cond):
        pending = None          # names bound by the last os.pipe()
        for st in stmts:
            ps, ss = pipe_step(st), store_step(st)
            if ps is not None:
                if all(isinstance(t, ast.Subscript) for t in st.targets[0].elts):     # pipes[a], pipes[b] = os.pipe()
                    steps.append(('pipe' + cond, [t.slice.value for t in st.targets[0].elts]))
                else:
                    pending = ps
                    steps.append(('pipe' + cond, ps))         # names for now; replaced by keys at the store
            elif ss is not None and pending is not None and sorted(v for _, v in ss) == sorted(pending):
                order = {v: k for k, v in ss}
                steps[-1] = (steps[-1][0], [order[n] for n in pending])
                pending = None
            elif isinstance(st, ast.If) and not st.orelse and _src(st.test) == flag and not cond:
                walk(st.body, '-if-stderr')
            elif isinstance(st, ast.For) and any(isinstance(n, ast.Call) and _src(n.func) == 'fcntl.fcntl' for n in ast.walk(st)):
                it = st.iter
                if not isinstance(it, (ast.Tuple, ast.List)) or not all(
                        isinstance(e, ast.Subscript) and _src(e.value) == dname and isinstance(e.slice, ast.Constant) for e in it.elts):
                    raise Untranslatable('make_pipes: non-blocking loop iterates %s' % _src(it))
                guarded = _loop_skips_none(st, lambda n: isinstance(n, ast.Call) and _src(n.func) == 'fcntl.fcntl')
                ncalls = sum(1 for n in ast.walk(st) if isinstance(n, ast.Call) and _src(n.func) == 'fcntl.fcntl')
                steps.append(('nonblock' + ('' if guarded else '-unguarded'), [e.slice.value for e in it.elts], ncalls))
            elif isinstance(st, ast.Return):
                steps.append(('return', [_src(st.value) if st.value is not None else 'None']))
            else:
                steps.append(('other', [_src(st).split('\n')[0][:80]]))
    walk(tr.body, '')
    out.append('-- the try body, statement by statement: (kind, fcntl calls per descriptor, keys / names); kinds: pipe, pipe-if-stderr, nonblock, nonblock-unguarded, return, other')
    out.append('def mkPipesSteps : List (String × Nat × List String) := [%s]' % ', '.join(
        '(%s, %d, %s)' % (lean_str(st[0]), st[2] if len(st) > 2 else 0, _strs(st[1])) for st in steps))
    h = tr.handlers[0]
    out.append('def mkPipesHandlerCatches : List String := %s' % _strs(_handler_names(h)))
    loops = [st for st in h.body if isinstance(st, ast.For)]
    if len(loops) != 1 or _src(loops[0].iter) != dname + '.values()':
        raise Untranslatable('make_pipes: clean-up is not one loop over %s.values()' % dname)
    is_close = lambda n: isinstance(n, ast.Call) and _src(n.func).endswith('close_fd')
    out.append('-- the clean-up loop of the handler: `if fd is not None:` in front of close_fd(fd)?')
    out.append('def mkPipesCleanupSkipsNone : Bool := %s' % _bool(_loop_skips_none(loops[0], is_close)))
    last = h.body[-1]
    out.append('def mkPipesCleanupReraises : Bool := %s' % _bool(isinstance(last, ast.Raise) and last.exc is None))
    return out


def _guarded_call(file, qual, callee):
    """handler classes of the try whose body contains the call `callee` in `qual` (innermost)"""
    f = find_func(_tree(file), qual)
    best = None
    for n in ast.walk(f):
        if isinstance(n, ast.Try) and any(isinstance(c, ast.Call) and _src(c.func) == callee for st in n.body for c in ast.walk(st)):
            best = n
    if best is None:
        if not any(isinstance(c, ast.Call) and _src(c.func) == callee for c in ast.walk(f)):
            raise Untranslatable('%s: no call of %s' % (qual, callee))
        return [], None
    return [x for h in best.handlers for x in _handler_names(h)], best


def _readfd():
    out = ['-- supervisor/options.py ServerOptions.readfd: classes caught around os.read, errno names turned into "no data"']
    hs, tr = _guarded_call('supervisor/options.py', 'ServerOptions.readfd', 'os.read')
    out.append('def readfdCatches : List String := %s' % _strs(hs))
    names = []
    if tr is not None:
        for n in ast.walk(tr.handlers[0]):
            if isinstance(n, ast.Compare) and len(n.ops) == 1 and isinstance(n.ops[0], (ast.NotIn, ast.In)) and isinstance(n.comparators[0], (ast.Tuple, ast.List)):
                names = [_src(e).split('.')[-1] for e in n.comparators[0].elts]
    import errno as _errno
    out.append('def readfdTolerates : List String := %s' % _strs(names))
    out.append('-- the same as numbers on this platform (EWOULDBLOCK = EAGAIN on Linux)')
    out.append('def readfdToleratesNum : List Nat := [%s]' % ', '.join(str(getattr(_errno, n)) for n in names if hasattr(_errno, n)))
    out.append('def errnoEAGAIN : Nat := %d' % _errno.EAGAIN)
    out.append('def errnoEINTR : Nat := %d' % _errno.EINTR)
    out.append('def errnoEBADF : Nat := %d' % _errno.EBADF)
    return out


def TABLES():
    out = []
    out += _make_pipes()
    out.append('-- supervisor/options.py ServerOptions.close_fd: classes swallowed around os.close')
    out.append('def closeFdCatches : List String := %s' % _strs(_guarded_call('supervisor/options.py', 'ServerOptions.close_fd', 'os.close')[0]))
    out += _readfd()
    out.append('-- supervisor/process.py Subprocess.spawn: classes handled around make_dispatchers() (which calls make_pipes) and fork()')
    out.append('def spawnMakeDispatchersCatches : List String := %s' % _strs(
        _guarded_call('supervisor/process.py', 'Subprocess.spawn', 'self.config.make_dispatchers')[0]))
    out.append('def spawnForkCatches : List String := %s' % _strs(_guarded_call('supervisor/process.py', 'Subprocess.spawn', 'options.fork')[0]))
    out.append('-- supervisor/dispatchers.py: every strict bytes->text conversion (x.decode(..) without errors=, as_string(x)) of data, by method,')
    out.append('-- with the handler classes of the try statements whose body encloses it')
    tree = _tree('supervisor/dispatchers.py')
    rows = []
    for cls in tree.body:
        if isinstance(cls, ast.ClassDef):
            for fn in cls.body:
                if isinstance(fn, ast.FunctionDef):
                    for src, hs in decode_sites(fn):
                        rows.append('(%s, %s, %s)' % (lean_str(cls.name + '.' + fn.name), lean_str(src), _strs(hs)))
        elif isinstance(cls, ast.FunctionDef):
            for src, hs in decode_sites(cls):
                rows.append('(%s, %s, %s)' % (lean_str(cls.name), lean_str(src), _strs(hs)))
    out.append('def dispatcherDecodeSites : List (String × String × List String) := [%s]' % ', '.join(rows))
    return out
