import SupervisorModel.Model.Rotate
set_option linter.unusedSimpArgs false
namespace Sv.Props.C19
open Sv Sv.Rotate Sv.Gen.Rotate

theorem doRollover_maxbytes0 (c : Cfg) (s : S) (h : c.maxBytes ≤ 0) : doRollover c s = s := by
  unfold doRollover okThen
  split
  · rfl
  · simp [doRollover_g0, h]

end Sv.Props.C19
