"""EventListenerPool._acceptEvent / dispatch / transition, new_serial (supervisor/process.py)."""
from extract import Site

LEAN_MODULE = 'Pool'
IMPORTS = []
OPENS = []


def TABLES():
    from supervisor import process
    from supervisor.compat import maxint
    out = ['-- supervisor.compat.maxint', 'def maxint : Int := %d' % maxint]
    out.append('-- initial serial of a pool / of GlobalSerial')
    out.append('def initialSerial : Int := %d' % type(process.GlobalSerial)().serial)
    out.extend(accept_order())
    return out


def accept_order():
    """where `_acceptEvent` draws its serials relative to the overflow pop and the buffer insertion (source order
    of the statements; every one of them is executed at most once per call)"""
    import ast, os
    from extract import REPO, find_func
    func = find_func(ast.parse(open(os.path.join(REPO, 'supervisor/process.py')).read()), 'EventListenerPool._acceptEvent')
    pos = {}
    for n in ast.walk(func):
        if isinstance(n, ast.Call):
            f = ast.unparse(n.func)
            if f == 'new_serial' and len(n.args) == 1:
                pos.setdefault('draw:' + ast.unparse(n.args[0]), []).append(n.lineno)
            elif f in ('self.event_buffer.insert', 'self.event_buffer.append'):
                pos.setdefault('insert', []).append(n.lineno)
            elif f == 'self.event_buffer.pop':
                pos.setdefault('pop', []).append(n.lineno)
    out = ['-- statement order inside EventListenerPool._acceptEvent: %s' % ', '.join('%s@%s' % (k, v) for k, v in sorted(pos.items()))]
    for ident, key in (('serialDrawBeforeInsert', 'draw:GlobalSerial'), ('poolSerialDrawBeforeInsert', 'draw:self')):
        if len(pos.get(key, [])) == 1 and pos.get('insert'):
            out.append('def %s : Bool := %s' % (ident, 'true' if pos[key][0] < min(pos['insert']) else 'false'))
        else:
            out.append('-- %s  UNTRANSLATED (expected exactly one new_serial(%s) call and an insertion)' % (ident, key[5:]))
    return out


SITES = [
    Site('supervisor/process.py', 'new_serial', 'newSerial', '(serial : Int)',
         {'inst.serial': ('serial', 'int')}, consts={'maxint': 'maxint'}),
    Site('supervisor/process.py', 'EventListenerPool._acceptEvent', 'accept',
         '(hasSerial hasPoolSerials inPoolSerials head : Bool) (buflen bufsize : Int) (bufNonEmpty : Bool)',
         {"not hasattr(event, 'serial')": ('(!hasSerial)', 'bool'),
          "not hasattr(event, 'pool_serials')": ('(!hasPoolSerials)', 'bool'),
          'self.config.name not in event.pool_serials': ('(!inPoolSerials)', 'bool'),
          'head': ('head', 'bool'),
          'len(self.event_buffer)': ('buflen', 'int'), 'self.config.buffer_size': ('bufsize', 'int'),
          'self.event_buffer': ('bufNonEmpty', 'truthy:bufNonEmpty')},
         want={'accept_g2', 'accept_g3', 'accept_g4', 'accept_g5', 'accept_g6'}),
    # which counter object `_acceptEvent` hands to new_serial(): first call -> event.serial, second call ->
    # event.pool_serials[name].  `GlobalSerial` / `self` are rendered as the *value* of that object's counter, so the
    # model draws from (and the theorems are about) whatever the source passes.
    Site('supervisor/process.py', 'EventListenerPool._acceptEvent', 'acceptSer', '(gserial pserial : Int)',
         {'GlobalSerial': ('gserial', 'int'), 'self': ('pserial', 'int')},
         calls={'new_serial'}, want={'acceptSer_c0_0', 'acceptSer_c1_0'}),
    Site('supervisor/process.py', 'EventListenerPool.transition', 'ptrans',
         '(running ready capable : Bool) (throttle now last : Int)',
         {'process.state == ProcessStates.RUNNING': ('running', 'bool'),
          'process.listener_state == EventListenerStates.READY': ('ready', 'bool'),
          'dispatch_capable': ('capable', 'bool'), 'self.dispatch_throttle': ('throttle', 'int'),
          'now': ('now', 'int'), 'self.last_dispatch': ('last', 'int')},
         want={'ptrans_g0', 'ptrans_g1', 'ptrans_g2', 'ptrans_g3'}),
]
