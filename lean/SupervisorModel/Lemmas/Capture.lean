import SupervisorModel.Lemmas.CaptureSpec
/-
  Helper lemmas for C07/C08: what `_log` / `toggle_capturemode` / `BoundIO.write` do to the
  observables, as a simulation relation `Sim` between a dispatcher state and the list of
  per-byte decisions made so far.
-/
set_option linter.unusedSimpArgs false
namespace Sv.CapSpec
open Sv Sv.OutDisp Sv.Gen.OutDisp

theorem loggedOf_append (a b : List Out) : loggedOf (a ++ b) = loggedOf a ++ loggedOf b := by
  induction a with
  | nil => rfl
  | cons x r ih => cases x <;> simp [loggedOf, ih]
theorem plogOf_append (a b : List Out) : plogOf (a ++ b) = plogOf a ++ plogOf b := by
  induction a with
  | nil => rfl
  | cons x r ih => cases x <;> simp [plogOf, ih]
theorem commOf_append (a b : List Out) : commOf (a ++ b) = commOf a ++ commOf b := by
  induction a with
  | nil => rfl
  | cons x r ih => cases x <;> simp [commOf, ih]

/-- event data `ev` is acceptable for enclosed bytes `sec` under `capture_maxbytes = mx` -/
def EvOk (mx : Int) (ev sec : Bytes) : Prop :=
  ev <:+ sec ∧ (ev.length : Int) ≤ mx ∧ ((sec.length : Int) ≤ mx → ev = sec)

/-- `BoundIO.write` keeps: content is a trailing part of everything written, never longer than
    maxbytes, and everything written as long as that fits -/
theorem boundWrite_inv (mx : Int) (K cur d : Bytes) (h : EvOk mx K cur) :
    EvOk mx (boundWrite K d mx) (cur ++ d) := by
  obtain ⟨h1, h2, h3⟩ := h
  unfold boundWrite
  simp only [bound_write_g0, bound_write_a1, bound_write_a2, bound_write_g1, bound_write_a3, Py.sliceFrom, Py.normIdx]
  have e1 : ¬ ((d.length : Int) < 0) := by omega
  simp only [e1, if_false, Int.toNat_natCast]
  by_cases g0 : mx < (K.length : Int) + d.length
  · have hg0 : Sv.ilt mx ((K.length : Int) + d.length) = true := by simp [g0]
    simp only [hg0, if_true]
    have hs1 : (K.drop (min d.length K.length) ++ d) <:+ (cur ++ d) := by
      obtain ⟨t, ht⟩ := (List.drop_suffix (min d.length K.length) K).trans h1
      exact ⟨t, by rw [← ht]; simp⟩
    have hnf : ¬ ((cur ++ d).length : Int) ≤ mx := by
      intro hf
      have : (cur.length : Int) ≤ mx := by simp at hf; omega
      have := h3 this
      subst this
      simp at hf; omega
    generalize (K.drop (min d.length K.length) ++ d) = L at hs1 ⊢
    split
    · rename_i g1
      simp at g1
      have hi : ¬ ((L.length : Int) - mx < 0) := by omega
      simp only [hi, if_false]
      refine ⟨(List.drop_suffix _ _).trans hs1, ?_, fun hf => absurd hf hnf⟩
      simp only [List.length_drop]
      omega
    · rename_i g1
      simp at g1
      exact ⟨hs1, by omega, fun hf => absurd hf hnf⟩
  · have hg0 : Sv.ilt mx ((K.length : Int) + d.length) = false := by simp [g0]
    simp only [hg0, Bool.false_eq_true, if_false]
    have hg1 : Sv.ilt mx (((K ++ d).length : Nat) : Int) = false := by simp; omega
    simp only [hg1, Bool.false_eq_true, if_false]
    refine ⟨?_, by simp; omega, ?_⟩
    · obtain ⟨t, ht⟩ := h1
      exact ⟨t, by rw [← ht]; simp⟩
    · intro hf
      have : (cur.length : Int) ≤ mx := by simp at hf; omega
      rw [h3 this]

/-- one acceptable event per closed section, in order -/
def AllOk (mx : Int) : List Bytes → List Bytes → Prop
  | [], [] => True
  | e :: es, s :: ss => EvOk mx e s ∧ AllOk mx es ss
  | _, _ => False

theorem AllOk_append {mx : Int} : ∀ {a b a' b' : List Bytes}, AllOk mx a b → AllOk mx a' b' → AllOk mx (a ++ a') (b ++ b')
  | [], [], _, _, _, h => by simpa using h
  | _ :: _, [], _, _, h, _ => by simp [AllOk] at h
  | [], _ :: _, _, _, h, _ => by simp [AllOk] at h
  | e :: es, s :: ss, _, _, h, h' => by
    simp only [List.cons_append, AllOk] at h ⊢
    exact ⟨h.1, AllOk_append h.2 h'⟩

theorem AllOk_length {mx : Int} : ∀ {a b : List Bytes}, AllOk mx a b → a.length = b.length
  | [], [], _ => rfl
  | _ :: _, [], h => by simp [AllOk] at h
  | [], _ :: _, h => by simp [AllOk] at h
  | _ :: es, _ :: ss, h => by simp only [AllOk] at h; simp [AllOk_length h.2]

theorem EvOk_nil (mx : Int) (h : 0 ≤ mx) : EvOk mx [] [] := ⟨List.suffix_refl _, by simpa using h, fun _ => rfl⟩

/-- dispatcher state `s` has produced exactly the effects required by the per-byte decisions `items` -/
structure Sim (c : Cfg) (s : S) (items : List Item) : Prop where
  err : s.err = none
  logged : loggedOf s.outs = if c.hasLog then plainOf items else []
  plog : plogOf s.outs = if evOn c then plainOf items else []
  comm : AllOk c.capMax (commOf s.outs) (sectionsGo [] items)
  cap : EvOk c.capMax s.p.cap (openOf [] items)

theorem logData_plain (c : Cfg) (d : Bytes) (s : S) (he : s.err = none) (hst : c.strip = false)
    (hm : s.p.mode = false) :
    logData c d s = { s with outs := s.outs ++ (if d = [] then [] else
      (if c.hasLog then [Out.log d] else []) ++ (if evOn c then [Out.plog c.isStdout d] else [])) } := by
  obtain ⟨⟨mode, buf, cap, closed⟩, outs, err⟩ := s
  obtain ⟨capMax, hasLog, strip, isStdout, outEv, errEv, btok, etok⟩ := c
  simp only at he hm hst
  subst he hm hst
  cases d with
  | nil => simp [logData, mainCopy_id, guard, log_g0]
  | cons x xs =>
    simp only [logData, mainCopy_id, guard, log_g0, log_g1, log_g2, log_g5, log_g6, log_g7, log_g8, toggle_g0, evOn,
      emit, setP]
    cases hasLog <;> cases isStdout <;> cases outEv <;> cases errEv <;> simp

theorem logData_cap (c : Cfg) (d : Bytes) (s : S) (he : s.err = none) (hst : c.strip = false)
    (hm : s.p.mode = true) (hc : c.capMax ≠ 0) :
    logData c d s = if d = [] then s else { s with p := { s.p with cap := boundWrite s.p.cap d c.capMax } } := by
  obtain ⟨⟨mode, buf, cap, closed⟩, outs, err⟩ := s
  obtain ⟨capMax, hasLog, strip, isStdout, outEv, errEv, btok, etok⟩ := c
  simp only at he hm hst hc
  subst he hm hst
  cases d with
  | nil => simp [logData, mainCopy_id, guard, log_g0]
  | cons x xs =>
    simp only [logData, mainCopy_id, guard, log_g0, log_g1, log_g2, log_g5, log_g6, log_g7, log_g8, toggle_g0, evOn,
      emit, setP]
    simp [hc]

theorem sim_data (c : Cfg) (hc : c.capMax ≠ 0) (hst : c.strip = false) (d : Bytes) (s : S) (items : List Item)
    (h : Sim c s items) :
    Sim c (logData c d s) (items ++ d.map (.byte s.p.mode)) ∧
    (logData c d s).p.mode = s.p.mode ∧ (logData c d s).p.buf = s.p.buf ∧ (logData c d s).p.closed = s.p.closed := by
  cases hm : s.p.mode
  · rw [logData_plain c d s h.err hst hm]
    refine ⟨⟨h.err, ?_, ?_, ?_, ?_⟩, hm, (by first | rfl | trivial), (by first | rfl | trivial)⟩
    · simp only [loggedOf_append, h.logged, plainOf_append, plainOf_bytes]
      cases d <;> cases c.hasLog <;> cases evOn c <;> simp [loggedOf]
    · simp only [plogOf_append, h.plog, plainOf_append, plainOf_bytes]
      cases d <;> cases c.hasLog <;> cases evOn c <;> simp [plogOf]
    · simp only [commOf_append, sectionsGo_append, sectionsGo_bytes, List.append_nil]
      have : commOf (if d = [] then [] else
          (if c.hasLog then [Out.log d] else []) ++ (if evOn c then [Out.plog c.isStdout d] else [])) = [] := by
        cases d <;> cases c.hasLog <;> cases evOn c <;> simp [commOf]
      rw [this, List.append_nil]; exact h.comm
    · simp only [openOf_append, openOf_bytes]; exact h.cap
  · rw [logData_cap c d s h.err hst hm hc]
    by_cases hd : d = []
    · subst hd
      simp only [if_true, List.map_nil, List.append_nil]
      exact ⟨h, hm, (by first | rfl | trivial), (by first | rfl | trivial)⟩
    · simp only [hd, if_false]
      refine ⟨⟨h.err, ?_, ?_, ?_, ?_⟩, hm, (by first | rfl | trivial), (by first | rfl | trivial)⟩
      · simp [h.logged, plainOf_append, plainOf_bytes]
      · simp [h.plog, plainOf_append, plainOf_bytes]
      · simp only [sectionsGo_append, sectionsGo_bytes, List.append_nil]; exact h.comm
      · simp only [openOf_append, openOf_bytes, if_true]
        exact boundWrite_inv _ _ _ _ h.cap

theorem sim_toggle (c : Cfg) (hc : 0 < c.capMax) (s : S) (items : List Item) (h : Sim c s items) :
    Sim c (toggle c s) (items ++ [.tag (!s.p.mode)]) ∧
    (toggle c s).p.mode = (!s.p.mode) ∧ (toggle c s).p.buf = s.p.buf ∧ (toggle c s).p.closed = s.p.closed := by
  obtain ⟨p, outs, err⟩ := s
  have he := h.err
  simp only at he
  subst he
  have hne : (c.capMax != 0) = true := by simp; omega
  cases hm : p.mode
  · -- BEGIN tag: start capturing
    simp only [toggle, guard, toggle_a0, toggle_g0, toggle_g1, hm, hne, setP, emit]
    simp only [Option.isSome_none, Bool.false_eq_true, if_false, Bool.not_false, if_true]
    refine ⟨⟨(by first | rfl | trivial), ?_, ?_, ?_, ?_⟩, (by first | rfl | trivial), (by first | rfl | trivial), (by first | rfl | trivial)⟩
    · simpa [plainOf_append, plainOf] using h.logged
    · simpa [plainOf_append, plainOf] using h.plog
    · simpa [sectionsGo_append, sectionsGo] using h.comm
    · simpa [openOf_append, openOf] using h.cap
  · -- END tag: emit the event, reset the capture buffer
    simp only [toggle, guard, toggle_a0, toggle_g0, toggle_g1, hm, hne, setP, emit]
    simp only [Option.isSome_none, Bool.false_eq_true, if_false, Bool.not_true, if_true]
    refine ⟨⟨(by first | rfl | trivial), ?_, ?_, ?_, ?_⟩, (by first | rfl | trivial), (by first | rfl | trivial), (by first | rfl | trivial)⟩
    · simpa [plainOf_append, plainOf, loggedOf_append, loggedOf] using h.logged
    · simpa [plainOf_append, plainOf, plogOf_append, plogOf] using h.plog
    · simp only [commOf_append, commOf, sectionsGo_append, sectionsGo]
      exact AllOk_append h.comm ⟨h.cap, trivial⟩
    · simp only [openOf_append, openOf]
      exact EvOk_nil _ (by omega)

theorem sim_performAll (c : Cfg) (hc : 0 < c.capMax) (hst : c.strip = false) (acts : List Act) :
    ∀ (s : S) (items : List Item), Sim c s items →
      Sim c (performAll c acts s) (items ++ flat s.p.mode acts) ∧
      (performAll c acts s).p.mode = endMode s.p.mode acts ∧
      (performAll c acts s).p.buf = s.p.buf ∧ (performAll c acts s).p.closed = s.p.closed := by
  induction acts with
  | nil => intro s items h; simpa [performAll, flat, endMode] using h
  | cons a r ih =>
    intro s items h
    cases a with
    | data d =>
      obtain ⟨h1, m1, b1, c1⟩ := sim_data c (by omega) hst d s items h
      obtain ⟨h2, m2, b2, c2⟩ := ih _ _ h1
      simp only [performAll, List.foldl_cons, perform] at h2 m2 b2 c2 ⊢
      rw [m1] at h2 m2
      refine ⟨?_, ?_, by rw [b2, b1], by rw [c2, c1]⟩
      · simpa [flat, List.append_assoc] using h2
      · simpa [endMode] using m2
    | toggle =>
      obtain ⟨h1, m1, b1, c1⟩ := sim_toggle c hc s items h
      obtain ⟨h2, m2, b2, c2⟩ := ih _ _ h1
      simp only [performAll, List.foldl_cons, perform] at h2 m2 b2 c2 ⊢
      rw [m1] at h2 m2
      refine ⟨?_, ?_, by rw [b2, b1], by rw [c2, c1]⟩
      · simpa [flat, List.append_assoc] using h2
      · simpa [endMode] using m2

end Sv.CapSpec
