"""
C04 -- stop requests: right signal, right target, bounded escalation, final.
Correspondence: the shared L1 population (real Subprocess/ProcessGroup/rpcinterface vs Model/ProcOps.lean),
biased towards stop requests, late/early passes and clock jumps while STOPPING.
Monitor: the kill log (time, target, signal) of the implementation against the deadlines the property states.
"""
import proc_l1
from proc_l1 import L1, op_line, cfg_line, gen_cfg, TICK
from props import c01

ID = 'C04'
LEAN_PROPS = 'SupervisorModel.Props.C04'
DRIVER = 'drv_c01'
GENERATED = ['Proc']
TRUSTED = c01.TRUSTED
ASSUMPTIONS = c01.ASSUMPTIONS + ["escalation deadline semantics under clock jumps: the deadline is the minimum over all observations t made while STOPPING of t + stopwaitsecs (what 'never postpones beyond stopwaitsecs after the jump' means operationally)"]
RULE = ("operation histories as for C01 but biased: most histories contain a stop request (RPC or group stop) in STARTING/RUNNING/BACKOFF "
        "followed by passes at, just before and after the deadline, children that die at once / late / only on SIGKILL / just before the "
        "signal (ESRCH), clock jumps in both directions while STOPPING; about a third of the histories are daemon shutdowns/restarts: "
        "the request is the group-wide stop_all() of runforever(), issued again before every pass (mood SHUTDOWN/RESTARTING, passes at most "
        "a second apart, a child that survives the stop signal) until well past the deadline; non-trivial = at least one signal delivered; distinct = distinct trace")


def parse(line):
    pub, outs, err = [x.strip() for x in line.split(' | ')]
    f = dict(kv.split('=') for kv in pub.split()[1:])
    return pub.split()[0], f, ([] if outs == '-' else outs.split(';')), err


def monitor(ctx, cfg, ops, lines):
    wait = cfg['stopwaitsecs'] * TICK
    state, pid = 'STOPPED', 0
    due = None            # SIGKILL deadline while STOPPING
    stopped_by_request = False
    for i, (op, line) in enumerate(zip(ops, lines)):
        st2, f, toks, err = parse(line)
        now = op['now']
        inp = {'cfg': cfg, 'ops': ops[:i + 1]}
        kills = [t.split(':')[1:] for t in toks if t.startswith('kill:')]
        kills = [(int(a), int(b)) for a, b in kills]
        forks = [t for t in toks if t.startswith('fork:')]
        k = op['op']
        gated = k in ('rpcstop', 'rpcsignal') and op['mood'] < 1
        if k in ('rpcstop', 'groupstop') and not gated and state in ('STARTING', 'RUNNING') and pid != 0:
            want = [(-pid if cfg['stopasgroup'] else pid, int(cfg['stopsignal']))]
            if kills != want:
                ctx.violation('stop-signal-wrong', 'stop request for a live child delivered %r, required exactly %r' % (kills, want), inp)
            if op['kill'] != 'fail' and st2 != 'STOPPING':
                ctx.violation('not-stopping-after-stop', 'state %s after a delivered stop request' % st2, inp)
            due = now + wait
            ctx.count('stop-request:' + state)
        elif k in ('rpcstop', 'groupstop') and not gated and state == 'BACKOFF':
            if kills:
                ctx.violation('signal-in-backoff', 'stop during BACKOFF delivered %r' % kills, inp)
            want_state = 'STOPPED' if k == 'rpcstop' else 'FATAL'      # group stop gives up (BACKOFF -> FATAL)
            if st2 != want_state:
                ctx.violation('backoff-stop-not-immediate', 'stop during BACKOFF left state %s' % st2, inp)
            ctx.count('stop-request:BACKOFF')
        elif k in ('transition', 'stopreport') and state == 'STOPPING' and pid != 0:
            due = min(due, now + wait) if due is not None else now + wait
            if k == 'transition':
                want = [(-pid if cfg['killasgroup'] else pid, 9)] if now >= due else []
                if kills != want:
                    kind = 'sigkill-early' if kills and not want else ('sigkill-missing' if want and not kills else 'sigkill-wrong-target')
                    ctx.violation(kind, 'pass at %d with deadline %d delivered %r, required %r' % (now, due, kills, want), inp)
                if want:
                    due = now + wait
                    ctx.count('sigkill')
                else:
                    ctx.count('pass-before-deadline')
        elif k == 'groupstop' and state == 'STOPPING' and pid != 0:
            # the daemon's stop_all() of a later shutdown pass: the one stop request is already in flight -- the stopsignal was
            # delivered "at once", SIGKILL is due stopwaitsecs after *that*; nothing may be signalled and `due` stays as it is
            if kills:
                ctx.violation('stop-signal-repeated', 'group stop (the stop_all() of a shutdown pass) of a process that is already STOPPING '
                              'delivered %r at %d; the stop signal of this request was already delivered, SIGKILL is due at %d' % (kills, now, due), inp)
            if st2 != 'STOPPING':
                ctx.violation('stopping-left-without-reap', 'group stop of a STOPPING process left state %s' % st2, inp)
            ctx.count('groupstop-while-stopping')
        elif k == 'reap' and state == 'STOPPING':
            if st2 != 'STOPPED':
                ctx.violation('not-stopped-after-reap', 'child of a STOPPING process reaped with status %d%s, state %s%s' % (
                    op['es'], '' if op['es'] >= 0 else ' (killed by a signal)', st2, '' if err == '-' else ' (finish() raised %s)' % err), inp)
        elif k == 'rpcsignal' and not gated and state in ('STARTING', 'RUNNING', 'STOPPING') and pid != 0:
            if kills != [(pid, op['sig'])]:
                ctx.violation('signal-wrong', 'signalProcess delivered %r, required %r' % (kills, [(pid, op['sig'])]), inp)
        elif kills and k not in ('rpcsignal',):
            ctx.violation('unexpected-signal', 'signal %r delivered by %s in state %s' % (kills, k, state), inp)
        # a process stopped on request is never restarted by a pass
        if state == 'STOPPED' and stopped_by_request and k == 'transition' and forks:
            ctx.violation('restart-after-stop', 'a pass forked a child for a process stopped on request', inp)
        if st2 == 'STOPPED' and state in ('STOPPING', 'BACKOFF'):
            stopped_by_request = True
        if st2 != 'STOPPED':
            stopped_by_request = False
        if st2 != 'STOPPING':
            due = None
        state, pid = st2, int(f['pid'])


def gen_ops_c04(rng, cfg):
    """biased generator: start, reach some state, stop, then passes around the deadline with jumps"""
    wait = cfg['stopwaitsecs'] * TICK
    now = [rng.choice([1000, 70000]) * TICK]
    nextpid = [200]
    phase = ['boot']
    # a daemon shutdown/restart: once the process is up, every main-loop pass is `stop_groups[-1].stop_all()` followed by
    # `transition()` in mood SHUTDOWN/RESTARTING, passes at most ~1s apart (the poll timeout), the child survives for a while
    shutdown = {'on': rng.random() < 0.33, 'begun': False, 'half': 0, 'mood': rng.choice([-1, -1, 0]),
                'after': rng.choice([0, 1, 2, 4]), 'seen': 0, 'stubborn': rng.random() < 0.7}
    def shutdown_op(proc, st):
        from supervisor.states import ProcessStates as PSt
        sd = shutdown
        sd['begun'] = True
        if sd['half'] == 0:                 # top of the pass: stop_all(); the clock moved on since the last pass
            r = rng.random()
            step = rng.choice([256, 512, TICK, TICK, TICK, TICK + 1]) if r < 0.9 else (-rng.choice([TICK, 3 * TICK]) if r < 0.95 else wait)
            now[0] = max(TICK, now[0] + step)
            sd['half'] = 1
            return {'op': 'groupstop', 'now': now[0], 'kill': killres() if st != PSt.STOPPING else rng.choice(['ok', 'ok', 'esrch', 'fail'])}
        if sd['half'] == 1:                 # the rest of the pass: reap what died, then transition()
            sd['half'] = 2
            if proc.pid and st == PSt.STOPPING and rng.random() < (0.03 if sd['stubborn'] else 0.3):
                return {'op': 'reap', 'now': now[0], 'es': rng.choice([0, 1, -1, 2]), 'busy': False}
        sd['half'] = 0
        now[0] += rng.choice([0, 0, 1, 16])
        return {'op': 'transition', 'now': now[0], 'mood': sd['mood'], 'spawn': spawn(), 'kill': 'ok' if rng.random() < 0.9 else killres()}
    def killres():
        r = rng.random()
        return 'ok' if r < 0.8 else ('esrch' if r < 0.93 else 'fail')
    def spawn():
        if rng.random() < 0.85:
            nextpid[0] += 1
            return ('ok', nextpid[0])
        return (rng.choice(['badcmd', 'pipeerr', 'forkerr']),)
    def gen(proc):
        from supervisor.states import ProcessStates as PSt
        st = proc.get_state()
        r = rng.random()
        if shutdown['on']:
            if shutdown['begun'] and st in (PSt.STARTING, PSt.RUNNING, PSt.BACKOFF, PSt.STOPPING):
                return shutdown_op(proc, st)
            if not shutdown['begun'] and st in (PSt.STARTING, PSt.RUNNING, PSt.BACKOFF):
                shutdown['seen'] += 1
                if shutdown['seen'] > shutdown['after']:
                    return shutdown_op(proc, st)
        if st == PSt.STOPPING:
            # passes just before / at / after the deadline, jumps, reaps
            d = int(round(proc.delay * TICK))
            choice = rng.random()
            if choice < 0.3:
                now[0] = max(TICK, d + rng.choice([-1, 0, 1, -TICK, TICK, 256]))
            elif choice < 0.45:
                now[0] = max(TICK, now[0] - rng.choice([TICK, 3 * TICK, 20 * TICK]))     # backward jump
            else:
                now[0] += rng.choice([0, 256, TICK, 2 * TICK, wait, wait + 1])
            if r < 0.6:
                return {'op': 'transition', 'now': now[0], 'mood': rng.choice([1, 1, 1, 0, -1]), 'spawn': spawn(), 'kill': killres()}
            if r < 0.75:
                return {'op': 'reap', 'now': now[0], 'es': rng.choice([0, 1, -1, 2]), 'busy': False}
            if r < 0.85:
                return {'op': 'stopreport', 'now': now[0]}
            if r < 0.92:
                return {'op': 'rpcsignal', 'now': now[0], 'mood': 1, 'sig': rng.choice([1, 10]), 'kill': killres()}
            if r < 0.96:
                return {'op': 'groupstop', 'now': now[0], 'kill': killres()}
            return {'op': 'rpcstop', 'now': now[0], 'mood': 1, 'kill': killres()}
        now[0] = max(TICK, now[0] + rng.choice([0, 256, TICK, TICK, 2 * TICK, 6 * TICK, -TICK]))
        if st in (PSt.STARTING, PSt.RUNNING, PSt.BACKOFF) and r < 0.35:
            if rng.random() < 0.7:
                op = {'op': 'rpcstop', 'now': now[0], 'mood': 1 if rng.random() < 0.9 else 0, 'kill': killres()}
                if rng.random() < 0.4:
                    op['form'] = rng.choice(['star', 'group', 'all'])       # `stop g:*` / stopProcessGroup / stopAllProcesses
                return op
            return {'op': 'groupstop', 'now': now[0], 'kill': killres()}
        if proc.pid and r < 0.5:
            return {'op': 'reap', 'now': now[0], 'es': rng.choice([0, 1, 2, -1]), 'busy': False}
        if r < 0.6:
            return {'op': 'rpcstart', 'now': now[0], 'mood': 1, 'spawn': spawn()}
        return {'op': 'transition', 'now': now[0], 'mood': 1 if rng.random() < 0.9 else 0, 'spawn': spawn(), 'kill': killres()}
    return gen


def _shutdown_script(t0, wait_s, passes, mood):
    """start, reach RUNNING, then a daemon shutdown: stop_all() + transition() once a second, the child ignores the stop signal"""
    ops = [{'op': 'transition', 'now': t0, 'mood': 1, 'spawn': ('ok', 4242), 'kill': 'ok'},
           {'op': 'transition', 'now': t0 + 2 * TICK, 'mood': 1, 'spawn': ('ok', 4243), 'kill': 'ok'}]
    t = t0 + 4 * TICK
    for _ in range(passes):
        ops.append({'op': 'groupstop', 'now': t, 'kill': 'ok'})
        ops.append({'op': 'transition', 'now': t, 'mood': mood, 'spawn': ('ok', 4244), 'kill': 'ok'})
        t += TICK
    ops.append({'op': 'reap', 'now': t, 'es': -1, 'busy': False})
    ops.append({'op': 'groupstop', 'now': t, 'kill': 'ok'})
    ops.append({'op': 'transition', 'now': t, 'mood': mood, 'spawn': ('ok', 4245), 'kill': 'ok'})
    return ops


CORPUS = [
    # seeded C04-9 shape: supervisord shutdown, stopwaitsecs=5, stopasgroup=false, killasgroup=true, child dies only on SIGKILL
    ({'startsecs': 1, 'startretries': 3, 'autostart': True, 'autorestart': 'false', 'exitcodes': [0], 'stopsignal': 15,
      'stopwaitsecs': 5, 'stopasgroup': False, 'killasgroup': True}, _shutdown_script(1000 * TICK, 5, 13, -1)),
    # the same as a restart (mood RESTARTING), whole-group signals, two escalations
    ({'startsecs': 0, 'startretries': 1, 'autostart': True, 'autorestart': 'true', 'exitcodes': [0], 'stopsignal': 2,
      'stopwaitsecs': 3, 'stopasgroup': True, 'killasgroup': True}, _shutdown_script(70000 * TICK, 3, 9, 0)),
]


def one_history(ctx, rng, nops, cfg=None, script=None):
    cfg = cfg or gen_cfg(rng)
    h = L1(cfg)
    try:
        ops, lines = [], []
        gen = gen_ops_c04(rng, cfg)
        for k in range(nops):
            op = script[k] if script else gen(h.proc)
            ops.append(op)
            lines.append(h.do(op))
            ctx.count('op:' + op['op'])
    finally:
        h.close()
    return cfg, ops, lines


def run(ctx):
    rng = ctx.rng
    cases, impls = [], []
    def add(cfg, ops, lines):
        monitor(ctx, cfg, ops, lines)
        c01.monitor(ctx, cfg, ops, lines)
        cases.append((cfg_line(cfg), [op_line(o) for o in ops]))
        impls.append(lines)
        ctx.case_done(tuple(lines), nontrivial=any('kill:' in l for l in lines))
    for cfg, script in c01.CORPUS + CORPUS:
        add(*one_history(ctx, rng, len(script), cfg, script))
    total = ctx.n(5000, 60000)
    done = 0
    while done < total:             # in chunks, so that a thorough run does not hold every trace in memory
        for _ in range(min(5000, total - done)):
            add(*one_history(ctx, rng, rng.choice([8, 15, 30, 50])))
        done += 5000
        if done <= 5000:
            ctx.sample({'case': cases[-1][0], 'ops': cases[-1][1][:8], 'impl': impls[-1][:8]})
        ctx.correspond('proc', cases, impls)
        del cases[:], impls[:]


def replay(ctx, data):
    inp = data['input']
    cfg = inp['cfg']
    ops = [dict(o, spawn=tuple(o['spawn'])) if 'spawn' in o else o for o in inp['ops']]
    cfg2, ops2, lines = one_history(ctx, ctx.rng, len(ops), cfg, ops)
    monitor(ctx, cfg, ops, lines)
    ctx.correspond('proc', [(cfg_line(cfg), [op_line(o) for o in ops])], [lines])


TECHNIQUE = "Lean 4 theorems (exact escalation condition, targets, finality, rollback bound) over the Subprocess model with guards/timers regenerated from process.py; differential correspondence; kill-log monitor"
LEVEL_TEXT = ("stop_signals_once, sigkill_iff_due (an exact iff for every clock reading), sigkill_rearms, rollback_bounded, "
              "stopped_whatever_status, no_restart_after_stop, stop_in_backoff_immediate, esrch_is_quiet are proved for all "
              "configurations, pids, clock readings and delivery results; the definitions they unfold are regenerated from /repo")
LEVEL_NOTE = "trusts Lean's kernel, extract.py, one clock reading per operation; 'stopasgroup implies killasgroup' is a configuration constraint checked under C14"
DESIGN_REF = "DESIGN.md section 6, C04"
