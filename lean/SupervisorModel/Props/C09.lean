import SupervisorModel.Lemmas.Pool
/-
  C09 — events reach exactly the subscribed pools, in order, and are not lost.
  Property theorems only.
-/
set_option linter.unusedSimpArgs false
set_option linter.unusedVariables false
namespace Sv.Props.C09
open Sv Sv.Pool Sv.Events Sv.Gen.Events Sv.Gen.Pool

/-- the generated list of registered event types is complete -/
theorem all_complete (c : Cls) : c ∈ Cls.all := by cases c <;> decide

/-- `isinstance` over the generated class table is reflexive: a pool subscribed to an event's own type is offered it -/
theorem isInstance_refl (c : Cls) : isInstance c c = true := by cases c <;> decide

/-- every registered type is an `EVENT` (the root abstract type) -/
theorem every_type_is_event (c : Cls) : isInstance c .EVENT = true := by cases c <;> decide

/-- the table is closed under taking supertypes (checked over the whole generated table) -/
theorem ancestors_closed :
    (Cls.all.all fun a => Cls.all.all fun b => !isInstance a b || b.ancestors.all (fun c => isInstance a c)) = true := by
  decide

/-- **offered_to_subscribers**: `notify` runs pool `i`'s `_acceptEvent` for an event of class `c` exactly when
    one of the types the pool is subscribed to is `c` itself or one of its supertypes -- and for no other pool. -/
theorem offered_to_subscribers (pools : List PoolSt) (c : Cls) (i : Nat) :
    i ∈ notified (callbacks pools) c ↔ ∃ p, pools[i]? = some p ∧ ∃ t ∈ p.subs, isInstance c t = true := by
  simp only [notified, callbacks, List.mem_map, List.mem_filter, List.mem_flatten]
  constructor
  · rintro ⟨s, ⟨⟨l, hl, hs⟩, hi⟩, rfl⟩
    rcases hl with ⟨⟨p, j⟩, hpj, rfl⟩
    simp only [List.mem_map] at hs
    rcases hs with ⟨t, ht, rfl⟩
    have := List.mem_zipIdx hpj
    simp at this
    rcases this with ⟨hj, hp⟩
    exact ⟨p, by rw [hp]; exact List.getElem?_eq_getElem hj, t, ht, hi⟩
  · rintro ⟨p, hp, t, ht, hi⟩
    refine ⟨{ type := t, who := i }, ⟨⟨p.subs.map fun t => ({ type := t, who := i } : Sub), ?_, ?_⟩, hi⟩, rfl⟩
    · refine ⟨(p, i), ?_, rfl⟩
      rw [List.mem_zipIdx_iff_getElem?]; simpa using hp
    · exact List.mem_map.mpr ⟨t, ht, rfl⟩

example : (0 : Nat) ∈ notified (callbacks [{ name := "a", bufSize := 3, subs := [.TICK] }]) .TICK_5 := by decide
example : (0 : Nat) ∉ notified (callbacks [{ name := "a", bufSize := 3, subs := [.TICK_60] }]) .TICK_5 := by decide

/-- **buffer_bounded**: for every history (every list of operations: notifications, listener output in any
    fragmentation, pool transitions, pipe faults, process state changes, deaths, respawns) every pool whose
    `buffer_size` is at least 1 holds at most `buffer_size` undelivered events, provided it did at the start
    (a new pool's buffer is empty). -/
theorem buffer_bounded (h : Bytes → Listener.HRes) (w0 : W) (ops : List Op) (j : Nat) (p0 p : PoolSt)
    (h0 : w0.pools[j]? = some p0) (hsz : 1 ≤ p0.bufSize) (hb0 : (p0.buffer.length : Int) ≤ p0.bufSize)
    (hp : (exec h w0 ops).pools[j]? = some p) :
    p.bufSize = p0.bufSize ∧ (p.buffer.length : Int) ≤ p.bufSize := by
  obtain ⟨q, hq, g⟩ := (evolves_exec h w0 ops).2 j p hp
  rw [h0] at hq
  cases hq
  exact ⟨g.1, g.2.2 hsz hb0⟩

/-- the number of pools never changes either -/
theorem pools_fixed (h : Bytes → Listener.HRes) (w0 : W) (ops : List Op) :
    (exec h w0 ops).pools.length = w0.pools.length := (evolves_exec h w0 ops).1

example : ∃ p0 : PoolSt, (1 : Int) ≤ p0.bufSize ∧ (p0.buffer.length : Int) ≤ p0.bufSize :=
  ⟨{ name := "a", bufSize := 1, subs := [.TICK] }, by decide, by decide⟩

/-- without the size hypothesis the bound fails: `buffer_size = 0` still buffers one event
    (`if len(buffer) >= size: if buffer: pop`), so the statement's "at most buffer_size" needs `buffer_size ≥ 1`
    (options.py rejects `buffer_size < 1`, so configured pools satisfy the hypothesis) -/
theorem buffer_size_zero_holds_one :
    ((notify .TICK_5 [] { pools := [{ name := "a", bufSize := 0, subs := [.TICK] }] }).pools.map (·.buffer)) = [[0]] := by
  decide

/-- **reject_isolated**: an `EventRejectedEvent` coming from the process object `who` leaves every pool that does
    not own that object exactly as it was (buffer, poolserial counter, listeners) — whatever the listeners' *names*
    are: the owner test `owns` looks at object identities only (`handle_rejected`: `any(process is p for p in procs)`),
    so two pools whose listeners have the same names and priorities do not disturb each other. -/
theorem reject_isolated (who : Option Nat) (e : Nat) (w : W) (j : Nat)
    (hj : ∀ p, w.pools[j]? = some p → owns p who = false) :
    (rejected who e w).pools[j]? = w.pools[j]? := rejected_other who e w j hj

/-- two pools whose only listeners have the same name `l0` (and distinct object identities 0 and 1): the hypothesis
    of `reject_isolated` holds for pool 1 when listener 0 rejects -/
example :
    let w : W := { pools := [{ name := "a", bufSize := 3, subs := [.TICK_5], ids := [0], names := ["l0"] },
                             { name := "b", bufSize := 3, subs := [.TICK_60], ids := [1], names := ["l0"] }] }
    ∀ p, w.pools[1]? = some p → owns p (whoOf w 0 0) = false := by
  intro w p hp
  simp [w] at hp; subst hp; decide

/-- **offered_once** (universal): `notify` calls a pool's `_acceptEvent` once per matching subscription, but
    the state it leaves is exactly the one obtained by offering the event to each matching pool **once**
    (first occurrences, in subscription order): the early return of `_acceptEvent` (fix F16) makes every
    repeated offer the identity -- for every world, every event class and every subscription table. -/
theorem offered_once (c : Cls) (payload : Bytes) (w : W) (he : w.err = none) :
    notify c payload w =
      offer w.events.length (keepFirst (notified (callbacks w.pools) c))
        { w with events := w.events ++ [{ cls := c, payload := payload }] } ∧
    (keepFirst (notified (callbacks w.pools) c)).Nodup ∧
    (∀ i, i ∈ keepFirst (notified (callbacks w.pools) c) ↔ i ∈ notified (callbacks w.pools) c) := by
  refine ⟨?_, nodup_keepFirstN _ _ (Nat.le_refl _), fun i => mem_keepFirstN i _ _ (Nat.le_refl _)⟩
  rw [notify_eq_offer c payload w he]
  exact offer_keepFirstN _ _ _ _ (Nat.le_refl _)

/-- offering an event a second time to the same pool changes nothing, whatever happened in between to other pools -/
theorem second_offer_is_identity (i e : Nat) (head : Bool) (w : W) :
    acceptEvent i e false (acceptEvent i e head w) = acceptEvent i e head w :=
  acceptEvent_skip_id i e _ (skip_after i e head w)

/-- **overflow_drops_oldest_only** (universal): whenever `_acceptEvent` puts event `e` into pool `i`'s buffer (new event
    at the tail, re-buffered event at the head), the only event that can leave the buffer is its oldest (first)
    element, exactly when the buffer already holds `buffer_size` events, and then with exactly one error-log entry
    naming it; otherwise nothing is logged and nothing leaves. -/
theorem overflow_drops_oldest_only (i e : Nat) (head : Bool) (w : W) (p : PoolSt) (hp : w.pools[i]? = some p) :
    ∃ p', (insertEv i e head w).pools[i]? = some p' ∧
      (overflowed p = true ↔ p.bufSize ≤ (p.buffer.length : Int) ∧ p.buffer ≠ []) ∧
      p'.buffer = (if head then e :: (if overflowed p then p.buffer.drop 1 else p.buffer)
                   else (if overflowed p then p.buffer.drop 1 else p.buffer) ++ [e]) ∧
      (insertEv i e head w).outs = w.outs ++
        (if overflowed p then
          match p.buffer with
          | d :: _ => [.discard i d (((w.events[d]?).bind (·.serial)).getD (-1))]
          | [] => []
         else []) := by
  obtain ⟨h1, h2, _⟩ := insertEv_spec i e head w p hp
  exact ⟨_, h1, overflowed_iff p, (insBuf_fields e head p).2.2.2.2.2, h2⟩

/-- **reject_returns_to_head** (universal): an `EventRejectedEvent` from a listener of pool `pi` for an event that
    pool had accepted puts the event at the head of pool `pi`'s buffer (dropping, with a log entry, the oldest
    buffered event if the buffer is full) -/
theorem reject_returns_to_head (who : Option Nat) (pi e : Nat) (w : W) (h : Acc w pi e)
    (hown : ∀ p, w.pools[pi]? = some p → owns p who = true)
    (hothers : ∀ i, i ≠ pi → ∀ q, w.pools[i]? = some q → owns q who = false) :
    ∃ p p', w.pools[pi]? = some p ∧ (rejected who e w).pools[pi]? = some p' ∧
      p'.buffer = e :: (if overflowed p then p.buffer.drop 1 else p.buffer) := by
  obtain ⟨p, ev, hp, hev, hl, hs⟩ := h
  rw [rejected_eq who pi e w p hp (hown p hp) hothers, rebuffer_eq_insertEv pi e w ⟨p, ev, hp, hev, hl, hs⟩]
  obtain ⟨h1, _⟩ := insertEv_spec pi e true w p hp
  exact ⟨p, _, hp, h1, by rw [(insBuf_fields e true p).2.2.2.2.2]; simp⟩

/-- **fifo_dispatch** (universal): one `dispatch()` of a pool that respects its bound hands events to listeners in
    buffer order -- oldest first -- and stops at the first event no listener can take: the events handed over are
    exactly a prefix `buffer.take k` of the buffer, in that order; the remaining `buffer.drop k` stays buffered in the
    same order (the event that could not be delivered is back at the head); nothing is discarded or logged.
    Together with `overflow_drops_oldest_only` (new events join at the tail, the oldest leaves on overflow) and
    `reject_returns_to_head` this is the ordering part of the statement. -/
theorem fifo_dispatch (pi fuel : Nat) (w : W) (p : PoolSt) (he : w.err = none) (hp : w.pools[pi]? = some p)
    (hs : 1 ≤ p.bufSize) (hb : (p.buffer.length : Int) ≤ p.bufSize)
    (hv : ∀ e ∈ p.buffer, (w.events[e]?).isSome = true) :
    ∃ (k : Nat) (p' : PoolSt) (l : List POut), (dispatch pi fuel w).pools[pi]? = some p' ∧
      p'.buffer = p.buffer.drop k ∧
      (dispatch pi fuel w).outs = w.outs ++ l ∧ sentBy pi l = p.buffer.take k ∧
      (∀ o ∈ l, ∀ q d s, o ≠ POut.discard q d s) := by
  obtain ⟨k, p', l, h1, h2, _, h4, h5, h6⟩ := dispatch_fifo pi fuel w p he hp hs hb hv
  exact ⟨k, p', l, h1, h2, h4, h5, h6⟩

/-- the hypotheses are satisfiable: a pool within its bound whose buffered ids are known events -/
example :
    let w : W := { pools := [{ name := "a", bufSize := 3, subs := [.TICK], buffer := [0, 1] }],
                   events := [{ cls := .TICK_5, payload := [] }, { cls := .TICK_5, payload := [] }] }
    w.err = none ∧ (∃ p, w.pools[0]? = some p ∧ 1 ≤ p.bufSize ∧ (p.buffer.length : Int) ≤ p.bufSize ∧
      ∀ e ∈ p.buffer, (w.events[e]?).isSome = true) := by
  refine ⟨rfl, _, rfl, by decide, by decide, ?_⟩
  intro e he; simp at he; rcases he with rfl | rfl <;> rfl

/-! ### serials -/

/-- `new_serial` away from the wrap at `maxint`: the counter goes up by exactly one, so serials handed out
    by one counter are strictly increasing, hence unique.  Full statement (`serial_unique`,
    `poolserial_increasing` for every history) additionally needs "fewer than `maxint` events"; the
    wrap itself is `newSerial_wraps` below. -/
theorem newSerial_increasing_partial (serial : Int) (h : serial ≠ maxint) : newSerial serial = serial + 1 := by
  simp [newSerial, newSerial_g0, newSerial_a0, newSerial_a1, newSerial_a2, h]

example : (5 : Int) ≠ maxint := by decide

/-- at `maxint` the counter restarts at 0: serials are unique only within `maxint + 1` events -/
theorem newSerial_wraps : newSerial maxint = 0 := by decide

/-! ### concrete regression instances (finite evaluations of the model, not the universal claims) -/

def tickPool : PoolSt := { name := "a", bufSize := 3, subs := [.TICK, .TICK_5], procs := [Listener.initial] }

/-- F16 (fixed): a pool subscribed to `TICK` and `TICK_5` is called twice by `notify` but buffers the event once -/
theorem offered_once_instance :
    (notified (callbacks [tickPool]) .TICK_5) = [0, 0] ∧
    ((notify .TICK_5 [] { pools := [tickPool] }).pools.map (·.buffer)) = [[0]] := by decide

/-- F1 (fixed): a rejection by a listener of pool 0 re-buffers the event in pool 0 only, although pool 1 has a
    listener of the same name -/
theorem reject_isolated_instance :
    let w0 : W := { pools := [{ tickPool with subs := [.TICK_5], ids := [0], names := ["l0"] },
                              { tickPool with name := "b", subs := [.TICK_60], ids := [1], names := ["l0"] }] }
    let w1 := notify .TICK_5 [] w0
    let w2 := setPool w1 0 (fun p => { p with buffer := [] })      -- the event is out with a listener
    ((rejected (whoOf w2 0 0) 0 w2).pools.map (·.buffer)) = [[0], []] := by decide

/-- overflow: a full buffer (size 1) drops its oldest event, with a log entry, and keeps the new one -/
theorem overflow_drops_oldest_instance :
    let w0 : W := { pools := [{ tickPool with bufSize := 1 }] }
    let w2 := notify .TICK_5 [] (notify .TICK_5 [] w0)
    (w2.pools.map (·.buffer)) = [[1]] ∧ w2.outs.length = 1 := by decide

end Sv.Props.C09
