"""
C05 -- shutdown and restart stop everything, in priority order, and only then exit.
L2 scenarios with a shutdown/restart request (signal or RPC) at a random pass, repeated/mixed signals and RPCs during shutdown.
"""
from props import l2common
import l2

ID = 'C05'
LEAN_PROPS = 'SupervisorModel.Props.C05'
DRIVER = 'drv_c02'
GENERATED = ['Proc', 'Sup']
TRUSTED = l2common.TRUSTED
ASSUMPTIONS = ["liveness is checked only for scripts long enough for every SIGKILL deadline to pass; equal group priorities are stopped in the (stable) sort order"]
RULE = ("scenarios as for C02 with a shutdown/restart request in every one (SIGTERM/SIGINT/SIGQUIT/SIGHUP or the shutdown/restart RPC) at a "
        "random pass, children that ignore the stop signal, further signals and RPCs during the shutdown; non-trivial = the request was observed "
        "while some process had a child; distinct = distinct event/fork/kill/wait trace")


def mon_liveness(ctx, k, inp):
    # every child dies on SIGKILL and the script leaves enough passes: the loop must have exited
    ps, _ = l2.passes(k.log)
    req = [b['passno'] for _, b in ps if b['mood'] < 1]
    if not req or k.outcome != 'stopsim':
        return
    budget = sum(p.get('stopwaitsecs', 10) + 2 for p in k.programs.values()) + 4
    elapsed = sum(dt for dt, _ in k.script[req[0]:] if dt > 0) // l2.TICK
    if len(k.script) - req[0] > 3 * len(k.programs) + 6 and elapsed > budget and not any(r['kind'] == 'fault' for r in k.log):
        ctx.violation('shutdown-did-not-finish', 'shutdown requested at pass %d, %d s of passes later the loop still runs' % (req[0], elapsed), inp)


def run(ctx):
    l2common.run_all(ctx, l2common.scenarios(ctx, 1000, 20000, shutdown_p=1.0, faults_p=0.15), [l2.mon_c05, l2.mon_c02, l2.mon_c06, mon_liveness])


def replay(ctx, data):
    l2common.replay(ctx, data, [l2.mon_c05, l2.mon_c02, l2.mon_c06, mon_liveness])


TECHNIQUE = "Lean 4 theorems over the daemon model (mood monotonicity, no fork while not RUNNING, RPC gate, exit test, ordered stop) + correspondence of that model with the unmodified runforever() over a simulated kernel"
LEVEL_TEXT = ("sighup_ignored_in_shutdown, mood_never_rises, no_fork_when_not_running, rpcs_refused, stopped_stays_stopped, exit_only_when_all_stopped, "
              "phase2_pops_only_stopped_group are proved for all states/environments; stopping_announced_at_most_once and mood_never_rises_daemon are "
              "proved for every sequence of main-loop passes under every environment (induction over passes); the safety skeleton of the "
              "liveness clause (stop_all_skips_stopping, stopping_left_only_by_reap, deadline_never_postponed, exits_when_all_stopped) is proved; "
              "group order is checked on every scenario by the monitor and by correspondence with the model")
LEVEL_NOTE = "liveness itself (the clock reaches the deadline; a child dies on SIGKILL; hence the loop exits) involves the kernel and the clock: its code-side safety skeleton is proved, the end-to-end statement is exercised by the scenarios (monitor shutdown-did-not-finish), not proved"
DESIGN_REF = "DESIGN.md section 6, C05"
